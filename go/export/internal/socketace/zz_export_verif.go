//go:build verif

package socketace

// Accessors for the /verif harness (mapped in through the build overlay; never part of a normal build).

func (cc *ClientConnection) VerifNegotiatedVersion() string { return cc.negotiatedVersion }
func (sc *ServerConnection) VerifNegotiatedVersion() string { return sc.negotiatedVersion }
func (sc *ServerConnection) VerifSupportTls() bool          { return sc.supportTls }

//go:build verif

package dns

import "github.com/bokysan/socketace/v2/internal/streams/dns/util"

// Accessors for the /verif harness (mapped in through `go build -overlay`).

// VerifIn exposes the server-side in-queue of a user connection.
func (u *userConnection) VerifIn() *util.InQueue { return &u.in }

// VerifOut exposes the client's out-queue.
func (dc *ClientDnsConnection) VerifOut() *util.OutQueue { return &dc.out }

// VerifOut exposes the server-side out-queue of a user connection.
func (u *userConnection) VerifOut() *util.OutQueue { return &u.out }

// VerifSetDownMtu sets the fragment size the server cuts this user's writes into.
func (u *userConnection) VerifSetDownMtu(m uint32) { u.Serializer.Downstream.FragmentSize = m }

// VerifIn exposes the client's in-queue.
func (dc *ClientDnsConnection) VerifIn() *util.InQueue { return &dc.in }

// VerifPoll is one turn of the poll loop Handshake starts (without its timer): the head of the out-queue, or a
// bare ping when it is empty, goes through SendAndReceive.
func (dc *ClientDnsConnection) VerifPoll() error {
	chunk := dc.out.NextChunk()
	return dc.SendAndReceive(chunk)
}

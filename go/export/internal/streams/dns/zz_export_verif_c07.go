//go:build verif

package dns

import "github.com/bokysan/socketace/v2/internal/streams/dns/util"

// Accessors for the /verif harness (mapped in through `go build -overlay`).

// VerifIn exposes the server-side in-queue of a user connection.
func (u *userConnection) VerifIn() *util.InQueue { return &u.in }

// VerifOut exposes the client's out-queue.
func (dc *ClientDnsConnection) VerifOut() *util.OutQueue { return &dc.out }

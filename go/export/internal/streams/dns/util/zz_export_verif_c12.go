//go:build verif

package util

// Accessors for the /verif harness (C12/C13).  Read-only views of the queue state plus a direct
// entry to the unexported addChunk; no logic of their own.

// VerifInState returns NextSeqNo, a copy of the buffered bytes, the sequence numbers waiting in
// `future` and the acked list.
func (q *InQueue) VerifInState() (next uint16, buffered []byte, future []uint16, acked []uint16) {
	q.mutex.Lock()
	defer q.mutex.Unlock()
	next = q.NextSeqNo
	buffered = append([]byte{}, q.in...)
	for _, f := range q.future {
		future = append(future, f.SeqNo)
	}
	acked = append([]uint16{}, q.acked...)
	return
}

// VerifOutState returns NextSeqNo, the queued chunks (sequence numbers and data), the acked list
// and the queueHasData flag.
func (q *OutQueue) VerifOutState() (next uint16, seqs []uint16, data [][]byte, acked []uint16, hasData bool) {
	q.mutex.Lock()
	defer q.mutex.Unlock()
	next = q.NextSeqNo
	for _, c := range q.out {
		seqs = append(seqs, c.SeqNo)
		data = append(data, append([]byte{}, c.Data...))
	}
	acked = append([]uint16{}, q.acked...)
	hasData = q.queueHasData
	return
}

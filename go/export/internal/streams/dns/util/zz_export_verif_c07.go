//go:build verif

package util

// Accessors for the /verif harness (mapped in through `go build -overlay`; never part of a normal build).

// VerifState returns copies of the unexported state of an InQueue.
func (q *InQueue) VerifState() (in []byte, future []uint16, acked []uint16) {
	q.mutex.Lock()
	defer q.mutex.Unlock()
	in = append([]byte{}, q.in...)
	for _, f := range q.future {
		future = append(future, f.SeqNo)
	}
	acked = append([]uint16{}, q.acked...)
	return
}

// VerifState returns copies of the unexported state of an OutQueue.
func (q *OutQueue) VerifState() (out []uint16, acked []uint16) {
	q.mutex.Lock()
	defer q.mutex.Unlock()
	for _, p := range q.out {
		out = append(out, p.SeqNo)
	}
	acked = append([]uint16{}, q.acked...)
	return
}

// VerifWaiters is the number of writers blocked in waitEmptyQueue.
func (q *OutQueue) VerifWaiters() int {
	q.queueMutex.Lock()
	defer q.queueMutex.Unlock()
	return len(q.queueNotifiers)
}

// VerifReleaseWaiters wakes blocked writers (harness clean-up at the end of a history).
func (q *OutQueue) VerifReleaseWaiters() {
	q.queueMutex.Lock()
	defer q.queueMutex.Unlock()
	for _, f := range q.queueNotifiers {
		f()
	}
	q.queueNotifiers = q.queueNotifiers[0:0]
}

//go:build verif

package dns

import mdns "github.com/miekg/dns"

// VerifC18Server returns the miekg/dns server a listener created by DnsServer.Startup really runs (nil for any other
// communicator): its Listener / PacketConn say what is bound.
func VerifC18Server(l *ServerDnsListener) *mdns.Server {
	if c, ok := l.Communicator.(*NetConnectionServerCommunicator); ok && c != nil {
		return c.server
	}
	return nil
}

//go:build verif

package dns

import (
	"github.com/bokysan/socketace/v2/internal/streams/dns/commands"
	"github.com/bokysan/socketace/v2/internal/streams/dns/util"
	"github.com/bokysan/socketace/v2/internal/util/enc"
)

// VerifUpstreamMtu calls the unexported (*ClientDnsConnection).getUpstreamMtu on a connection that
// only has the fields the method reads (C09 harness).  Accessor only.
func VerifUpstreamMtu(domain string, e enc.Encoder, multiQuery bool) uint32 {
	dc := &ClientDnsConnection{
		Serializer: commands.Serializer{
			Upstream:      util.UpstreamConfig{Encoder: e},
			UseMultiQuery: multiQuery,
			Domain:        domain,
		},
	}
	return dc.getUpstreamMtu()
}

//go:build verif

package dns

import (
	"net"
	"time"

	"github.com/bokysan/socketace/v2/internal/streams/dns/util"
	mdns "github.com/miekg/dns"
)

// Accessors for the /verif harness (C12/C13): read-only views of the session tables.

type VerifSess struct {
	Obj    net.Conn // the *userConnection itself (identity + Close/Write through the net.Conn interface)
	UserId uint16
	Owner  string
	Closed bool
	Last   time.Time
	Up     byte
	Down   byte
	Frag   uint32
	Lazy   bool
	Multi  bool
	In     *util.InQueue
	Out    *util.OutQueue
}

func verifDescribe(u *userConnection) *VerifSess {
	if u == nil {
		return nil
	}
	v := &VerifSess{Obj: u, UserId: u.UserId, Owner: u.remoteAddress.String(), Closed: u.closed, Last: u.lastConnection,
		Frag: u.Serializer.Downstream.FragmentSize, Lazy: u.Serializer.UseLazyMode, Multi: u.Serializer.UseMultiQuery,
		In: &u.in, Out: &u.out}
	if u.Serializer.Upstream.Encoder != nil {
		v.Up = u.Serializer.Upstream.Encoder.Code()
	}
	if u.Serializer.Downstream.Encoder != nil {
		v.Down = u.Serializer.Downstream.Encoder.Code()
	}
	return v
}

// VerifTableSize is the number of slots of the live (== retired) table.
func (s *ServerDnsListener) VerifTableSize() int { return len(s.connections) }

// VerifSlot describes slot i of the live (retired=false) or retired table; nil when empty.
func (s *ServerDnsListener) VerifSlot(i int, retired bool) *VerifSess {
	s.usersLock.Lock()
	defer s.usersLock.Unlock()
	if retired {
		return verifDescribe(s.oldConnections[i])
	}
	return verifDescribe(s.connections[i])
}

// VerifDescribeConn describes a session object previously obtained through VerifSlot.
func VerifDescribeConn(c net.Conn) *VerifSess {
	u, _ := c.(*userConnection)
	return verifDescribe(u)
}

// VerifOccupied lists the indices of the non-empty slots of both tables.
func (s *ServerDnsListener) VerifOccupied() (live []int, retired []int) {
	s.usersLock.Lock()
	defer s.usersLock.Unlock()
	for i, u := range s.connections {
		if u != nil {
			live = append(live, i)
		}
	}
	for i, u := range s.oldConnections {
		if u != nil {
			retired = append(retired, i)
		}
	}
	return
}

// VerifAcceptBacklog is the number of new sessions waiting to be handed out by Accept().
func (s *ServerDnsListener) VerifAcceptBacklog() int { return len(s.accept) }

// ---- the real communicator (C12: everything between the socket and onMessage and back) ----

// VerifNewCommunicator is a NetConnectionServerCommunicator around a miekg server that has not been started: the
// harness calls the handler the communicator registers with miekg/dns itself (VerifHandle).
func VerifNewCommunicator(server *mdns.Server) *NetConnectionServerCommunicator {
	return &NetConnectionServerCommunicator{server: server}
}

// VerifHandle is the function NewNetConnectionServerCommunicator registers with dns.HandleFunc.
func (n *NetConnectionServerCommunicator) VerifHandle(w mdns.ResponseWriter, r *mdns.Msg) { n.handleRequest(w, r) }

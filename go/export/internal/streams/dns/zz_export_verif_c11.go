//go:build verif

package dns

import (
	"net"
	"time"

	"github.com/bokysan/socketace/v2/internal/streams/dns/commands"
)

// Accessors for the C11 harness (dnshs). Accessors only: no behaviour is added to the package.

// VerifLazy returns the client's negotiated lazy-mode flag.
func (dc *ClientDnsConnection) VerifLazy() bool { return dc.lazymode }

// VerifInHasData tells whether the client's inbound queue holds unread bytes (so that the harness
// can read without blocking).
func (dc *ClientDnsConnection) VerifInHasData() bool { return dc.in.HasData() }

// VerifUserSerializer returns the server-side mirror of the negotiated parameters of an accepted
// connection.
func VerifUserSerializer(c net.Conn) (commands.Serializer, bool) {
	u, ok := c.(*userConnection)
	if !ok {
		return commands.Serializer{}, false
	}
	return u.Serializer, true
}

// VerifUserHasData tells whether the server-side connection holds unread bytes.
func VerifUserHasData(c net.Conn) bool {
	u, ok := c.(*userConnection)
	return ok && u.in.HasData()
}

// VerifUserSetDeadlines sets the queue deadlines of a server-side connection (SetDeadline itself
// only reaches the read side when the write side failed).
func VerifUserSetDeadlines(c net.Conn, t time.Time) {
	if u, ok := c.(*userConnection); ok {
		_ = u.in.SetReadDeadline(t)
		_ = u.out.SetWriteDeadline(t)
	}
}

//go:build verif

package upstream

import "net"

// VerifOpenRawStream opens a logical stream on the multiplexer session Upstreams currently stores and returns it
// as it is, before any protocol selection: the caller plays a peer that selects the channel its own way.
func VerifOpenRawStream(ul *Upstreams) (net.Conn, error) {
	ul.mutex.Lock()
	s := ul.session
	ul.mutex.Unlock()
	if s == nil {
		return nil, net.ErrClosed
	}
	return s.OpenStream()
}

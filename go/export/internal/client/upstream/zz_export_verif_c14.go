//go:build verif

package upstream

// VerifCloseSession closes the multiplexer session object Upstreams currently stores, the way the multiplexer's own
// keep-alive does when the peer has gone silent: the session is closed, Upstreams still refers to it.
// Returns false when there is none (or a Connect is inside its critical section).
func VerifCloseSession(ul *Upstreams) bool {
	if !ul.mutex.TryLock() {
		return false
	}
	s := ul.session
	ul.mutex.Unlock()
	if s == nil {
		return false
	}
	_ = s.Close()
	return true
}

// VerifNumStreams: number of logical streams the stored session carries (-1: none / busy)
func VerifNumStreams(ul *Upstreams) int {
	if !ul.mutex.TryLock() {
		return -1
	}
	defer ul.mutex.Unlock()
	if ul.session == nil {
		return -1
	}
	return ul.session.NumStreams()
}

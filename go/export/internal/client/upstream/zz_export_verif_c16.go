//go:build verif

package upstream

// VerifStored reports, without blocking, what Upstreams currently stores: locked=false when the
// mutex could not be taken (a Connect is inside its critical section).
func VerifStored(ul *Upstreams) (locked bool, hasConnection bool, hasSession bool) {
	if !ul.mutex.TryLock() {
		return false, false, false
	}
	defer ul.mutex.Unlock()
	return true, ul.connection != nil, ul.session != nil
}

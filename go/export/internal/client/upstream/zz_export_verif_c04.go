//go:build verif

package upstream

import (
	"net"

	"github.com/bokysan/socketace/v2/internal/socketace"
	"github.com/bokysan/socketace/v2/internal/streams"
)

// VerifC04ClientSecurity reports what the client end of the stored physical connection says about
// its own security (ClientConnection.Secure / SecurityTech).  Accessor only.
func VerifC04ClientSecurity(ul *Upstreams) (has bool, secure bool, tech string) {
	ul.mutex.Lock()
	defer ul.mutex.Unlock()
	if ul.connection == nil {
		return false, false, ""
	}
	var c net.Conn
	switch u := ul.connection.(type) {
	case *Socket:
		c = u.Connection
	case *Http:
		c = u.Connection
	case *Packet:
		c = u.Connection
	case *InputOutput:
		c = u.Connection
	case *Dns:
		c = u.Connection
	}
	for i := 0; i < 16 && c != nil; i++ {
		if cc, ok := c.(*socketace.ClientConnection); ok {
			return true, cc.Secure(), cc.SecurityTech()
		}
		t, ok := c.(streams.UnwrappedConnection)
		if !ok {
			break
		}
		c = t.Unwrap()
	}
	return true, false, "?"
}

//go:build verif

package listener

import "fmt"

// VerifC18ListenerState exposes the net.Listener a SocketListener opened.
func VerifC18ListenerState(l *SocketListener) (ltype string, network string) {
	if l.netListener != nil {
		ltype = fmt.Sprintf("%T", l.netListener)
		if a := l.netListener.Addr(); a != nil {
			network = a.Network()
		}
	}
	return
}

//go:build verif

package server

import "net"

// VerifMultiplexToUpstream runs the real per-stream server path (protocol selection, muxHandler,
// PipeData, deferred close) on conn with the given channels.
func VerifMultiplexToUpstream(channels Channels, conn net.Conn) error {
	ch := &ConnectionHandler{channels: channels}
	return ch.multiplexToUpstream(conn)
}

// VerifClientFirstConn wraps conn the way multiplexToUpstream does for a new logical stream.
func VerifClientFirstConn(conn net.Conn) net.Conn { return newClientFirstConn(conn) }

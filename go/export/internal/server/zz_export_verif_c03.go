//go:build verif

package server

import "net"

// VerifC03Handler builds the ConnectionHandler a server builds for an accepted connection (AcceptConnection),
// with the channel list the server kept at Startup.
func VerifC03Handler(channels Channels) *ConnectionHandler {
	return &ConnectionHandler{channels: channels}
}

// VerifC03Multiplex runs the real multiplexToUpstream (handler registration + multistream negotiation +
// muxHandler + OpenConnection) on one logical stream.
func (ch *ConnectionHandler) VerifC03Multiplex(stream net.Conn) error {
	return ch.multiplexToUpstream(stream)
}

// channel lists the Startup of each server kind kept (nil when Startup never got that far)
func VerifC03SocketUpstreams(st *SocketServer) Channels { return st.upstreams }
func VerifC03PacketUpstreams(st *PacketServer) Channels { return st.upstreams }
func VerifC03IoUpstreams(st *IoServer) Channels         { return st.upstreams }
func VerifC03DnsUpstreams(st *DnsServer) Channels       { return st.upstreams }
func VerifC03SocketListening(st *SocketServer) bool     { return st.listener != nil }
func VerifC03PacketListening(st *PacketServer) bool     { return st.listener != nil }
func VerifC03HttpListening(ws *HttpServer) bool         { return ws.server != nil }

// VerifC03SocketAddr is the address the socket server actually listens on (it may have been given port 0)
func VerifC03SocketAddr(st *SocketServer) string { return st.listener.Addr().String() }

//go:build verif

package server

import "net"

// VerifC05ListenerAddr returns the address the socket server is actually listening on
// (the C05 harness starts it on 127.0.0.1:0).  Accessor only.
func (st *SocketServer) VerifC05ListenerAddr() net.Addr {
	if st.listener == nil {
		return nil
	}
	return st.listener.Addr()
}

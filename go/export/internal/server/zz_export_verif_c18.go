//go:build verif

package server

import (
	"fmt"

	sadns "github.com/bokysan/socketace/v2/internal/streams/dns"
)

// VerifC18SocketState exposes what SocketServer.Startup decided: listener concrete type, listener network, secure flag.
func VerifC18SocketState(st *SocketServer) (ltype string, network string, secure bool) {
	if st.listener != nil {
		ltype = fmt.Sprintf("%T", st.listener)
		if a := st.listener.Addr(); a != nil {
			network = a.Network()
		}
	}
	return ltype, network, st.secure
}

// VerifC18HttpState exposes HttpServer's secure flag (it selects ServeTLS / Serve and is handed to AcceptConnection).
func VerifC18HttpState(ws *HttpServer) bool {
	return ws.secure
}

// VerifC18PacketState exposes the packet server's listener type and the packet connection's network.
func VerifC18PacketState(st *PacketServer) (ltype string, network string) {
	if st.listener != nil {
		ltype = fmt.Sprintf("%T", st.listener)
	}
	if st.PacketConnection != nil && st.PacketConnection.LocalAddr() != nil {
		network = st.PacketConnection.LocalAddr().Network()
	}
	return
}

// VerifC18Upstreams returns the allow-list resolved at Startup (names), for servers embedding SocketServer state.
func VerifC18DnsState(st *DnsServer) (ltype string, secure bool) {
	if st.listener != nil {
		ltype = fmt.Sprintf("%T", st.listener)
	}
	return ltype, st.secure
}

// VerifC18DnsListening reports what the DNS server started by Startup is really bound to: the network of the socket
// miekg/dns opened ("tcp" / "udp" / "" when nothing is bound), its address, and the network name the server was
// configured with (dns.Server.Net: udp, tcp, tcp-tls …).
func VerifC18DnsListening(st *DnsServer) (network, address, configured string) {
	l, ok := st.listener.(*sadns.ServerDnsListener)
	if !ok || l == nil {
		return "", "", ""
	}
	srv := sadns.VerifC18Server(l)
	if srv == nil {
		return "", "", ""
	}
	configured = srv.Net
	if srv.Listener != nil {
		return srv.Listener.Addr().Network(), srv.Listener.Addr().String(), configured
	}
	if srv.PacketConn != nil {
		return srv.PacketConn.LocalAddr().Network(), srv.PacketConn.LocalAddr().String(), configured
	}
	return "", "", configured
}

//go:build verif

package server

import "net"

// VerifC15WrapListener puts wrap(listener) in the place of the listener of a started socket / unix / tcp+tls / DNS /
// packet endpoint, so that the endpoint's own accept loop (acceptConnection) takes its connections from it.  The loop
// picks the new listener up with its next Accept call.  false: the endpoint kind has no accept loop of its own.
func VerifC15WrapListener(srv Server, wrap func(net.Listener) net.Listener) bool {
	switch s := srv.(type) {
	case *SocketServer:
		if s.listener == nil {
			return false
		}
		s.listener = wrap(s.listener)
	case *DnsServer:
		if s.listener == nil {
			return false
		}
		s.listener = wrap(s.listener)
	case *PacketServer:
		if s.listener == nil {
			return false
		}
		s.listener = wrap(s.listener)
	default:
		return false
	}
	return true
}

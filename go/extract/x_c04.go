package main

// C04 facts (second file, SA/Gen/C04Args.lean): what every upstream kind tells the handshake about its
// carrier — the expression passed as the `secure` ("carrier is already encrypted") argument of
// socketace.NewClientConnection, classified by what it evaluates to:
//
//   false / true     the literal
//   tlsBranchVar     a local `var <x> bool` whose only assignments are `<x> = true`, each directly under a test of
//                    the address scheme for TLS (addr.HasTls.MatchString(<..>.Scheme), <..>.Scheme == "https"|"wss")
//   passwordVar      a local bool set under the udp shared-secret test (…User.Password()): symmetric AES, not TLS
//   mustSecure       the function's require-security parameter
//   other            anything else
//
// The Lean model evaluates the class per kind (SA.Security.secureArgValue) and C04_mustSecure_sound is stated over
// these evaluated arguments, so a kind that claims an encrypted carrier it does not have breaks the theorem.

import (
	"fmt"
	"go/ast"
	"regexp"
	"strings"
)

var c04TlsTest = regexp.MustCompile(`^(addr\.HasTls\.MatchString\(\w+(\.\w+)*\.Scheme\)|\w+(\.\w+)*\.Scheme == "(https|wss)")$`)

func c04classify(fd *ast.FuncDecl, call *ast.CallExpr) (srcText, class string) {
	arg := call.Args[2]
	srcText = c05src(arg)
	id, ok := arg.(*ast.Ident)
	if !ok {
		return srcText, "other"
	}
	switch id.Name {
	case "false", "true":
		return srcText, id.Name
	}
	// a parameter?
	for _, p := range fd.Type.Params.List {
		for _, n := range p.Names {
			if n.Name == id.Name {
				if id.Name == "mustSecure" {
					return srcText, "mustSecure"
				}
				return srcText, "other"
			}
		}
	}
	// a local `var x bool` without initialiser
	declared := false
	ast.Inspect(fd.Body, func(n ast.Node) bool {
		if vs, ok := n.(*ast.ValueSpec); ok && len(vs.Values) == 0 && c05src(vs.Type) == "bool" {
			for _, nm := range vs.Names {
				if nm.Name == id.Name {
					declared = true
				}
			}
		}
		return true
	})
	if !declared {
		return srcText, "other"
	}
	nTls, nPass, nOther := 0, 0, 0
	c05walk(fd.Body, func(as *ast.AssignStmt, guards []string) {
		for i, lh := range as.Lhs {
			if c05src(lh) != id.Name {
				continue
			}
			if as.Pos() > call.Pos() {
				continue
			}
			rhs := ""
			if i < len(as.Rhs) {
				rhs = c05src(as.Rhs[i])
			}
			last := ""
			if len(guards) > 0 {
				last = guards[len(guards)-1]
			}
			switch {
			case as.Tok.String() == "=" && rhs == "true" && c04TlsTest.MatchString(last):
				nTls++
			case as.Tok.String() == "=" && rhs == "true" && strings.Contains(last, "set &&") && strings.Contains(strings.Join(guards, " "), "User"):
				nPass++
			default:
				nOther++
			}
		}
	})
	// an address-of or an increment would escape the walk above: refuse when the name is used in any other
	// writing position
	ast.Inspect(fd.Body, func(n ast.Node) bool {
		if u, ok := n.(*ast.UnaryExpr); ok && u.Op.String() == "&" && c05src(u.X) == id.Name {
			nOther++
		}
		return true
	})
	switch {
	case nOther == 0 && nTls > 0 && nPass == 0:
		return srcText, "tlsBranchVar"
	case nOther == 0 && nPass > 0 && nTls == 0:
		return srcText, "passwordVar"
	}
	return srcText, "other"
}

func init() {
	extractors = append(extractors, func(o *out) {
		b := o.w("C04Args.lean")
		kinds := []struct{ kind, file, recv, fn string }{
			{"socket", "socket.go", "Socket", "Connect"},
			{"http", "http.go", "Http", "Connect"},
			{"packet", "packet.go", "Packet", "ConnectPacket"},
			{"stdio", "input_output.go", "InputOutput", "Connect"},
			{"dns", "dns.go", "Dns", "Connect"},
		}
		var rows []string
		for _, k := range kinds {
			f := parse("internal/client/upstream/" + k.file)
			fd := findFunc(f, k.recv, k.fn)
			if fd == nil || fd.Body == nil {
				fail("C04: %s.%s not found in %s", k.recv, k.fn, k.file)
				continue
			}
			calls := c05calls(fd.Body, "socketace.NewClientConnection")
			if len(calls) != 1 || len(calls[0].Args) != 4 {
				fail("C04: expected one 4-argument socketace.NewClientConnection call in %s.%s, found %d", k.recv, k.fn, len(calls))
				continue
			}
			s, cl := c04classify(fd, calls[0])
			rows = append(rows, fmt.Sprintf("(%s, %s, %s, %s)", leanStr05(k.kind), leanStr05(k.file), leanStr05(s), leanStr05(cl)))
		}
		fmt.Fprintf(b, "/-- per upstream kind: (kind, file, source text of the `secure` argument of its NewClientConnection call,\n    class of that expression: false | true | tlsBranchVar | passwordVar | mustSecure | other) -/\ndef c04SecureArgs : List (String × String × String × String) := [\n  %s]\n", strings.Join(rows, ",\n  "))
	})
}

package main

// C04 facts (SA/Gen/C04Startup.lean): what the Startup of every server kind that can be configured for TLS does when the
// endpoint's certificate configuration cannot be loaded.
//
// c04StartupTlsLoad: every call of `GetTlsConfig` in SocketServer.Startup, IoServer.Startup, HttpServer.Startup with the
// fate of the error it returns:
//
//   returns    `if <x>, err (=|:=) ...GetTlsConfig(); err != nil { ...; return <non-nil> }` (or the assignment directly
//              followed by such an if): the failure ends Startup with an error
//   deferred   the error is assigned (`=`, no new variable) to a variable of the function and a LATER statement of the
//              function body is `if err != nil { ...; return <non-nil> }` on the same name
//   shadowed   the error lives in a variable declared by the if statement itself (`:=`) and the branch does not return: it is
//              gone when the if statement ends
//   ignored    anything else (error discarded, call inside a function literal, result not tested)
//
// c04StartupCalls: the listener / TLS-layer calls of each Startup in source order (net.Listen, tls.Listen, tls.NewListener,
// tls.Server, ServeTLS, Serve).

import (
	"fmt"
	"go/ast"
	"go/token"
	"strings"
)

func c04stHasCall(n ast.Node, name string) bool {
	found := false
	ast.Inspect(n, func(x ast.Node) bool {
		if c, ok := x.(*ast.CallExpr); ok {
			if s, ok := c.Fun.(*ast.SelectorExpr); ok && s.Sel.Name == name {
				found = true
			}
		}
		return !found
	})
	return found
}

// c04stReturnsErr: the block's last statement is a return whose last result is not the identifier nil
func c04stReturnsErr(b *ast.BlockStmt) bool {
	if b == nil || len(b.List) == 0 {
		return false
	}
	r, ok := b.List[len(b.List)-1].(*ast.ReturnStmt)
	if !ok || len(r.Results) == 0 {
		return false
	}
	id, isId := r.Results[len(r.Results)-1].(*ast.Ident)
	return !(isId && id.Name == "nil")
}

func c04stErrName(a *ast.AssignStmt) string {
	if len(a.Lhs) == 0 {
		return ""
	}
	if id, ok := a.Lhs[len(a.Lhs)-1].(*ast.Ident); ok {
		return id.Name
	}
	return ""
}

func init() {
	extractors = append(extractors, func(o *out) {
		b := o.w("C04Startup.lean")
		kinds := []struct{ kind, file, recv string }{
			{"socket", "internal/server/socket_server.go", "SocketServer"},
			{"stdio", "internal/server/stdio_server.go", "IoServer"},
			{"http", "internal/server/http_server.go", "HttpServer"},
		}
		var loads, calls []string
		for _, k := range kinds {
			fn := findFunc(parse(k.file), k.recv, "Startup")
			if fn == nil || fn.Body == nil {
				fail("C04Startup: %s.Startup not found in %s", k.recv, k.file)
				continue
			}
			// later top-level `if <name> != nil { ... return <non-nil> }` statements of the function body, by position
			laterReturn := func(name string, after token.Pos) bool {
				for _, s := range fn.Body.List {
					is, ok := s.(*ast.IfStmt)
					if ok && is.Pos() > after && is.Init == nil && c05src(is.Cond) == name+" != nil" && c04stReturnsErr(is.Body) {
						return true
					}
				}
				return false
			}
			classify := func(a *ast.AssignStmt, test *ast.IfStmt, isInit, inLit bool) string {
				name := c04stErrName(a)
				if inLit || name == "" || name == "_" || test == nil || c05src(test.Cond) != name+" != nil" {
					return "ignored"
				}
				if c04stReturnsErr(test.Body) {
					return "returns"
				}
				if a.Tok == token.DEFINE && isInit {
					return "shadowed"
				}
				if a.Tok == token.ASSIGN && laterReturn(name, test.End()) {
					return "deferred"
				}
				return "ignored"
			}
			n := 0
			var walk func(x ast.Node, inLit bool)
			walk = func(x ast.Node, inLit bool) {
				ast.Inspect(x, func(y ast.Node) bool {
					switch t := y.(type) {
					case *ast.FuncLit:
						if y != x {
							walk(t.Body, true)
							return false
						}
					case *ast.IfStmt:
						if a, ok := t.Init.(*ast.AssignStmt); ok && c04stHasCall(a, "GetTlsConfig") {
							n++
							loads = append(loads, fmt.Sprintf("(%s, %s, %s)", leanStr05(k.kind), leanStr05("if "+c05src(a)+"; "+c05src(t.Cond)), leanStr05(classify(a, t, true, inLit))))
							walk(t.Body, inLit)
							if t.Else != nil {
								walk(t.Else, inLit)
							}
							return false
						}
					case *ast.BlockStmt:
						for i, s := range t.List {
							a, ok := s.(*ast.AssignStmt)
							if !ok || !c04stHasCall(a, "GetTlsConfig") {
								if es, ok := s.(*ast.ExprStmt); ok && c04stHasCall(es, "GetTlsConfig") {
									n++
									loads = append(loads, fmt.Sprintf("(%s, %s, \"ignored\")", leanStr05(k.kind), leanStr05(c05src(es))))
								}
								continue
							}
							var test *ast.IfStmt
							if i+1 < len(t.List) {
								test, _ = t.List[i+1].(*ast.IfStmt)
								if test != nil && test.Init != nil {
									test = nil
								}
							}
							n++
							loads = append(loads, fmt.Sprintf("(%s, %s, %s)", leanStr05(k.kind), leanStr05(c05src(a)), leanStr05(classify(a, test, false, inLit))))
						}
					}
					return true
				})
			}
			walk(fn.Body, false)
			if n == 0 {
				fail("C04Startup: %s.Startup does not call GetTlsConfig", k.recv)
			}
			var cs []string
			ast.Inspect(fn.Body, func(y ast.Node) bool {
				if c, ok := y.(*ast.CallExpr); ok {
					name := c05src(c.Fun)
					for _, w := range []string{"net.Listen", "tls.Listen", "tls.NewListener", "tls.Server"} {
						if name == w {
							cs = append(cs, leanStr05(w))
						}
					}
					for _, w := range []string{"ServeTLS", "Serve"} {
						if strings.HasSuffix(name, "."+w) {
							cs = append(cs, leanStr05(w))
						}
					}
				}
				return true
			})
			calls = append(calls, fmt.Sprintf("(%s, [%s])", leanStr05(k.kind), strings.Join(cs, ", ")))
		}
		fmt.Fprintf(b, "/-- every call of GetTlsConfig in the Startup of the server kinds that can be configured for TLS: (kind, statement,\n"+
			"    fate of the error: returns | deferred | shadowed | ignored - see go/extract/x_c04_startup.go) -/\n"+
			"def c04StartupTlsLoad : List (String × String × String) := [\n  %s]\n\n", strings.Join(loads, ",\n  "))
		fmt.Fprintf(b, "/-- listener / TLS-layer calls of each Startup in source order -/\n"+
			"def c04StartupCalls : List (String × List String) := [\n  %s]\n", strings.Join(calls, ",\n  "))
	})
}

package main

import (
	"fmt"
	"go/ast"
	"go/token"
	"os"
	"path/filepath"
	"sort"
	"strings"
)

// LoopVars: the module declares `go 1.14`, so a `for` / `range` loop has ONE variable shared by all iterations.  A
// function literal that refers to the loop's variable and outlives the iteration (started with `go`, deferred, stored,
// registered as a handler or callback) sees the value of a later iteration — the classic way for one channel's,
// endpoint's or connection's handler to end up serving another's.  The fact lists every function literal inside a loop
// body that mentions a variable declared by that loop's header (unless the body re-declares it first, `x := x`, or the
// literal is called on the spot); the models assume per-item handlers, i.e. an empty list.
func init() {
	extractors = append(extractors, func(o *out) {
		b := o.w("LoopVars.lean")
		dirs := []string{"internal/client/upstream", "internal/client/listener", "internal/server", "internal/socketace",
			"internal/streams", "internal/streams/dns", "internal/streams/dns/commands", "internal/streams/dns/util", "internal/util/cert",
			"internal/util/enc", "internal/util/addr", "internal/commands/client", "internal/commands/server"}
		var hits []string
		for _, dir := range dirs {
			for _, f := range goFiles(dir) {
				af := parse(f)
				if af == nil {
					continue
				}
				for _, d := range af.Decls {
					fd, ok := d.(*ast.FuncDecl)
					if !ok || fd.Body == nil {
						continue
					}
					var walk func(n ast.Node)
					checkLoop := func(vars []string, body *ast.BlockStmt) {
						if body == nil {
							return
						}
						// (b) the address of a loop-header variable is taken: whatever keeps it sees later iterations
						for _, v := range vars {
							ast.Inspect(body, func(n ast.Node) bool {
								if u, ok := n.(*ast.UnaryExpr); ok && u.Op == token.AND {
									if id, ok := u.X.(*ast.Ident); ok && id.Name == v {
										hits = append(hits, fmt.Sprintf("%s %s: address of loop variable %s taken", f, fd.Name.Name, v))
									}
								}
								return true
							})
						}
						// (a') variables that live outside the loop but are (re)assigned in its body are shared by the iterations
						// just the same: count them when a function literal of the body mentions them
						declared := map[string]bool{}
						for _, st := range body.List {
							switch x := st.(type) {
							case *ast.AssignStmt:
								if x.Tok == token.DEFINE {
									for _, l := range x.Lhs {
										if id, ok := l.(*ast.Ident); ok {
											declared[id.Name] = true
										}
									}
								}
							case *ast.DeclStmt:
								if gd, ok := x.Decl.(*ast.GenDecl); ok {
									for _, sp := range gd.Specs {
										if vs, ok := sp.(*ast.ValueSpec); ok {
											for _, n := range vs.Names {
												declared[n.Name] = true
											}
										}
									}
								}
							}
						}
						for _, st := range body.List {
							if as, ok := st.(*ast.AssignStmt); ok && as.Tok == token.ASSIGN {
								for _, l := range as.Lhs {
									if id, ok := l.(*ast.Ident); ok && id.Name != "_" && !declared[id.Name] {
										dup := false
										for _, v := range vars {
											dup = dup || v == id.Name
										}
										if !dup {
											vars = append(vars, id.Name)
										}
									}
								}
							}
						}
						if len(vars) == 0 {
							return
						}
						// variables re-declared at the top level of the body before any literal: x := x
						shadow := map[string]bool{}
						for _, st := range body.List {
							if as, ok := st.(*ast.AssignStmt); ok && as.Tok == token.DEFINE {
								for _, l := range as.Lhs {
									if id, ok := l.(*ast.Ident); ok {
										shadow[id.Name] = true
									}
								}
							}
						}
						called := map[*ast.FuncLit]bool{}
						ast.Inspect(body, func(n ast.Node) bool {
							if c, ok := n.(*ast.CallExpr); ok {
								if fl, ok := c.Fun.(*ast.FuncLit); ok {
									// func(){…}() called on the spot — but not when it is the call of a go / defer statement
									called[fl] = true
								}
							}
							return true
						})
						ast.Inspect(body, func(n ast.Node) bool {
							switch x := n.(type) {
							case *ast.GoStmt:
								if fl, ok := x.Call.Fun.(*ast.FuncLit); ok {
									delete(called, fl)
								}
							case *ast.DeferStmt:
								if fl, ok := x.Call.Fun.(*ast.FuncLit); ok {
									delete(called, fl)
								}
							}
							return true
						})
						ast.Inspect(body, func(n ast.Node) bool {
							fl, ok := n.(*ast.FuncLit)
							if !ok || called[fl] {
								return true
							}
							params := map[string]bool{}
							if fl.Type.Params != nil {
								for _, p := range fl.Type.Params.List {
									for _, nm := range p.Names {
										params[nm.Name] = true
									}
								}
							}
							used := map[string]bool{}
							ast.Inspect(fl.Body, func(m ast.Node) bool {
								if id, ok := m.(*ast.Ident); ok {
									for _, v := range vars {
										if id.Name == v && !params[v] && !shadow[v] {
											used[v] = true
										}
									}
								}
								return true
							})
							for v := range used {
								hits = append(hits, fmt.Sprintf("%s %s: function literal captures loop variable %s", f, fd.Name.Name, v))
							}
							return true
						})
					}
					walk = func(n ast.Node) {
						ast.Inspect(n, func(m ast.Node) bool {
							switch x := m.(type) {
							case *ast.RangeStmt:
								var vars []string
								if x.Tok == token.DEFINE {
									for _, e := range []ast.Expr{x.Key, x.Value} {
										if id, ok := e.(*ast.Ident); ok && id.Name != "_" {
											vars = append(vars, id.Name)
										}
									}
								}
								checkLoop(vars, x.Body)
							case *ast.ForStmt:
								var vars []string
								if as, ok := x.Init.(*ast.AssignStmt); ok && as.Tok == token.DEFINE {
									for _, l := range as.Lhs {
										if id, ok := l.(*ast.Ident); ok && id.Name != "_" {
											vars = append(vars, id.Name)
										}
									}
								}
								checkLoop(vars, x.Body)
							}
							return true
						})
					}
					walk(fd.Body)
				}
			}
		}
		sort.Strings(hits)
		var uniq []string
		for i, h := range hits {
			if i == 0 || hits[i-1] != h {
				uniq = append(uniq, h)
			}
		}
		fmt.Fprintf(b, "/-- function literals inside a loop body that mention a variable declared by the loop's header (module language\n    version go 1.14: one variable for all iterations) and are not called on the spot -/\ndef loopVarCaptures : List String := %s\n\n", leanStrList14(uniq))
		// the language version the fact's reading depends on
		gomod := ""
		if data, err := readRepoFile("go.mod"); err == nil {
			for _, line := range splitLines(data) {
				if len(line) > 3 && line[:3] == "go " {
					gomod = line[3:]
				}
			}
		}
		fmt.Fprintf(b, "/-- the `go` directive of go.mod -/\ndef goDirective : String := %q\n\n", gomod)
	})
}

func readRepoFile(rel string) (string, error) {
	b, err := os.ReadFile(filepath.Join(repo, rel))
	return string(b), err
}

func splitLines(s string) []string { return strings.Split(strings.ReplaceAll(s, "\r", ""), "\n") }

package main

import (
	"go/ast"
	"go/token"
	"strings"
)

// Helpers that let the C14/C17 recognisers establish a fact about what a function DOES rather than about where a
// statement stands: calls into functions and methods of the same package are followed (parameters bound to the
// arguments of the call), and `if … else if`, `switch { case … }`, `switch err { case … }` and "return early, carry on
// below" are read as the same list of guarded branches.

// pkgFuncIndex14 lists the function declarations of a package directory: plain functions by name, methods by
// "Recv.name".
func pkgFuncIndex14(dir string) map[string]*ast.FuncDecl {
	idx := map[string]*ast.FuncDecl{}
	for _, f := range goFiles(dir) {
		af := parse(f)
		for _, d := range af.Decls {
			fd, ok := d.(*ast.FuncDecl)
			if !ok || fd.Body == nil {
				continue
			}
			if fd.Recv == nil {
				idx[fd.Name.Name] = fd
			} else {
				idx[recvName14(fd)+"."+fd.Name.Name] = fd
			}
		}
	}
	return idx
}

// recvVar14 is the name of the receiver variable of a method ("" for plain functions).
func recvVar14(fd *ast.FuncDecl) string {
	if fd == nil || fd.Recv == nil || len(fd.Recv.List) == 0 || len(fd.Recv.List[0].Names) == 0 {
		return ""
	}
	return fd.Recv.List[0].Names[0].Name
}

// resolveCall14 returns the declaration a call refers to when that is a plain function of the package (`f(…)`) or a
// method of the package called on the enclosing function's receiver (`ch.m(…)`); nil otherwise (other packages,
// methods of other objects, closures, function values).
func resolveCall14(idx map[string]*ast.FuncDecl, c *ast.CallExpr, encl *ast.FuncDecl) *ast.FuncDecl {
	switch fn := c.Fun.(type) {
	case *ast.Ident:
		return idx[fn.Name]
	case *ast.SelectorExpr:
		if id, ok := fn.X.(*ast.Ident); ok && encl != nil && id.Name == recvVar14(encl) && id.Name != "" {
			if fd := idx[recvName14(encl)+"."+fn.Sel.Name]; fd != nil {
				return fd
			}
		}
	}
	return nil
}

// bind14 maps the parameter names of callee to the (already bound) source text of the call's arguments, and the
// callee's receiver variable to the caller's.
type bind14 map[string]string

func (b bind14) of(s string) string {
	if v, ok := b[s]; ok {
		return v
	}
	// a selector on a bound name: ch.ended with ch -> h gives h.ended
	if i := strings.Index(s, "."); i > 0 {
		if v, ok := b[s[:i]]; ok {
			return v + s[i:]
		}
	}
	return s
}

func bindCall14(outer bind14, c *ast.CallExpr, callee *ast.FuncDecl) bind14 {
	b := bind14{}
	i := 0
	if callee.Type.Params != nil {
		for _, fld := range callee.Type.Params.List {
			for _, n := range fld.Names {
				if i < len(c.Args) {
					b[n.Name] = outer.of(src(c.Args[i]))
				}
				i++
			}
		}
	}
	if rv := recvVar14(callee); rv != "" {
		if se, ok := c.Fun.(*ast.SelectorExpr); ok {
			b[rv] = outer.of(src(se.X))
		}
	}
	return b
}

// guarded14 is one branch of a decision: the conditions under which it is taken (any of them) and what it does.
type guarded14 struct {
	conds []ast.Expr
	body  []ast.Stmt
	inSw  bool // the body is a clause of a switch: an unlabelled `break` there leaves the switch only
}

// branchesOf14 reads an if/else-if chain, a `switch { case cond: }` or a `switch x { case v: }` as a list of guarded
// branches, in source order.  For a tagged switch the conditions are the equalities `x == v`.
func branchesOf14(st ast.Stmt) []guarded14 {
	var out []guarded14
	switch x := st.(type) {
	case *ast.IfStmt:
		for cur := x; cur != nil; {
			out = append(out, guarded14{conds: []ast.Expr{cur.Cond}, body: cur.Body.List})
			switch e := cur.Else.(type) {
			case *ast.IfStmt:
				cur = e
			case *ast.BlockStmt:
				out = append(out, guarded14{body: e.List})
				cur = nil
			default:
				cur = nil
			}
		}
	case *ast.SwitchStmt:
		for _, cl := range x.Body.List {
			cc, ok := cl.(*ast.CaseClause)
			if !ok {
				continue
			}
			g := guarded14{body: cc.Body, inSw: true}
			for _, e := range cc.List {
				if x.Tag != nil {
					e = &ast.BinaryExpr{X: x.Tag, Op: token.EQL, Y: e}
				}
				g.conds = append(g.conds, e)
			}
			out = append(out, g)
		}
	}
	return out
}

// condText14 renders the disjunction of a branch's conditions without blanks ("err!=nil", "err==a||err==b").
func condText14(g guarded14) string {
	parts := make([]string, len(g.conds))
	for i, c := range g.conds {
		parts[i] = strings.ReplaceAll(src(c), " ", "")
	}
	return strings.Join(parts, "||")
}

// endOf14 says how a branch leaves: "return", "continue", "break" (out of the loop) or "fallthrough" (control goes on
// with the statements after the decision).
func endOf14(g guarded14) string {
	if len(g.body) == 0 {
		return "fallthrough"
	}
	switch l := g.body[len(g.body)-1].(type) {
	case *ast.ReturnStmt:
		return "return"
	case *ast.BranchStmt:
		if g.inSw && l.Tok == token.BREAK && l.Label == nil {
			return "fallthrough"
		}
		return l.Tok.String()
	}
	return "fallthrough"
}

// errBranches14 lists, in source order, every guarded branch in body (nested loops and blocks included, function
// literals not) whose condition mentions `err`.
func errBranches14(body *ast.BlockStmt) []guarded14 {
	var out []guarded14
	chained := map[ast.Node]bool{}
	ast.Inspect(body, func(n ast.Node) bool {
		switch x := n.(type) {
		case *ast.FuncLit:
			return false
		case *ast.IfStmt:
			if chained[x] {
				return true
			}
			for e, ok := x.Else.(*ast.IfStmt); ok; e, ok = e.Else.(*ast.IfStmt) {
				chained[e] = true
			}
			for _, g := range branchesOf14(x) {
				if strings.Contains(condText14(g), "err") {
					out = append(out, g)
				}
			}
		case *ast.SwitchStmt:
			for _, g := range branchesOf14(x) {
				if strings.Contains(condText14(g), "err") {
					out = append(out, g)
				}
			}
		}
		return true
	})
	return out
}

// closeTarget14 returns what a call closes: the argument of TryClose/LogClose or the receiver of .Close(); "" when
// the call is not a close.
func closeTarget14(c *ast.CallExpr) string {
	fn := src(c.Fun)
	if (fn == "TryClose" || fn == "LogClose" || fn == "streams.TryClose" || fn == "streams.LogClose") && len(c.Args) == 1 {
		return src(c.Args[0])
	}
	if strings.HasSuffix(fn, ".Close") && len(c.Args) == 0 {
		return strings.TrimSuffix(fn, ".Close")
	}
	return ""
}

// armCloses14 computes, for a statement list run with the result `err` of the copier that finished first, which ends
// are closed always and which additionally when err != io.EOF.  Recognised alike:
//   - `if err != io.EOF { close… }` (closes in the body count for the error case),
//   - `if err == io.EOF { return … }` followed by closes (everything after counts for the error case),
//   - a call of, or `return` of a call of, a function of the same package: its body is read the same way with its
//     parameters bound to the arguments (two levels).
//
// A close in a branch taken only on io.EOF has no place in the two lists; it is reported through bad.
func armCloses14(stmts []ast.Stmt, b bind14, idx map[string]*ast.FuncDecl, encl *ast.FuncDecl, depth int, bad *[]string) (always, onErr []string) {
	errOnly := false
	add := func(a, e []string) {
		if errOnly {
			onErr = append(onErr, a...)
		} else {
			always = append(always, a...)
		}
		onErr = append(onErr, e...)
	}
	follow := func(e ast.Expr) bool {
		c, ok := e.(*ast.CallExpr)
		if !ok {
			return false
		}
		if t := closeTarget14(c); t != "" {
			add([]string{b.of(t)}, nil)
			return true
		}
		if callee := resolveCall14(idx, c, encl); callee != nil && depth < 2 {
			a, e := armCloses14(callee.Body.List, bindCall14(b, c, callee), idx, callee, depth+1, bad)
			add(a, e)
			return true
		}
		return false
	}
	for _, st := range stmts {
		switch x := st.(type) {
		case *ast.ExprStmt:
			follow(x.X)
		case *ast.ReturnStmt:
			for _, r := range x.Results {
				follow(r)
			}
		case *ast.AssignStmt:
			for _, r := range x.Rhs {
				follow(r)
			}
		case *ast.IfStmt:
			cond := strings.ReplaceAll(src(x.Cond), " ", "")
			if !strings.Contains(cond, "io.EOF") {
				continue
			}
			a, e := armCloses14(x.Body.List, b, idx, encl, depth, bad)
			inner := append(a, e...)
			switch {
			case strings.Contains(cond, "!="):
				onErr = append(onErr, inner...)
			case strings.Contains(cond, "=="):
				if len(inner) > 0 {
					*bad = append(*bad, "a close only when the copier ended with io.EOF: "+strings.Join(inner, ","))
				}
				g := guarded14{body: x.Body.List}
				if x.Else == nil && endOf14(g) == "return" {
					errOnly = true
				} else if blk, ok := x.Else.(*ast.BlockStmt); ok {
					a, e := armCloses14(blk.List, b, idx, encl, depth, bad)
					onErr = append(onErr, append(a, e...)...)
				}
			}
		}
	}
	return always, onErr
}

// openedTarget14 is the variable muxHandler (or a helper it calls directly) assigns the result of OpenConnection to.
func openedTarget14(mh *ast.FuncDecl) string {
	tgt := ""
	if mh != nil && mh.Body != nil {
		ast.Inspect(mh.Body, func(n ast.Node) bool {
			as, ok := n.(*ast.AssignStmt)
			if ok && len(as.Rhs) == 1 && len(as.Lhs) >= 1 && strings.HasSuffix(callName(as.Rhs[0]), ".OpenConnection") && tgt == "" {
				tgt = src(as.Lhs[0])
			}
			return true
		})
	}
	if tgt == "" {
		tgt = "upstreamConnection"
	}
	return tgt
}

// hasOpenAssign14 tells whether a function body itself assigns the result of an OpenConnection call.
func hasOpenAssign14(fd *ast.FuncDecl) bool {
	found := false
	if fd != nil && fd.Body != nil {
		ast.Inspect(fd.Body, func(n ast.Node) bool {
			as, ok := n.(*ast.AssignStmt)
			if ok && len(as.Rhs) == 1 && len(as.Lhs) >= 1 && strings.HasSuffix(callName(as.Rhs[0]), ".OpenConnection") {
				found = true
			}
			return !found
		})
	}
	return found
}

// openerOf14 returns the function that opens the target connection on behalf of mh: mh itself, or a function or
// method of the package that mh calls (directly or through one more such call) and whose body assigns the result of
// OpenConnection.  The binding maps the names of that function's parameters and receiver to the text of what mh
// passed, so that `ch.ended` in a helper is recognised as the handler's `ch.ended`.  When no such function is found
// mh itself is returned (the facts then read as "not there").
func openerOf14(mh *ast.FuncDecl, idx map[string]*ast.FuncDecl) (*ast.FuncDecl, bind14) {
	if mh == nil || mh.Body == nil {
		return mh, bind14{}
	}
	var walk func(fd *ast.FuncDecl, b bind14, depth int, seen map[*ast.FuncDecl]bool) (*ast.FuncDecl, bind14)
	walk = func(fd *ast.FuncDecl, b bind14, depth int, seen map[*ast.FuncDecl]bool) (*ast.FuncDecl, bind14) {
		if hasOpenAssign14(fd) {
			return fd, b
		}
		if depth >= 2 {
			return nil, nil
		}
		var rf *ast.FuncDecl
		var rb bind14
		ast.Inspect(fd.Body, func(n ast.Node) bool {
			if rf != nil {
				return false
			}
			c, ok := n.(*ast.CallExpr)
			if !ok {
				return true
			}
			if callee := resolveCall14(idx, c, fd); callee != nil && !seen[callee] {
				seen[callee] = true
				rf, rb = walk(callee, bindCall14(b, c, callee), depth+1, seen)
			}
			return true
		})
		return rf, rb
	}
	if fd, b := walk(mh, bind14{}, 0, map[*ast.FuncDecl]bool{mh: true}); fd != nil {
		return fd, b
	}
	return mh, bind14{}
}

// closesIn14 tells whether the body of fd (closures and deferred calls included, goroutines it starts not) closes the object named tgt (a name
// as seen from the function the walk started in): through TryClose/LogClose, through tgt.Close(), or in a function or
// method of the package that is handed tgt (two levels).
func closesIn14(fd *ast.FuncDecl, b bind14, tgt string, idx map[string]*ast.FuncDecl, depth int) bool {
	closes := false
	if fd == nil || fd.Body == nil {
		return false
	}
	ast.Inspect(fd.Body, func(n ast.Node) bool {
		if _, isGo := n.(*ast.GoStmt); isGo {
			// a close on another goroutine (the watcher that waits for the session to end) is not the handler closing
			// its target when the copy is over
			return false
		}
		c, ok := n.(*ast.CallExpr)
		if !ok || closes {
			return !closes
		}
		fn := src(c.Fun)
		if (strings.HasSuffix(fn, "TryClose") || strings.HasSuffix(fn, "LogClose")) && len(c.Args) == 1 && b.of(src(c.Args[0])) == tgt {
			closes = true
		} else if strings.HasSuffix(fn, ".Close") && len(c.Args) == 0 && b.of(strings.TrimSuffix(fn, ".Close")) == tgt {
			closes = true
		} else if callee := resolveCall14(idx, c, fd); callee != nil && depth < 2 {
			passes := false
			for _, a := range c.Args {
				if b.of(src(a)) == tgt {
					passes = true
				}
			}
			if passes && closesIn14(callee, bindCall14(b, c, callee), tgt, idx, depth+1) {
				closes = true
			}
		}
		return true
	})
	return closes
}

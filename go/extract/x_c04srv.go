package main

// C04 facts (SA/Gen/C04Srv.lean): what every SERVER kind tells the handshake about its carrier - the expression passed
// as the `secure` ("carrier is already encrypted") argument of server.AcceptConnection / socketace.NewServerConnection,
// at every call site under internal/ (test files excluded), classified by where its value comes from:
//
//   false             the literal, or a named boolean constant (declared in the enclosing function or at package level)
//                     whose value is false
//   ownSchemeField    `<receiver>.secure`, the receiver of the enclosing method; AND every write of a field named
//                     `secure` in the package of that file is `<receiver>.secure = true` directly under a test of the
//                     endpoint's OWN configured scheme for TLS (strings.HasSuffix(<r>.Address.Scheme, "+tls"),
//                     addr.HasTls.MatchString(<r>.Address.Scheme), <r>.Address.Scheme == "https"|"wss") or
//                     `<receiver>.secure = false`, inside a method named Startup - the field is set when the server
//                     creates its own listener and at no other time
//   ownSchemeVar      a local `var <x> bool` of a method named Startup whose only writes are `<x> = true` directly under
//                     such a test (the stdio server: the TLS layer it puts on its own stream)
//   paramPassThrough  the enclosing function's own bool parameter, never written (AcceptConnection -> NewServerConnection)
//   other             anything else: a term derived from the request (a header, r.TLS, r.URL), from the peer's
//                     handshake messages, from the password of the endpoint, an `||` of anything
//
// The class is a fact about where the VALUE comes from, not about the spelling of the call site: when the call sits in an
// unexported helper of the package (the per-peer goroutine body as a method `handshake(peer)`, say) the helper's own
// receiver field is read as before; when the helper hands on its own never-written bool parameter the rows are those of
// the helper's call sites in the package (the argument bound to that parameter, classified in the caller; up to three
// levels); a local defined exactly once (`x := <expr>`) and never written again has the class of its initialiser.
//
// `c04ServerSecureWrites` lists every write of a `secure` field in those packages with its verdict, so that the Lean
// statement names the offending assignment.

import (
	"fmt"
	"go/ast"
	"go/token"
	"os"
	"path/filepath"
	"regexp"
	"sort"
	"strings"
)

func c04sOwnSchemeTest(recv string) *regexp.Regexp {
	r := regexp.QuoteMeta(recv)
	one := `(addr\.HasTls\.MatchString\(` + r + `\.Address\.Scheme\)|strings\.HasSuffix\(` + r + `\.Address\.Scheme, "\+tls"\)|` + r + `\.Address\.Scheme == "(https|wss)")`
	return regexp.MustCompile(`^` + one + `( \|\| ` + one + `)*$`)
}

// c04sWalk visits every node below n together with the conditions of the enclosing if statements ("!(c)" for else
// branches); unlike c05walk it descends into every statement and expression (function literals included).
func c04sWalk(n ast.Node, guards []string, visit func(x ast.Node, guards []string)) {
	if n == nil {
		return
	}
	ast.Inspect(n, func(x ast.Node) bool {
		if x == nil {
			return false
		}
		if ifs, ok := x.(*ast.IfStmt); ok {
			if ifs.Init != nil {
				c04sWalk(ifs.Init, guards, visit)
			}
			c04sWalk(ifs.Cond, guards, visit)
			c := c05src(ifs.Cond)
			c04sWalk(ifs.Body, append(append([]string{}, guards...), c), visit)
			if ifs.Else != nil {
				c04sWalk(ifs.Else, append(append([]string{}, guards...), "!("+c+")"), visit)
			}
			return false
		}
		visit(x, guards)
		return true
	})
}

type c04sFunc struct {
	file string
	fd   *ast.FuncDecl
	recv string // receiver variable name
	typ  string // receiver type
}

func (f c04sFunc) name() string {
	if f.typ != "" {
		return f.typ + "." + f.fd.Name.Name
	}
	return f.fd.Name.Name
}

var c04sKindOfType = map[string]string{"SocketServer": "socket", "HttpServer": "http", "PacketServer": "packet", "IoServer": "stdio", "DnsServer": "dns"}

func init() {
	extractors = append(extractors, func(o *out) {
		b := o.w("C04Srv.lean")
		// every non-test Go file under internal/, by directory
		byDir := map[string][]string{}
		_ = filepath.Walk(filepath.Join(repo, "internal"), func(p string, info os.FileInfo, err error) error {
			if err != nil {
				return nil
			}
			if info.IsDir() {
				if info.Name() == "zzverif" {
					return filepath.SkipDir
				}
				return nil
			}
			if strings.HasSuffix(p, ".go") && !strings.HasSuffix(p, "_test.go") && !strings.HasPrefix(info.Name(), "zz_export_verif") {
				rel, _ := filepath.Rel(repo, p)
				byDir[filepath.Dir(rel)] = append(byDir[filepath.Dir(rel)], rel)
			}
			return nil
		})
		var dirs []string
		for d := range byDir {
			dirs = append(dirs, d)
		}
		sort.Strings(dirs)

		var argRows, writeRows []string
		seenKinds := map[string]bool{}
		for _, dir := range dirs {
			files := byDir[dir]
			sort.Strings(files)
			var funcs []c04sFunc
			for _, rel := range files {
				f := parse(rel)
				for _, d := range f.Decls {
					fd, ok := d.(*ast.FuncDecl)
					if !ok || fd.Body == nil {
						continue
					}
					rn, rt := c05kRecvName(fd)
					funcs = append(funcs, c04sFunc{filepath.Base(rel), fd, rn, rt})
				}
			}
			// call sites in this package
			type site struct {
				fn   c04sFunc
				call *ast.CallExpr
			}
			var sites []site
			for _, fn := range funcs {
				ast.Inspect(fn.fd.Body, func(x ast.Node) bool {
					c, ok := x.(*ast.CallExpr)
					if !ok {
						return true
					}
					switch c05src(c.Fun) {
					case "AcceptConnection", "server.AcceptConnection":
						if len(c.Args) == 4 {
							sites = append(sites, site{fn, c})
						} else {
							fail("C04: AcceptConnection call with %d arguments in %s", len(c.Args), fn.name())
						}
					case "NewServerConnection", "socketace.NewServerConnection":
						if len(c.Args) == 3 {
							sites = append(sites, site{fn, c})
						} else {
							fail("C04: NewServerConnection call with %d arguments in %s", len(c.Args), fn.name())
						}
					}
					return true
				})
			}
			if len(sites) == 0 {
				continue
			}
			// every write of a field named `secure` in this package
			fieldOK := true
			for _, fn := range funcs {
				own := c04sOwnSchemeTest(fn.recv)
				note := func(what, verdict string) {
					if verdict != "ok" {
						fieldOK = false
					}
					writeRows = append(writeRows, fmt.Sprintf("(%s, %s, %s, %s)", leanStr05(fn.file), leanStr05(fn.name()), leanStr05(what), leanStr05(verdict)))
				}
				c04sWalk(fn.fd.Body, nil, func(x ast.Node, guards []string) {
					switch s := x.(type) {
					case *ast.AssignStmt:
						for i, lh := range s.Lhs {
							sel, ok := lh.(*ast.SelectorExpr)
							if !ok || sel.Sel.Name != "secure" {
								continue
							}
							rhs := "?"
							if len(s.Rhs) == len(s.Lhs) {
								rhs = c05src(s.Rhs[i])
							}
							last := ""
							if len(guards) > 0 {
								last = guards[len(guards)-1]
							}
							verdict := "other"
							switch {
							case fn.fd.Name.Name != "Startup" || fn.recv == "" || c05src(sel.X) != fn.recv || s.Tok != token.ASSIGN:
							case rhs == "false":
								verdict = "ok"
							case rhs == "true" && own.MatchString(last):
								verdict = "ok"
							}
							note(c05src(lh)+" "+s.Tok.String()+" "+rhs+" under ["+last+"]", verdict)
						}
					case *ast.UnaryExpr:
						if sel, ok := s.X.(*ast.SelectorExpr); ok && s.Op == token.AND && sel.Sel.Name == "secure" {
							note("&"+c05src(s.X), "other")
						}
					case *ast.IncDecStmt:
						if sel, ok := s.X.(*ast.SelectorExpr); ok && sel.Sel.Name == "secure" {
							note(c05src(s), "other")
						}
					case *ast.KeyValueExpr:
						// a composite literal of a server type presetting the field; socketace's own ServerConnection{secure: secure}
						// is the handshake's state, tied by hs-server
						if k, ok := s.Key.(*ast.Ident); ok && k.Name == "secure" && dir != filepath.Join("internal", "socketace") {
							note("literal field secure: "+c05src(s.Value), "other")
						}
					}
				})
			}
			if dir == filepath.Join("internal", "socketace") {
				// NewServerConnection's own state (connection.secure = true after the TLS handshake) is the handshake model
				fieldOK = true
			}
			pkgConsts := c04sPkgBoolConsts(files)
			kindOf := func(fn c04sFunc) string {
				kind := fn.fd.Name.Name
				if k, ok := c04sKindOfType[fn.typ]; ok {
					kind = k
				} else if fn.typ != "" {
					kind = fn.typ
				}
				if kind == "AcceptConnection" {
					kind = "accept"
				}
				return kind
			}
			var classify func(fn c04sFunc, arg ast.Expr, depth int)
			classify = func(fn c04sFunc, arg ast.Expr, depth int) {
				for {
					p, ok := arg.(*ast.ParenExpr)
					if !ok {
						break
					}
					arg = p.X
				}
				text := c05src(arg)
				class := "other"
				kind := kindOf(fn)
				switch a := arg.(type) {
				case *ast.Ident:
					switch {
					case a.Name == "false":
						class = "false"
					case a.Name == "true":
						class = "other"
					default:
						if v, isConst := c04sConstValue(fn, a.Name, pkgConsts); isConst {
							// a named constant: the row carries its value
							if !v {
								class, text = "false", "false"
							} else {
								text = "true"
							}
							break
						}
						class = c04sLocalClass(fn, a.Name, nil)
						if class == "paramPassThrough" && depth < 3 && !ast.IsExported(fn.fd.Name.Name) {
							// an unexported helper handing on its own parameter: the value is whatever its callers in the package pass
							idx := c04sParamIndex(fn.fd, a.Name)
							callers := 0
							for _, g := range funcs {
								for _, c := range c04sCallsOf(g, fn) {
									if idx >= 0 && idx < len(c.Args) && c.Ellipsis == token.NoPos {
										callers++
										classify(g, c.Args[idx], depth+1)
									}
								}
							}
							if callers > 0 {
								return
							}
						}
						if class == "other" && depth < 3 {
							if init := c04sSingleDef(fn, a.Name); init != nil {
								classify(fn, init, depth+1)
								return
							}
						}
					}
				case *ast.SelectorExpr:
					if x, ok := a.X.(*ast.Ident); ok && a.Sel.Name == "secure" && fieldOK {
						if fn.recv != "" && x.Name == fn.recv {
							class = "ownSchemeField"
						} else if t := c04sParamType(fn.fd, x.Name); t != "" && c04sNeverWritten(fn, x.Name) {
							// the server handed to a plain helper function as a parameter: the same field of the same package's type
							if _, known := c04sKindOfType[t]; known {
								class = "ownSchemeField"
								if fn.typ == "" {
									kind = c04sKindOfType[t]
								}
							}
						}
					}
				}
				seenKinds[kind] = true
				argRows = append(argRows, fmt.Sprintf("(%s, %s, %s, %s, %s)", leanStr05(kind), leanStr05(fn.file), leanStr05(c04sGoOwner(fn, funcs, 0).name()), leanStr05(text), leanStr05(class)))
			}
			for _, st := range sites {
				classify(st.fn, st.call.Args[2], 0)
			}
		}
		for _, k := range []string{"socket", "http", "packet", "stdio", "accept"} {
			if !seenKinds[k] {
				fail("C04: no AcceptConnection / NewServerConnection call site found for server kind %q", k)
			}
		}
		fmt.Fprintf(b, "/-- every call of server.AcceptConnection / socketace.NewServerConnection under internal/ (tests excluded): (server kind,\n    file, function - the one that starts the goroutine when the site is in a goroutine body, literal or unexported method -,\n    source text of the `secure` argument (a named constant: its value), class: false | ownSchemeField | ownSchemeVar | paramPassThrough | other) -/\ndef c04ServerSecureArgs : List (String × String × String × String × String) := [\n  %s]\n\n", strings.Join(argRows, ",\n  "))
		fmt.Fprintf(b, "/-- every write of a field named `secure` in the packages of those call sites (socketace's own handshake state excluded):\n    (file, function, statement and innermost guard, verdict: ok = `<receiver>.secure = true` under a test of the endpoint's own\n    scheme or `= false`, in a Startup method | other) -/\ndef c04ServerSecureWrites : List (String × String × String × String) := [\n  %s]\n", strings.Join(writeRows, ",\n  "))
	})
}

// c04sLocalClass classifies an identifier used as the `secure` argument inside fn
func c04sLocalClass(fn c04sFunc, name string, call *ast.CallExpr) string {
	fd := fn.fd
	// the function's own parameter, passed through unchanged
	isParam := false
	for _, p := range fd.Type.Params.List {
		for _, n := range p.Names {
			if n.Name == name && c05src(p.Type) == "bool" {
				isParam = true
			}
		}
	}
	written, addr := 0, 0
	declaredVar := false
	nTls, nOther := 0, 0
	own := c04sOwnSchemeTest(fn.recv)
	c04sWalk(fd.Body, nil, func(x ast.Node, guards []string) {
		switch s := x.(type) {
		case *ast.ValueSpec:
			for _, nm := range s.Names {
				if nm.Name == name {
					if len(s.Values) == 0 && c05src(s.Type) == "bool" {
						declaredVar = true
					} else {
						nOther++
					}
				}
			}
		case *ast.AssignStmt:
			for i, lh := range s.Lhs {
				if c05src(lh) != name {
					continue
				}
				written++
				rhs := "?"
				if len(s.Rhs) == len(s.Lhs) {
					rhs = c05src(s.Rhs[i])
				}
				last := ""
				if len(guards) > 0 {
					last = guards[len(guards)-1]
				}
				if s.Tok == token.ASSIGN && rhs == "true" && fn.recv != "" && own.MatchString(last) {
					nTls++
				} else if s.Tok == token.ASSIGN && rhs == "false" {
					// harmless
				} else {
					nOther++
				}
			}
		case *ast.UnaryExpr:
			if s.Op == token.AND && c05src(s.X) == name {
				addr++
			}
		case *ast.IncDecStmt:
			if c05src(s.X) == name {
				nOther++
			}
		}
	})
	switch {
	case isParam && written == 0 && addr == 0:
		return "paramPassThrough"
	case !isParam && declaredVar && fd.Name.Name == "Startup" && nOther == 0 && addr == 0 && nTls > 0:
		return "ownSchemeVar"
	}
	return "other"
}

// c04sBoolConst evaluates a constant boolean expression over the literals and the named constants of `named`
func c04sBoolConst(e ast.Expr, named map[string]ast.Expr, depth int) (val, ok bool) {
	if depth > 8 {
		return false, false
	}
	switch x := e.(type) {
	case *ast.Ident:
		switch x.Name {
		case "true":
			return true, true
		case "false":
			return false, true
		}
		if d, has := named[x.Name]; has {
			return c04sBoolConst(d, named, depth+1)
		}
	case *ast.ParenExpr:
		return c04sBoolConst(x.X, named, depth+1)
	case *ast.UnaryExpr:
		if x.Op == token.NOT {
			v, ok := c04sBoolConst(x.X, named, depth+1)
			return !v, ok
		}
	case *ast.BinaryExpr:
		a, okA := c04sBoolConst(x.X, named, depth+1)
		b, okB := c04sBoolConst(x.Y, named, depth+1)
		if okA && okB {
			switch x.Op {
			case token.LAND:
				return a && b, true
			case token.LOR:
				return a || b, true
			case token.EQL:
				return a == b, true
			case token.NEQ:
				return a != b, true
			}
		}
	}
	return false, false
}

func c04sConstSpecs(g *ast.GenDecl, into map[string]ast.Expr) {
	if g == nil || g.Tok != token.CONST {
		return
	}
	for _, sp := range g.Specs {
		vs, ok := sp.(*ast.ValueSpec)
		if !ok {
			continue
		}
		for i, n := range vs.Names {
			if i < len(vs.Values) {
				into[n.Name] = vs.Values[i]
			}
		}
	}
}

// c04sPkgBoolConsts: the package-level `const` declarations of the given files (name -> defining expression)
func c04sPkgBoolConsts(files []string) map[string]ast.Expr {
	m := map[string]ast.Expr{}
	for _, rel := range files {
		for _, d := range parse(rel).Decls {
			if g, ok := d.(*ast.GenDecl); ok {
				c04sConstSpecs(g, m)
			}
		}
	}
	return m
}

// c04sConstValue: name, used inside fn, is a named boolean CONSTANT (declared with `const` in fn's body or at package
// level, and not shadowed by a parameter, a `var` or a `:=` of fn) and this is its value
func c04sConstValue(fn c04sFunc, name string, pkg map[string]ast.Expr) (val, isConst bool) {
	if c04sParamIndex(fn.fd, name) >= 0 || (fn.recv != "" && fn.recv == name) {
		return false, false
	}
	named := map[string]ast.Expr{}
	for k, v := range pkg {
		named[k] = v
	}
	shadowed := false
	ast.Inspect(fn.fd.Body, func(x ast.Node) bool {
		switch s := x.(type) {
		case *ast.GenDecl:
			if s.Tok == token.CONST {
				c04sConstSpecs(s, named)
			} else if s.Tok == token.VAR {
				for _, sp := range s.Specs {
					if vs, ok := sp.(*ast.ValueSpec); ok {
						for _, n := range vs.Names {
							if n.Name == name {
								shadowed = true
							}
						}
					}
				}
			}
		case *ast.AssignStmt:
			for _, lh := range s.Lhs {
				if id, ok := lh.(*ast.Ident); ok && id.Name == name {
					shadowed = true
				}
			}
		case *ast.RangeStmt:
			for _, e := range []ast.Expr{s.Key, s.Value} {
				if id, ok := e.(*ast.Ident); ok && id.Name == name {
					shadowed = true
				}
			}
		}
		return true
	})
	if _, has := named[name]; !has || shadowed {
		return false, false
	}
	v, ok := c04sBoolConst(named[name], named, 0)
	return v, ok
}

// c04sParamIndex: position of the parameter called name in fd's parameter list, -1 if none
func c04sParamIndex(fd *ast.FuncDecl, name string) int {
	i := 0
	if fd.Type.Params == nil {
		return -1
	}
	for _, p := range fd.Type.Params.List {
		if len(p.Names) == 0 {
			i++
			continue
		}
		for _, n := range p.Names {
			if n.Name == name {
				return i
			}
			i++
		}
	}
	return -1
}

// c04sParamType: the (pointer-stripped) type name of fd's parameter called name, "" if none
func c04sParamType(fd *ast.FuncDecl, name string) string {
	if fd.Type.Params == nil {
		return ""
	}
	for _, p := range fd.Type.Params.List {
		for _, n := range p.Names {
			if n.Name == name {
				t := p.Type
				if st, ok := t.(*ast.StarExpr); ok {
					t = st.X
				}
				return c05src(t)
			}
		}
	}
	return ""
}

// c04sNeverWritten: the identifier name is neither assigned, redeclared nor has its address taken inside fn
func c04sNeverWritten(fn c04sFunc, name string) bool {
	clean := true
	ast.Inspect(fn.fd.Body, func(x ast.Node) bool {
		switch s := x.(type) {
		case *ast.AssignStmt:
			for _, lh := range s.Lhs {
				if c05src(lh) == name {
					clean = false
				}
			}
		case *ast.ValueSpec:
			for _, n := range s.Names {
				if n.Name == name {
					clean = false
				}
			}
		case *ast.UnaryExpr:
			if s.Op == token.AND && c05src(s.X) == name {
				clean = false
			}
		case *ast.RangeStmt:
			if (s.Key != nil && c05src(s.Key) == name) || (s.Value != nil && c05src(s.Value) == name) {
				clean = false
			}
		}
		return true
	})
	return clean
}

// c04sCallsOf: the calls inside caller (function literals, `go` and `defer` included) that resolve to callee, a function
// or method of the same package: `callee(...)` for a plain function, `<caller's receiver>.callee(...)` for a method of the
// caller's own receiver type
func c04sCallsOf(caller, callee c04sFunc) []*ast.CallExpr {
	var out []*ast.CallExpr
	ast.Inspect(caller.fd.Body, func(x ast.Node) bool {
		c, ok := x.(*ast.CallExpr)
		if !ok {
			return true
		}
		switch f := c.Fun.(type) {
		case *ast.Ident:
			if callee.typ == "" && f.Name == callee.fd.Name.Name {
				out = append(out, c)
			}
		case *ast.SelectorExpr:
			if id, ok := f.X.(*ast.Ident); ok && callee.typ != "" && f.Sel.Name == callee.fd.Name.Name &&
				caller.recv != "" && id.Name == caller.recv && caller.typ == callee.typ {
				out = append(out, c)
			}
		}
		return true
	})
	return out
}

// c04sSingleDef: name is a local of fn defined exactly once with an initialiser (`name := e` with one value per name, or
// `var name = e`), never assigned again, never incremented, its address never taken: its initialiser; nil otherwise
func c04sSingleDef(fn c04sFunc, name string) ast.Expr {
	if c04sParamIndex(fn.fd, name) >= 0 {
		return nil
	}
	var init ast.Expr
	defs, bad := 0, 0
	ast.Inspect(fn.fd.Body, func(x ast.Node) bool {
		switch s := x.(type) {
		case *ast.AssignStmt:
			for i, lh := range s.Lhs {
				if c05src(lh) != name {
					continue
				}
				if s.Tok == token.DEFINE && len(s.Lhs) == len(s.Rhs) {
					defs++
					init = s.Rhs[i]
				} else {
					bad++
				}
			}
		case *ast.GenDecl:
			if s.Tok != token.VAR {
				return true
			}
			for _, sp := range s.Specs {
				vs, ok := sp.(*ast.ValueSpec)
				if !ok {
					continue
				}
				for i, n := range vs.Names {
					if n.Name != name {
						continue
					}
					if len(vs.Values) == len(vs.Names) {
						defs++
						init = vs.Values[i]
					} else {
						bad++
					}
				}
			}
		case *ast.UnaryExpr:
			if s.Op == token.AND && c05src(s.X) == name {
				bad++
			}
		case *ast.IncDecStmt:
			if c05src(s.X) == name {
				bad++
			}
		case *ast.RangeStmt:
			if (s.Key != nil && c05src(s.Key) == name) || (s.Value != nil && c05src(s.Value) == name) {
				bad++
			}
		}
		return true
	})
	if defs == 1 && bad == 0 {
		return init
	}
	return nil
}

// c04sGoOwner names the function a call site is attributed to.  The body of a per-peer goroutine may be written as a
// function literal (`go func(c net.Conn) {...}(conn)`, attributed to the enclosing function as a matter of course) or as
// an unexported function / method of the package started the same way (`go st.handshake(conn)`): when every call of fn in
// the package is the call of a `go` statement and all of them sit in ONE other function, the site is attributed to that
// function as well (up to three levels), so that the row does not depend on which of the two spellings is used.
func c04sGoOwner(fn c04sFunc, funcs []c04sFunc, depth int) c04sFunc {
	if depth >= 3 || ast.IsExported(fn.fd.Name.Name) {
		return fn
	}
	var owner *c04sFunc
	total, underGo := 0, 0
	for i := range funcs {
		g := funcs[i]
		calls := c04sCallsOf(g, fn)
		if len(calls) == 0 {
			continue
		}
		total += len(calls)
		goCalls := map[*ast.CallExpr]bool{}
		ast.Inspect(g.fd.Body, func(x ast.Node) bool {
			if gs, ok := x.(*ast.GoStmt); ok {
				goCalls[gs.Call] = true
			}
			return true
		})
		for _, c := range calls {
			if goCalls[c] {
				underGo++
			}
		}
		if owner != nil && owner.fd != g.fd {
			return fn
		}
		owner = &funcs[i]
	}
	if owner == nil || owner.fd == fn.fd || total == 0 || total != underGo {
		return fn
	}
	return c04sGoOwner(*owner, funcs, depth+1)
}

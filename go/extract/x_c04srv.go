package main

// C04 facts (SA/Gen/C04Srv.lean): what every SERVER kind tells the handshake about its carrier - the expression passed
// as the `secure` ("carrier is already encrypted") argument of server.AcceptConnection / socketace.NewServerConnection,
// at every call site under internal/ (test files excluded), classified by where its value comes from:
//
//   false             the literal
//   ownSchemeField    `<receiver>.secure`, the receiver of the enclosing method; AND every write of a field named
//                     `secure` in the package of that file is `<receiver>.secure = true` directly under a test of the
//                     endpoint's OWN configured scheme for TLS (strings.HasSuffix(<r>.Address.Scheme, "+tls"),
//                     addr.HasTls.MatchString(<r>.Address.Scheme), <r>.Address.Scheme == "https"|"wss") or
//                     `<receiver>.secure = false`, inside a method named Startup - the field is set when the server
//                     creates its own listener and at no other time
//   ownSchemeVar      a local `var <x> bool` of a method named Startup whose only writes are `<x> = true` directly under
//                     such a test (the stdio server: the TLS layer it puts on its own stream)
//   paramPassThrough  the enclosing function's own bool parameter, never written (AcceptConnection -> NewServerConnection)
//   other             anything else: a term derived from the request (a header, r.TLS, r.URL), from the peer's
//                     handshake messages, from the password of the endpoint, an `||` of anything
//
// `c04ServerSecureWrites` lists every write of a `secure` field in those packages with its verdict, so that the Lean
// statement names the offending assignment.

import (
	"fmt"
	"go/ast"
	"go/token"
	"os"
	"path/filepath"
	"regexp"
	"sort"
	"strings"
)

func c04sOwnSchemeTest(recv string) *regexp.Regexp {
	r := regexp.QuoteMeta(recv)
	one := `(addr\.HasTls\.MatchString\(` + r + `\.Address\.Scheme\)|strings\.HasSuffix\(` + r + `\.Address\.Scheme, "\+tls"\)|` + r + `\.Address\.Scheme == "(https|wss)")`
	return regexp.MustCompile(`^` + one + `( \|\| ` + one + `)*$`)
}

// c04sWalk visits every node below n together with the conditions of the enclosing if statements ("!(c)" for else
// branches); unlike c05walk it descends into every statement and expression (function literals included).
func c04sWalk(n ast.Node, guards []string, visit func(x ast.Node, guards []string)) {
	if n == nil {
		return
	}
	ast.Inspect(n, func(x ast.Node) bool {
		if x == nil {
			return false
		}
		if ifs, ok := x.(*ast.IfStmt); ok {
			if ifs.Init != nil {
				c04sWalk(ifs.Init, guards, visit)
			}
			c04sWalk(ifs.Cond, guards, visit)
			c := c05src(ifs.Cond)
			c04sWalk(ifs.Body, append(append([]string{}, guards...), c), visit)
			if ifs.Else != nil {
				c04sWalk(ifs.Else, append(append([]string{}, guards...), "!("+c+")"), visit)
			}
			return false
		}
		visit(x, guards)
		return true
	})
}

type c04sFunc struct {
	file string
	fd   *ast.FuncDecl
	recv string // receiver variable name
	typ  string // receiver type
}

func (f c04sFunc) name() string {
	if f.typ != "" {
		return f.typ + "." + f.fd.Name.Name
	}
	return f.fd.Name.Name
}

var c04sKindOfType = map[string]string{"SocketServer": "socket", "HttpServer": "http", "PacketServer": "packet", "IoServer": "stdio", "DnsServer": "dns"}

func init() {
	extractors = append(extractors, func(o *out) {
		b := o.w("C04Srv.lean")
		// every non-test Go file under internal/, by directory
		byDir := map[string][]string{}
		_ = filepath.Walk(filepath.Join(repo, "internal"), func(p string, info os.FileInfo, err error) error {
			if err != nil {
				return nil
			}
			if info.IsDir() {
				if info.Name() == "zzverif" {
					return filepath.SkipDir
				}
				return nil
			}
			if strings.HasSuffix(p, ".go") && !strings.HasSuffix(p, "_test.go") && !strings.HasPrefix(info.Name(), "zz_export_verif") {
				rel, _ := filepath.Rel(repo, p)
				byDir[filepath.Dir(rel)] = append(byDir[filepath.Dir(rel)], rel)
			}
			return nil
		})
		var dirs []string
		for d := range byDir {
			dirs = append(dirs, d)
		}
		sort.Strings(dirs)

		var argRows, writeRows []string
		seenKinds := map[string]bool{}
		for _, dir := range dirs {
			files := byDir[dir]
			sort.Strings(files)
			var funcs []c04sFunc
			for _, rel := range files {
				f := parse(rel)
				for _, d := range f.Decls {
					fd, ok := d.(*ast.FuncDecl)
					if !ok || fd.Body == nil {
						continue
					}
					rn, rt := c05kRecvName(fd)
					funcs = append(funcs, c04sFunc{filepath.Base(rel), fd, rn, rt})
				}
			}
			// call sites in this package
			type site struct {
				fn   c04sFunc
				call *ast.CallExpr
			}
			var sites []site
			for _, fn := range funcs {
				ast.Inspect(fn.fd.Body, func(x ast.Node) bool {
					c, ok := x.(*ast.CallExpr)
					if !ok {
						return true
					}
					switch c05src(c.Fun) {
					case "AcceptConnection", "server.AcceptConnection":
						if len(c.Args) == 4 {
							sites = append(sites, site{fn, c})
						} else {
							fail("C04: AcceptConnection call with %d arguments in %s", len(c.Args), fn.name())
						}
					case "NewServerConnection", "socketace.NewServerConnection":
						if len(c.Args) == 3 {
							sites = append(sites, site{fn, c})
						} else {
							fail("C04: NewServerConnection call with %d arguments in %s", len(c.Args), fn.name())
						}
					}
					return true
				})
			}
			if len(sites) == 0 {
				continue
			}
			// every write of a field named `secure` in this package
			fieldOK := true
			for _, fn := range funcs {
				own := c04sOwnSchemeTest(fn.recv)
				note := func(what, verdict string) {
					if verdict != "ok" {
						fieldOK = false
					}
					writeRows = append(writeRows, fmt.Sprintf("(%s, %s, %s, %s)", leanStr05(fn.file), leanStr05(fn.name()), leanStr05(what), leanStr05(verdict)))
				}
				c04sWalk(fn.fd.Body, nil, func(x ast.Node, guards []string) {
					switch s := x.(type) {
					case *ast.AssignStmt:
						for i, lh := range s.Lhs {
							sel, ok := lh.(*ast.SelectorExpr)
							if !ok || sel.Sel.Name != "secure" {
								continue
							}
							rhs := "?"
							if len(s.Rhs) == len(s.Lhs) {
								rhs = c05src(s.Rhs[i])
							}
							last := ""
							if len(guards) > 0 {
								last = guards[len(guards)-1]
							}
							verdict := "other"
							switch {
							case fn.fd.Name.Name != "Startup" || fn.recv == "" || c05src(sel.X) != fn.recv || s.Tok != token.ASSIGN:
							case rhs == "false":
								verdict = "ok"
							case rhs == "true" && own.MatchString(last):
								verdict = "ok"
							}
							note(c05src(lh)+" "+s.Tok.String()+" "+rhs+" under ["+last+"]", verdict)
						}
					case *ast.UnaryExpr:
						if sel, ok := s.X.(*ast.SelectorExpr); ok && s.Op == token.AND && sel.Sel.Name == "secure" {
							note("&"+c05src(s.X), "other")
						}
					case *ast.IncDecStmt:
						if sel, ok := s.X.(*ast.SelectorExpr); ok && sel.Sel.Name == "secure" {
							note(c05src(s), "other")
						}
					case *ast.KeyValueExpr:
						// a composite literal of a server type presetting the field; socketace's own ServerConnection{secure: secure}
						// is the handshake's state, tied by hs-server
						if k, ok := s.Key.(*ast.Ident); ok && k.Name == "secure" && dir != filepath.Join("internal", "socketace") {
							note("literal field secure: "+c05src(s.Value), "other")
						}
					}
				})
			}
			if dir == filepath.Join("internal", "socketace") {
				// NewServerConnection's own state (connection.secure = true after the TLS handshake) is the handshake model
				fieldOK = true
			}
			for _, st := range sites {
				fn := st.fn
				arg := st.call.Args[2]
				text := c05src(arg)
				class := "other"
				switch a := arg.(type) {
				case *ast.Ident:
					switch {
					case a.Name == "false":
						class = "false"
					case a.Name == "true":
						class = "other"
					default:
						class = c04sLocalClass(fn, a.Name, st.call)
					}
				case *ast.SelectorExpr:
					if a.Sel.Name == "secure" && fn.recv != "" && c05src(a.X) == fn.recv && fieldOK {
						class = "ownSchemeField"
					}
				}
				kind := fn.fd.Name.Name
				if k, ok := c04sKindOfType[fn.typ]; ok {
					kind = k
				} else if fn.typ != "" {
					kind = fn.typ
				}
				if kind == "AcceptConnection" {
					kind = "accept"
				}
				seenKinds[kind] = true
				argRows = append(argRows, fmt.Sprintf("(%s, %s, %s, %s, %s)", leanStr05(kind), leanStr05(fn.file), leanStr05(fn.name()), leanStr05(text), leanStr05(class)))
			}
		}
		for _, k := range []string{"socket", "http", "packet", "stdio", "accept"} {
			if !seenKinds[k] {
				fail("C04: no AcceptConnection / NewServerConnection call site found for server kind %q", k)
			}
		}
		fmt.Fprintf(b, "/-- every call of server.AcceptConnection / socketace.NewServerConnection under internal/ (tests excluded): (server kind,\n    file, function, source text of the `secure` argument, class: false | ownSchemeField | ownSchemeVar | paramPassThrough | other) -/\ndef c04ServerSecureArgs : List (String × String × String × String × String) := [\n  %s]\n\n", strings.Join(argRows, ",\n  "))
		fmt.Fprintf(b, "/-- every write of a field named `secure` in the packages of those call sites (socketace's own handshake state excluded):\n    (file, function, statement and innermost guard, verdict: ok = `<receiver>.secure = true` under a test of the endpoint's own\n    scheme or `= false`, in a Startup method | other) -/\ndef c04ServerSecureWrites : List (String × String × String × String) := [\n  %s]\n", strings.Join(writeRows, ",\n  "))
	})
}

// c04sLocalClass classifies an identifier used as the `secure` argument inside fn
func c04sLocalClass(fn c04sFunc, name string, call *ast.CallExpr) string {
	fd := fn.fd
	// the function's own parameter, passed through unchanged
	isParam := false
	for _, p := range fd.Type.Params.List {
		for _, n := range p.Names {
			if n.Name == name && c05src(p.Type) == "bool" {
				isParam = true
			}
		}
	}
	written, addr := 0, 0
	declaredVar := false
	nTls, nOther := 0, 0
	own := c04sOwnSchemeTest(fn.recv)
	c04sWalk(fd.Body, nil, func(x ast.Node, guards []string) {
		switch s := x.(type) {
		case *ast.ValueSpec:
			for _, nm := range s.Names {
				if nm.Name == name {
					if len(s.Values) == 0 && c05src(s.Type) == "bool" {
						declaredVar = true
					} else {
						nOther++
					}
				}
			}
		case *ast.AssignStmt:
			for i, lh := range s.Lhs {
				if c05src(lh) != name {
					continue
				}
				written++
				rhs := "?"
				if len(s.Rhs) == len(s.Lhs) {
					rhs = c05src(s.Rhs[i])
				}
				last := ""
				if len(guards) > 0 {
					last = guards[len(guards)-1]
				}
				if s.Tok == token.ASSIGN && rhs == "true" && fn.recv != "" && own.MatchString(last) {
					nTls++
				} else if s.Tok == token.ASSIGN && rhs == "false" {
					// harmless
				} else {
					nOther++
				}
			}
		case *ast.UnaryExpr:
			if s.Op == token.AND && c05src(s.X) == name {
				addr++
			}
		case *ast.IncDecStmt:
			if c05src(s.X) == name {
				nOther++
			}
		}
	})
	switch {
	case isParam && written == 0 && addr == 0:
		return "paramPassThrough"
	case !isParam && declaredVar && fd.Name.Name == "Startup" && nOther == 0 && addr == 0 && nTls > 0:
		return "ownSchemeVar"
	}
	return "other"
}

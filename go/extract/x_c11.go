package main

// Facts for C11 (DNS auto-negotiation): every loop bound of the handshake phases, both auto-detect
// orders, the number of test patterns per codec, the constants of the fragment size search, and the
// decisive shapes (where the search range is halved, whether the loop stops at range zero, polarity of
// the Raw branch, whether a corrupted downstream test reply is an error, whether the probe is padded,
// whether an answer without data is rejected before it is indexed).

import (
	"bytes"
	"fmt"
	"go/ast"
	"go/constant"
	"go/printer"
	"go/token"
	"regexp"
	"strconv"
	"strings"
)

func c11src(n ast.Node) string {
	var b bytes.Buffer
	_ = printer.Fprint(&b, fset, n)
	return b.String()
}

var c11TypeIdx = map[string]int{"QueryTypeNull": 0, "QueryTypePrivate": 1, "QueryTypeTxt": 2, "QueryTypeSrv": 3,
	"QueryTypeMx": 4, "QueryTypeCname": 5, "QueryTypeAAAA": 6, "QueryTypeA": 7}
var c11CodecIdx = map[string]int{"Base32Encoding": 0, "Base64Encoding": 1, "Base64uEncoding": 2, "Base85Encoding": 3,
	"Base91Encoding": 4, "Base128Encoding": 5, "RawEncoding": 6}

func c11NatList(xs []int) string {
	p := make([]string, len(xs))
	for i, x := range xs {
		p[i] = strconv.Itoa(x)
	}
	return "[" + strings.Join(p, ", ") + "]"
}

func c11Match(where, src, re string) []string {
	m := regexp.MustCompile(re).FindStringSubmatch(src)
	if m == nil {
		fail("C11: %s: pattern %q not found", where, re)
		return []string{"0", "0", "0", "0"}
	}
	return m
}

func c11Atoi(s string) int {
	v, _ := strconv.Atoi(s)
	return v
}

// c11Names maps every selector/identifier of the given table found below n (source order) to its index
func c11Names(n ast.Node, table map[string]int) []int {
	var out []int
	ast.Inspect(n, func(x ast.Node) bool {
		switch v := x.(type) {
		case *ast.SelectorExpr:
			if i, ok := table[v.Sel.Name]; ok {
				out = append(out, i)
			}
			return false
		case *ast.Ident:
			if i, ok := table[v.Name]; ok {
				out = append(out, i)
			}
		}
		return true
	})
	return out
}

func c11FirstEncoderList(fd *ast.FuncDecl) []int {
	var res []int
	found := false
	ast.Inspect(fd, func(x ast.Node) bool {
		if found {
			return false
		}
		if cl, ok := x.(*ast.CompositeLit); ok {
			if at, ok := cl.Type.(*ast.ArrayType); ok && strings.Contains(c11src(at.Elt), "Encoder") {
				res = c11Names(cl, c11CodecIdx)
				found = true
				return false
			}
		}
		return true
	})
	return res
}

// c11Conjuncts flattens a && b && c
func c11Conjuncts(e ast.Expr) []ast.Expr {
	if p, ok := e.(*ast.ParenExpr); ok {
		return c11Conjuncts(p.X)
	}
	if b, ok := e.(*ast.BinaryExpr); ok && b.Op == token.LAND {
		return append(c11Conjuncts(b.X), c11Conjuncts(b.Y)...)
	}
	return []ast.Expr{e}
}

func c11IsClosedCheck(e ast.Expr) bool {
	u, ok := e.(*ast.UnaryExpr)
	if !ok || u.Op != token.NOT {
		return false
	}
	c, ok := u.X.(*ast.CallExpr)
	if !ok || len(c.Args) != 0 {
		return false
	}
	sel, ok := c.Fun.(*ast.SelectorExpr)
	return ok && sel.Sel.Name == "Closed"
}

func c11Int(e ast.Expr, en env) (int, bool) {
	v := evalExpr(e, en)
	if v == nil || v.Kind() == constant.Unknown {
		return 0, false
	}
	i, ok := constant.Int64Val(constant.ToInt(v))
	return int(i), ok
}

// c11RetryLoop recognises a counted retry loop: `for v := A; <conjunction>; v++` whose condition checks
// `!x.Closed()` and bounds v by a constant expression (v < N, v <= N, N > v, N >= v; named constants of the
// file are evaluated).  The name of the counter, the order of the conjuncts and parentheses do not matter.  Any
// further conjunct could end the loop early, so it makes the loop unrecognised (ok=false, bad=true).
func c11RetryLoop(f *ast.ForStmt, en env) (start, count int, ok, bad bool) {
	as, isAs := f.Init.(*ast.AssignStmt)
	inc, isInc := f.Post.(*ast.IncDecStmt)
	if !isAs || !isInc || f.Cond == nil || as.Tok != token.DEFINE || len(as.Lhs) != 1 || len(as.Rhs) != 1 || inc.Tok != token.INC {
		return
	}
	v, isId := as.Lhs[0].(*ast.Ident)
	pv, isId2 := inc.X.(*ast.Ident)
	if !isId || !isId2 || v.Name != pv.Name {
		return
	}
	a, okA := c11Int(as.Rhs[0], en)
	if !okA {
		return
	}
	isV := func(e ast.Expr) bool { id, ok := e.(*ast.Ident); return ok && id.Name == v.Name }
	closed, bounded, extra, limit := false, false, false, 0
	for _, c := range c11Conjuncts(f.Cond) {
		if c11IsClosedCheck(c) {
			closed = true
			continue
		}
		if b, isB := c.(*ast.BinaryExpr); isB && !bounded {
			x, y, op := b.X, b.Y, b.Op
			if isV(y) { // N > v, N >= v
				x, y = y, x
				switch op {
				case token.GTR:
					op = token.LSS
				case token.GEQ:
					op = token.LEQ
				default:
					op = token.ILLEGAL
				}
			}
			if n, okN := c11Int(y, en); isV(x) && okN && (op == token.LSS || op == token.LEQ) {
				limit, bounded = n, true
				if op == token.LEQ {
					limit++
				}
				continue
			}
		}
		extra = true
	}
	if !closed {
		return // some other loop (e.g. a byte compare), not a retry loop
	}
	if !bounded || extra {
		return 0, 0, false, true
	}
	if limit < a {
		limit = a
	}
	return a, limit - a, true, false
}

// c11FindRetryLoop: the first retry loop (source order) of fd; when fd has none, of the unexported functions and
// methods of the same file that fd calls (one level - the loop may have been moved into a helper).
func c11FindRetryLoop(where string, file *ast.File, fd *ast.FuncDecl, en env) (start, count int) {
	search := func(n ast.Node) (int, int, bool, bool) {
		var s, c int
		found, bad := false, false
		ast.Inspect(n, func(x ast.Node) bool {
			if found || bad {
				return false
			}
			if f, ok := x.(*ast.ForStmt); ok {
				if a, cnt, ok, b := c11RetryLoop(f, en); ok {
					s, c, found = a, cnt, true
				} else if b {
					bad = true
				}
			}
			return true
		})
		return s, c, found, bad
	}
	s, c, found, bad := search(fd)
	if !found && !bad {
		for _, callee := range c11Callees(file, fd) {
			if s, c, found, bad = search(callee); found || bad {
				break
			}
		}
	}
	if bad {
		fail("C11: %s: retry loop has a condition other than !Closed() && counter < constant", where)
		return 0, 0
	}
	if !found {
		fail("C11: %s: no counted retry loop (for v := A; !x.Closed() && v < N; v++) found", where)
		return 0, 0
	}
	return s, c
}

// c11Callees: declarations (same file, unexported) of the functions/methods called in fd, in call order
func c11Callees(file *ast.File, fd *ast.FuncDecl) []*ast.FuncDecl {
	var res []*ast.FuncDecl
	seen := map[string]bool{}
	ast.Inspect(fd, func(x ast.Node) bool {
		c, ok := x.(*ast.CallExpr)
		if !ok {
			return true
		}
		name := ""
		switch f := c.Fun.(type) {
		case *ast.Ident:
			name = f.Name
		case *ast.SelectorExpr:
			name = f.Sel.Name
		}
		if name == "" || seen[name] || ast.IsExported(name) {
			return true
		}
		seen[name] = true
		for _, d := range file.Decls {
			if g, ok := d.(*ast.FuncDecl); ok && g.Name.Name == name && g.Body != nil && g != fd {
				res = append(res, g)
			}
		}
		return true
	})
	return res
}

// c11Mentions: does e (outside of len(...) calls) mention a selector/identifier called name
func c11Mentions(n ast.Node, name string) bool {
	if n == nil {
		return false
	}
	hit := false
	ast.Inspect(n, func(x ast.Node) bool {
		if hit {
			return false
		}
		switch v := x.(type) {
		case *ast.CallExpr:
			if id, ok := v.Fun.(*ast.Ident); ok && id.Name == "len" {
				return false
			}
		case *ast.SelectorExpr:
			if v.Sel.Name == name {
				hit = true
			}
		case *ast.Ident:
			if v.Name == name {
				hit = true
			}
		}
		return true
	})
	return hit
}

// c11ElementwiseCompare: fd (a helper with at least two parameters) compares two of its parameters byte by byte
// (p[k] != q[k] or p[k] == q[k]) or hands them to bytes.Equal / bytes.Compare
func c11ElementwiseCompare(fd *ast.FuncDecl) bool {
	params := map[string]bool{}
	for _, f := range fd.Type.Params.List {
		for _, n := range f.Names {
			params[n.Name] = true
		}
	}
	isParamIdx := func(e ast.Expr) bool {
		ix, ok := e.(*ast.IndexExpr)
		if !ok {
			return false
		}
		id, ok := ix.X.(*ast.Ident)
		return ok && params[id.Name]
	}
	hit := false
	ast.Inspect(fd.Body, func(x ast.Node) bool {
		switch v := x.(type) {
		case *ast.BinaryExpr:
			if (v.Op == token.NEQ || v.Op == token.EQL) && isParamIdx(v.X) && isParamIdx(v.Y) {
				hit = true
			}
		case *ast.CallExpr:
			if s := c11src(v.Fun); s == "bytes.Equal" || s == "bytes.Compare" {
				hit = true
			}
		}
		return !hit
	})
	return hit
}

// c11MismatchBranch finds, in fd, the branch taken when the reply's Data differs in CONTENT from
// util.DownloadCodecCheck (not the length test: arguments of len() are ignored) and returns its body.  Accepted
// forms of the test:  resp.Data[k] != util.DownloadCodecCheck[k]  (inside whatever loop);
//
//	!bytes.Equal(resp.Data, util.DownloadCodecCheck);  a same-file helper that compares its arguments byte by byte,
//	called in the condition or the init statement, as  !helper(..)  or  helper(..) >= 0 / != -1 / > -1 (index of the
//	first difference).
func c11MismatchBranch(file *ast.File, fd *ast.FuncDecl) *ast.BlockStmt {
	var res *ast.BlockStmt
	bad := ""
	ast.Inspect(fd, func(x ast.Node) bool {
		if res != nil || bad != "" {
			return false
		}
		is, ok := x.(*ast.IfStmt)
		if !ok {
			return true
		}
		if !((c11Mentions(is.Cond, "Data") || c11Mentions(is.Init, "Data")) && (c11Mentions(is.Cond, "DownloadCodecCheck") || c11Mentions(is.Init, "DownloadCodecCheck"))) {
			return true
		}
		cond := is.Cond
		for {
			p, ok := cond.(*ast.ParenExpr)
			if !ok {
				break
			}
			cond = p.X
		}
		// the call that does the comparison, if any
		var call *ast.CallExpr
		ast.Inspect(is, func(y ast.Node) bool {
			if y == is.Body || (is.Else != nil && y == is.Else) {
				return false
			}
			if c, ok := y.(*ast.CallExpr); ok && call == nil && c11Mentions(c, "Data") && c11Mentions(c, "DownloadCodecCheck") {
				call = c
			}
			return call == nil
		})
		if call == nil {
			if b, ok := cond.(*ast.BinaryExpr); ok && b.Op == token.NEQ {
				if _, ok1 := b.X.(*ast.IndexExpr); ok1 {
					if _, ok2 := b.Y.(*ast.IndexExpr); ok2 {
						res = is.Body
						return false
					}
				}
			}
			bad = "the content test is neither an element-wise != nor a call: " + c11src(cond)
			return false
		}
		fn := c11src(call.Fun)
		if fn != "bytes.Equal" {
			name := fn
			if i := strings.LastIndex(name, "."); i >= 0 {
				name = name[i+1:]
			}
			var helper *ast.FuncDecl
			for _, d := range file.Decls {
				if g, ok := d.(*ast.FuncDecl); ok && g.Name.Name == name && g.Body != nil {
					helper = g
				}
			}
			if helper == nil || !c11ElementwiseCompare(helper) {
				bad = "the content test calls " + fn + ", which is not a same-file helper comparing its arguments byte by byte"
				return false
			}
		}
		// polarity: the branch must be the one taken on a difference
		if u, ok := cond.(*ast.UnaryExpr); ok && u.Op == token.NOT {
			res = is.Body
			return false
		}
		if b, ok := cond.(*ast.BinaryExpr); ok {
			r := strings.Join(strings.Fields(c11src(b.Y)), "")
			if (b.Op == token.GEQ && r == "0") || (b.Op == token.NEQ && r == "-1") || (b.Op == token.GTR && r == "-1") {
				res = is.Body
				return false
			}
		}
		bad = "cannot tell that the branch is the one taken on a difference: " + c11src(cond)
		return false
	})
	if res == nil {
		if bad == "" {
			bad = "no test of the reply's content against util.DownloadCodecCheck found"
		}
		fail("C11: %s: %s", fd.Name.Name, bad)
	}
	return res
}

// c11ReturnsError: the first `return` of the branch hands back a real error: not nil, not a local variable (the
// only one in scope is the nil err of the exchange), not a nil-preserving wrapper (errors.Wrap/Wrapf/WithStack/
// WithMessage) around one of those.
func c11ReturnsError(where string, body *ast.BlockStmt) bool {
	if body == nil {
		return false
	}
	var ret *ast.ReturnStmt
	ast.Inspect(body, func(x ast.Node) bool {
		if r, ok := x.(*ast.ReturnStmt); ok && ret == nil {
			ret = r
		}
		return ret == nil
	})
	if ret == nil || len(ret.Results) != 1 {
		fail("C11: %s: the content-mismatch branch does not return a single value", where)
		return false
	}
	var real func(e ast.Expr) bool
	real = func(e ast.Expr) bool {
		switch v := e.(type) {
		case *ast.ParenExpr:
			return real(v.X)
		case *ast.Ident:
			return false // nil, or a local (err of the exchange, nil on this path)
		case *ast.SelectorExpr:
			return true // a package-level error value
		case *ast.CallExpr:
			switch c11src(v.Fun) {
			case "errors.Wrap", "errors.Wrapf", "errors.WithStack", "errors.WithMessage", "errors.WithMessagef":
				return len(v.Args) > 0 && real(v.Args[0])
			}
			return true // errors.New / Errorf / fmt.Errorf ...
		}
		return false
	}
	return real(ret.Results[0])
}

func init() {
	extractors = append(extractors, func(o *out) {
		b := o.w("C11.lean")
		fmt.Fprintf(b, "namespace C11\n\n")
		cf := parse("internal/streams/dns/dns_client_connection.go")
		fn := func(name string) *ast.FuncDecl {
			fd := findFunc(cf, "ClientDnsConnection", name)
			if fd == nil || fd.Body == nil {
				fail("C11: method ClientDnsConnection.%s not found", name)
				return &ast.FuncDecl{Name: ast.NewIdent(name), Body: &ast.BlockStmt{}, Type: &ast.FuncType{}}
			}
			return fd
		}
		cen := fileConsts(cf, nil)
		// the number of attempts of the function's retry loop, whatever the counter is called and however the
		// condition is written (see c11RetryLoop)
		tries := func(name string) int {
			_, n := c11FindRetryLoop(name, cf, fn(name), cen)
			return n
		}

		// query type order and rounds
		qt := parse("internal/streams/dns/util/query_types.go")
		var order []int
		for _, d := range qt.Decls {
			if g, ok := d.(*ast.GenDecl); ok {
				for _, s := range g.Specs {
					if vs, ok := s.(*ast.ValueSpec); ok && len(vs.Names) == 1 && vs.Names[0].Name == "QueryTypesByPriority" && len(vs.Values) == 1 {
						order = c11Names(vs.Values[0], c11TypeIdx)
					}
				}
			}
		}
		if len(order) == 0 {
			fail("C11: QueryTypesByPriority not found")
		}
		fmt.Fprintf(b, "/-- util/query_types.go QueryTypesByPriority (0 null 1 priv 2 txt 3 srv 4 mx 5 cname 6 aaaa 7 a) -/\ndef typeOrder : List Nat := %s\n", c11NatList(order))
		fmt.Fprintf(b, "/-- AutoDetectQueryType: rounds of the outer loop -/\ndef typeRounds : Nat := %d\n", tries("AutoDetectQueryType"))
		stq := fn("SendQueryTypeTest")
		var rawTypes []int
		ast.Inspect(stq, func(x ast.Node) bool {
			if rawTypes != nil {
				return false
			}
			if is, ok := x.(*ast.IfStmt); ok && strings.Contains(c11src(is.Body), "RawEncoding") {
				rawTypes = c11Names(is.Cond, c11TypeIdx)
				return false
			}
			return true
		})
		fmt.Fprintf(b, "/-- SendQueryTypeTest: types probed with Raw (others with Base32) -/\ndef typeTestRaw : List Nat := %s\n", c11NatList(rawTypes))
		var ednsRaw []int
		ast.Inspect(fn("AutodetectEdns0Extension"), func(x ast.Node) bool {
			if ednsRaw != nil {
				return false
			}
			if is, ok := x.(*ast.IfStmt); ok && strings.Contains(c11src(is.Body), "RawEncoding") {
				ednsRaw = c11Names(is.Cond, c11TypeIdx)
				return false
			}
			return true
		})
		fmt.Fprintf(b, "/-- AutodetectEdns0Extension: types probed with Raw -/\ndef ednsRaw : List Nat := %s\n", c11NatList(ednsRaw))
		var downRaw []int
		ast.Inspect(fn("AutodetectEncodingDowntream"), func(x ast.Node) bool {
			if downRaw != nil {
				return false
			}
			if is, ok := x.(*ast.IfStmt); ok && strings.Contains(c11src(is.Body), "RawEncoding") {
				downRaw = c11Names(is.Cond, c11TypeIdx)
				return false
			}
			return true
		})
		fmt.Fprintf(b, "/-- AutodetectEncodingDowntream: types that get Raw without a test -/\ndef downRawTypes : List Nat := %s\n", c11NatList(downRaw))

		// retry counts
		fmt.Fprintf(b, "/-- retry counts of the handshake loops -/\n")
		for _, p := range [][2]string{{"versionTries", "VersionHandshake"}, {"ednsTries", "AutodetectEdns0Extension"},
			{"upTestTries", "EncodingTestUpstream"}, {"setUpTries", "SetEncodingUpstream"}, {"downTestTries", "TestDownstreamEncoder"},
			{"setDownTries", "SetEncodingDownstream"}, {"lazyTries", "AutodetectLazyMode"}, {"fragTries", "AutodetectFragmentSize"},
			{"switchTries", "SwitchFragmentSize"}} {
			fmt.Fprintf(b, "def %s : Nat := %d\n", p[0], tries(p[1]))
		}

		// codec orders and pattern counts (0 b32 1 b64 2 b64u 3 b85 4 b91 5 b128 6 raw)
		fmt.Fprintf(b, "/-- AutodetectEncodingUpstream: codecs tried in order (0 b32 1 b64 2 b64u 3 b85 4 b91 5 b128 6 raw) -/\ndef upOrder : List Nat := %s\n", c11NatList(c11FirstEncoderList(fn("AutodetectEncodingUpstream"))))
		fmt.Fprintf(b, "/-- AutodetectEncodingDowntream: codecs tried in order -/\ndef downOrder : List Nat := %s\n", c11NatList(c11FirstEncoderList(fn("AutodetectEncodingDowntream"))))
		pc := []int{}
		for _, f := range [][2]string{{"base32.go", "Base32Encoder"}, {"base64.go", "Base64Encoder"}, {"base64u.go", "Base64uEncoder"},
			{"base85.go", "Base85Encoder"}, {"base91.go", "Base91Encoder"}, {"base128.go", "Base128Encoder"}, {"raw.go", "RawEncoder"}} {
			ef := parse("internal/util/enc/" + f[0])
			fd := findFunc(ef, f[1], "TestPatterns")
			n := -1
			if fd != nil && fd.Body != nil {
				for _, st := range fd.Body.List {
					if r, ok := st.(*ast.ReturnStmt); ok && len(r.Results) == 1 {
						if cl, ok := r.Results[0].(*ast.CompositeLit); ok {
							n = len(cl.Elts)
						}
					}
				}
			}
			if n < 0 {
				fail("C11: %s.TestPatterns: no literal return", f[1])
			}
			pc = append(pc, n)
		}
		fmt.Fprintf(b, "/-- number of TestPatterns() per codec (same numbering) -/\ndef patternCount : List Nat := %s\n", c11NatList(pc))

		// fragment size search
		fs := fn("AutodetectFragmentSize")
		src := c11src(fs)
		fmt.Fprintf(b, "/-- AutodetectFragmentSize constants -/\n")
		fmt.Fprintf(b, "def fragStart : Nat := %d\n", c11Atoi(c11Match("frag", src, `var proposed uint32 = (\d+)`)[1]))
		fmt.Fprintf(b, "def fragTop : Nat := %d\n", c11Atoi(c11Match("frag", src, `var fragmentRange = (\d+) - proposed`)[1]))
		mm := c11Match("frag", src, `\(fragmentRange >= (\d+) \|\| max < (\d+)\)`)
		fmt.Fprintf(b, "def fragFine : Nat := %d\ndef fragEnough : Nat := %d\n", c11Atoi(mm[1]), c11Atoi(mm[2]))
		fmt.Fprintf(b, "def fragNone : Nat := %d\n", c11Atoi(c11Match("frag", src, `if max <= (\d+) \{`)[1]))
		fmt.Fprintf(b, "def fragSmall : Nat := %d\n", c11Atoi(c11Match("frag", src, `if max < (\d+) \{\s*err := errors\.New`)[1]))
		fmt.Fprintf(b, "def fragHeader : Nat := %d\n", c11Atoi(c11Match("frag", src, `return max - (\d+), nil`)[1]))
		// shapes
		var outer *ast.ForStmt
		for _, st := range fs.Body.List {
			if f, ok := st.(*ast.ForStmt); ok && outer == nil {
				outer = f
			}
		}
		stops, halves, clamps, shift := false, false, false, 0
		if outer == nil {
			fail("C11: AutodetectFragmentSize: outer loop not found")
		} else {
			stops = strings.Contains(c11src(outer.Cond), "fragmentRange > 0")
			for _, st := range outer.Body.List {
				s := c11src(st)
				if as, ok := st.(*ast.AssignStmt); ok {
					if mm := regexp.MustCompile(`^fragmentRange = fragmentRange >> (\d+)$`).FindStringSubmatch(c11src(as)); mm != nil {
						halves = true
						shift = c11Atoi(mm[1])
					}
				}
				if is, ok := st.(*ast.IfStmt); ok && strings.Contains(c11src(is.Cond), "fragmentRange > proposed") && strings.Contains(s, "fragmentRange = proposed") {
					clamps = true
				}
			}
			if !halves {
				if mm := regexp.MustCompile(`fragmentRange = fragmentRange >> (\d+)`).FindStringSubmatch(src); mm != nil {
					shift = c11Atoi(mm[1])
				}
			}
		}
		fmt.Fprintf(b, "/-- the range is shifted right by this much -/\ndef fragShift : Nat := %d\n", shift)
		fmt.Fprintf(b, "/-- the outer loop condition requires fragmentRange > 0 -/\ndef fragStopsAtZero : Bool := %v\n", stops)
		fmt.Fprintf(b, "/-- the range is halved by a statement of the outer loop body (every round), not inside the retry loop -/\ndef fragHalvesEveryRound : Bool := %v\n", halves)
		fmt.Fprintf(b, "/-- when searching downwards the step is first clamped to the proposal -/\ndef fragClampsStep : Bool := %v\n", clamps)
		padded := strings.Contains(c11src(fn("SendFragmentSizeTest")), "Padding:")
		fmt.Fprintf(b, "/-- SendFragmentSizeTest pads the probe query to the longest name -/\ndef fragProbePadded : Bool := %v\n", padded)

		// Raw branch polarity, unconditional assignment
		ad := fn("AutodetectEncodingDowntream")
		rawOn := ""
		ast.Inspect(ad, func(x ast.Node) bool {
			if is, ok := x.(*ast.IfStmt); ok && is.Init != nil && strings.Contains(c11src(is.Init), "TestDownstreamEncoder(enc.RawEncoding)") {
				rawOn = c11src(is.Cond)
				return false
			}
			return true
		})
		if rawOn != "err == nil" && rawOn != "err != nil" {
			fail("C11: AutodetectEncodingDowntream: Raw test condition is %q", rawOn)
		}
		fmt.Fprintf(b, "/-- AutodetectEncodingDowntream: Raw is selected when its test succeeds (err == nil) -/\ndef rawOnSuccess : Bool := %v\n", rawOn == "err == nil")
		last := ""
		if n := len(ad.Body.List); n > 0 {
			last = c11src(ad.Body.List[n-1])
		}
		fmt.Fprintf(b, "/-- … and the function ends by assigning the downstream encoder unconditionally -/\ndef downAlwaysAssigned : Bool := %v\n", strings.HasPrefix(last, "dc.Serializer.Downstream.Encoder = "))

		// TestDownstreamEncoder: content mismatch returns a real error
		tdf := fn("TestDownstreamEncoder")
		isErr := c11ReturnsError("TestDownstreamEncoder", c11MismatchBranch(cf, tdf))
		fmt.Fprintf(b, "/-- TestDownstreamEncoder: a reply with different content is reported as an error (not Wrapf(nil)) -/\ndef downMismatchIsError : Bool := %v\n", isErr)

		// serializer: empty answer rejected
		sf := parse("internal/streams/dns/commands/serializer.go")
		dd := findFunc(sf, "Serializer", "DecodeDnsResponseWithParams")
		chk := false
		if dd == nil {
			fail("C11: DecodeDnsResponseWithParams not found")
		} else {
			chk = strings.Contains(c11src(dd), "if len(data) == 0 {")
		}
		fmt.Fprintf(b, "/-- DecodeDnsResponseWithParams rejects an answer without data before indexing it -/\ndef emptyAnswerChecked : Bool := %v\n", chk)
		fmt.Fprintf(b, "\nend C11\n")
	})
}

package main

// Facts for C11 (DNS auto-negotiation): every loop bound of the handshake phases, both auto-detect
// orders, the number of test patterns per codec, the constants of the fragment size search, and the
// decisive shapes (where the search range is halved, whether the loop stops at range zero, polarity of
// the Raw branch, whether a corrupted downstream test reply is an error, whether the probe is padded,
// whether an answer without data is rejected before it is indexed).

import (
	"bytes"
	"fmt"
	"go/ast"
	"go/printer"
	"regexp"
	"strconv"
	"strings"
)

func c11src(n ast.Node) string {
	var b bytes.Buffer
	_ = printer.Fprint(&b, fset, n)
	return b.String()
}

var c11TypeIdx = map[string]int{"QueryTypeNull": 0, "QueryTypePrivate": 1, "QueryTypeTxt": 2, "QueryTypeSrv": 3,
	"QueryTypeMx": 4, "QueryTypeCname": 5, "QueryTypeAAAA": 6, "QueryTypeA": 7}
var c11CodecIdx = map[string]int{"Base32Encoding": 0, "Base64Encoding": 1, "Base64uEncoding": 2, "Base85Encoding": 3,
	"Base91Encoding": 4, "Base128Encoding": 5, "RawEncoding": 6}

func c11NatList(xs []int) string {
	p := make([]string, len(xs))
	for i, x := range xs {
		p[i] = strconv.Itoa(x)
	}
	return "[" + strings.Join(p, ", ") + "]"
}

func c11Match(where, src, re string) []string {
	m := regexp.MustCompile(re).FindStringSubmatch(src)
	if m == nil {
		fail("C11: %s: pattern %q not found", where, re)
		return []string{"0", "0", "0", "0"}
	}
	return m
}

func c11Atoi(s string) int {
	v, _ := strconv.Atoi(s)
	return v
}

// c11Names maps every selector/identifier of the given table found below n (source order) to its index
func c11Names(n ast.Node, table map[string]int) []int {
	var out []int
	ast.Inspect(n, func(x ast.Node) bool {
		switch v := x.(type) {
		case *ast.SelectorExpr:
			if i, ok := table[v.Sel.Name]; ok {
				out = append(out, i)
			}
			return false
		case *ast.Ident:
			if i, ok := table[v.Name]; ok {
				out = append(out, i)
			}
		}
		return true
	})
	return out
}

func c11FirstEncoderList(fd *ast.FuncDecl) []int {
	var res []int
	found := false
	ast.Inspect(fd, func(x ast.Node) bool {
		if found {
			return false
		}
		if cl, ok := x.(*ast.CompositeLit); ok {
			if at, ok := cl.Type.(*ast.ArrayType); ok && strings.Contains(c11src(at.Elt), "Encoder") {
				res = c11Names(cl, c11CodecIdx)
				found = true
				return false
			}
		}
		return true
	})
	return res
}

func init() {
	extractors = append(extractors, func(o *out) {
		b := o.w("C11.lean")
		fmt.Fprintf(b, "namespace C11\n\n")
		cf := parse("internal/streams/dns/dns_client_connection.go")
		fn := func(name string) *ast.FuncDecl {
			fd := findFunc(cf, "ClientDnsConnection", name)
			if fd == nil || fd.Body == nil {
				fail("C11: method ClientDnsConnection.%s not found", name)
				return &ast.FuncDecl{Name: ast.NewIdent(name), Body: &ast.BlockStmt{}, Type: &ast.FuncType{}}
			}
			return fd
		}
		tries := func(name string) int {
			m := c11Match(name, c11src(fn(name)), `for i := 0; !dc\.Closed\(\) && i < (\d+); i\+\+`)
			return c11Atoi(m[1])
		}

		// query type order and rounds
		qt := parse("internal/streams/dns/util/query_types.go")
		var order []int
		for _, d := range qt.Decls {
			if g, ok := d.(*ast.GenDecl); ok {
				for _, s := range g.Specs {
					if vs, ok := s.(*ast.ValueSpec); ok && len(vs.Names) == 1 && vs.Names[0].Name == "QueryTypesByPriority" && len(vs.Values) == 1 {
						order = c11Names(vs.Values[0], c11TypeIdx)
					}
				}
			}
		}
		if len(order) == 0 {
			fail("C11: QueryTypesByPriority not found")
		}
		fmt.Fprintf(b, "/-- util/query_types.go QueryTypesByPriority (0 null 1 priv 2 txt 3 srv 4 mx 5 cname 6 aaaa 7 a) -/\ndef typeOrder : List Nat := %s\n", c11NatList(order))
		m := c11Match("AutoDetectQueryType", c11src(fn("AutoDetectQueryType")), `for timeout := (\d+); !dc\.Closed\(\) && timeout <= (\d+); timeout\+\+`)
		fmt.Fprintf(b, "/-- AutoDetectQueryType: rounds of the outer loop -/\ndef typeRounds : Nat := %d\n", c11Atoi(m[2])-c11Atoi(m[1])+1)
		stq := fn("SendQueryTypeTest")
		var rawTypes []int
		ast.Inspect(stq, func(x ast.Node) bool {
			if rawTypes != nil {
				return false
			}
			if is, ok := x.(*ast.IfStmt); ok && strings.Contains(c11src(is.Body), "RawEncoding") {
				rawTypes = c11Names(is.Cond, c11TypeIdx)
				return false
			}
			return true
		})
		fmt.Fprintf(b, "/-- SendQueryTypeTest: types probed with Raw (others with Base32) -/\ndef typeTestRaw : List Nat := %s\n", c11NatList(rawTypes))
		var ednsRaw []int
		ast.Inspect(fn("AutodetectEdns0Extension"), func(x ast.Node) bool {
			if ednsRaw != nil {
				return false
			}
			if is, ok := x.(*ast.IfStmt); ok && strings.Contains(c11src(is.Body), "RawEncoding") {
				ednsRaw = c11Names(is.Cond, c11TypeIdx)
				return false
			}
			return true
		})
		fmt.Fprintf(b, "/-- AutodetectEdns0Extension: types probed with Raw -/\ndef ednsRaw : List Nat := %s\n", c11NatList(ednsRaw))
		var downRaw []int
		ast.Inspect(fn("AutodetectEncodingDowntream"), func(x ast.Node) bool {
			if downRaw != nil {
				return false
			}
			if is, ok := x.(*ast.IfStmt); ok && strings.Contains(c11src(is.Body), "RawEncoding") {
				downRaw = c11Names(is.Cond, c11TypeIdx)
				return false
			}
			return true
		})
		fmt.Fprintf(b, "/-- AutodetectEncodingDowntream: types that get Raw without a test -/\ndef downRawTypes : List Nat := %s\n", c11NatList(downRaw))

		// retry counts
		fmt.Fprintf(b, "/-- retry counts of the handshake loops -/\n")
		for _, p := range [][2]string{{"versionTries", "VersionHandshake"}, {"ednsTries", "AutodetectEdns0Extension"},
			{"upTestTries", "EncodingTestUpstream"}, {"setUpTries", "SetEncodingUpstream"}, {"downTestTries", "TestDownstreamEncoder"},
			{"setDownTries", "SetEncodingDownstream"}, {"lazyTries", "AutodetectLazyMode"}, {"fragTries", "AutodetectFragmentSize"},
			{"switchTries", "SwitchFragmentSize"}} {
			if p[1] == "VersionHandshake" {
				mm := c11Match(p[1], c11src(fn(p[1])), `for i := 0; !dc\.Closed\(\) && i < (\d+); i\+\+`)
				fmt.Fprintf(b, "def %s : Nat := %d\n", p[0], c11Atoi(mm[1]))
			} else {
				fmt.Fprintf(b, "def %s : Nat := %d\n", p[0], tries(p[1]))
			}
		}

		// codec orders and pattern counts (0 b32 1 b64 2 b64u 3 b85 4 b91 5 b128 6 raw)
		fmt.Fprintf(b, "/-- AutodetectEncodingUpstream: codecs tried in order (0 b32 1 b64 2 b64u 3 b85 4 b91 5 b128 6 raw) -/\ndef upOrder : List Nat := %s\n", c11NatList(c11FirstEncoderList(fn("AutodetectEncodingUpstream"))))
		fmt.Fprintf(b, "/-- AutodetectEncodingDowntream: codecs tried in order -/\ndef downOrder : List Nat := %s\n", c11NatList(c11FirstEncoderList(fn("AutodetectEncodingDowntream"))))
		pc := []int{}
		for _, f := range [][2]string{{"base32.go", "Base32Encoder"}, {"base64.go", "Base64Encoder"}, {"base64u.go", "Base64uEncoder"},
			{"base85.go", "Base85Encoder"}, {"base91.go", "Base91Encoder"}, {"base128.go", "Base128Encoder"}, {"raw.go", "RawEncoder"}} {
			ef := parse("internal/util/enc/" + f[0])
			fd := findFunc(ef, f[1], "TestPatterns")
			n := -1
			if fd != nil && fd.Body != nil {
				for _, st := range fd.Body.List {
					if r, ok := st.(*ast.ReturnStmt); ok && len(r.Results) == 1 {
						if cl, ok := r.Results[0].(*ast.CompositeLit); ok {
							n = len(cl.Elts)
						}
					}
				}
			}
			if n < 0 {
				fail("C11: %s.TestPatterns: no literal return", f[1])
			}
			pc = append(pc, n)
		}
		fmt.Fprintf(b, "/-- number of TestPatterns() per codec (same numbering) -/\ndef patternCount : List Nat := %s\n", c11NatList(pc))

		// fragment size search
		fs := fn("AutodetectFragmentSize")
		src := c11src(fs)
		fmt.Fprintf(b, "/-- AutodetectFragmentSize constants -/\n")
		fmt.Fprintf(b, "def fragStart : Nat := %d\n", c11Atoi(c11Match("frag", src, `var proposed uint32 = (\d+)`)[1]))
		fmt.Fprintf(b, "def fragTop : Nat := %d\n", c11Atoi(c11Match("frag", src, `var fragmentRange = (\d+) - proposed`)[1]))
		mm := c11Match("frag", src, `\(fragmentRange >= (\d+) \|\| max < (\d+)\)`)
		fmt.Fprintf(b, "def fragFine : Nat := %d\ndef fragEnough : Nat := %d\n", c11Atoi(mm[1]), c11Atoi(mm[2]))
		fmt.Fprintf(b, "def fragNone : Nat := %d\n", c11Atoi(c11Match("frag", src, `if max <= (\d+) \{`)[1]))
		fmt.Fprintf(b, "def fragSmall : Nat := %d\n", c11Atoi(c11Match("frag", src, `if max < (\d+) \{\s*err := errors\.New`)[1]))
		fmt.Fprintf(b, "def fragHeader : Nat := %d\n", c11Atoi(c11Match("frag", src, `return max - (\d+), nil`)[1]))
		// shapes
		var outer *ast.ForStmt
		for _, st := range fs.Body.List {
			if f, ok := st.(*ast.ForStmt); ok && outer == nil {
				outer = f
			}
		}
		stops, halves, clamps, shift := false, false, false, 0
		if outer == nil {
			fail("C11: AutodetectFragmentSize: outer loop not found")
		} else {
			stops = strings.Contains(c11src(outer.Cond), "fragmentRange > 0")
			for _, st := range outer.Body.List {
				s := c11src(st)
				if as, ok := st.(*ast.AssignStmt); ok {
					if mm := regexp.MustCompile(`^fragmentRange = fragmentRange >> (\d+)$`).FindStringSubmatch(c11src(as)); mm != nil {
						halves = true
						shift = c11Atoi(mm[1])
					}
				}
				if is, ok := st.(*ast.IfStmt); ok && strings.Contains(c11src(is.Cond), "fragmentRange > proposed") && strings.Contains(s, "fragmentRange = proposed") {
					clamps = true
				}
			}
			if !halves {
				if mm := regexp.MustCompile(`fragmentRange = fragmentRange >> (\d+)`).FindStringSubmatch(src); mm != nil {
					shift = c11Atoi(mm[1])
				}
			}
		}
		fmt.Fprintf(b, "/-- the range is shifted right by this much -/\ndef fragShift : Nat := %d\n", shift)
		fmt.Fprintf(b, "/-- the outer loop condition requires fragmentRange > 0 -/\ndef fragStopsAtZero : Bool := %v\n", stops)
		fmt.Fprintf(b, "/-- the range is halved by a statement of the outer loop body (every round), not inside the retry loop -/\ndef fragHalvesEveryRound : Bool := %v\n", halves)
		fmt.Fprintf(b, "/-- when searching downwards the step is first clamped to the proposal -/\ndef fragClampsStep : Bool := %v\n", clamps)
		padded := strings.Contains(c11src(fn("SendFragmentSizeTest")), "Padding:")
		fmt.Fprintf(b, "/-- SendFragmentSizeTest pads the probe query to the longest name -/\ndef fragProbePadded : Bool := %v\n", padded)

		// Raw branch polarity, unconditional assignment
		ad := fn("AutodetectEncodingDowntream")
		rawOn := ""
		ast.Inspect(ad, func(x ast.Node) bool {
			if is, ok := x.(*ast.IfStmt); ok && is.Init != nil && strings.Contains(c11src(is.Init), "TestDownstreamEncoder(enc.RawEncoding)") {
				rawOn = c11src(is.Cond)
				return false
			}
			return true
		})
		if rawOn != "err == nil" && rawOn != "err != nil" {
			fail("C11: AutodetectEncodingDowntream: Raw test condition is %q", rawOn)
		}
		fmt.Fprintf(b, "/-- AutodetectEncodingDowntream: Raw is selected when its test succeeds (err == nil) -/\ndef rawOnSuccess : Bool := %v\n", rawOn == "err == nil")
		last := ""
		if n := len(ad.Body.List); n > 0 {
			last = c11src(ad.Body.List[n-1])
		}
		fmt.Fprintf(b, "/-- … and the function ends by assigning the downstream encoder unconditionally -/\ndef downAlwaysAssigned : Bool := %v\n", strings.HasPrefix(last, "dc.Serializer.Downstream.Encoder = "))

		// TestDownstreamEncoder: content mismatch returns a real error
		td := c11src(fn("TestDownstreamEncoder"))
		mm2 := c11Match("TestDownstreamEncoder", td, `if resp\.Data\[k\] != util\.DownloadCodecCheck\[k\] \{\s*return ([A-Za-z.]+)\(([a-z"]+)`)
		isErr := !(mm2[1] == "errors.Wrapf" && mm2[2] == "err") && mm2[1] != "nil"
		fmt.Fprintf(b, "/-- TestDownstreamEncoder: a reply with different content is reported as an error (not Wrapf(nil)) -/\ndef downMismatchIsError : Bool := %v\n", isErr)

		// serializer: empty answer rejected
		sf := parse("internal/streams/dns/commands/serializer.go")
		dd := findFunc(sf, "Serializer", "DecodeDnsResponseWithParams")
		chk := false
		if dd == nil {
			fail("C11: DecodeDnsResponseWithParams not found")
		} else {
			chk = strings.Contains(c11src(dd), "if len(data) == 0 {")
		}
		fmt.Fprintf(b, "/-- DecodeDnsResponseWithParams rejects an answer without data before indexing it -/\ndef emptyAnswerChecked : Bool := %v\n", chk)
		fmt.Fprintf(b, "\nend C11\n")
	})
}

package main

// C05: what happens to a FAILURE inside internal/util/cert/cert.go (a file that cannot be read, a PEM that does not
// parse, a failing password program).  The property needs every one of them to stop the configuration from being
// built: a swallowed failure leaves `RootCAs` / `ClientCAs` nil, and crypto/tls then verifies the peer against the
// machine's default trust store instead of the configured CA.
//
//   c05FailurePoints   every call in cert.go whose result is bound to an identifier named `err` or `ok`, as
//                      (function, callee, fate).  Identifiers are resolved to their declaration (go/ast objects), so a
//                      shadowed `err` is not mistaken for the one the function returns.  fate:
//                        returned        the bound object occurs in an operand of a `return` statement
//                        named-result    the bound object is a named result of the function (it flows out of
//                                        every later `return`)
//                        guard:<cond>    (for `ok`) the object occurs in the condition of an `if` whose body returns
//                        dropped         none of these: the failure is only compared, or never looked at
//   c05BlankResults    calls in cert.go with a result assigned to `_` where the callee is one of the fallible steps
//                      (ReadFile, X509KeyPair, AppendCertsFromPEM, Get*, addCaCertificates, Run, Parse*, Decrypt*,
//                      Marshal*): (function, callee)

import (
	"fmt"
	"go/ast"
	"strings"
)

func c05fFuncName(fd *ast.FuncDecl) string {
	_, typ := c05kRecvName(fd)
	if typ != "" {
		return typ + "." + fd.Name.Name
	}
	return fd.Name.Name
}

func c05fMentions(n ast.Node, obj *ast.Object) bool {
	found := false
	ast.Inspect(n, func(x ast.Node) bool {
		if id, ok := x.(*ast.Ident); ok && id.Obj == obj {
			found = true
		}
		return !found
	})
	return found
}

func c05fHasReturn(n ast.Node) bool {
	found := false
	ast.Inspect(n, func(x ast.Node) bool {
		if _, ok := x.(*ast.ReturnStmt); ok {
			found = true
		}
		if _, ok := x.(*ast.FuncLit); ok {
			return false
		}
		return !found
	})
	return found
}

func c05fFallible(callee string) bool {
	for _, s := range []string{"ReadFile", "X509KeyPair", "AppendCertsFromPEM", ".Get", "addCaCertificates", ".Run", "Parse", "Decrypt", "Marshal"} {
		if strings.Contains(callee, s) {
			return true
		}
	}
	return false
}

func init() {
	extractors = append(extractors, func(o *out) {
		b := o.w("C05Fail.lean")
		f := parse("internal/util/cert/cert.go")
		type pt struct{ fn, callee, fate string }
		var pts []pt
		var blanks [][2]string
		calls := map[string][]string{} // simple function name -> simple names of the functions of cert.go it calls
		simple := func(fn string) string { return fn[strings.LastIndex(fn, ".")+1:] }
		for _, d := range f.Decls {
			fd, ok := d.(*ast.FuncDecl)
			if !ok || fd.Body == nil {
				continue
			}
			fn := c05fFuncName(fd)
			named := map[*ast.Object]bool{}
			if fd.Type.Results != nil {
				for _, fl := range fd.Type.Results.List {
					for _, n := range fl.Names {
						if n.Obj != nil {
							named[n.Obj] = true
						}
					}
				}
			}
			ast.Inspect(fd.Body, func(n ast.Node) bool {
				if c, ok := n.(*ast.CallExpr); ok {
					switch fun := c.Fun.(type) {
					case *ast.Ident:
						calls[fd.Name.Name] = append(calls[fd.Name.Name], fun.Name)
					case *ast.SelectorExpr:
						calls[fd.Name.Name] = append(calls[fd.Name.Name], fun.Sel.Name)
					}
				}
				as, ok := n.(*ast.AssignStmt)
				if !ok || len(as.Rhs) != 1 {
					return true
				}
				call, ok := as.Rhs[0].(*ast.CallExpr)
				if !ok {
					return true
				}
				callee := exprString(call.Fun)
				if strings.HasPrefix(callee, "errors.") {
					return true
				}
				for _, l := range as.Lhs {
					id, ok := l.(*ast.Ident)
					if !ok {
						continue
					}
					if id.Name == "_" && c05fFallible(callee) {
						blanks = append(blanks, [2]string{fn, callee})
						continue
					}
					if (id.Name != "err" && id.Name != "ok") || id.Obj == nil {
						continue
					}
					obj := id.Obj
					fate := "dropped"
					if named[obj] {
						fate = "named-result"
					} else {
						ast.Inspect(fd.Body, func(x ast.Node) bool {
							switch s := x.(type) {
							case *ast.ReturnStmt:
								for _, r := range s.Results {
									if c05fMentions(r, obj) {
										fate = "returned"
									}
								}
							case *ast.IfStmt:
								if id.Name == "ok" && fate == "dropped" && c05fMentions(s.Cond, obj) && c05fHasReturn(s.Body) {
									fate = "guard:" + src(s.Cond)
								}
							}
							return true
						})
					}
					pts = append(pts, pt{fn, callee, fate})
				}
				return true
			})
		}
		if len(pts) == 0 {
			fail("cert.go: no fallible call bound to err / ok found")
		}
		ps := []string{}
		for _, p := range pts {
			ps = append(ps, fmt.Sprintf("(%q, %q, %q)", p.fn, p.callee, p.fate))
		}
		fmt.Fprintf(b, "/-- every call in internal/util/cert/cert.go whose result is bound to `err` / `ok`: (function, callee, what becomes of the failure) -/\ndef c05FailurePoints : List (String × String × String) := [\n  %s]\n", strings.Join(ps, ",\n  "))
		// what becomes of an unreadable file, per option: the ReadFile calls reachable from the getter (itself or the
		// functions of cert.go it calls, three levels deep)
		declared := map[string]bool{}
		for _, d := range f.Decls {
			if fd, ok := d.(*ast.FuncDecl); ok {
				declared[fd.Name.Name] = true
			}
		}
		var reach func(fn string, depth int, seen map[string]bool) (n int, dropped bool)
		reach = func(fn string, depth int, seen map[string]bool) (n int, dropped bool) {
			if depth > 3 || seen[fn] {
				return
			}
			seen[fn] = true
			for _, p := range pts {
				if simple(p.fn) == fn && strings.HasSuffix(p.callee, "ReadFile") {
					n++
					if p.fate != "returned" && p.fate != "named-result" {
						dropped = true
					}
				}
			}
			for _, bl := range blanks {
				if simple(bl[0]) == fn {
					dropped = true
				}
			}
			for _, c := range calls[fn] {
				if declared[c] && c != "findFile" {
					m, d := reach(c, depth+1, seen)
					n += m
					dropped = dropped || d
				}
			}
			return
		}
		rs := []string{}
		for _, g := range []string{"GetCertificate", "GetPrivateKey", "GetCaCertificates"} {
			if !declared[g] {
				fail("cert.go: no function %s", g)
				continue
			}
			n, dropped := reach(g, 0, map[string]bool{})
			fate := "propagated"
			if n == 0 {
				fate = "no-read"
			} else if dropped {
				fate = "swallowed"
			}
			rs = append(rs, fmt.Sprintf("(%q, %q)", g, fate))
		}
		fmt.Fprintf(b, "/-- what becomes of the error of reading the option's FILE, per getter of cert.Config: propagated (every ReadFile reachable from the getter hands its error to a return), swallowed, no-read -/\ndef c05FileReadFates : List (String × String) := [%s]\n", strings.Join(rs, ", "))
		// the verdict of AppendCertsFromPEM (false: nothing in the PEM parsed) must end the construction of the
		// configuration with an error: a semantic fact, the same whether the pool is filled in addCaCertificates itself or
		// in a function of cert.go it calls (followed three levels; the error of such a function must reach a return of
		// its caller).  "checked" = the call's result - directly or through the variable it is bound to - is tested
		// NEGATIVELY by an `if` whose body returns something other than a nil error (or positively with such an else).
		decl := map[string]*ast.FuncDecl{}
		for _, d := range f.Decls {
			if fd, ok := d.(*ast.FuncDecl); ok && fd.Body != nil {
				decl[fd.Name.Name] = fd
			}
		}
		isAppend := func(e ast.Expr) *ast.CallExpr {
			for {
				pe, ok := e.(*ast.ParenExpr)
				if !ok {
					break
				}
				e = pe.X
			}
			if c, ok := e.(*ast.CallExpr); ok {
				if sel, ok := c.Fun.(*ast.SelectorExpr); ok && sel.Sel.Name == "AppendCertsFromPEM" {
					return c
				}
			}
			return nil
		}
		// the AppendCertsFromPEM call whose verdict expression e stands for (the call itself, or an identifier defined by it)
		verdictOf := func(e ast.Expr) *ast.CallExpr {
			if c := isAppend(e); c != nil {
				return c
			}
			for {
				pe, ok := e.(*ast.ParenExpr)
				if !ok {
					break
				}
				e = pe.X
			}
			if id, ok := e.(*ast.Ident); ok && id.Obj != nil {
				if as, ok := id.Obj.Decl.(*ast.AssignStmt); ok && len(as.Rhs) == 1 && len(as.Lhs) == 1 {
					return isAppend(as.Rhs[0])
				}
			}
			return nil
		}
		// cond = (call, polarity): polarity false when the condition holds exactly if the verdict is false
		var condVerdict func(e ast.Expr, neg bool) (*ast.CallExpr, bool)
		condVerdict = func(e ast.Expr, neg bool) (*ast.CallExpr, bool) {
			switch x := e.(type) {
			case *ast.ParenExpr:
				return condVerdict(x.X, neg)
			case *ast.UnaryExpr:
				if x.Op.String() == "!" {
					return condVerdict(x.X, !neg)
				}
			case *ast.BinaryExpr:
				if op := x.Op.String(); op == "==" || op == "!=" {
					if lit, ok := x.Y.(*ast.Ident); ok && (lit.Name == "true" || lit.Name == "false") {
						flip := (lit.Name == "false") != (op == "!=")
						return condVerdict(x.X, neg != flip)
					}
				}
				return nil, false
			}
			return verdictOf(e), !neg
		}
		returnsError := func(list []ast.Stmt) bool {
			found, ok := false, true
			for _, st := range list {
				ast.Inspect(st, func(x ast.Node) bool {
					if _, isLit := x.(*ast.FuncLit); isLit {
						return false
					}
					if rs, isRet := x.(*ast.ReturnStmt); isRet {
						found = true
						if len(rs.Results) > 0 {
							if id, isId := rs.Results[len(rs.Results)-1].(*ast.Ident); isId && id.Name == "nil" {
								ok = false
							}
						}
					}
					return true
				})
			}
			return found && ok
		}
		var holdsAppend func(fn string, depth int) bool
		holdsAppend = func(fn string, depth int) bool {
			fd := decl[fn]
			if fd == nil || depth > 3 {
				return false
			}
			has := false
			ast.Inspect(fd.Body, func(x ast.Node) bool {
				if e, ok := x.(ast.Expr); ok && isAppend(e) != nil {
					has = true
				}
				return !has
			})
			for _, c := range calls[fn] {
				if !has && c != fn && decl[c] != nil {
					has = holdsAppend(c, depth+1)
				}
			}
			return has
		}
		nAppend, verdictOK := 0, true
		var why []string
		var visitV func(fn string, depth int, seen map[string]bool)
		visitV = func(fn string, depth int, seen map[string]bool) {
			fd := decl[fn]
			if fd == nil || depth > 3 || seen[fn] {
				return
			}
			seen[fn] = true
			all := map[*ast.CallExpr]bool{}
			ast.Inspect(fd.Body, func(x ast.Node) bool {
				if e, ok := x.(ast.Expr); ok {
					if c := isAppend(e); c != nil {
						if _, paren := e.(*ast.ParenExpr); !paren {
							all[c] = false
						}
					}
				}
				return true
			})
			ast.Inspect(fd.Body, func(x ast.Node) bool {
				is, ok := x.(*ast.IfStmt)
				if !ok {
					return true
				}
				c, pol := condVerdict(is.Cond, false)
				if c == nil {
					return true
				}
				if _, mine := all[c]; !mine {
					return true
				}
				if !pol && returnsError(is.Body.List) {
					all[c] = true
				}
				if eb, isBlock := is.Else.(*ast.BlockStmt); pol && isBlock && returnsError(eb.List) {
					all[c] = true
				}
				return true
			})
			for _, good := range all {
				nAppend++
				if !good {
					verdictOK = false
					why = append(why, fn+": the verdict of an AppendCertsFromPEM call does not guard a return of an error")
				}
			}
			seenCallee := map[string]bool{}
			for _, c := range calls[fn] {
				if c == fn || seenCallee[c] || decl[c] == nil || !holdsAppend(c, depth+1) {
					continue
				}
				seenCallee[c] = true
				n := 0
				for _, p := range pts {
					if simple(p.fn) == fn && simple(p.callee) == c {
						n++
						if p.fate != "returned" && p.fate != "named-result" {
							verdictOK = false
							why = append(why, fn+": the error of "+c+" is "+p.fate)
						}
					}
				}
				if n == 0 {
					verdictOK = false
					why = append(why, fn+": the result of "+c+" is not bound to err")
				}
				visitV(c, depth+1, seen)
			}
		}
		visitV("addCaCertificates", 0, map[string]bool{})
		if nAppend == 0 {
			verdictOK = false
			why = append(why, "no AppendCertsFromPEM call reachable from addCaCertificates")
		}
		fmt.Fprintf(b, "/-- true iff every AppendCertsFromPEM call reachable from Config.addCaCertificates (itself and the functions of cert.go it calls) has its verdict tested by an `if` that returns an error when it is false, and that error reaches a return of addCaCertificates -/\ndef c05CaPemVerdictChecked : Bool := %v\n", verdictOK)
		fmt.Fprintf(b, "/-- why not (empty when true) -/\ndef c05CaPemVerdictWhy : List String := %s\n", leanStrList05(why))
		bs := []string{}
		for _, p := range blanks {
			bs = append(bs, fmt.Sprintf("(%q, %q)", p[0], p[1]))
		}
		fmt.Fprintf(b, "/-- fallible calls in cert.go with a result thrown away (`_`): (function, callee) -/\ndef c05BlankResults : List (String × String) := [%s]\n", strings.Join(bs, ", "))
	})
}

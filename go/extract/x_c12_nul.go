package main

import (
	"fmt"
	"go/ast"
	"strings"
)

// C12 / C10 fact: every response decoder reads its error text with `data.ReadString(0)`; the text runs to the end of
// the answer, so ReadString is expected to end with io.EOF.  A NUL inside the text makes it return err == nil — the
// decoders treat that as a malformed answer (`if err == nil { return <error> }`) instead of passing the nil on.
func init() {
	extractors = append(extractors, func(o *out) {
		b := o.w("C12Nul.lean")
		total, guarded := 0, 0
		for _, f := range goFiles("internal/streams/dns/commands") {
			af := parse(f)
			if af == nil {
				continue
			}
			for _, d := range af.Decls {
				fd, ok := d.(*ast.FuncDecl)
				if !ok || fd.Body == nil || fd.Name.Name != "Decode" {
					continue
				}
				var walk func(list []ast.Stmt)
				walk = func(list []ast.Stmt) {
					for i, st := range list {
						if as, ok := st.(*ast.AssignStmt); ok && len(as.Rhs) == 1 && strings.HasSuffix(callName(as.Rhs[0]), ".ReadString") {
							total++
							if i+1 < len(list) {
								if is, ok := list[i+1].(*ast.IfStmt); ok && src(is.Cond) == "err == nil" && len(is.Body.List) > 0 {
									if rs, ok := is.Body.List[len(is.Body.List)-1].(*ast.ReturnStmt); ok && len(rs.Results) == 1 && src(rs.Results[0]) != "nil" && src(rs.Results[0]) != "err" {
										guarded++
									}
								}
							}
						}
						switch x := st.(type) {
						case *ast.IfStmt:
							walk(x.Body.List)
							if e, ok := x.Else.(*ast.BlockStmt); ok {
								walk(e.List)
							} else if e, ok := x.Else.(*ast.IfStmt); ok {
								walk([]ast.Stmt{e})
							}
						case *ast.BlockStmt:
							walk(x.List)
						case *ast.ForStmt:
							walk(x.Body.List)
						}
					}
				}
				walk(fd.Body.List)
			}
		}
		if total == 0 {
			fail("dns/commands: no ReadString call found in any Decode")
		}
		fmt.Fprintf(b, "/-- response decoders: number of `ReadString(0)` reads of an error text, and how many of them are followed by\n    `if err == nil { return <an error> }` (a NUL inside the text is a malformed answer) -/\ndef errTextReads : Nat := %d\ndef errTextReadsGuarded : Nat := %d\n/-- a NUL inside an error text makes the decoder fail (all reads guarded) -/\ndef errTextNulRejected : Bool := %v\n\n", total, guarded, total > 0 && total == guarded)
	})
}

package main

import (
	"fmt"
	"go/ast"
	"strings"
)

// C05 (a client that does not ask for StartTLS presents no certificate): ServerConnection.upgrade's final, plain
// branch — the statements after the `if … Security … StartTLS { … }` block — must be preceded by a refusal guarded by
// the client-certificate requirement; and the announce step must refuse when the requirement is set and the TLS
// configuration cannot be loaded.  Facts: the conditions of the `if` statements at the top level of `upgrade` after the
// StartTLS block that end in `return nil, err`, and whether the GetTlsConfig error branch of `handshake` returns under
// the requirement.
func init() {
	extractors = append(extractors, func(o *out) {
		b := o.w("C05ReqCert.lean")
		const file = "internal/socketace/server.go"
		f := parse(file)
		var guards []string
		if up := findFunc(f, "ServerConnection", "upgrade"); up == nil || up.Body == nil {
			fail("%s: ServerConnection.upgrade not found", file)
		} else {
			after := false
			defs := c05rLocalDefs(up.Body)
			for _, st := range up.Body.List {
				is, ok := st.(*ast.IfStmt)
				if !ok {
					continue
				}
				cond := strings.Join(strings.Fields(c05rExpand(is.Cond, defs, true, 0)), "")
				if strings.Contains(cond, "CapabilityStartTls") {
					after = true
					continue
				}
				if after && len(is.Body.List) > 0 {
					if r, ok := is.Body.List[len(is.Body.List)-1].(*ast.ReturnStmt); ok && len(r.Results) == 2 && src(r.Results[0]) == "nil" {
						guards = append(guards, cond)
					}
				}
			}
		}
		announce := false
		if hs := findFunc(f, "ServerConnection", "handshake"); hs != nil && hs.Body != nil {
			ast.Inspect(hs.Body, func(n ast.Node) bool {
				is, ok := n.(*ast.IfStmt)
				if !ok || is.Init == nil || !strings.Contains(src(is.Init), "GetTlsConfig()") {
					return true
				}
				for _, st := range is.Body.List {
					if in, ok := st.(*ast.IfStmt); ok && strings.Contains(src(in.Cond), "clientCertRequired()") && len(in.Body.List) > 0 {
						if _, ok := in.Body.List[len(in.Body.List)-1].(*ast.ReturnStmt); ok {
							announce = true
						}
					}
				}
				return true
			})
		}
		direct := false
		if cr := findFunc(f, "ServerConnection", "clientCertRequired"); cr != nil && cr.Body != nil {
			t := strings.Join(strings.Fields(src(cr.Body)), "")
			direct = strings.Contains(t, "ClientCertRequired()bool") && strings.Contains(t, "returnm.ClientCertRequired()") && strings.HasSuffix(t, "returnfalse}")
		}
		fmt.Fprintf(b, "/-- %s upgrade: conditions of the refusals between the StartTLS block and the plain 101 answer -/\ndef c05PlainUpgradeGuards : List String := %s\n\n", file, leanStrList14(guards))
		fmt.Fprintf(b, "/-- … handshake: a TLS configuration that cannot be loaded ends the announce step when client certificates are required -/\ndef c05AnnounceRefusesUnloadable : Bool := %v\n\n", announce)
		fmt.Fprintf(b, "/-- … clientCertRequired() is the manager's own ClientCertRequired() (false when it has none) -/\ndef c05RequirementFromManager : Bool := %v\n", direct)
	})
}

// c05rLocalDefs: the local variables of body that are assigned exactly once, by `name := <expr>` (one name, one
// value) — a named condition such as `startTlsRequested := strings.ToUpper(…) == strings.ToUpper(CapabilityStartTls)`.
// Variables also assigned elsewhere (=, op=, ++, multi-value, range, &x) are left out.
func c05rLocalDefs(body *ast.BlockStmt) map[string]ast.Expr {
	defs := map[string]ast.Expr{}
	count := map[string]int{}
	ast.Inspect(body, func(n ast.Node) bool {
		switch x := n.(type) {
		case *ast.AssignStmt:
			for _, l := range x.Lhs {
				if id, ok := l.(*ast.Ident); ok {
					count[id.Name]++
				}
			}
			if x.Tok.String() == ":=" && len(x.Lhs) == 1 && len(x.Rhs) == 1 {
				if id, ok := x.Lhs[0].(*ast.Ident); ok {
					defs[id.Name] = x.Rhs[0]
				}
			}
		case *ast.IncDecStmt:
			if id, ok := x.X.(*ast.Ident); ok {
				count[id.Name] += 2
			}
		case *ast.RangeStmt:
			for _, l := range []ast.Expr{x.Key, x.Value} {
				if id, ok := l.(*ast.Ident); ok {
					count[id.Name] += 2
				}
			}
		case *ast.UnaryExpr:
			if id, ok := x.X.(*ast.Ident); ok && x.Op.String() == "&" {
				count[id.Name] += 2
			}
		case *ast.ValueSpec:
			for _, nm := range x.Names {
				count[nm.Name] += 2
			}
		}
		return true
	})
	for k := range defs {
		if count[k] != 1 {
			delete(defs, k)
		}
	}
	return defs
}

// c05rExpand renders a condition with every such named sub-condition replaced by its defining expression (in
// parentheses unless it stands alone or is itself a primary expression), so that `if startTlsRequested {` reads as
// the comparison it names and `required := !sc.secure && sc.clientCertRequired(); if required {` as that conjunction.
func c05rExpand(e ast.Expr, defs map[string]ast.Expr, top bool, depth int) string {
	if depth > 4 {
		return src(e)
	}
	switch x := e.(type) {
	case *ast.Ident:
		if d, ok := defs[x.Name]; ok {
			s := c05rExpand(d, defs, true, depth+1)
			if _, bin := d.(*ast.BinaryExpr); bin && !top {
				return "(" + s + ")"
			}
			return s
		}
	case *ast.ParenExpr:
		if top {
			return c05rExpand(x.X, defs, true, depth)
		}
		return "(" + c05rExpand(x.X, defs, true, depth) + ")"
	case *ast.UnaryExpr:
		return x.Op.String() + c05rExpand(x.X, defs, false, depth)
	case *ast.BinaryExpr:
		if x.Op.String() == "&&" || x.Op.String() == "||" {
			return c05rExpand(x.X, defs, false, depth) + " " + x.Op.String() + " " + c05rExpand(x.Y, defs, false, depth)
		}
	}
	return src(e)
}

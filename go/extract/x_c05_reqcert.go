package main

import (
	"fmt"
	"go/ast"
	"strings"
)

// C05 (a client that does not ask for StartTLS presents no certificate): ServerConnection.upgrade's final, plain
// branch — the statements after the `if … Security … StartTLS { … }` block — must be preceded by a refusal guarded by
// the client-certificate requirement; and the announce step must refuse when the requirement is set and the TLS
// configuration cannot be loaded.  Facts: the conditions of the `if` statements at the top level of `upgrade` after the
// StartTLS block that end in `return nil, err`, and whether the GetTlsConfig error branch of `handshake` returns under
// the requirement.
func init() {
	extractors = append(extractors, func(o *out) {
		b := o.w("C05ReqCert.lean")
		const file = "internal/socketace/server.go"
		f := parse(file)
		var guards []string
		if up := findFunc(f, "ServerConnection", "upgrade"); up == nil || up.Body == nil {
			fail("%s: ServerConnection.upgrade not found", file)
		} else {
			after := false
			for _, st := range up.Body.List {
				is, ok := st.(*ast.IfStmt)
				if !ok {
					continue
				}
				cond := strings.Join(strings.Fields(src(is.Cond)), "")
				if strings.Contains(cond, "CapabilityStartTls") {
					after = true
					continue
				}
				if after && len(is.Body.List) > 0 {
					if r, ok := is.Body.List[len(is.Body.List)-1].(*ast.ReturnStmt); ok && len(r.Results) == 2 && src(r.Results[0]) == "nil" {
						guards = append(guards, cond)
					}
				}
			}
		}
		announce := false
		if hs := findFunc(f, "ServerConnection", "handshake"); hs != nil && hs.Body != nil {
			ast.Inspect(hs.Body, func(n ast.Node) bool {
				is, ok := n.(*ast.IfStmt)
				if !ok || is.Init == nil || !strings.Contains(src(is.Init), "GetTlsConfig()") {
					return true
				}
				for _, st := range is.Body.List {
					if in, ok := st.(*ast.IfStmt); ok && strings.Contains(src(in.Cond), "clientCertRequired()") && len(in.Body.List) > 0 {
						if _, ok := in.Body.List[len(in.Body.List)-1].(*ast.ReturnStmt); ok {
							announce = true
						}
					}
				}
				return true
			})
		}
		direct := false
		if cr := findFunc(f, "ServerConnection", "clientCertRequired"); cr != nil && cr.Body != nil {
			t := strings.Join(strings.Fields(src(cr.Body)), "")
			direct = strings.Contains(t, "ClientCertRequired()bool") && strings.Contains(t, "returnm.ClientCertRequired()") && strings.HasSuffix(t, "returnfalse}")
		}
		fmt.Fprintf(b, "/-- %s upgrade: conditions of the refusals between the StartTLS block and the plain 101 answer -/\ndef c05PlainUpgradeGuards : List String := %s\n\n", file, leanStrList14(guards))
		fmt.Fprintf(b, "/-- … handshake: a TLS configuration that cannot be loaded ends the announce step when client certificates are required -/\ndef c05AnnounceRefusesUnloadable : Bool := %v\n\n", announce)
		fmt.Fprintf(b, "/-- … clientCertRequired() is the manager's own ClientCertRequired() (false when it has none) -/\ndef c05RequirementFromManager : Bool := %v\n", direct)
	})
}

package main

import (
	"go/ast"
	"go/token"
)

// C05: what VALUE startTls gives tls.Config.ServerName, established by a small symbolic evaluation instead of by the
// shape of the statements.  The value of a string expression is one of
//
//	host   the connection's host field (`<receiver>.host`) as it stands
//	part   the first result of net.SplitHostPort(host) — meaningful only where that call's error is known to be nil
//	strip  part when net.SplitHostPort(host) succeeds, host when it fails (the port-stripped host)
//	?      anything else
//
// Statements are executed in order over an environment local-variable → value, under a path condition any / ok / fail
// on the outcome of the split (`err == nil` / `err != nil` on the error variable of the split; an `if` whose body always
// leaves puts the rest of the block under the negated condition).  After `if`/`else` a variable that is part-or-strip on
// the ok side and host-or-strip on the fail side is strip.  A call of a function or method of the same package is
// evaluated in its body with the parameters bound to the argument values (three levels), its value being the
// combination of its `return`s in the same way.  So
//
//	name := cc.host; if h, _, err := net.SplitHostPort(name); err == nil { name = h }; cfg.ServerName = name
//
// and `cfg.ServerName = tlsServerName(cc.host)` with
//
//	func tlsServerName(a string) string { if h, _, err := net.SplitHostPort(a); err == nil { return h }; return a }
//
// both give strip; `cfg.ServerName = cc.host` gives host; a swapped test, a split of something else, or the wrong
// result of the split give ?.
type c05nv int

const (
	c05nvUnknown c05nv = iota
	c05nvHost
	c05nvPart
	c05nvStrip
)

type c05pc int // path condition on the outcome of the split

const (
	c05pcAny c05pc = iota
	c05pcOK
	c05pcFail
)

type c05ret struct {
	pc c05pc
	v  c05nv
}

type c05nameEval struct {
	fd      *ast.FuncDecl
	recv    string
	errVar  string // error variable of the last net.SplitHostPort(host)
	rets    []c05ret
	depth   int
	onField func(field string, v c05nv, pc c05pc) // every `x.<Field> = e` met on the way
}

func c05copyEnv(env map[string]c05nv) map[string]c05nv {
	m := make(map[string]c05nv, len(env))
	for k, v := range env {
		m[k] = v
	}
	return m
}

// c05join: value of a variable after a two-way branch on the split's outcome (a under ok, b under fail)
func c05join(a, b c05nv) c05nv {
	if (a == c05nvPart || a == c05nvStrip) && (b == c05nvHost || b == c05nvStrip) {
		return c05nvStrip
	}
	if a == b && a != c05nvPart {
		return a
	}
	return c05nvUnknown
}

// under: the value as seen under path condition pc (part is the empty string unless the split succeeded)
func c05under(v c05nv, pc c05pc) c05nv {
	if v == c05nvPart && pc != c05pcOK {
		return c05nvUnknown
	}
	return v
}

func (e *c05nameEval) eval(x ast.Expr, env map[string]c05nv, pc c05pc) c05nv {
	switch n := x.(type) {
	case *ast.ParenExpr:
		return e.eval(n.X, env, pc)
	case *ast.Ident:
		if v, ok := env[n.Name]; ok {
			return c05under(v, pc)
		}
	case *ast.SelectorExpr:
		if id, ok := n.X.(*ast.Ident); ok && e.recv != "" && id.Name == e.recv && n.Sel.Name == "host" {
			if _, shadow := env[id.Name]; !shadow {
				return c05nvHost
			}
		}
	case *ast.CallExpr:
		if e.depth >= 3 {
			return c05nvUnknown
		}
		callee := c02Callee(e.fd, n.Fun)
		if callee == nil || callee.Body == nil || callee.Type.Results == nil || len(callee.Type.Results.List) != 1 ||
			len(callee.Type.Results.List[0].Names) > 1 {
			return c05nvUnknown
		}
		var params []string
		for _, p := range callee.Type.Params.List {
			for _, nm := range p.Names {
				params = append(params, nm.Name)
			}
		}
		if len(params) != len(n.Args) {
			return c05nvUnknown
		}
		cenv := map[string]c05nv{}
		for i, a := range n.Args {
			cenv[params[i]] = e.eval(a, env, pc)
		}
		sub := &c05nameEval{fd: callee, depth: e.depth + 1}
		if _, isMethod := n.Fun.(*ast.SelectorExpr); isMethod {
			sub.recv, _ = c02Recv(callee)
		}
		if !sub.block(callee.Body.List, cenv, c05pcAny) {
			return c05nvUnknown // falls off the end: not a plain value-returning helper
		}
		return sub.result()
	}
	return c05nvUnknown
}

// result: the combination of the recorded returns
func (e *c05nameEval) result() c05nv {
	ok, fl := c05nv(-1), c05nv(-1)
	put := func(slot *c05nv, v c05nv) {
		if *slot == -1 || *slot == v {
			*slot = v
		} else {
			*slot = c05nvUnknown
		}
	}
	for _, r := range e.rets {
		if r.pc == c05pcAny || r.pc == c05pcOK {
			put(&ok, r.v)
		}
		if r.pc == c05pcAny || r.pc == c05pcFail {
			put(&fl, c05under(r.v, c05pcFail))
		}
	}
	if ok == -1 || fl == -1 {
		return c05nvUnknown
	}
	if ok == fl && ok != c05nvPart {
		return ok
	}
	return c05join(ok, fl)
}

// splitCond: is cond a test of the split's error variable?  (pc of the then-branch, true) if so
func (e *c05nameEval) splitCond(cond ast.Expr) (c05pc, bool) {
	for {
		p, ok := cond.(*ast.ParenExpr)
		if !ok {
			break
		}
		cond = p.X
	}
	b, ok := cond.(*ast.BinaryExpr)
	if !ok || e.errVar == "" || (b.Op != token.EQL && b.Op != token.NEQ) {
		return c05pcAny, false
	}
	l, r := c05src(b.X), c05src(b.Y)
	if r == e.errVar && l == "nil" {
		l, r = r, l
	}
	if l != e.errVar || r != "nil" {
		return c05pcAny, false
	}
	if b.Op == token.EQL {
		return c05pcOK, true
	}
	return c05pcFail, true
}

func c05and(outer, inner c05pc) (c05pc, bool) {
	if outer == c05pcAny || outer == inner {
		return inner, true
	}
	return inner, false // contradictory: unreachable
}

func c05neg(pc c05pc) c05pc {
	switch pc {
	case c05pcOK:
		return c05pcFail
	case c05pcFail:
		return c05pcOK
	}
	return c05pcAny
}

// clobber: every variable assigned anywhere in n becomes unknown; returns inside n are recorded as unknown
func (e *c05nameEval) clobber(n ast.Node, env map[string]c05nv, pc c05pc) {
	ast.Inspect(n, func(x ast.Node) bool {
		switch s := x.(type) {
		case *ast.FuncLit:
			return false
		case *ast.AssignStmt:
			for _, l := range s.Lhs {
				if id, ok := l.(*ast.Ident); ok {
					env[id.Name] = c05nvUnknown
					if id.Name == e.errVar {
						e.errVar = ""
					}
				}
			}
		case *ast.IncDecStmt:
			if id, ok := s.X.(*ast.Ident); ok {
				env[id.Name] = c05nvUnknown
			}
		case *ast.RangeStmt:
			for _, l := range []ast.Expr{s.Key, s.Value} {
				if id, ok := l.(*ast.Ident); ok {
					env[id.Name] = c05nvUnknown
				}
			}
		case *ast.ReturnStmt:
			e.rets = append(e.rets, c05ret{pc, c05nvUnknown})
		}
		return true
	})
}

func (e *c05nameEval) assign(as *ast.AssignStmt, env map[string]c05nv, pc c05pc) {
	// h, _, err := net.SplitHostPort(<host>)
	if len(as.Rhs) == 1 && len(as.Lhs) == 3 {
		if call, ok := as.Rhs[0].(*ast.CallExpr); ok && c05src(call.Fun) == "net.SplitHostPort" && len(call.Args) == 1 &&
			e.eval(call.Args[0], env, pc) == c05nvHost {
			for i, l := range as.Lhs {
				if id, ok := l.(*ast.Ident); ok && id.Name != "_" {
					env[id.Name] = c05nvUnknown
					if i == 0 {
						env[id.Name] = c05nvPart
					}
					if i == 2 {
						e.errVar = id.Name
					}
				}
			}
			return
		}
	}
	if as.Tok != token.ASSIGN && as.Tok != token.DEFINE {
		e.clobber(as, env, pc)
		return
	}
	if len(as.Lhs) == len(as.Rhs) {
		vals := make([]c05nv, len(as.Rhs))
		for i, r := range as.Rhs {
			vals[i] = e.eval(r, env, pc)
		}
		for i, l := range as.Lhs {
			switch t := l.(type) {
			case *ast.Ident:
				if t.Name != "_" {
					env[t.Name] = vals[i]
					if t.Name == e.errVar {
						e.errVar = ""
					}
				}
			case *ast.SelectorExpr:
				if e.onField != nil {
					e.onField(t.Sel.Name, vals[i], pc)
				}
			}
		}
		return
	}
	e.clobber(as, env, pc)
}

// block executes the statements; true iff the list always leaves by `return`
func (e *c05nameEval) block(list []ast.Stmt, env map[string]c05nv, pc c05pc) bool {
	for _, st := range list {
		switch s := st.(type) {
		case *ast.AssignStmt:
			e.assign(s, env, pc)
		case *ast.DeclStmt:
			if gd, ok := s.Decl.(*ast.GenDecl); ok {
				for _, sp := range gd.Specs {
					vs, ok := sp.(*ast.ValueSpec)
					if !ok {
						continue
					}
					for i, nm := range vs.Names {
						env[nm.Name] = c05nvUnknown
						if len(vs.Values) == len(vs.Names) {
							env[nm.Name] = e.eval(vs.Values[i], env, pc)
						}
					}
				}
			}
		case *ast.ReturnStmt:
			v := c05nvUnknown
			if len(s.Results) == 1 {
				v = e.eval(s.Results[0], env, pc)
			}
			e.rets = append(e.rets, c05ret{pc, v})
			return true
		case *ast.BlockStmt:
			if e.block(s.List, env, pc) {
				return true
			}
		case *ast.IfStmt:
			if s.Init != nil {
				if as, ok := s.Init.(*ast.AssignStmt); ok {
					e.assign(as, env, pc)
				} else {
					e.clobber(s.Init, env, pc)
				}
			}
			tpc, isSplit := e.splitCond(s.Cond)
			thenPC, elsePC, thenLive, elseLive := pc, pc, true, true
			if isSplit {
				thenPC, thenLive = c05and(pc, tpc)
				elsePC, elseLive = c05and(pc, c05neg(tpc))
			}
			tenv, eenv := c05copyEnv(env), c05copyEnv(env)
			errBefore := e.errVar
			tLeaves, eLeaves := false, false
			if thenLive {
				tLeaves = e.block(s.Body.List, tenv, thenPC)
			} else {
				tLeaves = true
			}
			e.errVar = errBefore
			if s.Else != nil && elseLive {
				eLeaves = e.block([]ast.Stmt{s.Else}, eenv, elsePC)
			} else if !elseLive {
				eLeaves = true
			}
			e.errVar = errBefore
			switch {
			case tLeaves && eLeaves:
				return true
			case tLeaves:
				for k := range env {
					delete(env, k)
				}
				for k, v := range eenv {
					env[k] = v
				}
				pc = elsePC
			case eLeaves:
				for k := range env {
					delete(env, k)
				}
				for k, v := range tenv {
					env[k] = v
				}
				pc = thenPC
			default:
				for k := range env {
					tv, tok := tenv[k]
					ev, eok := eenv[k]
					switch {
					case !tok || !eok:
						env[k] = c05nvUnknown
					case isSplit && pc == c05pcAny && tpc == c05pcOK:
						env[k] = c05join(tv, ev)
					case isSplit && pc == c05pcAny && tpc == c05pcFail:
						env[k] = c05join(ev, tv)
					case tv == ev:
						env[k] = tv
					default:
						env[k] = c05nvUnknown
					}
				}
			}
		case *ast.ExprStmt, *ast.EmptyStmt, *ast.DeferStmt, *ast.GoStmt:
			// no effect on local string values (closures assigning to them are not followed: clobber)
			e.clobberLits(st, env)
		default:
			e.clobber(st, env, pc)
		}
	}
	return false
}

// clobberLits: a func literal inside the statement may assign captured variables
func (e *c05nameEval) clobberLits(n ast.Node, env map[string]c05nv) {
	ast.Inspect(n, func(x ast.Node) bool {
		if fl, ok := x.(*ast.FuncLit); ok {
			ast.Inspect(fl.Body, func(y ast.Node) bool {
				if as, ok := y.(*ast.AssignStmt); ok {
					for _, l := range as.Lhs {
						if id, ok := l.(*ast.Ident); ok {
							if _, tracked := env[id.Name]; tracked {
								env[id.Name] = c05nvUnknown
							}
						}
					}
				}
				return true
			})
			return false
		}
		return true
	})
}

// c05fieldValue: the value every assignment `x.<field> = e` in fd's body gives the field, with its path condition
func c05fieldValue(fd *ast.FuncDecl, field string) []c05ret {
	var got []c05ret
	ev := &c05nameEval{fd: fd}
	ev.recv, _ = c02Recv(fd)
	ev.onField = func(f string, v c05nv, pc c05pc) {
		if f == field {
			got = append(got, c05ret{pc, v})
		}
	}
	ev.block(fd.Body.List, map[string]c05nv{}, c05pcAny)
	return got
}

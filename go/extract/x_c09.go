package main

// Facts for C09 (DNS requests over the wire) and C10 (DNS responses over the wire):
// codec codes and exact rational ratios, the command table, BadErrors, Dotify stride, PrepareHostname
// slack, MaxUserId, wrap chunk sizes, private type numbers, and whether UnwrapDnsResponse undoes
// presentation escaping.

import (
	"fmt"
	"go/ast"
	"go/constant"
	"go/token"
	"math/big"
	"strings"
)

// ratOf evaluates an expression made of numeric literals, parentheses and + - * / exactly.
func ratOf(e ast.Expr) *big.Rat {
	switch x := e.(type) {
	case *ast.BasicLit:
		r, ok := new(big.Rat).SetString(x.Value)
		if !ok {
			return nil
		}
		return r
	case *ast.ParenExpr:
		return ratOf(x.X)
	case *ast.BinaryExpr:
		a, b := ratOf(x.X), ratOf(x.Y)
		if a == nil || b == nil {
			return nil
		}
		switch x.Op {
		case token.QUO:
			if b.Sign() == 0 {
				return nil
			}
			return new(big.Rat).Quo(a, b)
		case token.MUL:
			return new(big.Rat).Mul(a, b)
		case token.ADD:
			return new(big.Rat).Add(a, b)
		case token.SUB:
			return new(big.Rat).Sub(a, b)
		}
	}
	return nil
}

func singleReturn(fd *ast.FuncDecl) ast.Expr {
	if fd == nil || fd.Body == nil {
		return nil
	}
	for _, st := range fd.Body.List {
		if r, ok := st.(*ast.ReturnStmt); ok && len(r.Results) == 1 {
			return r.Results[0]
		}
	}
	return nil
}

// intLits collects the integer literals below n (in source order)
func intLits(n ast.Node) []int64 {
	var out []int64
	ast.Inspect(n, func(x ast.Node) bool {
		if b, ok := x.(*ast.BasicLit); ok && b.Kind == token.INT {
			v := constant.MakeFromLiteral(b.Value, b.Kind, 0)
			if i, ok := constant.Int64Val(v); ok {
				out = append(out, i)
			}
		}
		return true
	})
	return out
}

// chunkLimit finds `len(<ident>) > N` in fd and returns N
func chunkLimit(fd *ast.FuncDecl, ident string) (int64, bool) {
	var res int64
	found := false
	ast.Inspect(fd, func(x ast.Node) bool {
		be, ok := x.(*ast.BinaryExpr)
		if !ok || be.Op != token.GTR {
			return true
		}
		call, ok := be.X.(*ast.CallExpr)
		if !ok || exprString(call.Fun) != "len" || len(call.Args) != 1 || exprString(call.Args[0]) != ident {
			return true
		}
		if lit, ok := be.Y.(*ast.BasicLit); ok && lit.Kind == token.INT && !found {
			v, _ := constant.Int64Val(constant.MakeFromLiteral(lit.Value, lit.Kind, 0))
			if v != 0 {
				res, found = v, true
			}
		}
		return true
	})
	return res, found
}

func countCalls(n ast.Node, name string, pred func(*ast.CallExpr) bool) int {
	c := 0
	ast.Inspect(n, func(x ast.Node) bool {
		if call, ok := x.(*ast.CallExpr); ok && exprString(call.Fun) == name && (pred == nil || pred(call)) {
			c++
		}
		return true
	})
	return c
}

func init() {
	extractors = append(extractors, func(o *out) {
		b := o.w("C09.lean")
		// own sub-namespace: SA.Gen.C09.* (other properties extract similarly named facts)
		fmt.Fprintf(b, "namespace C09\n\n")
		defer fmt.Fprintf(b, "\nend C09\n")

		// --- codecs: code letter and exact ratio, in FromCode registry order
		type cd struct{ file, recv, name string }
		codecs := []cd{
			{"base32.go", "Base32Encoder", "base32"}, {"base64.go", "Base64Encoder", "base64"},
			{"base64u.go", "Base64uEncoder", "base64u"}, {"base85.go", "Base85Encoder", "base85"},
			{"base91.go", "Base91Encoder", "base91"}, {"base128.go", "Base128Encoder", "base128"},
			{"base192.go", "Base192Encoder", "base192"}, {"raw.go", "RawEncoder", "raw"},
		}
		var rows []string
		for _, c := range codecs {
			f := parse("internal/util/enc/" + c.file)
			en := fileConsts(f, nil)
			code := methodReturn(f, c.recv, "Code", en)
			ratio := ratOf(singleReturn(findFunc(f, c.recv, "Ratio")))
			if code == nil || ratio == nil || ratio.Sign() <= 0 {
				fail("codec %s: Code()/Ratio() not a constant", c.name)
				continue
			}
			cv, _ := constant.Int64Val(constant.ToInt(code))
			rows = append(rows, fmt.Sprintf("(%d, %s, %s)", cv, ratio.Num().String(), ratio.Denom().String()))
			if en["cb32"] != nil && c.name == "base32" {
				fmt.Fprintf(b, "/-- enc/base32.go cb32 -/\ndef c09cb32 : List Nat := %s\n", leanBytes(strConst(en, "cb32", "base32.go")))
			}
			if c.name == "base64" {
				fmt.Fprintf(b, "def c09cb64 : List Nat := %s\n", leanBytes(strConst(en, "cb64", "base64.go")))
			}
			if c.name == "base64u" {
				fmt.Fprintf(b, "def c09cb64u : List Nat := %s\n", leanBytes(strConst(en, "cb64u", "base64u.go")))
			}
		}
		fmt.Fprintf(b, "/-- (Code(), Ratio() numerator, denominator) per codec in FromCode order; ratio exact -/\ndef codecRatios : List (Nat × Nat × Nat) := [%s]\n", strings.Join(rows, ", "))

		// --- command table
		cmdFiles := []string{"commands.go", "cmd_version.go", "cmd_set_options.go", "cmd_test_fragment_size.go",
			"cmd_test_downstream_encoder.go", "cmd_test_upstream_encoder.go", "cmd_packet.go", "cmd_error.go"}
		type cmdInfo struct {
			code            int64
			uid, hasQ, hasR bool
		}
		table := map[string]cmdInfo{}
		var order []string
		for _, fn := range cmdFiles {
			f := parse("internal/streams/dns/commands/" + fn)
			for _, d := range f.Decls {
				g, ok := d.(*ast.GenDecl)
				if !ok || g.Tok != token.VAR {
					continue
				}
				for _, s := range g.Specs {
					vs := s.(*ast.ValueSpec)
					for i, n := range vs.Names {
						if i >= len(vs.Values) {
							continue
						}
						cl, ok := vs.Values[i].(*ast.CompositeLit)
						if !ok {
							continue
						}
						if exprString(cl.Type) == "Command" {
							ci := cmdInfo{}
							for _, el := range cl.Elts {
								kv, ok := el.(*ast.KeyValueExpr)
								if !ok {
									continue
								}
								switch exprString(kv.Key) {
								case "Code":
									if v := evalExpr(kv.Value, env{}); v != nil {
										ci.code, _ = constant.Int64Val(constant.ToInt(v))
									}
								case "NeedsUserId":
									ci.uid = exprString(kv.Value) == "true"
								case "NewRequest":
									ci.hasQ = true
								case "NewResponse":
									ci.hasR = true
								}
							}
							table[n.Name] = ci
						}
						if n.Name == "Commands" {
							for _, el := range cl.Elts {
								order = append(order, exprString(el))
							}
						}
					}
				}
			}
		}
		var crow []string
		for _, n := range order {
			ci, ok := table[n]
			if !ok || ci.code == 0 {
				fail("command %s of Commands not found", n)
				continue
			}
			crow = append(crow, fmt.Sprintf("(%d, %v, %v, %v)", ci.code, ci.uid, ci.hasQ, ci.hasR))
		}
		if len(crow) == 0 {
			fail("Commands table not found")
		}
		fmt.Fprintf(b, "/-- commands.go Commands in order: (Code, NeedsUserId, has NewRequest, has NewResponse) -/\ndef commandTable : List (Nat × Bool × Bool × Bool) := [%s]\n", strings.Join(crow, ", "))

		// --- BadErrors
		ef := parse("internal/streams/dns/commands/errors.go")
		errText := map[string]string{}
		var badOrder []string
		for _, d := range ef.Decls {
			g, ok := d.(*ast.GenDecl)
			if !ok || g.Tok != token.VAR {
				continue
			}
			for _, s := range g.Specs {
				vs := s.(*ast.ValueSpec)
				for i, n := range vs.Names {
					if i >= len(vs.Values) {
						continue
					}
					if call, ok := vs.Values[i].(*ast.CallExpr); ok && exprString(call.Fun) == "errors.New" && len(call.Args) == 1 {
						if v := evalExpr(call.Args[0], env{}); v != nil && v.Kind() == constant.String {
							errText[n.Name] = constant.StringVal(v)
						}
					}
					if cl, ok := vs.Values[i].(*ast.CompositeLit); ok && n.Name == "BadErrors" {
						for _, el := range cl.Elts {
							badOrder = append(badOrder, exprString(el))
						}
					}
				}
			}
		}
		var brow []string
		for _, n := range badOrder {
			t, ok := errText[n]
			if !ok {
				fail("BadErrors entry %s has no text", n)
			}
			brow = append(brow, leanBytes(t))
		}
		if len(brow) == 0 {
			fail("BadErrors not found")
		}
		fmt.Fprintf(b, "/-- commands/errors.go BadErrors texts -/\ndef badErrors : List (List Nat) := [%s]\n", strings.Join(brow, ", "))

		// --- Dotify stride, PrepareHostname slack, MaxUserId
		df := parse("internal/streams/dns/util/dotify.go")
		lits := intLits(findFunc(df, "", "Dotify"))
		stride := int64(0)
		for _, l := range lits {
			if l != 0 {
				if stride == 0 {
					stride = l
				} else if stride != l {
					fail("Dotify uses different strides %d and %d", stride, l)
				}
			}
		}
		if stride == 0 {
			fail("Dotify stride not found")
		}
		fmt.Fprintf(b, "/-- util/dotify.go Dotify: a dot after every this many characters -/\ndef dotifyStride : Nat := %d\n", stride)
		cf := parse("internal/streams/dns/util/consts.go")
		slack := int64(-1)
		if ph := findFunc(cf, "", "PrepareHostname"); ph != nil {
			ast.Inspect(ph, func(x ast.Node) bool {
				if be, ok := x.(*ast.BinaryExpr); ok && be.Op == token.SUB && exprString(be.X) == "HostnameMaxLen" {
					if l, ok := be.Y.(*ast.BasicLit); ok && slack < 0 {
						v, _ := constant.Int64Val(constant.MakeFromLiteral(l.Value, l.Kind, 0))
						slack = v
					}
				}
				return true
			})
		}
		if slack < 0 {
			fail("PrepareHostname: HostnameMaxLen-N not found")
		}
		fmt.Fprintf(b, "/-- util/consts.go PrepareHostname rejects names longer than HostnameMaxLen minus this -/\ndef prepareSlack : Nat := %d\n", slack)
		cmf := parse("internal/streams/dns/commands/commands.go")
		maxUid := int64(0)
		if fd := findFunc(cmf, "", "EncodeUserId"); fd != nil {
			ast.Inspect(fd, func(x ast.Node) bool {
				if vs, ok := x.(*ast.ValueSpec); ok && len(vs.Names) == 1 && vs.Names[0].Name == "MaxUserId" && len(vs.Values) == 1 {
					if v := evalExpr(vs.Values[0], env{}); v != nil {
						maxUid, _ = constant.Int64Val(constant.ToInt(v))
					}
				}
				return true
			})
		}
		if maxUid == 0 {
			fail("EncodeUserId: MaxUserId not found")
		}
		fmt.Fprintf(b, "/-- commands.go EncodeUserId MaxUserId -/\ndef maxUserId : Nat := %d\n", maxUid)

		// --- wrap.go chunk sizes
		wf := parse("internal/streams/dns/util/wrap.go")
		for _, w := range []struct{ fn, lean string }{
			{"WrapDnsResponseA", "wrapChunkA"}, {"WrapDnsResponseAAAA", "wrapChunkAAAA"},
			{"WrapDnsResponseTxt", "wrapChunkTxt"}, {"WrapDnsResponseNull", "wrapChunkNull"},
			{"WrapDnsResponsePrivate", "wrapChunkPrivate"},
		} {
			fd := findFunc(wf, "", w.fn)
			if fd == nil {
				fail("%s not found", w.fn)
				continue
			}
			v, ok := chunkLimit(fd, "data")
			if !ok {
				fail("%s: len(data) > N not found", w.fn)
			}
			fmt.Fprintf(b, "/-- util/wrap.go %s: payload bytes per record -/\ndef %s : Nat := %d\n", w.fn, w.lean, v)
		}
		txtStrings := int64(0)
		if fd := findFunc(wf, "", "WrapDnsResponseTxt"); fd != nil {
			ast.Inspect(fd, func(x ast.Node) bool {
				if be, ok := x.(*ast.BinaryExpr); ok && be.Op == token.EQL {
					if call, ok := be.X.(*ast.CallExpr); ok && exprString(call.Fun) == "len" && len(call.Args) == 1 && exprString(call.Args[0]) == "txtData" {
						if l, ok := be.Y.(*ast.BasicLit); ok && l.Value != "0" {
							txtStrings, _ = constant.Int64Val(constant.MakeFromLiteral(l.Value, l.Kind, 0))
						}
					}
				}
				return true
			})
		}
		if txtStrings == 0 {
			fail("WrapDnsResponseTxt: len(txtData) == N not found")
		}
		fmt.Fprintf(b, "/-- util/wrap.go WrapDnsResponseTxt: strings per TXT record -/\ndef wrapTxtStrings : Nat := %d\n", txtStrings)

		// --- private type numbers
		pf := parse("internal/streams/dns/util/socketace_private_rr.go")
		pen := fileConsts(pf, nil)
		qf := parse("internal/streams/dns/util/query_types.go")
		typeNum := func(name string) int64 {
			res := int64(-1)
			for _, d := range qf.Decls {
				g, ok := d.(*ast.GenDecl)
				if !ok {
					continue
				}
				for _, s := range g.Specs {
					vs, ok := s.(*ast.ValueSpec)
					if !ok {
						continue
					}
					for i, n := range vs.Names {
						if n.Name == name && i < len(vs.Values) {
							if call, ok := vs.Values[i].(*ast.CallExpr); ok && len(call.Args) == 1 {
								if v := evalExpr(call.Args[0], pen); v != nil {
									res, _ = constant.Int64Val(constant.ToInt(v))
								}
							}
						}
					}
				}
			}
			if res < 0 {
				fail("query_types.go: %s is not dnsmessage.Type(<const>)", name)
			}
			return res
		}
		fmt.Fprintf(b, "/-- util/query_types.go QueryTypeNull / QueryTypePrivate; socketace_private_rr.go TypeSocketAce (the number registered with miekg/dns) -/\n")
		fmt.Fprintf(b, "def queryTypeNull : Nat := %d\ndef queryTypePrivate : Nat := %d\ndef typeSocketAce : Nat := %d\n",
			typeNum("QueryTypeNull"), typeNum("QueryTypePrivate"), intConst(pen, "TypeSocketAce", "socketace_private_rr.go"))

		// --- shape: does UnwrapDnsResponse undo presentation escaping, does the TXT wrapper escape backslashes
		un := findFunc(wf, "", "UnwrapDnsResponse")
		if un == nil {
			fail("UnwrapDnsResponse not found")
			return
		}
		boolArg := func(want string) func(*ast.CallExpr) bool {
			return func(c *ast.CallExpr) bool { return len(c.Args) == 2 && exprString(c.Args[1]) == want }
		}
		nNames := countCalls(un, "unescapePresentation", boolArg("true"))
		nTxt := countCalls(un, "unescapePresentation", boolArg("false"))
		nUndot := countCalls(un, "Undotify", nil)
		if !((nNames == 3 && nUndot == 0) || (nNames == 0 && nUndot == 3)) {
			fail("UnwrapDnsResponse: unexpected mix of unescapePresentation(…, true) (%d) and Undotify (%d) calls", nNames, nUndot)
		}
		if nTxt > 1 {
			fail("UnwrapDnsResponse: %d unescapePresentation(…, false) calls", nTxt)
		}
		esc := 0
		if fd := findFunc(wf, "", "WrapDnsResponseTxt"); fd != nil {
			esc = countCalls(fd, "strings.ReplaceAll", nil)
		}
		fmt.Fprintf(b, "/-- util/wrap.go UnwrapDnsResponse decodes \\\\DDD / \\\\c in CNAME, MX, SRV targets (else it only removes dots) -/\ndef unwrapUnescapesNames : Bool := %v\n", nNames == 3)
		fmt.Fprintf(b, "/-- util/wrap.go UnwrapDnsResponse decodes \\\\DDD / \\\\c in TXT strings -/\ndef unwrapUnescapesTxt : Bool := %v\n", nTxt == 1)
		fmt.Fprintf(b, "/-- util/wrap.go WrapDnsResponseTxt escapes literal backslashes -/\ndef wrapTxtEscapes : Bool := %v\n", esc == 1)
	})
}

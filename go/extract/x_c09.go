package main

// Facts for C09 (DNS requests over the wire) and C10 (DNS responses over the wire):
// codec codes and exact rational ratios, the command table, BadErrors, Dotify stride, PrepareHostname
// slack, MaxUserId, wrap chunk sizes, private type numbers, and whether UnwrapDnsResponse undoes
// presentation escaping.

import (
	"fmt"
	"go/ast"
	"go/constant"
	"go/token"
	"math/big"
	"strings"
)

// ratOf evaluates an expression made of numeric literals, parentheses and + - * / exactly.
func ratOf(e ast.Expr) *big.Rat {
	switch x := e.(type) {
	case *ast.BasicLit:
		r, ok := new(big.Rat).SetString(x.Value)
		if !ok {
			return nil
		}
		return r
	case *ast.ParenExpr:
		return ratOf(x.X)
	case *ast.BinaryExpr:
		a, b := ratOf(x.X), ratOf(x.Y)
		if a == nil || b == nil {
			return nil
		}
		switch x.Op {
		case token.QUO:
			if b.Sign() == 0 {
				return nil
			}
			return new(big.Rat).Quo(a, b)
		case token.MUL:
			return new(big.Rat).Mul(a, b)
		case token.ADD:
			return new(big.Rat).Add(a, b)
		case token.SUB:
			return new(big.Rat).Sub(a, b)
		}
	}
	return nil
}

func singleReturn(fd *ast.FuncDecl) ast.Expr {
	if fd == nil || fd.Body == nil {
		return nil
	}
	for _, st := range fd.Body.List {
		if r, ok := st.(*ast.ReturnStmt); ok && len(r.Results) == 1 {
			return r.Results[0]
		}
	}
	return nil
}

// intLits collects the integer literals below n (in source order)
func intLits(n ast.Node) []int64 {
	var out []int64
	ast.Inspect(n, func(x ast.Node) bool {
		if b, ok := x.(*ast.BasicLit); ok && b.Kind == token.INT {
			v := constant.MakeFromLiteral(b.Value, b.Kind, 0)
			if i, ok := constant.Int64Val(v); ok {
				out = append(out, i)
			}
		}
		return true
	})
	return out
}

// ---- recognisers which look through unexported helpers and named constants ------------------------------------
//
// A fact about "function F compares len(data) with N" or "F calls g(…, true)" should also hold when the
// comparison or the call sits in a helper of the same file which F calls (parameters bound to F's arguments), when N
// is a named constant or a constant expression, and when the comparison is written the other way round.

// c09Arg is an argument expression together with the scope it has to be read in
type c09Arg struct {
	e     ast.Expr
	scope c09Scope
}

// c09Scope binds the parameters of an inlined helper to the caller's argument expressions
type c09Scope map[string]c09Arg

// c09Ident follows parameter bindings and returns the identifier of the outermost function e stands for ("" if none)
func c09Ident(e ast.Expr, sc c09Scope) string {
	switch x := e.(type) {
	case *ast.ParenExpr:
		return c09Ident(x.X, sc)
	case *ast.Ident:
		if a, ok := sc[x.Name]; ok {
			return c09Ident(a.e, a.scope)
		}
		if _, inner := sc[c09Inner]; inner {
			return "" // a local of the helper, whatever its name
		}
		return x.Name
	}
	return ""
}

// c09Inner marks the scope of an inlined helper (as opposed to the outermost function's)
const c09Inner = "\x00inner"

// c09Eval folds e to a constant: literals, named constants of the file (en), bound parameters, + - * / etc.,
// parentheses and integer conversions
func c09Eval(e ast.Expr, sc c09Scope, en env) constant.Value {
	switch x := e.(type) {
	case *ast.ParenExpr:
		return c09Eval(x.X, sc, en)
	case *ast.Ident:
		if a, ok := sc[x.Name]; ok {
			return c09Eval(a.e, a.scope, en)
		}
		return evalExpr(x, en)
	case *ast.BinaryExpr:
		a, b := c09Eval(x.X, sc, en), c09Eval(x.Y, sc, en)
		if a == nil || b == nil || a.Kind() == constant.Unknown || b.Kind() == constant.Unknown {
			return nil
		}
		switch x.Op {
		case token.ADD, token.SUB, token.MUL:
			return constant.BinaryOp(a, x.Op, b)
		case token.QUO:
			if a.Kind() == constant.Int && b.Kind() == constant.Int {
				if constant.Sign(b) == 0 {
					return nil
				}
				return constant.BinaryOp(a, token.QUO_ASSIGN, b) // integer division
			}
		}
		return nil
	case *ast.CallExpr:
		if id, ok := x.Fun.(*ast.Ident); ok && len(x.Args) == 1 {
			switch id.Name {
			case "int", "int8", "int16", "int32", "int64", "uint", "uint8", "uint16", "uint32", "uint64", "byte":
				return c09Eval(x.Args[0], sc, en)
			}
		}
		return nil
	}
	return evalExpr(e, en)
}

func c09Params(fd *ast.FuncDecl) []string {
	var ps []string
	if fd.Type.Params != nil {
		for _, fl := range fd.Type.Params.List {
			for _, n := range fl.Names {
				ps = append(ps, n.Name)
			}
		}
	}
	return ps
}

// c09Walk visits every node below root and, up to depth levels deep, the bodies of the plain functions of the same
// file which are called from there (directly, deferred or via `go`), with their parameters bound to the arguments.
func c09Walk(f *ast.File, root ast.Node, sc c09Scope, depth int, visit func(n ast.Node, sc c09Scope)) {
	if root == nil {
		return
	}
	ast.Inspect(root, func(n ast.Node) bool {
		if n == nil {
			return true
		}
		visit(n, sc)
		call, ok := n.(*ast.CallExpr)
		if !ok || depth <= 0 {
			return true
		}
		id, ok := call.Fun.(*ast.Ident)
		if !ok {
			return true
		}
		callee := findFunc(f, "", id.Name)
		if callee == nil || callee.Body == nil {
			return true
		}
		ps := c09Params(callee)
		if len(ps) != len(call.Args) {
			return true // variadic or f(g()) forms: not followed
		}
		nsc := c09Scope{c09Inner: c09Arg{}}
		for i, p := range ps {
			nsc[p] = c09Arg{call.Args[i], sc}
		}
		c09Walk(f, callee.Body, nsc, depth-1, visit)
		return true
	})
}

// c09LenCmp is one comparison of len(<ident>) with a constant, normalised so that len() is on the left
type c09LenCmp struct {
	op token.Token
	n  int64
}

var c09Mirror = map[token.Token]token.Token{token.GTR: token.LSS, token.LSS: token.GTR, token.GEQ: token.LEQ,
	token.LEQ: token.GEQ, token.EQL: token.EQL, token.NEQ: token.NEQ}

// c09LenCmps collects the comparisons `len(ident) OP <constant>` (either way round) and min(len(ident), <constant>)
// (reported as op ILLEGAL) below root, helpers included.
func c09LenCmps(f *ast.File, root ast.Node, ident string, en env) []c09LenCmp {
	var res []c09LenCmp
	isLen := func(e ast.Expr, sc c09Scope) bool {
		for {
			p, ok := e.(*ast.ParenExpr)
			if !ok {
				break
			}
			e = p.X
		}
		call, ok := e.(*ast.CallExpr)
		return ok && exprString(call.Fun) == "len" && len(call.Args) == 1 && c09Ident(call.Args[0], sc) == ident
	}
	konst := func(e ast.Expr, sc c09Scope) (int64, bool) {
		v := c09Eval(e, sc, en)
		if v == nil || v.Kind() != constant.Int {
			return 0, false
		}
		return constant.Int64Val(v)
	}
	c09Walk(f, root, c09Scope{}, 2, func(n ast.Node, sc c09Scope) {
		switch x := n.(type) {
		case *ast.BinaryExpr:
			if _, ok := c09Mirror[x.Op]; !ok {
				return
			}
			if isLen(x.X, sc) {
				if v, ok := konst(x.Y, sc); ok {
					res = append(res, c09LenCmp{x.Op, v})
				}
			} else if isLen(x.Y, sc) {
				if v, ok := konst(x.X, sc); ok {
					res = append(res, c09LenCmp{c09Mirror[x.Op], v})
				}
			}
		case *ast.CallExpr:
			if exprString(x.Fun) == "min" && len(x.Args) == 2 {
				for i := 0; i < 2; i++ {
					if isLen(x.Args[i], sc) {
						if v, ok := konst(x.Args[1-i], sc); ok {
							res = append(res, c09LenCmp{token.ILLEGAL, v})
						}
					}
				}
			}
		}
	})
	return res
}

// c09SliceBounds collects the constant bounds N > 0 of `ident[0:N]` / `ident[:N]` (hi) and `ident[N:]` (lo) below
// root, helpers included.
func c09SliceBounds(f *ast.File, root ast.Node, ident string, en env) (hi, lo map[int64]bool) {
	hi, lo = map[int64]bool{}, map[int64]bool{}
	konst := func(e ast.Expr, sc c09Scope) (int64, bool) {
		if e == nil {
			return 0, false
		}
		v := c09Eval(e, sc, en)
		if v == nil || v.Kind() != constant.Int {
			return 0, false
		}
		return constant.Int64Val(v)
	}
	c09Walk(f, root, c09Scope{}, 2, func(n ast.Node, sc c09Scope) {
		x, ok := n.(*ast.SliceExpr)
		if !ok || c09Ident(x.X, sc) != ident {
			return
		}
		l, lok := konst(x.Low, sc)
		h, hok := konst(x.High, sc)
		if (x.Low == nil || (lok && l == 0)) && hok && h > 0 {
			hi[h] = true
		}
		if x.High == nil && lok && l > 0 {
			lo[l] = true
		}
	})
	return
}

// chunkLimit returns the N for which every round of fd's loop takes min(len(ident), N) bytes off the front of ident:
//   - the piece is ident[0:N] (and the rest ident[N:]), N a literal, a named constant or a constant expression, in the
//     loop itself or in a helper of the same file called from there with ident and N as arguments;
//   - it is guarded by a comparison of len(ident) which makes that slice legal and otherwise takes all of ident:
//     `len(ident) > N` in whichever spelling (N < len, len >= N, len > N-1, len <= N … else, min(len, N)).
//
// Where the piece is not cut with constant bounds (n := min(len(ident), N); ident[:n]) the guard alone gives N. The
// loop condition len(ident) > 0 is not a guard. Different N in one function are an error.
func chunkLimit(f *ast.File, fd *ast.FuncDecl, ident string, en env) (int64, bool) {
	guards, his, los := map[int64]bool{}, map[int64]bool{}, map[int64]bool{}
	scan := func(root ast.Node) {
		for _, c := range c09LenCmps(f, root, ident, en) {
			v := c.n // the piece is cut when len(ident) > v
			switch c.op {
			case token.GTR, token.LEQ, token.ILLEGAL:
			case token.GEQ, token.LSS:
				v--
			default:
				continue
			}
			if v > 0 {
				guards[v] = true
			}
		}
		h, l := c09SliceBounds(f, root, ident, en)
		for v := range h {
			his[v] = true
		}
		for v := range l {
			los[v] = true
		}
	}
	ast.Inspect(fd, func(x ast.Node) bool {
		switch l := x.(type) {
		case *ast.ForStmt:
			scan(l.Body)
		case *ast.RangeStmt:
			scan(l.Body)
		}
		return true
	})
	if len(guards) == 0 && len(his) == 0 {
		scan(fd.Body)
	}
	single := func(m map[int64]bool) (int64, bool) {
		if len(m) != 1 {
			return 0, false
		}
		for v := range m {
			return v, true
		}
		return 0, false
	}
	if len(his) == 0 && len(los) == 0 {
		return single(guards)
	}
	n, ok := single(his)
	if !ok || len(los) > 1 || (len(los) == 1 && !los[n]) {
		return 0, false
	}
	// the guard must imply len(ident) >= n where the piece is cut and len(ident) <= n where all is taken
	if len(guards) == 0 {
		return 0, false
	}
	for g := range guards {
		if g != n && g != n-1 {
			return 0, false
		}
	}
	return n, true
}

// c09CountCalls counts the call sites of name(…) which satisfy pred, reached from fd directly or through helpers of the
// same file (each call site of a helper counts the helper's sites once more). pred sees the arguments as the
// outermost caller wrote them: a parameter handed through is replaced by the argument it is bound to.
func c09CountCalls(f *ast.File, fd *ast.FuncDecl, name string, pred func(args []ast.Expr) bool) int {
	c := 0
	var through func(e ast.Expr, sc c09Scope) ast.Expr
	through = func(e ast.Expr, sc c09Scope) ast.Expr {
		if id, ok := e.(*ast.Ident); ok {
			if a, ok := sc[id.Name]; ok {
				return through(a.e, a.scope)
			}
		}
		return e
	}
	c09Walk(f, fd.Body, c09Scope{}, 2, func(n ast.Node, sc c09Scope) {
		call, ok := n.(*ast.CallExpr)
		if !ok || exprString(call.Fun) != name {
			return
		}
		args := make([]ast.Expr, len(call.Args))
		for i, a := range call.Args {
			args[i] = through(a, sc)
		}
		if pred == nil || pred(args) {
			c++
		}
	})
	return c
}

func init() {
	extractors = append(extractors, func(o *out) {
		b := o.w("C09.lean")
		// own sub-namespace: SA.Gen.C09.* (other properties extract similarly named facts)
		fmt.Fprintf(b, "namespace C09\n\n")
		defer fmt.Fprintf(b, "\nend C09\n")

		// --- codecs: code letter and exact ratio, in FromCode registry order
		type cd struct{ file, recv, name string }
		codecs := []cd{
			{"base32.go", "Base32Encoder", "base32"}, {"base64.go", "Base64Encoder", "base64"},
			{"base64u.go", "Base64uEncoder", "base64u"}, {"base85.go", "Base85Encoder", "base85"},
			{"base91.go", "Base91Encoder", "base91"}, {"base128.go", "Base128Encoder", "base128"},
			{"base192.go", "Base192Encoder", "base192"}, {"raw.go", "RawEncoder", "raw"},
		}
		var rows []string
		for _, c := range codecs {
			f := parse("internal/util/enc/" + c.file)
			en := fileConsts(f, nil)
			code := methodReturn(f, c.recv, "Code", en)
			ratio := ratOf(singleReturn(findFunc(f, c.recv, "Ratio")))
			if code == nil || ratio == nil || ratio.Sign() <= 0 {
				fail("codec %s: Code()/Ratio() not a constant", c.name)
				continue
			}
			cv, _ := constant.Int64Val(constant.ToInt(code))
			rows = append(rows, fmt.Sprintf("(%d, %s, %s)", cv, ratio.Num().String(), ratio.Denom().String()))
			if en["cb32"] != nil && c.name == "base32" {
				fmt.Fprintf(b, "/-- enc/base32.go cb32 -/\ndef c09cb32 : List Nat := %s\n", leanBytes(strConst(en, "cb32", "base32.go")))
			}
			if c.name == "base64" {
				fmt.Fprintf(b, "def c09cb64 : List Nat := %s\n", leanBytes(strConst(en, "cb64", "base64.go")))
			}
			if c.name == "base64u" {
				fmt.Fprintf(b, "def c09cb64u : List Nat := %s\n", leanBytes(strConst(en, "cb64u", "base64u.go")))
			}
		}
		fmt.Fprintf(b, "/-- (Code(), Ratio() numerator, denominator) per codec in FromCode order; ratio exact -/\ndef codecRatios : List (Nat × Nat × Nat) := [%s]\n", strings.Join(rows, ", "))

		// --- command table
		cmdFiles := []string{"commands.go", "cmd_version.go", "cmd_set_options.go", "cmd_test_fragment_size.go",
			"cmd_test_downstream_encoder.go", "cmd_test_upstream_encoder.go", "cmd_packet.go", "cmd_error.go"}
		type cmdInfo struct {
			code            int64
			uid, hasQ, hasR bool
		}
		table := map[string]cmdInfo{}
		var order []string
		for _, fn := range cmdFiles {
			f := parse("internal/streams/dns/commands/" + fn)
			for _, d := range f.Decls {
				g, ok := d.(*ast.GenDecl)
				if !ok || g.Tok != token.VAR {
					continue
				}
				for _, s := range g.Specs {
					vs := s.(*ast.ValueSpec)
					for i, n := range vs.Names {
						if i >= len(vs.Values) {
							continue
						}
						cl, ok := vs.Values[i].(*ast.CompositeLit)
						if !ok {
							continue
						}
						if exprString(cl.Type) == "Command" {
							ci := cmdInfo{}
							for _, el := range cl.Elts {
								kv, ok := el.(*ast.KeyValueExpr)
								if !ok {
									continue
								}
								switch exprString(kv.Key) {
								case "Code":
									if v := evalExpr(kv.Value, env{}); v != nil {
										ci.code, _ = constant.Int64Val(constant.ToInt(v))
									}
								case "NeedsUserId":
									ci.uid = exprString(kv.Value) == "true"
								case "NewRequest":
									ci.hasQ = true
								case "NewResponse":
									ci.hasR = true
								}
							}
							table[n.Name] = ci
						}
						if n.Name == "Commands" {
							for _, el := range cl.Elts {
								order = append(order, exprString(el))
							}
						}
					}
				}
			}
		}
		var crow []string
		for _, n := range order {
			ci, ok := table[n]
			if !ok || ci.code == 0 {
				fail("command %s of Commands not found", n)
				continue
			}
			crow = append(crow, fmt.Sprintf("(%d, %v, %v, %v)", ci.code, ci.uid, ci.hasQ, ci.hasR))
		}
		if len(crow) == 0 {
			fail("Commands table not found")
		}
		fmt.Fprintf(b, "/-- commands.go Commands in order: (Code, NeedsUserId, has NewRequest, has NewResponse) -/\ndef commandTable : List (Nat × Bool × Bool × Bool) := [%s]\n", strings.Join(crow, ", "))

		// --- BadErrors
		ef := parse("internal/streams/dns/commands/errors.go")
		errText := map[string]string{}
		var badOrder []string
		for _, d := range ef.Decls {
			g, ok := d.(*ast.GenDecl)
			if !ok || g.Tok != token.VAR {
				continue
			}
			for _, s := range g.Specs {
				vs := s.(*ast.ValueSpec)
				for i, n := range vs.Names {
					if i >= len(vs.Values) {
						continue
					}
					if call, ok := vs.Values[i].(*ast.CallExpr); ok && exprString(call.Fun) == "errors.New" && len(call.Args) == 1 {
						if v := evalExpr(call.Args[0], env{}); v != nil && v.Kind() == constant.String {
							errText[n.Name] = constant.StringVal(v)
						}
					}
					if cl, ok := vs.Values[i].(*ast.CompositeLit); ok && n.Name == "BadErrors" {
						for _, el := range cl.Elts {
							badOrder = append(badOrder, exprString(el))
						}
					}
				}
			}
		}
		var brow []string
		for _, n := range badOrder {
			t, ok := errText[n]
			if !ok {
				fail("BadErrors entry %s has no text", n)
			}
			brow = append(brow, leanBytes(t))
		}
		if len(brow) == 0 {
			fail("BadErrors not found")
		}
		fmt.Fprintf(b, "/-- commands/errors.go BadErrors texts -/\ndef badErrors : List (List Nat) := [%s]\n", strings.Join(brow, ", "))

		// --- Dotify stride, PrepareHostname slack, MaxUserId
		df := parse("internal/streams/dns/util/dotify.go")
		lits := intLits(findFunc(df, "", "Dotify"))
		stride := int64(0)
		for _, l := range lits {
			if l != 0 {
				if stride == 0 {
					stride = l
				} else if stride != l {
					fail("Dotify uses different strides %d and %d", stride, l)
				}
			}
		}
		if stride == 0 {
			fail("Dotify stride not found")
		}
		fmt.Fprintf(b, "/-- util/dotify.go Dotify: a dot after every this many characters -/\ndef dotifyStride : Nat := %d\n", stride)
		cf := parse("internal/streams/dns/util/consts.go")
		slack := int64(-1)
		if ph := findFunc(cf, "", "PrepareHostname"); ph != nil {
			ast.Inspect(ph, func(x ast.Node) bool {
				if be, ok := x.(*ast.BinaryExpr); ok && be.Op == token.SUB && exprString(be.X) == "HostnameMaxLen" {
					if l, ok := be.Y.(*ast.BasicLit); ok && slack < 0 {
						v, _ := constant.Int64Val(constant.MakeFromLiteral(l.Value, l.Kind, 0))
						slack = v
					}
				}
				return true
			})
		}
		if slack < 0 {
			fail("PrepareHostname: HostnameMaxLen-N not found")
		}
		fmt.Fprintf(b, "/-- util/consts.go PrepareHostname rejects names longer than HostnameMaxLen minus this -/\ndef prepareSlack : Nat := %d\n", slack)
		cmf := parse("internal/streams/dns/commands/commands.go")
		maxUid := int64(0)
		if fd := findFunc(cmf, "", "EncodeUserId"); fd != nil {
			ast.Inspect(fd, func(x ast.Node) bool {
				if vs, ok := x.(*ast.ValueSpec); ok && len(vs.Names) == 1 && vs.Names[0].Name == "MaxUserId" && len(vs.Values) == 1 {
					if v := evalExpr(vs.Values[0], env{}); v != nil {
						maxUid, _ = constant.Int64Val(constant.ToInt(v))
					}
				}
				return true
			})
		}
		if maxUid == 0 {
			fail("EncodeUserId: MaxUserId not found")
		}
		fmt.Fprintf(b, "/-- commands.go EncodeUserId MaxUserId -/\ndef maxUserId : Nat := %d\n", maxUid)

		// --- wrap.go chunk sizes
		wf := parse("internal/streams/dns/util/wrap.go")
		wen := fileConsts(wf, nil)
		for _, w := range []struct{ fn, lean string }{
			{"WrapDnsResponseA", "wrapChunkA"}, {"WrapDnsResponseAAAA", "wrapChunkAAAA"},
			{"WrapDnsResponseTxt", "wrapChunkTxt"}, {"WrapDnsResponseNull", "wrapChunkNull"},
			{"WrapDnsResponsePrivate", "wrapChunkPrivate"},
		} {
			fd := findFunc(wf, "", w.fn)
			if fd == nil {
				fail("%s not found", w.fn)
				continue
			}
			v, ok := chunkLimit(wf, fd, "data", wen)
			if !ok {
				fail("%s: the loop does not cut min(len(data), N) bytes off data for one constant N", w.fn)
			}
			fmt.Fprintf(b, "/-- util/wrap.go %s: payload bytes per record -/\ndef %s : Nat := %d\n", w.fn, w.lean, v)
		}
		txtStrings := int64(0)
		if fd := findFunc(wf, "", "WrapDnsResponseTxt"); fd != nil {
			// the record is flushed when len(txtData) reaches N: `== N` or `>= N`, either way round, N any constant
			for _, c := range c09LenCmps(wf, fd.Body, "txtData", wen) {
				v := c.n
				switch c.op {
				case token.EQL, token.GEQ:
				case token.GTR:
					v++
				default:
					continue
				}
				if v <= 0 || (c.op == token.GTR && c.n == 0) {
					continue // `len(txtData) > 0`: the flush of the rest after the loop
				}
				if txtStrings != 0 && txtStrings != v {
					fail("WrapDnsResponseTxt: len(txtData) compared with both %d and %d", txtStrings, v)
				}
				txtStrings = v
			}
		}
		if txtStrings == 0 {
			fail("WrapDnsResponseTxt: len(txtData) == N not found")
		}
		fmt.Fprintf(b, "/-- util/wrap.go WrapDnsResponseTxt: strings per TXT record -/\ndef wrapTxtStrings : Nat := %d\n", txtStrings)

		// --- private type numbers
		pf := parse("internal/streams/dns/util/socketace_private_rr.go")
		pen := fileConsts(pf, nil)
		qf := parse("internal/streams/dns/util/query_types.go")
		typeNum := func(name string) int64 {
			res := int64(-1)
			for _, d := range qf.Decls {
				g, ok := d.(*ast.GenDecl)
				if !ok {
					continue
				}
				for _, s := range g.Specs {
					vs, ok := s.(*ast.ValueSpec)
					if !ok {
						continue
					}
					for i, n := range vs.Names {
						if n.Name == name && i < len(vs.Values) {
							if call, ok := vs.Values[i].(*ast.CallExpr); ok && len(call.Args) == 1 {
								if v := evalExpr(call.Args[0], pen); v != nil {
									res, _ = constant.Int64Val(constant.ToInt(v))
								}
							}
						}
					}
				}
			}
			if res < 0 {
				fail("query_types.go: %s is not dnsmessage.Type(<const>)", name)
			}
			return res
		}
		fmt.Fprintf(b, "/-- util/query_types.go QueryTypeNull / QueryTypePrivate; socketace_private_rr.go TypeSocketAce (the number registered with miekg/dns) -/\n")
		fmt.Fprintf(b, "def queryTypeNull : Nat := %d\ndef queryTypePrivate : Nat := %d\ndef typeSocketAce : Nat := %d\n",
			typeNum("QueryTypeNull"), typeNum("QueryTypePrivate"), intConst(pen, "TypeSocketAce", "socketace_private_rr.go"))

		// --- shape: does UnwrapDnsResponse undo presentation escaping, does the TXT wrapper escape backslashes
		un := findFunc(wf, "", "UnwrapDnsResponse")
		if un == nil {
			fail("UnwrapDnsResponse not found")
			return
		}
		// calls are counted through helpers of the same file (MX, SRV and CNAME may share one)
		boolArg := func(want string) func([]ast.Expr) bool {
			return func(a []ast.Expr) bool { return len(a) == 2 && exprString(a[1]) == want }
		}
		nNames := c09CountCalls(wf, un, "unescapePresentation", boolArg("true"))
		nTxt := c09CountCalls(wf, un, "unescapePresentation", boolArg("false"))
		nUndot := c09CountCalls(wf, un, "Undotify", nil)
		if !((nNames == 3 && nUndot == 0) || (nNames == 0 && nUndot == 3)) {
			fail("UnwrapDnsResponse: unexpected mix of unescapePresentation(…, true) (%d) and Undotify (%d) calls", nNames, nUndot)
		}
		if nTxt > 1 {
			fail("UnwrapDnsResponse: %d unescapePresentation(…, false) calls", nTxt)
		}
		esc := 0
		if fd := findFunc(wf, "", "WrapDnsResponseTxt"); fd != nil {
			esc = c09CountCalls(wf, fd, "strings.ReplaceAll", nil)
		}
		fmt.Fprintf(b, "/-- util/wrap.go UnwrapDnsResponse decodes \\\\DDD / \\\\c in CNAME, MX, SRV targets (else it only removes dots) -/\ndef unwrapUnescapesNames : Bool := %v\n", nNames == 3)
		fmt.Fprintf(b, "/-- util/wrap.go UnwrapDnsResponse decodes \\\\DDD / \\\\c in TXT strings -/\ndef unwrapUnescapesTxt : Bool := %v\n", nTxt == 1)
		fmt.Fprintf(b, "/-- util/wrap.go WrapDnsResponseTxt escapes literal backslashes -/\ndef wrapTxtEscapes : Bool := %v\n", esc == 1)
	})
}

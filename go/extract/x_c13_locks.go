package main

// C13, concurrency: the lock structure of the operations on the session tables.  For newUser, closeConnection and the
// pruning goroutine the extractor enumerates the control-flow paths through the function body (an `if` branches, a loop
// body runs zero times or once, `return` ends a path, `break`/`continue` leave the loop body) and writes down, per path,
// the sequence of
//     0 usersLock.Lock()   1 defer usersLock.Unlock()   2 usersLock.Unlock()
//     3 read of connections (also: a call of validateAndGetUser)   4 store into connections[…]
//     5 read of oldConnections                                     6 store into oldConnections[…]
// in execution order.  SA.Props.C13 (`C13_table_ops_atomic`) checks every path: every access happens while the lock is
// held and all accesses of a path lie in ONE critical section (no Unlock between the first and the last access) -- this is
// what makes the model's `newUser` / `closeConnection` / `expire` atomic steps.

import (
	"fmt"
	"go/ast"
	"go/token"
	"strings"
)

const (
	lkLock = iota
	lkDeferUnlock
	lkUnlock
	lkReadLive
	lkWriteLive
	lkReadOld
	lkWriteOld
)

type lkPath struct {
	ev   []int
	done bool // returned
	brk  bool // break / continue: skip to the end of the innermost loop body
}

func (p lkPath) with(ev ...int) lkPath {
	return lkPath{ev: append(append([]int{}, p.ev...), ev...), done: p.done, brk: p.brk}
}

func lkTable(e ast.Expr) int {
	if s, ok := e.(*ast.SelectorExpr); ok {
		switch s.Sel.Name {
		case "connections":
			return lkReadLive
		case "oldConnections":
			return lkReadOld
		}
	}
	return -1
}

// lkExpr: the events of evaluating an expression (source order; function literals are not entered)
func lkExpr(n ast.Node) (ev []int) {
	if n == nil {
		return nil
	}
	ast.Inspect(n, func(x ast.Node) bool {
		switch v := x.(type) {
		case *ast.FuncLit:
			return false
		case *ast.CallExpr:
			if s, ok := v.Fun.(*ast.SelectorExpr); ok {
				if strings.HasSuffix(exprString(s.X), "usersLock") {
					switch s.Sel.Name {
					case "Lock":
						ev = append(ev, lkLock)
						return false
					case "Unlock":
						ev = append(ev, lkUnlock)
						return false
					default:
						fail("lock structure: unexpected call usersLock.%s", s.Sel.Name)
					}
				}
				if s.Sel.Name == "validateAndGetUser" {
					ev = append(ev, lkReadLive)
				}
			}
		case *ast.SelectorExpr:
			if t := lkTable(v); t >= 0 {
				ev = append(ev, t)
			}
		}
		return true
	})
	return ev
}

func lkEach(ps []lkPath, f func(p lkPath) []lkPath) []lkPath {
	var out []lkPath
	for _, p := range ps {
		if p.done || p.brk {
			out = append(out, p)
		} else {
			out = append(out, f(p)...)
		}
	}
	if len(out) > 4096 {
		fail("lock structure: too many control-flow paths")
		return out[:1]
	}
	return out
}

func lkAppend(ps []lkPath, ev []int) []lkPath {
	return lkEach(ps, func(p lkPath) []lkPath { return []lkPath{p.with(ev...)} })
}

func lkStmts(ps []lkPath, list []ast.Stmt) []lkPath {
	for _, s := range list {
		ps = lkStmt(ps, s)
	}
	return ps
}

func lkLoop(ps []lkPath, body *ast.BlockStmt, post ast.Stmt) []lkPath {
	return lkEach(ps, func(p lkPath) []lkPath {
		once := lkStmts([]lkPath{p}, body.List)
		for i := range once {
			once[i].brk = false
		}
		if post != nil {
			once = lkStmt(once, post)
		}
		return append([]lkPath{p}, once...)
	})
}

func lkStmt(ps []lkPath, s ast.Stmt) []lkPath {
	switch x := s.(type) {
	case nil:
		return ps
	case *ast.BlockStmt:
		return lkStmts(ps, x.List)
	case *ast.ExprStmt:
		return lkAppend(ps, lkExpr(x.X))
	case *ast.DeferStmt:
		if sel, ok := x.Call.Fun.(*ast.SelectorExpr); ok && strings.HasSuffix(exprString(sel.X), "usersLock") {
			if sel.Sel.Name == "Unlock" {
				return lkAppend(ps, []int{lkDeferUnlock})
			}
			fail("lock structure: defer usersLock.%s", sel.Sel.Name)
		}
		return ps
	case *ast.GoStmt:
		return ps
	case *ast.AssignStmt:
		var ev []int
		for _, r := range x.Rhs {
			ev = append(ev, lkExpr(r)...)
		}
		for _, l := range x.Lhs {
			if ix, ok := l.(*ast.IndexExpr); ok && lkTable(ix.X) >= 0 {
				ev = append(ev, lkExpr(ix.Index)...)
				ev = append(ev, lkTable(ix.X)+1) // the store
			} else {
				ev = append(ev, lkExpr(l)...)
			}
		}
		return lkAppend(ps, ev)
	case *ast.ReturnStmt:
		var ev []int
		for _, r := range x.Results {
			ev = append(ev, lkExpr(r)...)
		}
		ps = lkAppend(ps, ev)
		return lkEach(ps, func(p lkPath) []lkPath { p.done = true; return []lkPath{p} })
	case *ast.BranchStmt:
		if x.Tok == token.GOTO || x.Label != nil {
			fail("lock structure: goto / labelled branch")
		}
		return lkEach(ps, func(p lkPath) []lkPath { p.brk = true; return []lkPath{p} })
	case *ast.IfStmt:
		ps = lkStmt(ps, x.Init)
		ps = lkAppend(ps, lkExpr(x.Cond))
		return lkEach(ps, func(p lkPath) []lkPath {
			then := lkStmts([]lkPath{p}, x.Body.List)
			if x.Else != nil {
				return append(then, lkStmt([]lkPath{p}, x.Else)...)
			}
			return append(then, p)
		})
	case *ast.ForStmt:
		ps = lkStmt(ps, x.Init)
		ps = lkAppend(ps, lkExpr(x.Cond))
		return lkLoop(ps, x.Body, x.Post)
	case *ast.RangeStmt:
		ps = lkAppend(ps, lkExpr(x.X))
		return lkLoop(ps, x.Body, nil)
	case *ast.SwitchStmt, *ast.TypeSwitchStmt, *ast.SelectStmt:
		var body *ast.BlockStmt
		switch y := x.(type) {
		case *ast.SwitchStmt:
			ps = lkStmt(ps, y.Init)
			ps = lkAppend(ps, lkExpr(y.Tag))
			body = y.Body
		case *ast.TypeSwitchStmt:
			ps = lkStmt(ps, y.Init)
			ps = lkStmt(ps, y.Assign)
			body = y.Body
		case *ast.SelectStmt:
			body = y.Body
		}
		return lkEach(ps, func(p lkPath) []lkPath {
			out := []lkPath{p} // no clause taken
			for _, c := range body.List {
				var list []ast.Stmt
				var head []int
				switch cc := c.(type) {
				case *ast.CaseClause:
					for _, e := range cc.List {
						head = append(head, lkExpr(e)...)
					}
					list = cc.Body
				case *ast.CommClause:
					q := lkStmt([]lkPath{{}}, cc.Comm)
					if len(q) > 0 {
						head = q[0].ev
					}
					list = cc.Body
				}
				br := lkStmts([]lkPath{p.with(head...)}, list)
				for i := range br {
					br[i].brk = false // a break inside a switch leaves the switch
				}
				out = append(out, br...)
			}
			return out
		})
	case *ast.SendStmt:
		return lkAppend(ps, append(lkExpr(x.Chan), lkExpr(x.Value)...))
	case *ast.IncDecStmt:
		return lkAppend(ps, lkExpr(x.X))
	case *ast.DeclStmt:
		return lkAppend(ps, lkExpr(x.Decl))
	case *ast.LabeledStmt:
		return lkStmt(ps, x.Stmt)
	case *ast.EmptyStmt:
		return ps
	}
	fail("lock structure: statement %T not understood", s)
	return ps
}

func lkPaths(body *ast.BlockStmt) string {
	ps := lkStmts([]lkPath{{}}, body.List)
	seen := map[string]bool{}
	var out []string
	for _, p := range ps {
		parts := make([]string, len(p.ev))
		for i, e := range p.ev {
			parts[i] = fmt.Sprint(e)
		}
		k := "[" + strings.Join(parts, ", ") + "]"
		if !seen[k] {
			seen[k] = true
			out = append(out, k)
		}
	}
	return "[" + strings.Join(out, ",\n  ") + "]"
}

func init() {
	extractors = append(extractors, func(o *out) {
		const file = "internal/streams/dns/dns_server_connection.go"
		f := parse(file)
		b := o.w("C13Locks.lean")
		fmt.Fprintf(b, "/-- %s: the control-flow paths of the operations on the session tables as sequences of\n"+
			"    0 usersLock.Lock()  1 defer usersLock.Unlock()  2 usersLock.Unlock()  3 read connections  4 store connections[…]\n"+
			"    5 read oldConnections  6 store oldConnections[…]   (loop bodies zero times or once; go/extract/x_c13_locks.go) -/\n", file)
		for _, fn := range []string{"newUser", "closeConnection"} {
			d := findFunc(f, "ServerDnsListener", fn)
			if d == nil || d.Body == nil {
				fail("%s not found", fn)
				fmt.Fprintf(b, "def lockPaths_%s : List (List Nat) := []\n", fn)
				continue
			}
			fmt.Fprintf(b, "def lockPaths_%s : List (List Nat) :=\n  %s\n", fn, lkPaths(d.Body))
		}
		// the pruning task: the first goroutine started in NewServerDnsListener
		var goFn *ast.FuncLit
		if ctor := findFunc(f, "", "NewServerDnsListener"); ctor != nil {
			ast.Inspect(ctor.Body, func(n ast.Node) bool {
				if g, ok := n.(*ast.GoStmt); ok && goFn == nil {
					if fl, ok := g.Call.Fun.(*ast.FuncLit); ok {
						goFn = fl
					}
				}
				return true
			})
		}
		if goFn == nil {
			fail("pruning goroutine not found in NewServerDnsListener")
			fmt.Fprintf(b, "def lockPaths_expiry : List (List Nat) := []\n")
		} else {
			fmt.Fprintf(b, "def lockPaths_expiry : List (List Nat) :=\n  %s\n", lkPaths(goFn.Body))
		}
	})
}

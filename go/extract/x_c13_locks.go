package main

// C13, concurrency: the lock structure of the operations on the session tables.  For newUser, closeConnection and the
// pruning goroutine the extractor enumerates the control-flow paths through the function body (an `if` branches, a loop
// body runs zero times or once, `return` ends a path, `break`/`continue` leave the loop body) and writes down, per path,
// the sequence of
//     0 usersLock.Lock()   1 defer usersLock.Unlock()   2 usersLock.Unlock()
//     3 read of connections (also: a call of validateAndGetUser)   4 store into connections[…]
//     5 read of oldConnections                                     6 store into oldConnections[…]
// in execution order.  A call of an unexported helper/method of the same package (other than validateAndGetUser, which
// counts as a read of connections) continues inside the helper: its paths are inlined at the call (lkEval), so the fact is
// about what the operation does, not about which function body the statements are written in.  A `switch` gives the same
// paths as the if / else-if chain it abbreviates.  SA.Props.C13 (`C13_table_ops_atomic`) checks every path: every access happens while the lock is
// held and all accesses of a path lie in ONE critical section (no Unlock between the first and the last access) -- this is
// what makes the model's `newUser` / `closeConnection` / `expire` atomic steps.

import (
	"fmt"
	"go/ast"
	"go/token"
	"path/filepath"
	"strings"
)

const (
	lkLock = iota
	lkDeferUnlock
	lkUnlock
	lkReadLive
	lkWriteLive
	lkReadOld
	lkWriteOld
)

type lkPath struct {
	ev   []int
	done bool // returned
	brk  bool // break / continue: skip to the end of the innermost loop body
}

func (p lkPath) with(ev ...int) lkPath {
	return lkPath{ev: append(append([]int{}, p.ev...), ev...), done: p.done, brk: p.brk}
}

func lkTable(e ast.Expr) int {
	if s, ok := e.(*ast.SelectorExpr); ok {
		switch s.Sel.Name {
		case "connections":
			return lkReadLive
		case "oldConnections":
			return lkReadOld
		}
	}
	return -1
}

// the package's functions (for following calls into unexported helpers) and the helpers being inlined right now
var lkFuncs map[string][]*ast.FuncDecl
var lkInlining []*ast.FuncDecl

// lkItem: an event, or (callee != nil) a call of an unexported helper of the package whose body is inlined at this point
type lkItem struct {
	ev     int
	callee *ast.FuncDecl
}

// lkItems: the events of evaluating an expression (source order; a helper's body comes after the call's arguments;
// function literals are not entered)
func lkItems(n ast.Node) (items []lkItem) {
	if n == nil {
		return nil
	}
	var stack []ast.Node
	ast.Inspect(n, func(x ast.Node) bool {
		if x == nil {
			top := stack[len(stack)-1]
			stack = stack[:len(stack)-1]
			if call, ok := top.(*ast.CallExpr); ok {
				if fd := c13Callee(lkFuncs, call); fd != nil && fd.Name.Name != "validateAndGetUser" {
					items = append(items, lkItem{callee: fd})
				}
			}
			return true
		}
		switch v := x.(type) {
		case *ast.FuncLit:
			return false
		case *ast.CallExpr:
			if s, ok := v.Fun.(*ast.SelectorExpr); ok {
				if strings.HasSuffix(exprString(s.X), "usersLock") {
					switch s.Sel.Name {
					case "Lock":
						items = append(items, lkItem{ev: lkLock})
						return false
					case "Unlock":
						items = append(items, lkItem{ev: lkUnlock})
						return false
					default:
						fail("lock structure: unexpected call usersLock.%s", s.Sel.Name)
					}
				}
				if s.Sel.Name == "validateAndGetUser" {
					items = append(items, lkItem{ev: lkReadLive})
				}
			}
		case *ast.SelectorExpr:
			if t := lkTable(v); t >= 0 {
				items = append(items, lkItem{ev: t})
			}
		}
		stack = append(stack, x)
		return true
	})
	return items
}

// lkEval extends every path by the events of evaluating the given expressions; a call of an unexported helper of the
// package continues inside the helper (at most 3 levels, no recursion): each of the helper's control-flow paths is a
// continuation, its `return` ends the helper only, and a `defer usersLock.Unlock()` of the helper runs when it returns.
func lkEval(ps []lkPath, nodes ...ast.Node) []lkPath {
	for _, n := range nodes {
		for _, it := range lkItems(n) {
			if it.callee == nil {
				ps = lkAppend(ps, []int{it.ev})
				continue
			}
			fd, skip := it.callee, len(lkInlining) >= 3
			for _, g := range lkInlining {
				skip = skip || g == fd
			}
			if skip {
				continue
			}
			lkInlining = append(lkInlining, fd)
			ps = lkEach(ps, func(p lkPath) []lkPath {
				qs := lkStmts([]lkPath{{}}, fd.Body.List)
				for i, q := range qs {
					var ev []int
					deferred := false
					for _, e := range q.ev {
						if e == lkDeferUnlock {
							deferred = true
						} else {
							ev = append(ev, e)
						}
					}
					if deferred {
						ev = append(ev, lkUnlock)
					}
					qs[i] = p.with(ev...)
				}
				return qs
			})
			lkInlining = lkInlining[:len(lkInlining)-1]
		}
	}
	return ps
}

func lkEach(ps []lkPath, f func(p lkPath) []lkPath) []lkPath {
	var out []lkPath
	for _, p := range ps {
		if p.done || p.brk {
			out = append(out, p)
		} else {
			out = append(out, f(p)...)
		}
	}
	if len(out) > 4096 {
		fail("lock structure: too many control-flow paths")
		return out[:1]
	}
	return out
}

func lkAppend(ps []lkPath, ev []int) []lkPath {
	return lkEach(ps, func(p lkPath) []lkPath { return []lkPath{p.with(ev...)} })
}

func lkStmts(ps []lkPath, list []ast.Stmt) []lkPath {
	for _, s := range list {
		ps = lkStmt(ps, s)
	}
	return ps
}

func lkLoop(ps []lkPath, body *ast.BlockStmt, post ast.Stmt) []lkPath {
	return lkEach(ps, func(p lkPath) []lkPath {
		once := lkStmts([]lkPath{p}, body.List)
		for i := range once {
			once[i].brk = false
		}
		if post != nil {
			once = lkStmt(once, post)
		}
		return append([]lkPath{p}, once...)
	})
}

func lkStmt(ps []lkPath, s ast.Stmt) []lkPath {
	switch x := s.(type) {
	case nil:
		return ps
	case *ast.BlockStmt:
		return lkStmts(ps, x.List)
	case *ast.ExprStmt:
		return lkEval(ps, x.X)
	case *ast.DeferStmt:
		if sel, ok := x.Call.Fun.(*ast.SelectorExpr); ok && strings.HasSuffix(exprString(sel.X), "usersLock") {
			if sel.Sel.Name == "Unlock" {
				return lkAppend(ps, []int{lkDeferUnlock})
			}
			fail("lock structure: defer usersLock.%s", sel.Sel.Name)
		}
		return ps
	case *ast.GoStmt:
		return ps
	case *ast.AssignStmt:
		for _, r := range x.Rhs {
			ps = lkEval(ps, r)
		}
		for _, l := range x.Lhs {
			if ix, ok := l.(*ast.IndexExpr); ok && lkTable(ix.X) >= 0 {
				ps = lkEval(ps, ix.Index)
				ps = lkAppend(ps, []int{lkTable(ix.X) + 1}) // the store
			} else {
				ps = lkEval(ps, l)
			}
		}
		return ps
	case *ast.ReturnStmt:
		for _, r := range x.Results {
			ps = lkEval(ps, r)
		}
		return lkEach(ps, func(p lkPath) []lkPath { p.done = true; return []lkPath{p} })
	case *ast.BranchStmt:
		if x.Tok == token.GOTO || x.Label != nil {
			fail("lock structure: goto / labelled branch")
		}
		return lkEach(ps, func(p lkPath) []lkPath { p.brk = true; return []lkPath{p} })
	case *ast.IfStmt:
		ps = lkStmt(ps, x.Init)
		ps = lkEval(ps, x.Cond)
		return lkEach(ps, func(p lkPath) []lkPath {
			then := lkStmts([]lkPath{p}, x.Body.List)
			if x.Else != nil {
				return append(then, lkStmt([]lkPath{p}, x.Else)...)
			}
			return append(then, p)
		})
	case *ast.ForStmt:
		ps = lkStmt(ps, x.Init)
		ps = lkEval(ps, x.Cond)
		return lkLoop(ps, x.Body, x.Post)
	case *ast.RangeStmt:
		ps = lkEval(ps, x.X)
		return lkLoop(ps, x.Body, nil)
	case *ast.SwitchStmt, *ast.TypeSwitchStmt, *ast.SelectStmt:
		var body *ast.BlockStmt
		switch y := x.(type) {
		case *ast.SwitchStmt:
			ps = lkStmt(ps, y.Init)
			ps = lkEval(ps, y.Tag)
			body = y.Body
		case *ast.TypeSwitchStmt:
			ps = lkStmt(ps, y.Init)
			ps = lkStmt(ps, y.Assign)
			body = y.Body
		case *ast.SelectStmt:
			body = y.Body
		}
		return lkEach(ps, func(p lkPath) []lkPath {
			// the clauses in source order, then "no clause taken" -- the order an if / else-if chain gives
			var out []lkPath
			hasDefault := false
			for _, c := range body.List {
				var list []ast.Stmt
				heads := []lkPath{p}
				switch cc := c.(type) {
				case *ast.CaseClause:
					hasDefault = hasDefault || cc.List == nil
					for _, e := range cc.List {
						heads = lkEval(heads, e)
					}
					list = cc.Body
				case *ast.CommClause:
					hasDefault = hasDefault || cc.Comm == nil
					heads = lkStmt(heads, cc.Comm)
					list = cc.Body
				}
				br := lkStmts(heads, list)
				for i := range br {
					br[i].brk = false // a break inside a switch leaves the switch
				}
				out = append(out, br...)
			}
			if !hasDefault {
				out = append(out, p) // no clause taken
			}
			return out
		})
	case *ast.SendStmt:
		return lkEval(ps, x.Chan, x.Value)
	case *ast.IncDecStmt:
		return lkEval(ps, x.X)
	case *ast.DeclStmt:
		return lkEval(ps, x.Decl)
	case *ast.LabeledStmt:
		return lkStmt(ps, x.Stmt)
	case *ast.EmptyStmt:
		return ps
	}
	fail("lock structure: statement %T not understood", s)
	return ps
}

func lkPaths(body *ast.BlockStmt) string {
	ps := lkStmts([]lkPath{{}}, body.List)
	seen := map[string]bool{}
	var out []string
	for _, p := range ps {
		parts := make([]string, len(p.ev))
		for i, e := range p.ev {
			parts[i] = fmt.Sprint(e)
		}
		k := "[" + strings.Join(parts, ", ") + "]"
		if !seen[k] {
			seen[k] = true
			out = append(out, k)
		}
	}
	return "[" + strings.Join(out, ",\n  ") + "]"
}

func init() {
	extractors = append(extractors, func(o *out) {
		const file = "internal/streams/dns/dns_server_connection.go"
		f := parse(file)
		lkFuncs, lkInlining = c13PkgFuncs(filepath.Dir(file)), nil
		b := o.w("C13Locks.lean")
		fmt.Fprintf(b, "/-- %s: the control-flow paths of the operations on the session tables as sequences of\n"+
			"    0 usersLock.Lock()  1 defer usersLock.Unlock()  2 usersLock.Unlock()  3 read connections  4 store connections[…]\n"+
			"    5 read oldConnections  6 store oldConnections[…]   (loop bodies zero times or once; go/extract/x_c13_locks.go) -/\n", file)
		for _, fn := range []string{"newUser", "closeConnection"} {
			d := findFunc(f, "ServerDnsListener", fn)
			if d == nil || d.Body == nil {
				fail("%s not found", fn)
				fmt.Fprintf(b, "def lockPaths_%s : List (List Nat) := []\n", fn)
				continue
			}
			fmt.Fprintf(b, "def lockPaths_%s : List (List Nat) :=\n  %s\n", fn, lkPaths(d.Body))
		}
		// the pruning task: the first goroutine started in NewServerDnsListener (a function literal or a helper)
		var goBody *ast.BlockStmt
		if ctor := findFunc(f, "", "NewServerDnsListener"); ctor != nil {
			goBody, _ = c13GoBody(lkFuncs, ctor)
		}
		if goBody == nil {
			fail("pruning goroutine not found in NewServerDnsListener")
			fmt.Fprintf(b, "def lockPaths_expiry : List (List Nat) := []\n")
		} else {
			fmt.Fprintf(b, "def lockPaths_expiry : List (List Nat) :=\n  %s\n", lkPaths(goBody))
		}
	})
}

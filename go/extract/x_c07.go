package main

// C07 facts: the DNS-tunnel packet queues (internal/streams/dns/util/queue.go) and the
// piggy-backed acknowledgement expressions of the client / server packet exchange.
//
//   c07MaxCachedChunks   the constant
//   c07OutTrim           which slice of `acked` OutQueue.cleanAckedChunks keeps when it is too long
//   c07InTrim            which slice of `acked` InQueue.Append keeps (in the in-order branch)
//                        0 = acked[0:Max] (oldest Max)  1 = acked[len-Max:] (newest Max)  2 = acked[1:]
//   c07WindowLo/Hi       the out-of-order acceptance loop `for i := next+Lo; i != next+Hi; i++`
//   c07AckOffset         k in `LastAckedSeqNo = in.NextSeqNo - k` (client request and server response)

import (
	"fmt"
	"go/ast"
	"go/constant"
	"go/token"
	"go/types"
	"regexp"
	"sort"
	"strconv"
	"strings"
)

// The poll loop: the goroutine at the end of ClientDnsConnection.Handshake,
//
//	go func() { …; for !dc.Closed() { jitter := rand.Intn(N) - M; duration := time.Duration(dc.selectTimeout+jitter+(errCount*B)) * time.<Unit>; …
//	    select { case <-time.After(duration): if !dc.lastQuery.Add(duration).After(time.Now()) { …dc.SendAndReceive(<arg>)… } } } }()
//
//   c07PollArg    what the loop hands to SendAndReceive: 0 = dc.out.NextChunk() (directly, or through a variable assigned from it in
//                 the statement before), 1 = nil
//   c07PollStops  statements in the loop body that leave the loop (return, goto, a break that reaches the loop)
//   c07PollUnitUs / c07PollBackoff / c07PollJitterN / c07PollJitterOff   the sleep
type c07PollFacts struct {
	arg, stops, unitUs, backoff, jitterN, jitterOff int
}

func c07PollLoop(fd *ast.FuncDecl) (pf c07PollFacts, why string) {
	var lits []*ast.FuncLit
	ast.Inspect(fd.Body, func(x ast.Node) bool {
		if g, ok := x.(*ast.GoStmt); ok {
			if fl, ok := g.Call.Fun.(*ast.FuncLit); ok {
				lits = append(lits, fl)
			}
		}
		return true
	})
	var loop *ast.ForStmt
	for _, fl := range lits {
		for _, st := range fl.Body.List {
			if fs, ok := st.(*ast.ForStmt); ok && fs.Init == nil && fs.Post == nil && fs.Cond != nil && types.ExprString(fs.Cond) == "!dc.Closed()" {
				if loop != nil {
					return pf, "more than one goroutine with a `for !dc.Closed()` loop"
				}
				loop = fs
			}
		}
	}
	if loop == nil {
		return pf, "no `go func() { … for !dc.Closed() { … } }()` in Handshake"
	}
	// walk the loop body with the chain of enclosing nodes
	var stack []ast.Node
	var sendChain []ast.Node
	var send *ast.CallExpr
	sends := 0
	bad := ""
	ast.Inspect(loop.Body, func(x ast.Node) bool {
		if x == nil {
			stack = stack[:len(stack)-1]
			return true
		}
		switch n := x.(type) {
		case *ast.FuncLit:
			bad = "a function literal inside the loop"
		case *ast.ReturnStmt:
			pf.stops++
		case *ast.BranchStmt:
			inner := false // enclosed by something an unlabelled break / continue refers to instead of the loop
			for _, a := range stack {
				switch a.(type) {
				case *ast.ForStmt, *ast.RangeStmt:
					inner = true
				case *ast.SelectStmt, *ast.SwitchStmt, *ast.TypeSwitchStmt:
					if n.Tok == token.BREAK {
						inner = true
					}
				}
			}
			switch {
			case n.Tok == token.GOTO, n.Tok == token.BREAK && (n.Label != nil || !inner):
				pf.stops++
			case n.Tok == token.CONTINUE && (n.Label != nil || !inner):
				bad = "a `continue` that skips the rest of a turn"
			}
		case *ast.CallExpr:
			switch types.ExprString(n.Fun) {
			case "dc.SendAndReceive":
				sends++
				send = n
				sendChain = append([]ast.Node{}, stack...)
			case "panic", "os.Exit", "runtime.Goexit", "log.Fatalf", "log.Fatal":
				pf.stops++
			}
		}
		stack = append(stack, x)
		return true
	})
	if bad != "" {
		return pf, bad
	}
	if sends != 1 || len(send.Args) != 1 {
		return pf, fmt.Sprintf("%d calls of dc.SendAndReceive in the loop (expected one, with one argument)", sends)
	}
	// the send is reached on every turn whose timer fired and that saw no query for `duration`: nothing else may guard it
	guards := 0
	var holder ast.Stmt  // the statement of the innermost block that contains the call
	var block *ast.BlockStmt
	for i, a := range sendChain {
		switch n := a.(type) {
		case *ast.BlockStmt:
			block = n
			holder = nil
			if i+1 < len(sendChain) {
				holder, _ = sendChain[i+1].(ast.Stmt)
			}
		case *ast.SelectStmt:
			if len(n.Body.List) != 1 {
				return pf, "the select of the loop has more than one case"
			}
		case *ast.CommClause:
			es, ok := n.Comm.(*ast.ExprStmt)
			if !ok || types.ExprString(es.X) != "<-time.After(duration)" {
				return pf, "the select case is not `<-time.After(duration)`"
			}
		case *ast.IfStmt:
			inInit := i+1 < len(sendChain) && n.Init != nil && sendChain[i+1] == ast.Node(n.Init)
			if inInit {
				break // `if err := dc.SendAndReceive(..); …`
			}
			if types.ExprString(n.Cond) != "!dc.lastQuery.Add(duration).After(time.Now())" || i+1 >= len(sendChain) || sendChain[i+1] != ast.Node(n.Body) {
				return pf, "the send is guarded by `" + types.ExprString(n.Cond) + "`"
			}
			guards++
		case *ast.AssignStmt, *ast.ExprStmt:
		default:
			return pf, fmt.Sprintf("the send sits inside a %T", a)
		}
	}
	if guards != 1 {
		return pf, "the `no query for that long` guard is missing or doubled"
	}
	switch a := types.ExprString(send.Args[0]); {
	case a == "nil":
		pf.arg = 1
	case a == "dc.out.NextChunk()":
		pf.arg = 0
	default:
		pf.arg = -1
		id, isId := send.Args[0].(*ast.Ident)
		if isId && block != nil && holder != nil {
			for i, st := range block.List {
				if st == holder && i > 0 {
					if as, ok := block.List[i-1].(*ast.AssignStmt); ok && len(as.Lhs) == 1 && len(as.Rhs) == 1 &&
						types.ExprString(as.Lhs[0]) == id.Name && types.ExprString(as.Rhs[0]) == "dc.out.NextChunk()" {
						pf.arg = 0
					}
				}
			}
		}
		if pf.arg < 0 {
			return pf, "the argument of dc.SendAndReceive is `" + a + "`"
		}
	}
	// the sleep
	reJ := regexp.MustCompile(`^rand\.Intn\((\d+)\) - (\d+)$`)
	reD := regexp.MustCompile(`^time\.Duration\(dc\.selectTimeout \+ jitter \+ \(errCount \* (\d+)\)\) \* time\.(Microsecond|Millisecond|Second)$`)
	gotJ, gotD := false, false
	for _, st := range loop.Body.List {
		as, ok := st.(*ast.AssignStmt)
		if !ok || len(as.Lhs) != 1 || len(as.Rhs) != 1 {
			continue
		}
		rhs := types.ExprString(as.Rhs[0])
		switch types.ExprString(as.Lhs[0]) {
		case "jitter":
			if m := reJ.FindStringSubmatch(rhs); m != nil {
				pf.jitterN, _ = strconv.Atoi(m[1])
				pf.jitterOff, _ = strconv.Atoi(m[2])
				gotJ = true
			}
		case "duration":
			if m := reD.FindStringSubmatch(rhs); m != nil {
				pf.backoff, _ = strconv.Atoi(m[1])
				pf.unitUs = map[string]int{"Microsecond": 1, "Millisecond": 1000, "Second": 1000000}[m[2]]
				gotD = true
			}
		}
	}
	if !gotJ || !gotD {
		return pf, "the sleep (`jitter := rand.Intn(N) - M`, `duration := time.Duration(dc.selectTimeout+jitter+(errCount*B)) * time.<Unit>`) is not in the recognised shape"
	}
	return pf, ""
}

// c07AnswerIdChecks lists every place in QueryWithData / Query / SendAndReceive where the code above the communicator looks at WHICH
// answer it was handed: any use of the value returned by Communicator.SendAndReceive other than handing it whole to
// Serializer.DecodeDnsResponseWithParams, and any comparison that involves a message id, the ring of query ids, a question or a name.
func c07AnswerIdChecks(f *ast.File) (checks []string, why string) {
	q := findFunc(f, "ClientDnsConnection", "QueryWithData")
	if q == nil {
		return nil, "ClientDnsConnection.QueryWithData not found"
	}
	// the variable that receives the communicator's answer
	resp := ""
	allowed := map[token.Pos]bool{}
	ast.Inspect(q.Body, func(x ast.Node) bool {
		as, ok := x.(*ast.AssignStmt)
		if !ok || len(as.Rhs) != 1 {
			return true
		}
		if ce, ok := as.Rhs[0].(*ast.CallExpr); ok && c07Sel(ce.Fun) == "dc.Communicator.SendAndReceive" && len(as.Lhs) == 3 {
			if id, ok := as.Lhs[0].(*ast.Ident); ok && resp == "" {
				resp = id.Name
				allowed[id.Pos()] = true
			}
		}
		return true
	})
	if resp == "" {
		return nil, "`<answer>, _, err := dc.Communicator.SendAndReceive(…)` not found in QueryWithData"
	}
	decoded := 0
	ast.Inspect(q.Body, func(x ast.Node) bool {
		if ce, ok := x.(*ast.CallExpr); ok {
			if se, ok := ce.Fun.(*ast.SelectorExpr); ok && se.Sel.Name == "DecodeDnsResponseWithParams" {
				for _, a := range ce.Args {
					if id, ok := a.(*ast.Ident); ok && id.Name == resp {
						allowed[id.Pos()] = true
						decoded++
					}
				}
			}
		}
		return true
	})
	if decoded != 1 {
		return nil, "the communicator's answer is not handed to Serializer.DecodeDnsResponseWithParams exactly once"
	}
	render := func(n ast.Node) string {
		if e, ok := n.(ast.Expr); ok {
			if s := c07Sel(e); !strings.Contains(s, "?") {
				return s
			}
		}
		return fmt.Sprintf("%T", n)
	}
	for _, fn := range []string{"QueryWithData", "Query", "SendAndReceive"} {
		fd := findFunc(f, "ClientDnsConnection", fn)
		if fd == nil {
			return nil, "ClientDnsConnection." + fn + " not found"
		}
		var stack []ast.Node
		ast.Inspect(fd.Body, func(x ast.Node) bool {
			if x == nil {
				stack = stack[:len(stack)-1]
				return true
			}
			switch v := x.(type) {
			case *ast.Ident:
				if fn == "QueryWithData" && v.Name == resp && !allowed[v.Pos()] && len(stack) > 0 {
					checks = append(checks, fn+": "+render(stack[len(stack)-1]))
				}
			case *ast.BinaryExpr:
				if v.Op == token.EQL || v.Op == token.NEQ || v.Op == token.LSS || v.Op == token.GTR || v.Op == token.LEQ || v.Op == token.GEQ {
					hit := false
					ast.Inspect(v, func(y ast.Node) bool {
						switch w := y.(type) {
						case *ast.SelectorExpr:
							switch w.Sel.Name {
							case "Id", "chunkId", "Question", "Name", "MsgHdr", "Qtype":
								hit = true
							}
						case *ast.Ident:
							if w.Name == "chunkId" {
								hit = true
							}
						}
						return true
					})
					// the one comparison the id generator itself makes: 0 is "no query" in iodined
					if hit && c07Sel(v) != "dc.chunkId[0]==0" && render(v) != "dc.chunkId[0]==0" {
						checks = append(checks, fn+": "+render(v))
					}
				}
			}
			stack = append(stack, x)
			return true
		})
	}
	sort.Strings(checks)
	return checks, ""
}

func c07Sel(e ast.Expr) string {
	switch x := e.(type) {
	case *ast.Ident:
		return x.Name
	case *ast.SelectorExpr:
		return c07Sel(x.X) + "." + x.Sel.Name
	case *ast.ParenExpr:
		return c07Sel(x.X)
	case *ast.CallExpr:
		if len(x.Args) == 1 {
			return c07Sel(x.Fun) + "(" + c07Sel(x.Args[0]) + ")"
		}
	case *ast.BasicLit:
		return x.Value
	case *ast.BinaryExpr:
		return c07Sel(x.X) + x.Op.String() + c07Sel(x.Y)
	case *ast.IndexExpr:
		return c07Sel(x.X) + "[" + c07Sel(x.Index) + "]"
	}
	return "?"
}

// trimCode classifies `q.acked[lo:hi]`.
func c07TrimCode(s *ast.SliceExpr) int {
	if c07Sel(s.X) != "q.acked" || s.Slice3 {
		return -1
	}
	lo, hi := "", ""
	if s.Low != nil {
		lo = c07Sel(s.Low)
	}
	if s.High != nil {
		hi = c07Sel(s.High)
	}
	switch {
	case (lo == "" || lo == "0") && hi == "MaxCachedChunks":
		return 0
	case lo == "len(q.acked)-MaxCachedChunks" && (hi == "" || hi == "len(q.acked)"):
		return 1
	case lo == "1" && (hi == "" || hi == "len(q.acked)"):
		return 2
	}
	return -1
}

// findTrim finds `if len(q.acked) > MaxCachedChunks { q.acked = q.acked[..] }` below the nodes ns. The statement of the branch may
// also be a call `q.helper()` of an unexported method (resolve != nil) whose whole body is that assignment.
func c07FindTrim(resolve func(ast.Expr) *ast.FuncDecl, ns ...ast.Node) (code int, found int) {
	code = -1
	for _, n := range ns {
		if n == nil {
			continue
		}
		ast.Inspect(n, func(x ast.Node) bool {
			is, ok := x.(*ast.IfStmt)
			if !ok || c07Sel(is.Cond) != "len(q.acked)>MaxCachedChunks" {
				return true
			}
			if len(is.Body.List) == 1 && is.Else == nil {
				st := is.Body.List[0]
				if es, ok := st.(*ast.ExprStmt); ok && resolve != nil {
					if ce, ok := es.X.(*ast.CallExpr); ok && len(ce.Args) == 0 {
						if h := resolve(ce.Fun); h != nil && len(h.Body.List) == 1 {
							st = h.Body.List[0]
						}
					}
				}
				if as, ok := st.(*ast.AssignStmt); ok && len(as.Lhs) == 1 && len(as.Rhs) == 1 && c07Sel(as.Lhs[0]) == "q.acked" {
					if se, ok := as.Rhs[0].(*ast.SliceExpr); ok {
						code = c07TrimCode(se)
						found++
					}
				}
			}
			return true
		})
	}
	return
}

// c07MethodResolver resolves a call `q.m` (q the receiver of the method being read) to the declaration of the unexported method m of
// the same type in the same file, provided that method names its receiver `q` too (the facts are stated over `q.…` expressions).
func c07MethodResolver(f *ast.File, recvType string) func(ast.Expr) *ast.FuncDecl {
	return func(fun ast.Expr) *ast.FuncDecl {
		se, ok := fun.(*ast.SelectorExpr)
		if !ok || c07Sel(se.X) != "q" || ast.IsExported(se.Sel.Name) {
			return nil
		}
		h := findFunc(f, recvType, se.Sel.Name)
		if h == nil || h.Body == nil || h.Recv == nil || len(h.Recv.List) != 1 || len(h.Recv.List[0].Names) != 1 || h.Recv.List[0].Names[0].Name != "q" {
			return nil
		}
		return h
	}
}

// c07Reach returns the statements together with the bodies of the unexported methods of the same receiver they call, directly or
// through another such method (two levels): a fact about "this path does X" also holds when X happens in a helper the path calls.
func c07Reach(resolve func(ast.Expr) *ast.FuncDecl, stmts []ast.Stmt) []ast.Node {
	var res []ast.Node
	seen := map[*ast.FuncDecl]bool{}
	var add func(n ast.Node, depth int)
	add = func(n ast.Node, depth int) {
		res = append(res, n)
		if depth == 0 {
			return
		}
		ast.Inspect(n, func(x ast.Node) bool {
			if ce, ok := x.(*ast.CallExpr); ok {
				if h := resolve(ce.Fun); h != nil && !seen[h] {
					seen[h] = true
					add(h.Body, depth-1)
				}
			}
			return true
		})
	}
	for _, st := range stmts {
		add(st, 2)
	}
	return res
}

// c07AppendPaths normalises InQueue.Append to guarded paths: the statements that run before the method distinguishes the expected
// packet (`val.SeqNo == q.NextSeqNo`) from any other, the statements that run from there when it is the expected one, and the
// statements that run when it is not.  Accepted alike:  `if a == b {X} else {Y}; R`,  `if a != b {Y} else {X}; R`,  the early-return
// forms `if a != b {Y; return}; X…` / `if a == b {X; return}; Y…`,  and `switch { case a == b: X; default: Y }; R`
// (a, b = val.SeqNo, q.NextSeqNo in either order).  R is part of a path unless the branch ends in a return / panic.
func c07AppendPaths(fd *ast.FuncDecl) (before, inorder, other []ast.Stmt, why string) {
	// +1: the expression is true exactly for the expected packet, -1: exactly for the others, 0: something else
	polarity := func(e ast.Expr) int {
		sign := 1
		for {
			switch v := e.(type) {
			case *ast.ParenExpr:
				e = v.X
				continue
			case *ast.UnaryExpr:
				if v.Op == token.NOT {
					sign, e = -sign, v.X
					continue
				}
			}
			break
		}
		be, ok := e.(*ast.BinaryExpr)
		if !ok || (be.Op != token.EQL && be.Op != token.NEQ) {
			return 0
		}
		x, y := c07Sel(be.X), c07Sel(be.Y)
		if !(x == "val.SeqNo" && y == "q.NextSeqNo") && !(x == "q.NextSeqNo" && y == "val.SeqNo") {
			return 0
		}
		if be.Op == token.NEQ {
			sign = -sign
		}
		return sign
	}
	ends := func(l []ast.Stmt) bool {
		if len(l) == 0 {
			return false
		}
		switch v := l[len(l)-1].(type) {
		case *ast.ReturnStmt:
			return true
		case *ast.ExprStmt:
			if ce, ok := v.X.(*ast.CallExpr); ok && c07Sel(ce.Fun) == "panic" {
				return true
			}
		}
		return false
	}
	list := fd.Body.List
	for i, st := range list {
		var yes, no []ast.Stmt // when the condition found holds / does not hold
		pol := 0
		switch v := st.(type) {
		case *ast.IfStmt:
			if pol = polarity(v.Cond); pol == 0 {
				continue
			}
			if v.Init != nil {
				return nil, nil, nil, "the `val.SeqNo == q.NextSeqNo` test has an init statement"
			}
			yes = v.Body.List
			switch e := v.Else.(type) {
			case *ast.BlockStmt:
				no = e.List
			case *ast.IfStmt:
				no = []ast.Stmt{e}
			}
		case *ast.SwitchStmt:
			if v.Init != nil || v.Tag != nil || len(v.Body.List) == 0 {
				continue
			}
			first, _ := v.Body.List[0].(*ast.CaseClause)
			if first == nil || len(first.List) != 1 {
				continue
			}
			if pol = polarity(first.List[0]); pol == 0 {
				continue
			}
			yes = first.Body
			switch len(v.Body.List) {
			case 1:
			case 2:
				second := v.Body.List[1].(*ast.CaseClause)
				if second.List != nil {
					return nil, nil, nil, "the switch on `val.SeqNo == q.NextSeqNo` has a second conditional case"
				}
				no = second.Body
			default:
				return nil, nil, nil, "the switch on `val.SeqNo == q.NextSeqNo` has more than two cases"
			}
			for _, l := range [][]ast.Stmt{yes, no} {
				bad := false
				for _, s := range l {
					// a break that refers to this switch (not to a loop / select / switch nested in the case) leaves it early
					var walk func(n ast.Node, nested bool)
					walk = func(n ast.Node, nested bool) {
						ast.Inspect(n, func(x ast.Node) bool {
							switch b := x.(type) {
							case *ast.FuncLit:
								return false
							case *ast.ForStmt, *ast.RangeStmt, *ast.SelectStmt, *ast.SwitchStmt, *ast.TypeSwitchStmt:
								if x != n {
									walk(x, true)
									return false
								}
							case *ast.BranchStmt:
								if b.Tok == token.FALLTHROUGH && !nested || b.Tok == token.BREAK && (b.Label != nil || !nested) || b.Tok == token.GOTO {
									bad = true
								}
							}
							return true
						})
					}
					walk(s, false)
				}
				if bad {
					return nil, nil, nil, "a break / fallthrough inside the switch on `val.SeqNo == q.NextSeqNo`"
				}
			}
		default:
			continue
		}
		rest := list[i+1:]
		path := func(l []ast.Stmt) []ast.Stmt {
			if ends(l) {
				return l
			}
			return append(append([]ast.Stmt{}, l...), rest...)
		}
		if pol > 0 {
			return list[:i], path(yes), path(no), ""
		}
		return list[:i], path(no), path(yes), ""
	}
	return nil, nil, nil, "no statement that distinguishes `val.SeqNo == q.NextSeqNo` from the other packets (if / else, early return or switch) at the top level"
}

// c07WriteCount classifies the body of the `for len(b) > 0` loop of OutQueue.Write by the order of three things:
// the call of q.addChunk (the fragment is enqueued), `n += len(data)` and the statement that returns when err != nil.
// 0: enqueue / count in any order, both before the return;  1: enqueue, return, count;  -1: anything else
// (count missing or duplicated, conditional count, count inside a branch, return before the enqueue, ...).
func c07WriteCount(fd *ast.FuncDecl) int {
	var loop *ast.ForStmt
	ast.Inspect(fd.Body, func(x ast.Node) bool {
		if fs, ok := x.(*ast.ForStmt); ok && loop == nil && fs.Init == nil && fs.Post == nil && c07Sel(fs.Cond) == "len(b)>0" {
			loop = fs
			return false
		}
		return true
	})
	if loop == nil {
		return -1
	}
	callsAdd := func(n ast.Node) bool {
		found := false
		if n == nil {
			return false
		}
		ast.Inspect(n, func(x ast.Node) bool {
			if ce, ok := x.(*ast.CallExpr); ok && c07Sel(ce.Fun) == "q.addChunk" {
				found = true
			}
			return true
		})
		return found
	}
	isCount := func(st ast.Stmt) bool {
		as, ok := st.(*ast.AssignStmt)
		if !ok || len(as.Lhs) != 1 || len(as.Rhs) != 1 || c07Sel(as.Lhs[0]) != "n" {
			return false
		}
		if as.Tok == token.ADD_ASSIGN && c07Sel(as.Rhs[0]) == "len(data)" {
			return true
		}
		return as.Tok == token.ASSIGN && (c07Sel(as.Rhs[0]) == "n+len(data)" || c07Sel(as.Rhs[0]) == "len(data)+n")
	}
	mentionsN := func(n ast.Node) bool {
		found := false
		ast.Inspect(n, func(x ast.Node) bool {
			if id, ok := x.(*ast.Ident); ok && id.Name == "n" {
				found = true
			}
			return true
		})
		return found
	}
	add, count, ret := -1, -1, -1
	for i, st := range loop.Body.List {
		switch {
		case isCount(st):
			if count >= 0 {
				return -1
			}
			count = i
		default:
			if is, ok := st.(*ast.IfStmt); ok && c07Sel(is.Cond) == "err!=nil" && is.Else == nil && len(is.Body.List) == 1 {
				if _, isRet := is.Body.List[0].(*ast.ReturnStmt); isRet && ret < 0 {
					ret = i
					if is.Init != nil && callsAdd(is.Init) && add < 0 {
						add = i
					}
					continue
				}
			}
			if mentionsN(st) {
				return -1 // n is touched somewhere else in the loop
			}
			if callsAdd(st) {
				if add >= 0 {
					return -1
				}
				if _, plain := st.(*ast.AssignStmt); !plain {
					return -1
				}
				add = i
			}
		}
	}
	// a bare `return` in the error branch returns the named results (n, err) as they stand
	if fd.Type.Results == nil || len(fd.Type.Results.List) != 2 || len(fd.Type.Results.List[0].Names) != 1 || fd.Type.Results.List[0].Names[0].Name != "n" {
		return -1
	}
	if is, ok := loop.Body.List[max(ret, 0)].(*ast.IfStmt); ret >= 0 && ok {
		if r := is.Body.List[0].(*ast.ReturnStmt); len(r.Results) != 0 && !(len(r.Results) == 2 && c07Sel(r.Results[0]) == "n" && c07Sel(r.Results[1]) == "err") {
			return -1
		}
	}
	switch {
	case add < 0 || count < 0 || ret < 0 || add > ret:
		return -1
	case count < ret:
		return 0
	default:
		return 1
	}
}

func init() {
	extractors = append(extractors, func(o *out) {
		b := o.w("C07.lean")
		qf := parse("internal/streams/dns/util/queue.go")
		en := fileConsts(qf, nil)
		max := intConst(en, "MaxCachedChunks", "queue.go")
		fmt.Fprintf(b, "/-- internal/streams/dns/util/queue.go MaxCachedChunks -/\ndef c07MaxCachedChunks : Nat := %d\n", max)

		// OutQueue.cleanAckedChunks
		if fd := findFunc(qf, "OutQueue", "cleanAckedChunks"); fd == nil {
			fail("C07: OutQueue.cleanAckedChunks not found")
		} else {
			code, n := c07FindTrim(c07MethodResolver(qf, "OutQueue"), fd.Body)
			if n != 1 || code < 0 {
				fail("C07: OutQueue.cleanAckedChunks: trimming of q.acked not in a recognised shape (found %d, code %d)", n, code)
			}
			fmt.Fprintf(b, "/-- OutQueue.cleanAckedChunks: slice of `acked` kept when longer than MaxCachedChunks\n    (0 = acked[0:Max] oldest, 1 = acked[len-Max:] newest, 2 = acked[1:]) -/\ndef c07OutTrim : Nat := %d\n", code)
		}

		// InQueue.Append: trim in the in-order branch only; window loop
		if fd := findFunc(qf, "InQueue", "Append"); fd == nil {
			fail("C07: InQueue.Append not found")
		} else {
			// guarded paths instead of one syntactic form; helpers of the same type are followed (c07Reach)
			resolve := c07MethodResolver(qf, "InQueue")
			before, inorder, other, why := c07AppendPaths(fd)
			if why != "" {
				fail("C07: InQueue.Append: %s", why)
			} else {
				code, n := c07FindTrim(resolve, c07Reach(resolve, inorder)...)
				_, nElse := c07FindTrim(resolve, c07Reach(resolve, other)...)
				_, nBefore := c07FindTrim(resolve, c07Reach(resolve, before)...)
				if n != 1 || code < 0 || nElse != 0 || nBefore != 0 {
					fail("C07: InQueue.Append: acked trimming not (only) on the in-order path in a recognised shape (in-order %d, other packets %d, before the test %d, code %d)", n, nElse, nBefore, code)
				}
				fmt.Fprintf(b, "/-- InQueue.Append (in-order branch only): slice of `acked` kept when longer than MaxCachedChunks -/\ndef c07InTrim : Nat := %d\n", code)
				lo, hi, loops := int64(-1), int64(-1), 0
				for _, nd := range c07Reach(resolve, other) {
					ast.Inspect(nd, func(x ast.Node) bool {
						fs, ok := x.(*ast.ForStmt)
						if !ok {
							return true
						}
						as, ok1 := fs.Init.(*ast.AssignStmt)
						cond, ok2 := fs.Cond.(*ast.BinaryExpr)
						inc, ok3 := fs.Post.(*ast.IncDecStmt)
						if !ok1 || !ok2 || !ok3 || inc.Tok != token.INC || cond.Op != token.NEQ || len(as.Rhs) != 1 || len(as.Lhs) != 1 {
							return true
						}
						// one loop variable: initialised, compared and incremented
						if v := c07Sel(as.Lhs[0]); v == "?" || c07Sel(cond.X) != v || c07Sel(inc.X) != v {
							return true
						}
						i1, ok1 := as.Rhs[0].(*ast.BinaryExpr)
						c1, ok2 := cond.Y.(*ast.BinaryExpr)
						if !ok1 || !ok2 || i1.Op != token.ADD || c1.Op != token.ADD || c07Sel(i1.X) != "q.NextSeqNo" || c07Sel(c1.X) != "q.NextSeqNo" {
							return true
						}
						loops++
						if v := evalExpr(i1.Y, en); v != nil {
							lo, _ = constant.Int64Val(constant.ToInt(v))
						}
						if v := evalExpr(c1.Y, en); v != nil {
							hi, _ = constant.Int64Val(constant.ToInt(v))
						}
						return false
					})
				}
				if loops != 1 || lo < 0 || hi < 0 || lo > 65535 || hi > 65535 {
					fail("C07: InQueue.Append: acceptance-window loop `for i := q.NextSeqNo+lo; i != q.NextSeqNo+hi; i++` not found exactly once on the path of the other packets (found %d)", loops)
				}
				fmt.Fprintf(b, "/-- InQueue.Append: `for i := q.NextSeqNo + Lo; i != q.NextSeqNo + Hi; i++` -/\ndef c07WindowLo : Nat := %d\ndef c07WindowHi : Nat := %d\n", lo, hi)
			}
		}

		// OutQueue.Write: where `n += len(data)` sits relative to the error return of the fragment loop
		if fd := findFunc(qf, "OutQueue", "Write"); fd == nil {
			fail("C07: OutQueue.Write not found")
		} else {
			code := c07WriteCount(fd)
			if code < 0 {
				fail("C07: OutQueue.Write: the fragment loop (`err = q.addChunk(data)`, `n += len(data)`, `if err != nil { return }`) is not in a recognised shape")
				code = 99 // no accounting the model knows
			}
			fmt.Fprintf(b, "/-- OutQueue.Write, fragment loop: 0 = `n += len(data)` runs before the `if err != nil { return }` that follows\n    `addChunk` (a fragment is counted as soon as it is enqueued), 1 = it runs only after that return (a fragment whose\n    callback failed is enqueued but not counted) -/\ndef c07WriteCount : Nat := %d\n", code)
		}

		// piggy-backed ack: in.NextSeqNo - k on both ends
		offs := []string{}
		for _, site := range [][3]string{
			{"internal/streams/dns/dns_client_connection.go", "ClientDnsConnection", "SendAndReceive"},
			{"internal/streams/dns/dns_server_connection.go", "ServerDnsListener", "packet"},
		} {
			f := parse(site[0])
			fd := findFunc(f, site[1], site[2])
			if fd == nil {
				fail("C07: %s.%s not found", site[1], site[2])
				continue
			}
			got := ""
			ast.Inspect(fd.Body, func(x ast.Node) bool {
				be, ok := x.(*ast.BinaryExpr)
				if ok && be.Op == token.SUB && strings.HasSuffix(c07Sel(be.X), ".in.NextSeqNo") {
					got = c07Sel(be.Y)
				}
				return true
			})
			if got == "" {
				fail("C07: %s.%s: `LastAckedSeqNo = ….in.NextSeqNo - k` not found", site[1], site[2])
			}
			offs = append(offs, got)
		}
		// retry loop of SendAndReceive: number of tries and how a timeout is recognised
		{
			f := parse("internal/streams/dns/dns_client_connection.go")
			fd := findFunc(f, "ClientDnsConnection", "SendAndReceive")
			tries, test := int64(-1), -1
			if fd != nil {
				ast.Inspect(fd.Body, func(x ast.Node) bool {
					fs, ok := x.(*ast.ForStmt)
					if !ok {
						return true
					}
					if c, ok := fs.Cond.(*ast.BinaryExpr); ok && c.Op == token.LEQ && c07Sel(c.X) == "i" {
						if v := evalExpr(c.Y, env{}); v != nil {
							tries, _ = constant.Int64Val(constant.ToInt(v))
						}
					}
					ast.Inspect(fs.Body, func(y ast.Node) bool {
						is, ok := y.(*ast.IfStmt)
						if !ok || is.Init == nil {
							return true
						}
						as, ok := is.Init.(*ast.AssignStmt)
						if !ok || len(as.Rhs) != 1 || c07Sel(as.Rhs[0].(ast.Expr)) == "" {
							return true
						}
						if ce, ok := as.Rhs[0].(*ast.CallExpr); !ok || c07Sel(ce.Fun) != "dc.Query" {
							return true
						}
						switch c07Sel(is.Cond) {
						case "err==smux.ErrTimeout":
							test = 0
						case "isTimeout(err)":
							test = 1
						}
						return false
					})
					return false
				})
			}
			if test == 1 {
				// the helper must look through the wrapping and accept network timeouts
				h := findFunc(f, "", "isTimeout")
				okCause, okNet := false, false
				if h != nil {
					ast.Inspect(h.Body, func(x ast.Node) bool {
						if se, ok := x.(*ast.SelectorExpr); ok {
							if c07Sel(se) == "errors.Cause" {
								okCause = true
							}
							if se.Sel.Name == "Timeout" {
								okNet = true
							}
						}
						return true
					})
				}
				if !okCause || !okNet {
					fail("C07: isTimeout does not have the expected shape (errors.Cause + net.Error Timeout())")
				}
			}
			// QueryWithData wraps the communicator's error
			wraps := false
			if q := findFunc(f, "ClientDnsConnection", "QueryWithData"); q != nil {
				ast.Inspect(q.Body, func(x ast.Node) bool {
					if r, ok := x.(*ast.ReturnStmt); ok && len(r.Results) == 2 && c07Sel(r.Results[1]) == "errors.WithStack(err)" {
						wraps = true
					}
					return true
				})
			}
			if tries < 0 || test < 0 || !wraps {
				fail("C07: SendAndReceive retry loop / timeout test / QueryWithData wrapping not in a recognised shape (tries %d, test %d, wraps %v)", tries, test, wraps)
			}
			{
				checks, why := c07AnswerIdChecks(f)
				if why != "" {
					fail("C07: QueryWithData is not in a recognised shape: %s", why)
					checks = []string{"unrecognised: " + why}
				}
				qs := make([]string, len(checks))
				for i, c := range checks {
					qs[i] = strconv.Quote(c)
				}
				fmt.Fprintf(b, "/-- every place in ClientDnsConnection.QueryWithData / Query / SendAndReceive that looks at WHICH answer the communicator handed up:\n    uses of the returned message other than handing it whole to Serializer.DecodeDnsResponseWithParams, and comparisons involving a message id,\n    the ring of query ids (`dc.chunkId`, written only), a question or a name.  Empty: an answer is an answer. -/\ndef c07AnswerIdChecks : List String := [%s]\n", strings.Join(qs, ", "))
			}
			fmt.Fprintf(b, "/-- ClientDnsConnection.SendAndReceive: `for i := 1; i <= tries; i++` -/\ndef c07Tries : Nat := %d\n", tries)
			fmt.Fprintf(b, "/-- how SendAndReceive recognises a timed-out Query (whose error QueryWithData has wrapped):\n    0 = `err == smux.ErrTimeout` (identity with the sentinel: never true for a wrapped error), 1 = `isTimeout(err)` (cause is a net timeout or the sentinel) -/\ndef c07TimeoutTest : Nat := %d\n", test)
		}
		// the poll loop of Handshake's goroutine
		{
			f := parse("internal/streams/dns/dns_client_connection.go")
			pf, why := c07PollFacts{arg: 99, stops: 99}, "ClientDnsConnection.Handshake not found"
			if fd := findFunc(f, "ClientDnsConnection", "Handshake"); fd != nil {
				pf, why = c07PollLoop(fd)
			}
			if why != "" {
				fail("C07: the poll loop at the end of ClientDnsConnection.Handshake is not in a recognised shape: %s", why)
				pf.arg, pf.stops = 99, 99 // nothing the model knows
			}
			fmt.Fprintf(b, "/-- the poll loop of the goroutine `Handshake` starts: what a turn hands to `dc.SendAndReceive`\n    (0 = `dc.out.NextChunk()`: the oldest unacknowledged fragment, nil when none; 1 = `nil`: a bare poll) -/\ndef c07PollArg : Nat := %d\n", pf.arg)
			fmt.Fprintf(b, "/-- statements in that loop's body which leave the loop (return / goto / break reaching it); its condition is `!dc.Closed()` -/\ndef c07PollStops : Nat := %d\n", pf.stops)
			fmt.Fprintf(b, "/-- the loop's sleep: `jitter := rand.Intn(N) - M; duration := time.Duration(dc.selectTimeout+jitter+(errCount*B)) * unit`\n    (unit in microseconds), a turn sends when no query was made for `duration` -/\ndef c07PollUnitUs : Nat := %d\ndef c07PollBackoff : Nat := %d\ndef c07PollJitterN : Nat := %d\ndef c07PollJitterOff : Nat := %d\n", pf.unitUs, pf.backoff, pf.jitterN, pf.jitterOff)
		}
		if len(offs) == 2 {
			if offs[0] != offs[1] {
				fail("C07: client and server acknowledge different offsets (%s vs %s)", offs[0], offs[1])
			}
			fmt.Fprintf(b, "/-- `LastAckedSeqNo = in.NextSeqNo - k` in ClientDnsConnection.SendAndReceive and ServerDnsListener.packet -/\ndef c07AckOffset : Nat := %s\n", offs[0])
		}
	})
}

package main

import (
	"fmt"
	"go/ast"
	"strings"
)

// C14 (a lost session whose target has stopped reading): two facts about internal/server/communicator.go.
//
//	carrierWriteFailureEndsSession — the object HandleConnection hands to smux.Server is of a type declared in the
//	  package whose Write method, in its `if err != nil` branch, closes a multiplexer session, and HandleConnection
//	  tells that object which session (a call of its `watch` method with `ch.session`);
//	handlerReleasesTargetOnSessionEnd — acceptStream closes the handler's `ended` channel when it returns
//	  (`defer close(ch.ended)`, the channel made in HandleConnection before the session starts), and muxHandler starts
//	  a goroutine that closes the target connection when a receive from `ch.ended` succeeds.
func init() {
	extractors = append(extractors, func(o *out) {
		b := o.w("C14Stall.lean")
		const file = "internal/server/communicator.go"
		f := parse(file)
		watch, release := false, false
		hc := findFunc(f, "ConnectionHandler", "HandleConnection")
		if hc == nil || hc.Body == nil {
			fail("%s: HandleConnection not found", file)
		} else {
			// the first argument of smux.Server and the type it was built from
			arg, typ := "", ""
			ast.Inspect(hc.Body, func(n ast.Node) bool {
				if c, ok := n.(*ast.CallExpr); ok && src(c.Fun) == "smux.Server" && len(c.Args) == 2 {
					arg = src(c.Args[0])
				}
				return true
			})
			told, made := false, false
			ast.Inspect(hc.Body, func(n ast.Node) bool {
				switch x := n.(type) {
				case *ast.AssignStmt:
					for i, l := range x.Lhs {
						if i < len(x.Rhs) && src(l) == arg {
							r := x.Rhs[i]
							if u, ok := r.(*ast.UnaryExpr); ok {
								r = u.X
							}
							if cl, ok := r.(*ast.CompositeLit); ok {
								typ = src(cl.Type)
							}
						}
						if i < len(x.Rhs) && src(l) == "ch.ended" && strings.HasPrefix(src(x.Rhs[i]), "make(chan") {
							made = true
						}
					}
				case *ast.CallExpr:
					if arg != "" && src(x.Fun) == arg+".watch" && len(x.Args) == 1 && src(x.Args[0]) == "ch.session" {
						told = true
					}
				}
				return true
			})
			closesOnError := false
			if wf := findFunc(f, typ, "Write"); typ != "" && wf != nil && wf.Body != nil {
				ast.Inspect(wf.Body, func(n ast.Node) bool {
					is, ok := n.(*ast.IfStmt)
					if !ok || strings.ReplaceAll(src(is.Cond), " ", "") != "err!=nil" {
						return true
					}
					ast.Inspect(is.Body, func(m ast.Node) bool {
						if c, ok := m.(*ast.CallExpr); ok {
							fn := src(c.Fun)
							if fn == "session.Close" || ((strings.HasSuffix(fn, "TryClose") || strings.HasSuffix(fn, "LogClose")) && len(c.Args) == 1 && src(c.Args[0]) == "session") {
								closesOnError = true
							}
						}
						return true
					})
					return true
				})
			}
			watch = arg != "" && typ != "" && told && closesOnError
			// acceptStream: defer close(ch.ended)
			deferred := false
			if as := findFunc(f, "ConnectionHandler", "acceptStream"); as != nil && as.Body != nil {
				for _, st := range as.Body.List {
					if d, ok := st.(*ast.DeferStmt); ok && strings.ReplaceAll(src(d.Call), " ", "") == "close(ch.ended)" {
						deferred = true
					}
				}
			}
			// muxHandler: go func() { select { case <-ch.ended: <close upstreamConnection> … } }()
			// The goroutine may be a function literal or a function/method of the package started with `go`; in the
			// latter case its body is read with its parameters bound to the arguments of the go statement.
			watcher := false
			if mh := findFunc(f, "ConnectionHandler", "muxHandler"); mh != nil && mh.Body != nil {
				idx := pkgFuncIndex14("internal/server")
				// the function that opens the target (muxHandler or the helper it hands the matched channel to), with
				// its names bound to muxHandler's
				opener, ob := openerOf14(mh, idx)
				tgt := openedTarget14(opener)
				ast.Inspect(opener.Body, func(n ast.Node) bool {
					g, ok := n.(*ast.GoStmt)
					if !ok {
						return true
					}
					var body ast.Node = g.Call
					b := ob
					if callee := resolveCall14(idx, g.Call, opener); callee != nil {
						body, b = callee.Body, bindCall14(ob, g.Call, callee)
					}
					ast.Inspect(body, func(m ast.Node) bool {
						cc, ok := m.(*ast.CommClause)
						if !ok || cc.Comm == nil {
							return true
						}
						comm := strings.ReplaceAll(src(cc.Comm), " ", "")
						if !strings.HasPrefix(comm, "<-") || b.of(comm[2:]) != recvVar14(mh)+".ended" {
							return true
						}
						for _, st := range cc.Body {
							ast.Inspect(st, func(k ast.Node) bool {
								if c, ok := k.(*ast.CallExpr); ok {
									fn := src(c.Fun)
									if strings.HasSuffix(fn, "Close") && len(c.Args) == 1 && b.of(src(c.Args[0])) == tgt {
										watcher = true
									}
									if strings.HasSuffix(fn, ".Close") && len(c.Args) == 0 && b.of(strings.TrimSuffix(fn, ".Close")) == tgt {
										watcher = true
									}
								}
								return true
							})
						}
						return true
					})
					return true
				})
			}
			release = made && deferred && watcher
		}
		fmt.Fprintf(b, "/-- %s: a failed write to the carrier closes the multiplexer session (the object handed to smux.Server closes\n    the session it was told about in the `if err != nil` branch of its Write) -/\ndef carrierWriteFailureEndsSession : Bool := %v\n\n", file, watch)
		fmt.Fprintf(b, "/-- %s: when the accept loop has returned, every handler's target connection is closed (`ended` channel made\n    in HandleConnection, closed by a defer in acceptStream, received from in a goroutine of muxHandler that closes\n    the target connection) -/\ndef handlerReleasesTargetOnSessionEnd : Bool := %v\n", file, release)
	})
}

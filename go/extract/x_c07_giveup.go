package main

import (
	"fmt"
	"go/ast"
	"go/token"
	"strconv"
	"strings"
)

// C07, the give-up rule of the client's poll loop (the goroutine ClientDnsConnection.Handshake starts):
//
//	} else if err != nil {
//	    if <same> { errCount++; if errCount > <limit> { …dc.Close()… } } else { lastErr = err; errCount = 0 }
//	} else { lastErr = nil; errCount = 0 }
//
//   c07PollSameErr       how <same> decides that a failure repeats the previous one: 0 = `lastErr == err` (identity of the two
//                        error values), 1 = by what failed (the condition looks at Cause / Error() / Is / As / a type), 2 = anything else
//   c07PollGiveUpLimit   N of `errCount > N` (`>= N` is N-1) guarding the give-up branch under the increment
//   c07PollGiveUpCloses  that branch calls dc.Close()
//   c07PollIncSites      statements `errCount++` / `errCount += …` / `errCount = errCount + …` in the loop (1 on the pinned tree)
func init() {
	extractors = append(extractors, func(o *out) {
		b := o.w("C07GiveUp.lean")
		const file = "internal/streams/dns/dns_client_connection.go"
		f := parse(file)
		same, limit, closes, sites, text := 99, 0, false, 0, ""
		why := ""
		var loop *ast.ForStmt
		if fd := findFunc(f, "ClientDnsConnection", "Handshake"); fd == nil || fd.Body == nil {
			why = "ClientDnsConnection.Handshake not found"
		} else {
			ast.Inspect(fd.Body, func(x ast.Node) bool {
				g, ok := x.(*ast.GoStmt)
				if !ok {
					return true
				}
				fl, ok := g.Call.Fun.(*ast.FuncLit)
				if !ok {
					return true
				}
				for _, st := range fl.Body.List {
					if fs, ok := st.(*ast.ForStmt); ok && fs.Cond != nil && src(fs.Cond) == "!dc.Closed()" {
						loop = fs
					}
				}
				return true
			})
			if loop == nil {
				why = "no `go func() { … for !dc.Closed() { … } }()` in Handshake"
			}
		}
		isInc := func(st ast.Stmt) bool {
			switch x := st.(type) {
			case *ast.IncDecStmt:
				return x.Tok == token.INC && src(x.X) == "errCount"
			case *ast.AssignStmt:
				if len(x.Lhs) == 1 && src(x.Lhs[0]) == "errCount" {
					if x.Tok == token.ADD_ASSIGN {
						return true
					}
					if x.Tok == token.ASSIGN && len(x.Rhs) == 1 && strings.Contains(src(x.Rhs[0]), "errCount") {
						return true
					}
				}
			}
			return false
		}
		if loop != nil {
			var guard *ast.IfStmt
			var stack []ast.Node
			ast.Inspect(loop.Body, func(x ast.Node) bool {
				if x == nil {
					stack = stack[:len(stack)-1]
					return true
				}
				if st, ok := x.(ast.Stmt); ok && isInc(st) {
					sites++
					// the innermost enclosing if whose THEN block holds the increment directly
					for i := len(stack) - 1; i >= 1; i-- {
						if blk, ok := stack[i].(*ast.BlockStmt); ok {
							if is, ok := stack[i-1].(*ast.IfStmt); ok && is.Body == blk {
								guard = is
							}
							break
						}
					}
				}
				stack = append(stack, x)
				return true
			})
			switch {
			case sites == 0:
				// no counting at all: the loop cannot give up by counting
				same, text = 0, "(errCount is never incremented)"
				limit, closes = 0, false
			case sites > 1 || guard == nil:
				why = fmt.Sprintf("%d increments of errCount in the poll loop, or not directly under an if", sites)
			default:
				text = src(guard.Cond)
				c := strings.ReplaceAll(text, " ", "")
				switch {
				case c == "lastErr==err" || c == "err==lastErr":
					same = 0
				case strings.Contains(c, "Cause(") || strings.Contains(c, ".Error()") || strings.Contains(c, "errors.Is(") ||
					strings.Contains(c, "errors.As(") || strings.Contains(c, ".(") || strings.Contains(c, "isTimeout(") ||
					strings.Contains(c, "Timeout()"):
					same = 1
				default:
					same = 2
				}
				// the give-up branch under the increment
				found := false
				for _, st := range guard.Body.List {
					is, ok := st.(*ast.IfStmt)
					if !ok {
						continue
					}
					be, ok := is.Cond.(*ast.BinaryExpr)
					if !ok || src(be.X) != "errCount" {
						continue
					}
					lit, ok := be.Y.(*ast.BasicLit)
					if !ok {
						continue
					}
					n, err := strconv.Atoi(lit.Value)
					if err != nil {
						continue
					}
					switch be.Op {
					case token.GTR:
						limit, found = n, true
					case token.GEQ:
						if n > 0 {
							limit, found = n-1, true
						}
					}
					if found {
						ast.Inspect(is.Body, func(m ast.Node) bool {
							if ce, ok := m.(*ast.CallExpr); ok && src(ce.Fun) == "dc.Close" {
								closes = true
							}
							return true
						})
						break
					}
				}
				if !found {
					// counted but never acted upon: nothing to give up
					limit, closes = 0, false
				}
			}
		}
		if why != "" {
			fail("C07: the give-up rule of the poll loop in ClientDnsConnection.Handshake is not in a recognised shape: %s", why)
			same, limit, closes = 99, 0, true
		}
		fmt.Fprintf(b, "/-- the poll loop of the goroutine `Handshake` starts, the condition under which `errCount++` runs (a failure `repeats` the previous one):\n    0 = `lastErr == err` (identity of the two error values), 1 = by what failed (Cause / Error() / Is / As / type), 2 = something else, 99 = not recognised -/\ndef c07PollSameErr : Nat := %d\n", same)
		fmt.Fprintf(b, "def c07PollSameErrText : String := %s\n", strconv.Quote(text))
		fmt.Fprintf(b, "/-- `if errCount > N { … }` directly under the increment -/\ndef c07PollGiveUpLimit : Nat := %d\n", limit)
		fmt.Fprintf(b, "/-- that branch calls `dc.Close()` -/\ndef c07PollGiveUpCloses : Bool := %v\n", closes)
		fmt.Fprintf(b, "def c07PollIncSites : Nat := %d\n", sites)
	})
}

package main

import (
	"fmt"
	"go/ast"
	"go/constant"
	"go/token"
	"strings"
)

func leanStrList14(xs []string) string {
	q := make([]string, len(xs))
	for i, x := range xs {
		q[i] = fmt.Sprintf("%q", x)
	}
	return "[" + strings.Join(q, ", ") + "]"
}

// closeCallsIn lists the arguments of TryClose/LogClose calls (and receivers of .Close()) directly in
// the statement list (not descending into nested if/for bodies).
func closeCallsIn(stmts []ast.Stmt) []string {
	var out []string
	for _, st := range stmts {
		es, ok := st.(*ast.ExprStmt)
		if !ok {
			continue
		}
		if c, ok := es.X.(*ast.CallExpr); ok {
			fn := src(c.Fun)
			if (fn == "TryClose" || fn == "LogClose" || fn == "streams.TryClose" || fn == "streams.LogClose") && len(c.Args) == 1 {
				out = append(out, src(c.Args[0]))
			} else if strings.HasSuffix(fn, ".Close") && len(c.Args) == 0 {
				out = append(out, strings.TrimSuffix(fn, ".Close"))
			}
		}
	}
	return out
}

func init() {
	extractors = append(extractors, func(o *out) {
		b := o.w("C14.lean")
		pf := parse("internal/streams/pipes.go")
		pd := findFunc(pf, "", "PipeData")
		if pd == nil {
			fail("pipes.go: PipeData not found")
			return
		}
		// channel capacities
		caps := map[string]int64{}
		ast.Inspect(pd.Body, func(n ast.Node) bool {
			as, ok := n.(*ast.AssignStmt)
			if !ok || len(as.Lhs) != 1 || len(as.Rhs) != 1 {
				return true
			}
			c, ok := as.Rhs[0].(*ast.CallExpr)
			if !ok || src(c.Fun) != "make" || len(c.Args) < 1 {
				return true
			}
			if _, isChan := c.Args[0].(*ast.ChanType); !isChan {
				return true
			}
			var v int64
			if len(c.Args) >= 2 {
				cv := evalExpr(c.Args[1], env{})
				if cv == nil {
					fail("pipes.go PipeData: channel capacity of %s is not a constant", src(as.Lhs[0]))
					return true
				}
				v, _ = constant.Int64Val(cv)
			}
			caps[src(as.Lhs[0])] = v
			return true
		})
		if len(caps) != 2 {
			fail("pipes.go PipeData: expected two result channels, found %d", len(caps))
		}
		var capv int64 = -1
		for _, v := range caps {
			if capv == -1 || v < capv {
				capv = v
			}
		}
		fmt.Fprintf(b, "/-- internal/streams/pipes.go PipeData: capacity of the two result channels (the smaller, if they differ) -/\ndef pipeChanCap : Nat := %d\n\n", capv)

		// select arms
		sidx := pkgFuncIndex14("internal/streams")
		arms := map[string][2][]string{}
		ast.Inspect(pd.Body, func(n ast.Node) bool {
			sel, ok := n.(*ast.SelectStmt)
			if !ok {
				return true
			}
			for _, cl := range sel.Body.List {
				cc := cl.(*ast.CommClause)
				if cc.Comm == nil {
					continue
				}
				ch := ""
				ast.Inspect(cc.Comm, func(m ast.Node) bool {
					if u, ok := m.(*ast.UnaryExpr); ok && u.Op == token.ARROW {
						ch = src(u.X)
					}
					return true
				})
				// what the arm closes, wherever the closing code stands: in the arm, or in a function of the package the
				// arm calls or returns the result of (x_c14_norm.go)
				var bad []string
				always, onErr := armCloses14(cc.Body, bind14{}, sidx, pd, 0, &bad)
				for _, m := range bad {
					fail("pipes.go PipeData, arm receiving from %s: %s", ch, m)
				}
				arms[ch] = [2][]string{always, onErr}
			}
			return false
		})
		for _, a := range []struct{ ch, name string }{{"downPipe", "pipeArmDown"}, {"upPipe", "pipeArmUp"}} {
			v, ok := arms[a.ch]
			if !ok {
				fail("pipes.go PipeData: select arm receiving from %s not found", a.ch)
			}
			fmt.Fprintf(b, "/-- PipeData `case err := <-%s`: ends closed always / additionally when err != io.EOF -/\ndef %s : List String := %s\ndef %sErr : List String := %s\n\n", a.ch, a.name, leanStrList14(v[0]), a.name, leanStrList14(v[1]))
		}

		// server muxHandler: does it close the target connection it opened?
		cf := parse("internal/server/communicator.go")
		mh := findFunc(cf, "ConnectionHandler", "muxHandler")
		closes := false
		if mh == nil {
			fail("communicator.go: muxHandler not found")
		} else {
			// the function that opens the target: muxHandler, or the helper of the package it hands the matched channel to
			sidx := pkgFuncIndex14("internal/server")
			opener, _ := openerOf14(mh, sidx)
			closes = closesIn14(opener, bind14{}, openedTarget14(opener), sidx, 0)
		}
		fmt.Fprintf(b, "/-- internal/server/communicator.go muxHandler closes the target connection it opened -/\ndef muxClosesTarget : Bool := %v\n\n", closes)

		// acceptStream: which errors end the loop, and what happens on any other error
		as := findFunc(cf, "ConnectionHandler", "acceptStream")
		var terminal []string
		other := "unknown"
		if as == nil {
			fail("communicator.go: acceptStream not found")
		} else {
			// the decisions on AcceptStream's error, read as guarded branches whether they are written as an if/else-if
			// chain, as separate ifs that return early, or as a switch
			for _, g := range errBranches14(as.Body) {
				cond := condText14(g)
				if strings.Contains(cond, "==") && endOf14(g) == "return" {
					for _, c := range g.conds {
						ast.Inspect(c, func(m ast.Node) bool {
							if be, ok := m.(*ast.BinaryExpr); ok && be.Op == token.EQL {
								terminal = append(terminal, src(be.Y))
							}
							return true
						})
					}
				} else if cond == "err!=nil" && other == "unknown" {
					other = endOf14(g)
				}
			}
		}
		fmt.Fprintf(b, "/-- acceptStream: error values that end the per-session accept loop -/\ndef acceptTerminalErrs : List String := %s\n/-- acceptStream: what the loop does on any other error from AcceptStream (\"continue\" = try again, \"return\" = stop) -/\ndef acceptOtherErr : String := %q\n", leanStrList14(terminal), other)
	})
}

package main

import (
	"fmt"
	"go/ast"
	"sort"
	"strings"
)

// C15 / C12 (what reaches the DNS handler): the fields of the DNS library's Server object the code sets — in the
// composite literal of DnsServer.Startup and by assignment there and in NewNetConnectionServerCommunicator.  Everything
// else is the library's default; in particular `MsgAcceptFunc` (default: a message that is not a query with exactly one
// question is answered FORMERR by the library and never reaches the handler — commands.ComposeRequest indexes
// `Question[0]` and, for several questions, the first two characters of every name) and `ReadTimeout`.
func init() {
	extractors = append(extractors, func(o *out) {
		b := o.w("C15DnsServer.lean")
		set := map[string]bool{}
		found := false
		for _, site := range []struct{ file, recv, fn string }{
			{"internal/server/dns_server.go", "DnsServer", "Startup"},
			{"internal/streams/dns/server_communicator.go", "", "NewNetConnectionServerCommunicator"},
		} {
			fd := findFunc(parse(site.file), site.recv, site.fn)
			if fd == nil || fd.Body == nil {
				fail("%s: %s not found", site.file, site.fn)
				continue
			}
			ast.Inspect(fd.Body, func(n ast.Node) bool {
				switch x := n.(type) {
				case *ast.CompositeLit:
					if t := src(x.Type); strings.HasSuffix(t, ".Server") && !strings.Contains(t, "Socket") {
						found = true
						for _, e := range x.Elts {
							if kv, ok := e.(*ast.KeyValueExpr); ok {
								set[src(kv.Key)] = true
							}
						}
					}
				case *ast.AssignStmt:
					for _, l := range x.Lhs {
						if s := src(l); strings.HasPrefix(s, "server.") && strings.Count(s, ".") == 1 {
							set[strings.TrimPrefix(s, "server.")] = true
						}
					}
				}
				return true
			})
		}
		if !found {
			fail("dns_server.go Startup: composite literal of the DNS library's Server not found")
		}
		var names []string
		for n := range set {
			names = append(names, n)
		}
		sort.Strings(names)
		fmt.Fprintf(b, "/-- fields of the DNS library's Server the code sets (DnsServer.Startup, NewNetConnectionServerCommunicator) -/\ndef dnsServerFieldsSet : List String := %s\n", leanStrList14(names))
	})
}

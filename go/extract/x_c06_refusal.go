package main

// C06 "a refusal is final": the control-flow shape around every answer the server writes, and around every
// status test of the client.
//
//   c06ResponseWrites   every `response.Write(conn)` of ServerConnection.handshake / upgrade in source order:
//                       (function, status that is being written, what the code does right after the write)
//                       what-next is one of
//                         return-error        the function returns an error that is non-nil by construction (a fresh
//                                             errors.Errorf/New, a Wrapf/WithStack of a non-nil one, a variable bound by
//                                             `if err := …; err != nil {` or `err := <non-nil>`) and that variable is
//                                             not assigned between its creation and the return
//                         return-overwritten  the returned variable IS assigned in between (e.g. `err = response.Write(conn)`)
//                         return-nil          returns a nil error (the step succeeded)
//                         return-unknown      shape not recognised
//                         continues           no return follows (the 101 before the TLS handshake)
//   c06StepGuards       NewServerConnection / NewClientConnection: each `x.handshake(…)` / `x.upgrade(…)` call,
//                       (function, step, what happens when the step reports an error)
//   c06ClientStatusGuards  client handshake / upgrade: every `if response.StatusCode != C {`: (function, C, what the body does)

import (
	"fmt"
	"go/ast"
	"go/token"
	"sort"
	"strings"
)

type c06parents map[ast.Node]ast.Node

func c06parentMap(root ast.Node) c06parents {
	pm := c06parents{}
	var stack []ast.Node
	ast.Inspect(root, func(n ast.Node) bool {
		if n == nil {
			stack = stack[:len(stack)-1]
			return true
		}
		if len(stack) > 0 {
			pm[n] = stack[len(stack)-1]
		}
		stack = append(stack, n)
		return true
	})
	return pm
}

// c06assignedBetween: is the object of ident `id` the target of an assignment (`=`, op=, or a `:=` that re-uses it)
// positioned strictly between `from` and `to` inside fn?
func c06assignedBetween(fn *ast.FuncDecl, id *ast.Ident, from, to token.Pos) bool {
	found := false
	ast.Inspect(fn.Body, func(n ast.Node) bool {
		switch x := n.(type) {
		case *ast.AssignStmt:
			if x.Pos() <= from || x.Pos() >= to {
				return true
			}
			for _, l := range x.Lhs {
				if li, ok := l.(*ast.Ident); ok && li.Name == id.Name && li.Obj == id.Obj && li.Obj != nil {
					// the defining occurrence itself does not count
					if as, ok := id.Obj.Decl.(*ast.AssignStmt); ok && as == x {
						continue
					}
					found = true
				}
			}
		case *ast.UnaryExpr:
			if x.Op == token.AND && x.Pos() > from && x.Pos() < to {
				if li, ok := x.X.(*ast.Ident); ok && li.Obj == id.Obj && li.Obj != nil {
					found = true // address taken: anything may write it
				}
			}
		}
		return true
	})
	return found
}

// c06errKind classifies the error expression e returned at position `at`.
func c06errKind(fn *ast.FuncDecl, pm c06parents, e ast.Expr, at token.Pos, depth int) string {
	if depth > 6 {
		return "unknown"
	}
	switch x := e.(type) {
	case *ast.Ident:
		if x.Name == "nil" {
			return "nil"
		}
		if x.Obj == nil {
			return "unknown"
		}
		as, ok := x.Obj.Decl.(*ast.AssignStmt)
		if !ok || as.Tok != token.DEFINE {
			// named result, parameter, var declaration: vouched for only inside the body of an `if <it> != nil {`
			// (no Init that could shadow it) and when it is not assigned between that test and the return
			var guard *ast.IfStmt
			ast.Inspect(fn.Body, func(n ast.Node) bool {
				if ifs, ok := n.(*ast.IfStmt); ok && ifs.Init == nil && at > ifs.Body.Pos() && at < ifs.Body.End() {
					if be, ok := ifs.Cond.(*ast.BinaryExpr); ok && be.Op == token.NEQ && exprString(be.Y) == "nil" {
						if ci, ok := be.X.(*ast.Ident); ok && ci.Obj == x.Obj {
							guard = ifs // innermost wins: Inspect reaches it last
						}
					}
				}
				return true
			})
			if guard == nil {
				return "unknown"
			}
			if c06assignedBetween(fn, x, guard.Body.Pos(), at) {
				return "overwritten"
			}
			return "error"
		}
		if c06assignedBetween(fn, x, as.End(), at) {
			return "overwritten"
		}
		// `if err := …; err != nil { … return err … }`
		if ifs, ok := pm[as].(*ast.IfStmt); ok && ifs.Init == as {
			if be, ok := ifs.Cond.(*ast.BinaryExpr); ok && be.Op == token.NEQ && exprString(be.X) == x.Name && exprString(be.Y) == "nil" &&
				at > ifs.Body.Pos() && at < ifs.Body.End() {
				return "error"
			}
			return "unknown"
		}
		// `x, err := f()` … `if err != nil { … return err … }`
		guarded := false
		ast.Inspect(fn.Body, func(n ast.Node) bool {
			if ifs, ok := n.(*ast.IfStmt); ok && at > ifs.Body.Pos() && at < ifs.Body.End() {
				if be, ok := ifs.Cond.(*ast.BinaryExpr); ok && be.Op == token.NEQ && exprString(be.Y) == "nil" {
					if ci, ok := be.X.(*ast.Ident); ok && ci.Obj == x.Obj {
						guarded = true
					}
				}
			}
			return true
		})
		if guarded {
			return "error"
		}
		// `err := <expr>` as a statement
		for i, l := range as.Lhs {
			if li, ok := l.(*ast.Ident); ok && li.Obj == x.Obj && len(as.Rhs) == len(as.Lhs) {
				return c06errKind(fn, pm, as.Rhs[i], as.Pos(), depth+1)
			}
		}
		return "unknown"
	case *ast.CallExpr:
		switch exprString(x.Fun) {
		case "errors.Errorf", "errors.New", "fmt.Errorf":
			return "error"
		case "errors.Wrapf", "errors.Wrap", "errors.WithStack", "errors.WithMessage", "errors.WithMessagef":
			if len(x.Args) > 0 {
				return c06errKind(fn, pm, x.Args[0], x.Pos(), depth+1)
			}
		}
	}
	return "unknown"
}

// c06isLogCall: statements that cannot take the handshake further and are skipped when looking for what follows a
// write: log / close calls, an `if` that contains no return (the "could not write response" warning), the
// construction of an error value (`x := errors.Errorf(…)`).
func c06callRoot(c *ast.CallExpr) string {
	for {
		sel, ok := c.Fun.(*ast.SelectorExpr)
		if !ok {
			return exprString(c.Fun)
		}
		inner, ok := sel.X.(*ast.CallExpr)
		if !ok {
			return exprString(c.Fun)
		}
		c = inner
	}
}

func c06harmlessCall(c *ast.CallExpr) bool {
	f := c06callRoot(c)
	return strings.HasPrefix(f, "log.") || strings.HasPrefix(f, "errors.") || strings.HasPrefix(f, "fmt.") || f == "streams.LogClose" || f == "streams.TryClose"
}

func c06isLogCall(s ast.Stmt) bool {
	switch x := s.(type) {
	case *ast.ExprStmt:
		c, ok := x.X.(*ast.CallExpr)
		return ok && c06harmlessCall(c)
	case *ast.IfStmt:
		if x.Init != nil {
			return false // an `if` that does something first (a further write, a read) is judged, not skipped
		}
		pure := true
		ast.Inspect(x, func(n ast.Node) bool {
			switch y := n.(type) {
			case *ast.ReturnStmt, *ast.BranchStmt, *ast.GoStmt, *ast.AssignStmt, *ast.IncDecStmt:
				pure = false
			case *ast.CallExpr:
				if !c06harmlessCall(y) {
					pure = false
				}
				return false
			}
			return true
		})
		return pure
	case *ast.AssignStmt:
		if x.Tok != token.DEFINE || len(x.Rhs) != 1 {
			return false
		}
		c, ok := x.Rhs[0].(*ast.CallExpr)
		return ok && (strings.HasPrefix(c06callRoot(c), "errors.") || c06callRoot(c) == "fmt.Errorf")
	}
	return false
}

// c06after: what the statements after index i of block b do first (log calls skipped).
func c06after(fn *ast.FuncDecl, pm c06parents, b []ast.Stmt, i int) string {
	for _, s := range b[i+1:] {
		if c06isLogCall(s) {
			continue
		}
		rs, ok := s.(*ast.ReturnStmt)
		if !ok {
			return "continues"
		}
		if len(rs.Results) == 0 {
			return "return-unknown"
		}
		return "return-" + c06errKind(fn, pm, rs.Results[len(rs.Results)-1], rs.Pos(), 0)
	}
	return "continues"
}

// c06statusIn: the status a statement gives to `response`, "" when none (nested blocks are not searched).
func c06statusIn(s ast.Stmt) string {
	as, ok := s.(*ast.AssignStmt)
	if !ok || len(as.Lhs) != 1 || len(as.Rhs) != 1 {
		return ""
	}
	codeOf := func(e ast.Expr) string {
		if v := c06eval(e, env{}); v != nil {
			return v.ExactString()
		}
		return "?" + src(e)
	}
	if exprString(as.Lhs[0]) == "response.StatusCode" {
		return codeOf(as.Rhs[0])
	}
	if exprString(as.Lhs[0]) != "response" {
		return ""
	}
	rhs := as.Rhs[0]
	if c, ok := rhs.(*ast.CallExpr); ok {
		// the response is built by a helper of the package: its status is the helper's literal under the call's arguments
		if code, _, ok := c06respCall(c, env{}, 0); ok {
			if code == "" {
				return "?" + src(rhs)
			}
			return code
		}
		return ""
	}
	if u, ok := rhs.(*ast.UnaryExpr); ok && u.Op == token.AND {
		rhs = u.X
	}
	cl, ok := rhs.(*ast.CompositeLit)
	if !ok || exprString(cl.Type) != "Response" {
		return ""
	}
	for _, el := range cl.Elts {
		if kv, ok := el.(*ast.KeyValueExpr); ok && exprString(kv.Key) == "StatusCode" {
			return codeOf(kv.Value)
		}
	}
	return "0"
}

// c06dominatingStatus: the nearest status assignment that precedes stmt `s` in its own block or in an enclosing one;
// an enclosing `if response.StatusCode != 101 {` answers "non-101".
func c06dominatingStatus(pm c06parents, s ast.Node) string {
	for cur := s; cur != nil; cur = pm[cur] {
		blk, ok := pm[cur].(*ast.BlockStmt)
		if !ok {
			continue
		}
		idx := -1
		for i, st := range blk.List {
			if st == cur {
				idx = i
			}
		}
		for i := idx - 1; i >= 0; i-- {
			if st := c06statusIn(blk.List[i]); st != "" {
				return st
			}
		}
		if ifs, ok := pm[blk].(*ast.IfStmt); ok && ifs.Body == blk {
			if be, ok := ifs.Cond.(*ast.BinaryExpr); ok && exprString(be.X) == "response.StatusCode" && be.Op == token.NEQ {
				if v := c06eval(be.Y, env{}); v != nil {
					return "non-" + v.ExactString()
				}
			}
		}
	}
	return "?"
}

// c06writeOf: is call c a write of a response to the peer?  Either `X.Write(…)` itself (recv = X), or a call of a
// package helper that (directly, or through one more helper) calls `<parameter>.Write(…)` and after that does nothing
// that could take the handshake further (only log / close calls, at most a bare return): then recv = the argument
// passed for that parameter.  tail=false: the helper does something else after its write (the caller reports
// "return-unknown").
func c06writeOf(c *ast.CallExpr, depth int) (recv string, isWrite, tail bool) {
	if strings.HasSuffix(exprString(c.Fun), ".Write") {
		return strings.TrimSuffix(exprString(c.Fun), ".Write"), true, true
	}
	fd := c06callee(c)
	if fd == nil || depth > 2 {
		return "", false, false
	}
	ns := c06paramNames(fd)
	pm := c06parentMap(fd)
	n := 0
	ast.Inspect(fd.Body, func(nd ast.Node) bool {
		ic, ok := nd.(*ast.CallExpr)
		if !ok {
			return true
		}
		r, w, t := c06writeOf(ic, depth+1)
		if !w {
			return true
		}
		n++
		recv, isWrite, tail = "?"+r, true, t
		for i, p := range ns {
			if p == r && p != "" && i < len(c.Args) {
				recv = exprString(c.Args[i])
			}
		}
		// what the helper does after its write: every enclosing block up to the function body
		for cur := ast.Node(ic); cur != nil && cur != ast.Node(fd.Body); cur = pm[cur] {
			blk, ok := pm[cur].(*ast.BlockStmt)
			if !ok {
				if _, isLoop := pm[cur].(*ast.ForStmt); isLoop {
					tail = false
				}
				if _, isLoop := pm[cur].(*ast.RangeStmt); isLoop {
					tail = false
				}
				continue
			}
			idx := len(blk.List)
			for i, st := range blk.List {
				if st == cur {
					idx = i
				}
			}
			for _, st := range blk.List[idx+1:] {
				if rs, ok := st.(*ast.ReturnStmt); ok && len(rs.Results) == 0 {
					break
				}
				if !c06isLogCall(st) {
					tail = false
				}
			}
		}
		return false
	})
	if n > 1 {
		tail = false
	}
	return recv, isWrite, tail
}

// c06canonRank: a rank for every statement of body in a NORMALISED source order, so that lists "in source order" do
// not depend on which of two exclusive branches the author wrote first.  The only normalisation: the branches of a
// negated test are visited positive-first, i.e.
//
//	if !c { B } else { A }        and        if !c { B; return }; A…
//
// are both ranked like `if c { A… } else { B }`.  Everything else keeps its textual order.  The returned function
// gives the rank of the innermost ranked statement that contains pos.
func c06canonRank(body *ast.BlockStmt) func(pos token.Pos) int {
	type ranked struct {
		from, to token.Pos
		rank     int
	}
	var rs []ranked
	n := 0
	mark := func(s ast.Node) {
		if s != nil {
			rs = append(rs, ranked{s.Pos(), s.End(), n})
			n++
		}
	}
	negated := func(e ast.Expr) bool {
		for {
			p, ok := e.(*ast.ParenExpr)
			if !ok {
				break
			}
			e = p.X
		}
		u, ok := e.(*ast.UnaryExpr)
		return ok && u.Op == token.NOT
	}
	terminates := func(b *ast.BlockStmt) bool {
		if b == nil || len(b.List) == 0 {
			return false
		}
		_, ok := b.List[len(b.List)-1].(*ast.ReturnStmt)
		return ok
	}
	var walkList func(list []ast.Stmt)
	var walk func(s ast.Stmt)
	walk = func(s ast.Stmt) {
		if s == nil {
			return
		}
		mark(s)
		switch x := s.(type) {
		case *ast.BlockStmt:
			walkList(x.List)
		case *ast.IfStmt:
			walk(x.Init)
			if negated(x.Cond) && x.Else != nil {
				walk(x.Else)
				walk(x.Body)
			} else {
				walk(x.Body)
				walk(x.Else)
			}
		case *ast.ForStmt:
			walk(x.Init)
			walk(x.Body)
		case *ast.RangeStmt:
			walk(x.Body)
		case *ast.SwitchStmt:
			walk(x.Init)
			walk(x.Body)
		case *ast.TypeSwitchStmt:
			walk(x.Init)
			walk(x.Body)
		case *ast.SelectStmt:
			walk(x.Body)
		case *ast.CaseClause:
			walkList(x.Body)
		case *ast.CommClause:
			walkList(x.Body)
		case *ast.LabeledStmt:
			walk(x.Stmt)
		}
	}
	walkList = func(list []ast.Stmt) {
		for i, s := range list {
			if ifs, ok := s.(*ast.IfStmt); ok && ifs.Else == nil && negated(ifs.Cond) && terminates(ifs.Body) && i+1 < len(list) {
				mark(ifs)
				walk(ifs.Init)
				walkList(list[i+1:]) // the positive branch: what runs when the test does not fire
				walk(ifs.Body)
				return
			}
			walk(s)
		}
	}
	walkList(body.List)
	return func(pos token.Pos) int {
		best, span := -1, token.Pos(0)
		for _, r := range rs {
			if r.from <= pos && pos < r.to && (best < 0 || r.to-r.from <= span) {
				if best >= 0 && r.to-r.from == span && r.rank < best {
					continue
				}
				best, span = r.rank, r.to-r.from
			}
		}
		return best
	}
}

func init() {
	extractors = append(extractors, func(o *out) {
		b := o.w("C06Refusal.lean")
		serverF := parse("internal/socketace/server.go")
		clientF := parse("internal/socketace/client.go")
		triple := func(xs [][3]string) string {
			ps := []string{}
			for _, x := range xs {
				ps = append(ps, fmt.Sprintf("(%q, %q, %q)", x[0], x[1], x[2]))
			}
			return "[" + strings.Join(ps, ",\n  ") + "]"
		}

		// ---- every response.Write(conn) of the server
		var writes [][3]string
		for _, fn := range []string{"handshake", "upgrade"} {
			fd := findFunc(serverF, "ServerConnection", fn)
			if fd == nil || fd.Body == nil {
				fail("ServerConnection.%s not found", fn)
				continue
			}
			pm := c06parentMap(fd)
			n := 0
			rank := c06canonRank(fd.Body)
			var fnWrites [][3]string
			var fnRanks []int
			ast.Inspect(fd.Body, func(nd ast.Node) bool {
				c, ok := nd.(*ast.CallExpr)
				if !ok {
					return true
				}
				recv, isWrite, tail := c06writeOf(c, 0)
				if !isWrite {
					return true
				}
				if recv != "response" {
					fail("%s: a Write on %q - the answers of the server are expected to go through `response`", fn, recv)
					return true
				}
				// the statement that carries the call, directly inside a block
				var carrier ast.Node = c
				for carrier != nil {
					if _, ok := pm[carrier].(*ast.BlockStmt); ok {
						break
					}
					carrier = pm[carrier]
				}
				if carrier == nil {
					fail("%s: response.Write outside a block statement", fn)
					return true
				}
				blk := pm[carrier].(*ast.BlockStmt)
				idx := 0
				for i, st := range blk.List {
					if st == carrier {
						idx = i
					}
				}
				next := c06after(fd, pm, blk.List, idx)
				if !tail {
					next = "return-unknown"
				}
				fnWrites = append(fnWrites, [3]string{fn, c06dominatingStatus(pm, carrier), next})
				fnRanks = append(fnRanks, rank(c.Pos()))
				n++
				return false // the arguments of a write are not searched for further writes
			})
			// normalised source order (c06canonRank): which of two exclusive branches is written first does not matter
			order := make([]int, len(fnWrites))
			for i := range order {
				order[i] = i
			}
			sort.SliceStable(order, func(a, b int) bool { return fnRanks[order[a]] < fnRanks[order[b]] })
			for _, i := range order {
				writes = append(writes, fnWrites[i])
			}
			if n == 0 {
				fail("%s: no response.Write found", fn)
			}
		}
		fmt.Fprintf(b, "/-- every `response.Write(conn)` of server.go handshake / upgrade, source order (branches of a negated test positive-first): (function, status being written, what the code does next) -/\ndef c06ResponseWrites : List (String × String × String) := %s\n", triple(writes))

		// ---- the step calls of NewServerConnection / NewClientConnection
		var guards [][3]string
		for _, f := range []struct {
			file *ast.File
			fn   string
		}{{serverF, "NewServerConnection"}, {clientF, "NewClientConnection"}} {
			fd := findFunc(f.file, "", f.fn)
			if fd == nil || fd.Body == nil {
				fail("%s not found", f.fn)
				continue
			}
			pm := c06parentMap(fd)
			ast.Inspect(fd.Body, func(nd ast.Node) bool {
				c, ok := nd.(*ast.CallExpr)
				if !ok {
					return true
				}
				sel, ok := c.Fun.(*ast.SelectorExpr)
				if !ok || (sel.Sel.Name != "handshake" && sel.Sel.Name != "upgrade") {
					return true
				}
				kind := "unchecked"
				if as, ok := pm[c].(*ast.AssignStmt); ok {
					if ifs, ok := pm[as].(*ast.IfStmt); ok && ifs.Init == as {
						if be, ok := ifs.Cond.(*ast.BinaryExpr); ok && be.Op == token.NEQ && exprString(be.X) == "err" && exprString(be.Y) == "nil" {
							kind = c06after(fd, pm, ifs.Body.List, -1)
						}
					} else if blk, ok := pm[as].(*ast.BlockStmt); ok && len(as.Rhs) == 1 && len(as.Lhs) > 0 {
						// `x, err := step(…)` (or `err = step(…)`) as a statement of its own: the step's error - the last
						// value - must be tested by the very next statement that does anything (log calls skipped),
						// `if err != nil {`, on the same variable
						if ev, ok := as.Lhs[len(as.Lhs)-1].(*ast.Ident); ok && ev.Name != "_" {
							idx := -1
							for i, st := range blk.List {
								if st == ast.Stmt(as) {
									idx = i
								}
							}
							for _, st := range blk.List[idx+1:] {
								if idx < 0 {
									break
								}
								if es, ok := st.(*ast.ExprStmt); ok && c06isLogCall(es) {
									continue
								}
								ifs, ok := st.(*ast.IfStmt)
								if !ok || ifs.Init != nil {
									break
								}
								be, ok := ifs.Cond.(*ast.BinaryExpr)
								if !ok || be.Op != token.NEQ || exprString(be.Y) != "nil" {
									break
								}
								if ci, ok := be.X.(*ast.Ident); ok && ci.Name == ev.Name && ci.Obj == ev.Obj {
									kind = c06after(fd, pm, ifs.Body.List, -1)
								}
								break
							}
						}
					}
				}
				guards = append(guards, [3]string{f.fn, sel.Sel.Name, kind})
				return true
			})
		}
		fmt.Fprintf(b, "/-- NewServerConnection / NewClientConnection: (function, step called, what happens when the step reports an error) -/\ndef c06StepGuards : List (String × String × String) := %s\n", triple(guards))

		// ---- the status tests of the client
		var cg [][3]string
		for _, fn := range []string{"handshake", "upgrade"} {
			fd := findFunc(clientF, "ClientConnection", fn)
			if fd == nil || fd.Body == nil {
				fail("ClientConnection.%s not found", fn)
				continue
			}
			pm := c06parentMap(fd)
			ast.Inspect(fd.Body, func(nd ast.Node) bool {
				ifs, ok := nd.(*ast.IfStmt)
				if !ok {
					return true
				}
				be, ok := ifs.Cond.(*ast.BinaryExpr)
				if !ok || exprString(be.X) != "response.StatusCode" {
					return true
				}
				code := "?"
				if v := c06eval(be.Y, env{}); v != nil {
					code = v.ExactString()
				}
				cg = append(cg, [3]string{fn, be.Op.String() + " " + code, c06after(fd, pm, ifs.Body.List, -1)})
				return true
			})
		}
		if len(cg) == 0 {
			fail("client.go: no test of response.StatusCode found")
		}
		fmt.Fprintf(b, "/-- client.go handshake / upgrade: every test of response.StatusCode: (function, comparison, what its body does) -/\ndef c06ClientStatusGuards : List (String × String × String) := %s\n", triple(cg))
	})
}

package main

import (
	"fmt"
	"go/ast"
	"go/constant"
	"go/parser"
	"os"
	"path/filepath"
	"strings"
)

// c02PkgDecls returns the function declarations (non-test files) of the package directory that declares fd, so that a
// call of an unexported helper or method of the same package can be followed into its body.
var c02PkgCache = map[string][]*ast.FuncDecl{}

func c02PkgDecls(fd *ast.FuncDecl) []*ast.FuncDecl {
	dir := filepath.Dir(fset.Position(fd.Pos()).Filename)
	if ds, ok := c02PkgCache[dir]; ok {
		return ds
	}
	var ds []*ast.FuncDecl
	ents, _ := os.ReadDir(dir)
	for _, e := range ents {
		if e.IsDir() || !strings.HasSuffix(e.Name(), ".go") || strings.HasSuffix(e.Name(), "_test.go") {
			continue
		}
		f, err := parser.ParseFile(fset, filepath.Join(dir, e.Name()), nil, 0)
		if err != nil {
			continue
		}
		for _, d := range f.Decls {
			if x, ok := d.(*ast.FuncDecl); ok && x.Body != nil {
				ds = append(ds, x)
			}
		}
	}
	c02PkgCache[dir] = ds
	return ds
}

// c02Recv gives the receiver's variable name and type name ("" "" for a plain function)
func c02Recv(fd *ast.FuncDecl) (name, typ string) {
	if fd.Recv == nil || len(fd.Recv.List) == 0 {
		return "", ""
	}
	t := fd.Recv.List[0].Type
	if st, ok := t.(*ast.StarExpr); ok {
		t = st.X
	}
	if len(fd.Recv.List[0].Names) > 0 {
		name = fd.Recv.List[0].Names[0].Name
	}
	return name, exprString(t)
}

// c02Callee resolves the callee of a call made inside cur to a declaration of the same package: `f(…)` to the
// package-level function f, `r.m(…)` (r = cur's receiver variable) to the method m of cur's receiver type.  Anything
// else (other packages, interface values, fields) is not followed.
func c02Callee(cur *ast.FuncDecl, fun ast.Expr) *ast.FuncDecl {
	wantRecv, wantName := "", ""
	switch x := fun.(type) {
	case *ast.Ident:
		wantName = x.Name
	case *ast.SelectorExpr:
		id, ok := x.X.(*ast.Ident)
		rn, rt := c02Recv(cur)
		if !ok || rn == "" || id.Name != rn {
			return nil
		}
		wantRecv, wantName = rt, x.Sel.Name
	default:
		return nil
	}
	for _, d := range c02PkgDecls(cur) {
		if d.Name.Name != wantName {
			continue
		}
		if _, rt := c02Recv(d); rt == wantRecv {
			return d
		}
	}
	return nil
}

// calledUnderGo reports on which goroutine fn (a name suffix such as "multiplexToUpstream" or "AcceptConnection")
// runs when the given function is executed: "go" when every call of fn reachable from the function's body runs on a
// goroutine started with a `go` statement, "inline" when some call runs on the function's own goroutine, "absent" when
// no call is reachable.  Calls of helpers and methods of the same package are followed into their bodies (up to four
// levels), so the answer is the same whether the call sits directly in the function, in a func literal handed to `go`,
// or in a helper that is itself called or started with `go`.  A func literal that is not the operand of `go` (deferred,
// called in place) counts as running on the current goroutine; the arguments of a `go` statement are evaluated on the
// current goroutine.
func calledUnderGo(fd *ast.FuncDecl, fn string) string {
	if fd == nil || fd.Body == nil {
		return "absent"
	}
	found, inline := false, false
	type key struct {
		d  *ast.FuncDecl
		ug bool
	}
	seen := map[key]bool{}
	isTarget := func(fun ast.Expr) bool {
		name := src(fun)
		return name == fn || strings.HasSuffix(name, "."+fn)
	}
	var walk func(cur *ast.FuncDecl, n ast.Node, underGo bool, depth int)
	// call handles one callee expression evaluated as a call on a goroutine described by underGo
	call := func(cur *ast.FuncDecl, fun ast.Expr, underGo bool, depth int) {
		if isTarget(fun) {
			found = true
			if !underGo {
				inline = true
			}
			return
		}
		if d := c02Callee(cur, fun); d != nil && depth < 4 && !seen[key{d, underGo}] {
			seen[key{d, underGo}] = true
			walk(d, d.Body, underGo, depth+1)
		}
	}
	walk = func(cur *ast.FuncDecl, n ast.Node, underGo bool, depth int) {
		ast.Inspect(n, func(m ast.Node) bool {
			switch x := m.(type) {
			case *ast.GoStmt:
				for _, a := range x.Call.Args {
					walk(cur, a, underGo, depth)
				}
				if lit, ok := x.Call.Fun.(*ast.FuncLit); ok {
					walk(cur, lit.Body, true, depth)
				} else {
					if sel, ok := x.Call.Fun.(*ast.SelectorExpr); ok {
						walk(cur, sel.X, underGo, depth)
					}
					call(cur, x.Call.Fun, true, depth)
				}
				return false
			case *ast.CallExpr:
				call(cur, x.Fun, underGo, depth)
			}
			return true
		})
	}
	walk(fd, fd.Body, false, 0)
	if !found {
		return "absent"
	}
	if inline {
		return "inline"
	}
	return "go"
}

func init() {
	extractors = append(extractors, func(o *out) {
		b := o.w("C02.lean")
		cf := parse("internal/server/communicator.go")
		v := calledUnderGo(findFunc(cf, "ConnectionHandler", "acceptStream"), "multiplexToUpstream")
		if v == "absent" {
			fail("communicator.go acceptStream: call of multiplexToUpstream not found")
		}
		fmt.Fprintf(b, "/-- internal/server/communicator.go acceptStream: the per-stream handler (multiplexToUpstream) runs in its own goroutine -/\ndef streamHandlerSpawned : Bool := %v\n\n", v == "go")
		for _, s := range []struct{ file, recv, name string }{
			{"internal/server/socket_server.go", "SocketServer", "socketAcceptSpawned"},
			{"internal/server/packet_server.go", "PacketServer", "packetAcceptSpawned"},
		} {
			v := calledUnderGo(findFunc(parse(s.file), s.recv, "acceptConnection"), "AcceptConnection")
			if v == "absent" {
				fail("%s acceptConnection: call of AcceptConnection not found", s.file)
			}
			fmt.Fprintf(b, "/-- %s acceptConnection: the session handshake (AcceptConnection) runs off the accept loop -/\ndef %s : Bool := %v\n\n", s.file, s.name, v == "go")
		}
		// multiplexer receive buffer on both ends (smux default 4 MiB when not assigned)
		bufEnv := fileConsts(parse("internal/util/buffers/buffer.go"), nil)
		en := env{"buffers.BufferSize": bufEnv["BufferSize"]}
		for _, site := range []struct{ file, recv, fn, name string }{
			{"internal/server/communicator.go", "ConnectionHandler", "HandleConnection", "smuxRecvBufServer"},
			{"internal/client/upstream/upstream.go", "Upstreams", "creteSession", "smuxRecvBufClient"},
		} {
			fd := findFunc(parse(site.file), site.recv, site.fn)
			val := int64(4194304)
			if fd == nil {
				fail("%s: %s not found", site.file, site.fn)
				continue
			}
			bad := false
			ast.Inspect(fd.Body, func(n ast.Node) bool {
				as, ok := n.(*ast.AssignStmt)
				if ok && len(as.Lhs) == 1 && strings.HasSuffix(src(as.Lhs[0]), ".MaxReceiveBuffer") {
					v := evalExpr(as.Rhs[0], en)
					if v == nil {
						bad = true
					} else {
						val, _ = constant.Int64Val(v)
					}
				}
				return true
			})
			if bad {
				fail("%s %s: MaxReceiveBuffer is not a constant expression", site.file, site.fn)
			}
			fmt.Fprintf(b, "/-- %s %s: smux MaxReceiveBuffer (library default 4194304 when the code does not set it) -/\ndef %s : Nat := %d\n\n", site.file, site.fn, site.name, val)
		}
		// client listener: HandleConnection under go
		lf := parse("internal/client/listener/listener.go")
		v = calledUnderGo(findFunc(lf, "SocketListener", "accept"), "HandleConnection")
		fmt.Fprintf(b, "/-- internal/client/listener/listener.go accept: one goroutine per local connection -/\ndef listenerHandleSpawned : Bool := %v\n", v == "go")
	})
}

package main

import (
	"fmt"
	"go/ast"
	"go/constant"
	"strings"
)

// calledUnderGo reports how fn (a name suffix such as "multiplexToUpstream" or "AcceptConnection") is
// invoked inside the given function: "go" when every call site is inside a `go` statement (directly or
// in a func literal started with go), "inline" when some call runs on the caller's goroutine, "absent".
func calledUnderGo(fd *ast.FuncDecl, fn string) string {
	if fd == nil || fd.Body == nil {
		return "absent"
	}
	found, inline := false, false
	var walk func(n ast.Node, underGo bool)
	walk = func(n ast.Node, underGo bool) {
		ast.Inspect(n, func(m ast.Node) bool {
			switch x := m.(type) {
			case *ast.GoStmt:
				walk(x.Call, true)
				return false
			case *ast.CallExpr:
				name := src(x.Fun)
				if name == fn || strings.HasSuffix(name, "."+fn) {
					found = true
					if !underGo {
						inline = true
					}
				}
			}
			return true
		})
	}
	walk(fd.Body, false)
	if !found {
		return "absent"
	}
	if inline {
		return "inline"
	}
	return "go"
}

func init() {
	extractors = append(extractors, func(o *out) {
		b := o.w("C02.lean")
		cf := parse("internal/server/communicator.go")
		v := calledUnderGo(findFunc(cf, "ConnectionHandler", "acceptStream"), "multiplexToUpstream")
		if v == "absent" {
			fail("communicator.go acceptStream: call of multiplexToUpstream not found")
		}
		fmt.Fprintf(b, "/-- internal/server/communicator.go acceptStream: the per-stream handler (multiplexToUpstream) runs in its own goroutine -/\ndef streamHandlerSpawned : Bool := %v\n\n", v == "go")
		for _, s := range []struct{ file, recv, name string }{
			{"internal/server/socket_server.go", "SocketServer", "socketAcceptSpawned"},
			{"internal/server/packet_server.go", "PacketServer", "packetAcceptSpawned"},
		} {
			v := calledUnderGo(findFunc(parse(s.file), s.recv, "acceptConnection"), "AcceptConnection")
			if v == "absent" {
				fail("%s acceptConnection: call of AcceptConnection not found", s.file)
			}
			fmt.Fprintf(b, "/-- %s acceptConnection: the session handshake (AcceptConnection) runs off the accept loop -/\ndef %s : Bool := %v\n\n", s.file, s.name, v == "go")
		}
		// multiplexer receive buffer on both ends (smux default 4 MiB when not assigned)
		bufEnv := fileConsts(parse("internal/util/buffers/buffer.go"), nil)
		en := env{"buffers.BufferSize": bufEnv["BufferSize"]}
		for _, site := range []struct{ file, recv, fn, name string }{
			{"internal/server/communicator.go", "ConnectionHandler", "HandleConnection", "smuxRecvBufServer"},
			{"internal/client/upstream/upstream.go", "Upstreams", "creteSession", "smuxRecvBufClient"},
		} {
			fd := findFunc(parse(site.file), site.recv, site.fn)
			val := int64(4194304)
			if fd == nil {
				fail("%s: %s not found", site.file, site.fn)
				continue
			}
			bad := false
			ast.Inspect(fd.Body, func(n ast.Node) bool {
				as, ok := n.(*ast.AssignStmt)
				if ok && len(as.Lhs) == 1 && strings.HasSuffix(src(as.Lhs[0]), ".MaxReceiveBuffer") {
					v := evalExpr(as.Rhs[0], en)
					if v == nil {
						bad = true
					} else {
						val, _ = constant.Int64Val(v)
					}
				}
				return true
			})
			if bad {
				fail("%s %s: MaxReceiveBuffer is not a constant expression", site.file, site.fn)
			}
			fmt.Fprintf(b, "/-- %s %s: smux MaxReceiveBuffer (library default 4194304 when the code does not set it) -/\ndef %s : Nat := %d\n\n", site.file, site.fn, site.name, val)
		}
		// client listener: HandleConnection under go
		lf := parse("internal/client/listener/listener.go")
		v = calledUnderGo(findFunc(lf, "SocketListener", "accept"), "HandleConnection")
		fmt.Fprintf(b, "/-- internal/client/listener/listener.go accept: one goroutine per local connection -/\ndef listenerHandleSpawned : Bool := %v\n", v == "go")
	})
}

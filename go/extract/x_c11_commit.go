package main

// C11 facts about the COMMIT steps of the DNS handshake (the set-options exchanges that make the server adopt what the
// client has just probed): SetEncodingUpstream, SetEncodingDownstream, AutodetectLazyMode, SwitchFragmentSize.
//
// For every `return` of these functions: the chain of enclosing `if` conditions ("!c" for an else branch) and WHAT is
// returned - "nil", "-" (no result), or for an identifier its name plus the kind of the declaration the identifier
// RESOLVES to (go/parser's scope resolution): "call" = declared by `x, err := f(...)`, "var" = `var err error`,
// "field" = parameter / named result.  `return err` at the end of a function whose loop declares its own `err` with
// `:=` therefore shows up as "err:var" with an empty guard chain, not as "err:call" under "err != nil".
// Also: the assignments made under each guard chain (which client field is reverted / set), the loop header, and the
// downstream fragment size a new server-side user starts with.

import (
	"fmt"
	"go/ast"
	"regexp"
	"strings"
)

var c11CommitFuncs = []string{"SetEncodingUpstream", "SetEncodingDownstream", "AutodetectLazyMode", "SwitchFragmentSize"}

func c11q(s string) string {
	s = strings.Join(strings.Fields(s), " ")
	s = strings.ReplaceAll(s, `\`, `\\`)
	return `"` + strings.ReplaceAll(s, `"`, `\"`) + `"`
}

func c11qList(xs []string) string {
	p := make([]string, len(xs))
	for i, x := range xs {
		p[i] = c11q(x)
	}
	return "[" + strings.Join(p, ", ") + "]"
}

func c11RetKind(e ast.Expr) string {
	// errors.WithStack(err) / errors.Wrapf(err, ...) are nil exactly when err is
	if c, ok := e.(*ast.CallExpr); ok && len(c.Args) >= 1 {
		if f := c11src(c.Fun); f == "errors.WithStack" || f == "errors.Wrap" || f == "errors.Wrapf" {
			return c11RetKind(c.Args[0])
		}
	}
	id, ok := e.(*ast.Ident)
	if !ok {
		return strings.Join(strings.Fields(c11src(e)), " ")
	}
	if id.Name == "nil" {
		return "nil"
	}
	kind := "unresolved"
	if id.Obj != nil {
		switch d := id.Obj.Decl.(type) {
		case *ast.AssignStmt:
			kind = "assign"
			if len(d.Rhs) == 1 {
				if _, ok := d.Rhs[0].(*ast.CallExpr); ok {
					kind = "call"
				}
			}
		case *ast.ValueSpec:
			kind = "var"
		case *ast.Field:
			kind = "field"
		}
	}
	return id.Name + ":" + kind
}

type c11Walk struct {
	rets    [][2]string // guards (joined by " && "), returned
	assigns [][2]string // guards, "lhs = rhs"
	loops   []string
}

func (w *c11Walk) stmts(list []ast.Stmt, guards []string) {
	for _, s := range list {
		w.stmt(s, guards)
	}
}

func (w *c11Walk) stmt(s ast.Stmt, guards []string) {
	g := strings.Join(guards, " && ")
	switch v := s.(type) {
	case *ast.ReturnStmt:
		r := "-"
		if len(v.Results) == 1 {
			r = c11RetKind(v.Results[0])
		} else if len(v.Results) > 1 {
			r = strings.Join(strings.Fields(c11src(v)), " ")
		}
		w.rets = append(w.rets, [2]string{g, r})
	case *ast.AssignStmt:
		if _, local := v.Lhs[0].(*ast.Ident); v.Tok.String() == "=" && !local {
			w.assigns = append(w.assigns, [2]string{g, strings.Join(strings.Fields(c11src(v)), " ")})
		}
	case *ast.BlockStmt:
		w.stmts(v.List, guards)
	case *ast.IfStmt:
		c := strings.Join(strings.Fields(c11src(v.Cond)), " ")
		w.stmts(v.Body.List, append(append([]string{}, guards...), c))
		if v.Else != nil {
			w.stmt(v.Else, append(append([]string{}, guards...), "!("+c+")"))
		}
	case *ast.ForStmt:
		hdr := "for "
		if v.Init != nil {
			hdr += c11src(v.Init)
		}
		hdr += "; "
		if v.Cond != nil {
			hdr += c11src(v.Cond)
		}
		hdr += "; "
		if v.Post != nil {
			hdr += c11src(v.Post)
		}
		w.loops = append(w.loops, strings.Join(strings.Fields(hdr), " "))
		w.stmts(v.Body.List, append(append([]string{}, guards...), "loop"))
	case *ast.SwitchStmt:
		// an if-chain rewritten as a tag-less switch: case conditions in order
		var prior []string
		for _, cc := range v.Body.List {
			cl, ok := cc.(*ast.CaseClause)
			if !ok {
				continue
			}
			gs := append(append([]string{}, guards...), prior...)
			if len(cl.List) == 1 && v.Tag == nil {
				c := strings.Join(strings.Fields(c11src(cl.List[0])), " ")
				gs = append(gs, c)
				prior = append(prior, "!("+c+")")
			}
			w.stmts(cl.Body, gs)
		}
	}
}

func init() {
	extractors = append(extractors, func(o *out) {
		b := o.w("C11Commit.lean")
		cf := parse("internal/streams/dns/dns_client_connection.go")
		var rets, assigns, loops, tries []string
		for _, name := range c11CommitFuncs {
			fd := findFunc(cf, "ClientDnsConnection", name)
			if fd == nil || fd.Body == nil {
				fail("C11: method ClientDnsConnection.%s not found", name)
				continue
			}
			w := &c11Walk{}
			w.stmts(fd.Body.List, nil)
			// the recognised time-out test comes first in every loop body and `continue`s: whether the other branches
			// hang off its else or follow it makes no difference, so its negation is dropped from the chains
			norm := func(g string) string { return strings.ReplaceAll(g, "!(err == smux.ErrTimeout) && ", "") }
			for _, r := range w.rets {
				rets = append(rets, fmt.Sprintf("(%s, %s, %s)", c11q(name), c11q(norm(r[0])), c11q(r[1])))
			}
			for _, a := range w.assigns {
				assigns = append(assigns, fmt.Sprintf("(%s, %s, %s)", c11q(name), c11q(norm(a[0])), c11q(a[1])))
			}
			loops = append(loops, fmt.Sprintf("(%s, %s)", c11q(name), c11qList(w.loops)))
			n := 0
			if len(w.loops) == 1 {
				if m := regexp.MustCompile(`^for i := 0; .*\bi < (\d+)\b.*; i\+\+$`).FindStringSubmatch(w.loops[0]); m != nil {
					n = c11Atoi(m[1])
				}
			}
			tries = append(tries, fmt.Sprintf("(%s, %d)", c11q(name), n))
		}
		fmt.Fprintf(b, "/-- every `return` of the four commit functions: (function, enclosing conditions, what is returned - an\n    identifier with the kind of declaration it resolves to) -/\ndef c11CommitReturns : List (String × String × String) := [\n  %s]\n\n", strings.Join(rets, ",\n  "))
		fmt.Fprintf(b, "/-- every assignment to a field made by the four commit functions: (function, enclosing conditions, statement) -/\ndef c11CommitAssigns : List (String × String × String) := [\n  %s]\n\n", strings.Join(assigns, ",\n  "))
		fmt.Fprintf(b, "/-- attempts of the retry loop (`i < N` of its header; 0 = not of that form) -/\ndef c11CommitTries : List (String × Nat) := [%s]\n\n", strings.Join(tries, ", "))
		fmt.Fprintf(b, "/-- loop headers of the four commit functions -/\ndef c11CommitLoops : List (String × List String) := [\n  %s]\n\n", strings.Join(loops, ",\n  "))

		// the fragment size a server-side user cuts until a set-options request says otherwise
		sf := parse("internal/streams/dns/dns_server_connection.go")
		def := 0
		if fd := findFunc(sf, "", "NewServerDnsListener"); fd == nil {
			fail("C11: NewServerDnsListener not found")
		} else if m := regexp.MustCompile(`Downstream:\s*util\.DownstreamConfig\{\s*FragmentSize:\s*(\d+),`).FindStringSubmatch(c11src(fd)); m == nil {
			fail("C11: NewServerDnsListener: default downstream fragment size not found")
		} else {
			def = c11Atoi(m[1])
		}
		fmt.Fprintf(b, "/-- NewServerDnsListener: downstream fragment size of a new user (what the server cuts until told otherwise) -/\ndef c11ServerDefaultDownFrag : Nat := %d\n\n", def)
	})
}

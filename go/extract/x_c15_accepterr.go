package main

import (
	"fmt"
	"go/ast"
	"go/token"
	"strings"
)

// C15: what the endpoints' accept loops do after a failed Accept.  A loop that goes back to Accept serves the next peer
// whatever failed; a loop that leaves (break / return / goto / exit of the process) or waits (sleep, timer, channel
// receive) after some failure stops serving, or delays, every later peer.  The fact lists, for SocketServer and
// PacketServer acceptConnection, the statements in the loop's error handling (every `if` of the loop body whose
// condition mentions the error returned by Accept) that leave the loop or wait, and the statement the handling ends
// with.
func c15AcceptErrorHandling(file, recv string) (exits []string, ends string, ok bool) {
	fd := findFunc(parse(file), recv, "acceptConnection")
	if fd == nil || fd.Body == nil {
		return nil, "", false
	}
	var loop *ast.ForStmt
	var errName string
	ast.Inspect(fd.Body, func(n ast.Node) bool {
		if loop != nil {
			return false
		}
		if f, isFor := n.(*ast.ForStmt); isFor {
			for _, s := range f.Body.List {
				as, isAs := s.(*ast.AssignStmt)
				if !isAs || len(as.Rhs) != 1 || len(as.Lhs) != 2 {
					continue
				}
				if c, isCall := as.Rhs[0].(*ast.CallExpr); isCall && strings.HasSuffix(src(c.Fun), ".Accept") {
					if id, isId := as.Lhs[1].(*ast.Ident); isId {
						loop, errName = f, id.Name
					}
				}
			}
		}
		return true
	})
	if loop == nil {
		return nil, "", false
	}
	mentions := func(e ast.Expr) bool {
		found := false
		ast.Inspect(e, func(n ast.Node) bool {
			if id, isId := n.(*ast.Ident); isId && id.Name == errName {
				found = true
			}
			return true
		})
		return found
	}
	waits := map[string]bool{"time.Sleep": true, "time.After": true, "time.NewTimer": true, "time.Tick": true, "os.Exit": true,
		"panic": true, "log.Fatal": true, "log.Fatalf": true, "log.Panic": true, "log.Panicf": true, "runtime.Goexit": true}
	var collect func(n ast.Node, depth int)
	collect = func(n ast.Node, depth int) {
		ast.Inspect(n, func(m ast.Node) bool {
			switch x := m.(type) {
			case *ast.FuncLit:
				return false
			case *ast.ForStmt, *ast.RangeStmt, *ast.SwitchStmt, *ast.TypeSwitchStmt, *ast.SelectStmt:
				if m != n {
					// an unlabelled break inside belongs to the inner statement
					collect(m, depth+1)
					return false
				}
			case *ast.BranchStmt:
				switch x.Tok {
				case token.BREAK:
					if depth == 0 || x.Label != nil {
						exits = append(exits, strings.TrimSpace("break "+src2(x.Label)))
					}
				case token.GOTO:
					exits = append(exits, "goto "+src2(x.Label))
				}
			case *ast.ReturnStmt:
				exits = append(exits, "return")
			case *ast.UnaryExpr:
				if x.Op == token.ARROW {
					exits = append(exits, "wait <-"+src(x.X))
				}
			case *ast.CallExpr:
				if name := src(x.Fun); waits[name] {
					exits = append(exits, "call "+name)
				}
			}
			return true
		})
	}
	found := false
	for _, s := range loop.Body.List {
		is, isIf := s.(*ast.IfStmt)
		if !isIf || !mentions(is.Cond) {
			continue
		}
		found = true
		collect(is.Body, 0)
		if is.Else != nil {
			collect(is.Else, 0)
		}
		if strings.TrimSpace(src(is.Cond)) == errName+" != nil" && len(is.Body.List) > 0 {
			ends = strings.TrimSpace(src(is.Body.List[len(is.Body.List)-1]))
		}
	}
	return exits, ends, found
}

func src2(id *ast.Ident) string {
	if id == nil {
		return ""
	}
	return id.Name
}

func init() {
	extractors = append(extractors, func(o *out) {
		b := o.w("C15Accept.lean")
		for _, s := range []struct{ file, recv, name string }{
			{"internal/server/socket_server.go", "SocketServer", "socketAccept"},
			{"internal/server/packet_server.go", "PacketServer", "packetAccept"},
		} {
			exits, ends, ok := c15AcceptErrorHandling(s.file, s.recv)
			if !ok {
				fail("%s acceptConnection: accept loop / its handling of a failed Accept not found", s.file)
			}
			fmt.Fprintf(b, "/-- %s acceptConnection: statements in the handling of a failed Accept (`if` statements of the loop body whose\n    condition mentions Accept's error) that leave the accept loop or wait -/\ndef %sErrorExits : List String := %s\n\n", s.file, s.name, leanStrList14(exits))
			fmt.Fprintf(b, "/-- %s acceptConnection: the last statement of `if err != nil { … }` in the accept loop -/\ndef %sErrorEnds : String := %s\n\n", s.file, s.name, leanStr06(ends))
		}
	})
}

package main

import (
	"fmt"
	"go/ast"
	"go/constant"
	"go/token"
	"regexp"
	"strings"
)

// C16 facts: the shapes of the client's connection policy (listener.go ConnectDirectly /
// HandleConnection, upstream.go Connect / open / openStream / discard, the secure guard of every
// upstream kind, the handshake deadline of socketace.NewClientConnection).

var wsRe = regexp.MustCompile(`\s+`)

// flat returns the source of a function with all white space removed (comments are not printed by
// go/printer for a bare node).
func flat(n ast.Node) string {
	if n == nil {
		return ""
	}
	return wsRe.ReplaceAllString(src(n), "")
}

// ifWith returns the first if statement (searching the whole subtree, else-if chains included) whose
// condition, flattened, contains every given fragment.
func ifWith(root ast.Node, frags ...string) *ast.IfStmt {
	var found *ast.IfStmt
	if root == nil {
		return nil
	}
	ast.Inspect(root, func(n ast.Node) bool {
		if found != nil {
			return false
		}
		if is, ok := n.(*ast.IfStmt); ok {
			c := flat(is.Cond)
			all := true
			for _, f := range frags {
				if !strings.Contains(c, f) {
					all = false
				}
			}
			if all {
				found = is
				return false
			}
		}
		return true
	})
	return found
}

func bodyHas(b *ast.BlockStmt, frag string) bool {
	return b != nil && strings.Contains(flat(b), frag)
}

func init() {
	extractors = append(extractors, func(o *out) {
		b := o.w("C16.lean")
		fact := func(doc, name string, v bool) {
			fmt.Fprintf(b, "/-- %s -/\ndef %s : Bool := %v\n\n", doc, name, v)
		}

		// ---- listener.go
		lf := parse("internal/client/listener/listener.go")
		cd := findFunc(lf, "AbstractListener", "ConnectDirectly")
		hc := findFunc(lf, "AbstractListener", "HandleConnection")
		if cd == nil || hc == nil {
			fail("listener.go: ConnectDirectly / HandleConnection not found")
			return
		}
		// the function is evaluated path-sensitively (x_c16_direct.go), not matched as text: returned value / PipeData ran
		dirRet := func(dialFails, pipeFails bool) string {
			e := &dirEval{dialFails: dialFails, pipeFails: pipeFails, isNil: map[string]bool{}}
			r, done := e.block(cd.Body.List)
			if !done || e.unknown != "" {
				r = "?"
			}
			return fmt.Sprintf("%s/%v", r, e.piped)
		}
		// without a usable forward address: false is returned and nothing is dialled, however the guards are spelled
		noFwd := func(fwdNil, hostEmpty, schemeEmpty bool) bool {
			e := &dirEval{fwdNil: fwdNil, hostEmpty: hostEmpty, schemeEmpty: schemeEmpty, isNil: map[string]bool{}}
			r, done := e.block(cd.Body.List)
			return done && e.unknown == "" && r == "false" && !e.dialed && !e.piped
		}
		// the dial goes to the forward address: a call net.Dial*(<x>.Scheme, <x>.Host, …)
		dialsForward := false
		ast.Inspect(cd, func(n ast.Node) bool {
			if c, ok := n.(*ast.CallExpr); ok && strings.HasPrefix(flat(c.Fun), "net.Dial") && len(c.Args) >= 2 &&
				strings.HasSuffix(flat(c.Args[0]), ".Scheme") && strings.HasSuffix(flat(c.Args[1]), ".Host") {
				dialsForward = true
			}
			return true
		})
		guard := noFwd(true, false, false) && noFwd(false, true, false) && noFwd(false, false, true) && dialsForward &&
			dirRet(true, false) == "false/false" && dirRet(false, false) == "true/true" && dirRet(false, true) == "true/true"
		fact("listener.go ConnectDirectly: no forward address, or one with an empty host or scheme, or a failed dial ⇒ false; a successful dial ⇒ pipe and true",
			"c16DirectGuard", guard)
		first := false
		if len(hc.Body.List) > 0 {
			if is, ok := hc.Body.List[0].(*ast.IfStmt); ok {
				first = flat(is.Cond) == "l.ConnectDirectly(conn)" && flat(is.Body) == "{return}"
			}
		}
		fact("listener.go HandleConnection: the direct attempt comes first and, when it succeeds, the upstreams are not touched",
			"c16DirectFirst", first && strings.Contains(flat(hc), "l.Upstreams.Connect(l.Config,l.Name)"))

		// ---- upstream.go
		uf := parse("internal/client/upstream/upstream.go")
		op := findFunc(uf, "Upstreams", "open")
		co := findFunc(uf, "Upstreams", "Connect")
		os := findFunc(uf, "Upstreams", "openStream")
		if op == nil || co == nil || os == nil {
			fail("upstream.go: open / Connect / openStream not found")
			return
		}
		inOrder := false
		if len(op.Body.List) == 2 {
			if rs, ok := op.Body.List[0].(*ast.RangeStmt); ok && flat(rs.X) == "ul.Data" && rs.Value != nil {
				v := flat(rs.Value)
				body := flat(rs.Body)
				e := ifWith(rs.Body, "err!=nil")
				inOrder = strings.Contains(body, "err="+v+".Connect(manager,ul.MustSecure)") &&
					e != nil && strings.HasSuffix(flat(e.Body), "continue}") &&
					strings.Contains(body, "ul.connection="+v) && strings.HasSuffix(body, "returnul.creteSession()}")
			}
			if _, ok := op.Body.List[1].(*ast.ReturnStmt); !ok {
				inOrder = false
			}
		}
		fact("upstream.go open: the upstreams are tried in list order, a failing one is skipped, the first that connects is stored and nothing after it is dialled",
			"c16OpenInListOrder", inOrder)

		// the liveness test = the condition under which Connect opens a new physical connection.  It is RUN
		// (x_c16_eval.go; a test moved into a helper method is followed) under four scenarios rather than
		// matched as text: everything alive / only the connection's Closed() flag set / only the session
		// closed / nothing stored (where calling a method of the nil connection or session would panic:
		// those tests are not part of that scenario, so reaching them is reported).
		coFrame := newFrame(co, true)
		var live *ast.IfStmt
		ast.Inspect(co.Body, func(n ast.Node) bool {
			if is, ok := n.(*ast.IfStmt); ok && live == nil && strings.Contains(coFrame.norm(is.Body), "$.open(") {
				live = is
			}
			return live == nil
		})
		if live == nil {
			fail("upstream.go Connect: liveness test not found")
			return
		}
		reopens := func(connNil, flag, sessNil, sessClosed bool) bool {
			at := map[string]bool{"$.connection==nil": connNil, "$.session==nil": sessNil}
			if !connNil {
				at["$.connection.Closed()"] = flag
			}
			if !sessNil {
				at["$.session.IsClosed()"] = sessClosed
			}
			ev := &mEval{file: uf, recv: "Upstreams", atoms: at}
			v := ev.cond(coFrame, live.Cond)
			if ev.unknown != "" {
				fail("upstream.go Connect: liveness test not understood: %s", ev.unknown)
			}
			return v
		}
		reuse := !reopens(false, false, false, false) && reopens(true, false, true, false) && reopens(true, false, false, false) && reopens(false, false, true, false)
		fact("upstream.go Connect liveness test: the stored connection's Closed() flag (set by a local Close only)",
			"c16LivenessChecksFlag", reuse && reopens(false, true, false, false))
		fact("upstream.go Connect liveness test: the session's own IsClosed()",
			"c16LivenessChecksSession", reuse && reopens(false, false, false, true))
		cf := coFrame.norm(co.Body)
		iLock, iOpen, iUnlock := strings.Index(cf, "$.mutex.Lock()"), strings.Index(cf, "$.open("), strings.Index(cf, "$.mutex.Unlock()")
		fact("upstream.go Connect: open runs between mutex.Lock and mutex.Unlock, inside the liveness test",
			"c16OpenUnderMutex", iLock >= 0 && iLock < iOpen && iOpen < iUnlock && strings.Contains(coFrame.norm(live.Body), "$.open("))

		// openStream: what a failing session.OpenStream / a failing protocol selection do to the stored session
		var osErr, selErr *ast.IfStmt
		for i, st := range os.Body.List {
			if is, ok := st.(*ast.IfStmt); ok && flat(is.Cond) == "err!=nil" && i > 0 {
				prev := flat(os.Body.List[i-1])
				if strings.Contains(prev, ".OpenStream()") {
					osErr = is
				} else if strings.Contains(prev, "SelectProtoOrFail(") {
					selErr = is
				}
			}
		}
		if osErr == nil || selErr == nil {
			fail("upstream.go openStream: error branches of OpenStream / SelectProtoOrFail not found")
			return
		}
		discards := bodyHas(osErr.Body, "ul.discard(session)")
		fact("upstream.go openStream: a session that refuses to open a stream is discarded (closed and forgotten)",
			"c16DiscardOnLoss", discards)
		fact("upstream.go openStream: a failed protocol selection leaves the shared session alone",
			"c16SelectFailureKeepsSession", !bodyHas(selErr.Body, "discard") && !bodyHas(selErr.Body, "ul.session=") && !bodyHas(selErr.Body, "ul.connection="))
		retry := false
		ast.Inspect(co.Body, func(n ast.Node) bool {
			if fs, ok := n.(*ast.ForStmt); ok && fs.Cond == nil && bodyHas(fs.Body, "ul.openStream(session,") {
				if g := ifWith(fs.Body, "!sessionLost||attempt>0"); g != nil && strings.HasPrefix(flat(g.Body), "{return") &&
					flat(fs.Init) == "attempt:=0" && flat(fs.Post) == "attempt++" && bodyHas(fs.Body, "ul.mutex.Lock()") {
					retry = true
				}
			}
			return true
		})
		fact("upstream.go Connect: after a lost session the whole Connect is tried again, once", "c16RetryAfterLoss", retry)
		di := findFunc(uf, "Upstreams", "discard")
		// discard is RUN (x_c16_eval.go; helper methods are followed, an inverted guard with an early return
		// is the same thing) on: the session given is the one stored (a live connection under it) / another
		// session has been stored in the meantime / no session given.  The facts are about its effects.
		ident, closes := false, false
		if di != nil && di.Body != nil {
			run := func(given, same bool) []string {
				ev := &mEval{file: uf, recv: "Upstreams", atoms: map[string]bool{
					"%1==nil": !given, "$.session==%1": same, "$.session==nil": false,
					"$.connection==nil": false, "$.connection.Closed()": false}}
				ev.call(di, true)
				if ev.unknown != "" {
					fail("upstream.go discard: not understood: %s", ev.unknown)
					return []string{"?"}
				}
				return ev.effects
			}
			hit, other, none := run(true, true), run(true, false), run(false, false)
			touches := func(eff []string) bool {
				for _, x := range eff {
					if x != "$.mutex.Lock()" && x != "$.mutex.Unlock()" {
						return true
					}
				}
				return false
			}
			ident = hasEffect(hit, "$.connection=nil") && hasEffect(hit, "$.session=nil") && !touches(other) && !touches(none)
			closes = hasEffect(hit, "streams.TryClose($.session)", "streams.TryClose(%1)") && hasEffect(hit, "streams.TryClose($.connection)") &&
				underLock(hit) && underLock(other)
		}
		fact("upstream.go discard: only the session the caller saw fail is forgotten (not one stored in the meantime)", "c16DiscardIdentity", ident)
		fact("upstream.go discard: the session and its connection are closed, under the mutex", "c16DiscardCloses", closes)

		// ---- the upstream kinds: secure guard after the handshake
		guardAll, closeAll := true, true
		for _, k := range []struct{ file, recv, fn string }{
			{"socket.go", "Socket", "Connect"}, {"http.go", "Http", "Connect"}, {"packet.go", "Packet", "ConnectPacket"},
			{"dns.go", "Dns", "Connect"}, {"input_output.go", "InputOutput", "Connect"}} {
			fd := findFunc(parse("internal/client/upstream/"+k.file), k.recv, k.fn)
			if fd == nil || !strings.Contains(flat(fd), "socketace.NewClientConnection(") {
				fail("upstream/%s: %s.%s with NewClientConnection not found", k.file, k.recv, k.fn)
				continue
			}
			g := ifWith(fd, "mustSecure&&!cc.Secure()")
			if g == nil || !bodyHas(g.Body, "returnerrors.Errorf(") {
				guardAll = false
				closeAll = false
				continue
			}
			if !bodyHas(g.Body, "streams.TryClose(cc)") {
				closeAll = false
			}
		}
		fact("every upstream kind: a handshake that ends without encryption is an error when security is required", "c16KindsGuardSecure", guardAll)
		fact("every upstream kind: the connection rejected by that guard is closed", "c16ClosesRejected", closeAll)
		sk := flat(findFunc(parse("internal/client/upstream/socket.go"), "Socket", "Connect"))
		fact("socket.go: the TLS dial (TCP connect + TLS handshake) runs under a timeout",
			"c16TlsDialBounded", strings.Contains(sk, "tls.DialWithDialer(&net.Dialer{Timeout:socketace.HandshakeTimeout}") && !strings.Contains(sk, "tls.Dial("))

		// ---- socketace/client.go: handshake deadline
		cfile := parse("internal/socketace/client.go")
		nc := findFunc(cfile, "", "NewClientConnection")
		if nc == nil {
			fail("client.go: NewClientConnection not found")
			return
		}
		nf := flat(nc.Body)
		iSet, iHs := strings.Index(nf, "c.SetDeadline(time.Now().Add(HandshakeTimeout))"), strings.Index(nf, "connection.handshake(conn)")
		ms := int64(0)
		if iSet >= 0 && iSet < iHs {
			en := env{"time.Second": constant.MakeInt64(1000), "time.Millisecond": constant.MakeInt64(1), "time.Minute": constant.MakeInt64(60000)}
			en = fileConsts(cfile, en)
			ms = intConst(en, "HandshakeTimeout", "client.go")
		}
		if ms > 0 {
			fmt.Fprintf(b, "/-- client.go NewClientConnection: the handshake runs under a deadline of HandshakeTimeout (milliseconds) -/\ndef c16HandshakeDeadlineMs : Option Nat := some %d\n\n", ms)
		} else {
			fmt.Fprintf(b, "/-- client.go NewClientConnection: no deadline is set before the handshake -/\ndef c16HandshakeDeadlineMs : Option Nat := none\n\n")
		}
		var deferred *ast.DeferStmt
		for _, st := range nc.Body.List {
			if d, ok := st.(*ast.DeferStmt); ok {
				deferred = d
			}
		}
		cleared, closesFailed := false, false
		if deferred != nil {
			if g := ifWith(deferred, "err!=nil"); g != nil {
				closesFailed = bodyHas(g.Body, "streams.TryClose(c)")
				if blk, ok := g.Else.(*ast.BlockStmt); ok {
					cleared = bodyHas(blk, "c.SetDeadline(time.Time{})")
				}
			}
		}
		fact("client.go NewClientConnection: the deadline is removed when the handshake succeeded", "c16DeadlineCleared", cleared)

		// ---- client.go: WHERE a deadline is set / cleared relative to the phases of the handshake.
		// Every call of SetDeadline / SetReadDeadline / SetWriteDeadline in client.go, with the function it
		// is in, its argument and its placement: "deferred <conditions>" when inside a deferred closure (it
		// runs when the function returns), otherwise "after <phase calls of that function that precede it>".
		// And the call chain of the phases themselves: which function runs handshake / upgrade / startTls /
		// the TLS handshake.
		phaseCalls := []string{"connection.handshake", "connection.upgrade", "cc.startTls", "tlsConn.Handshake", "request.Write", "response.Read"}
		type dsite struct{ fn, method, arg, place string }
		var dsites []dsite
		type link struct{ caller, callee string }
		var chain []link
		for _, d := range cfile.Decls {
			fd, ok := d.(*ast.FuncDecl)
			if !ok || fd.Body == nil {
				continue
			}
			fname := fd.Name.Name
			if fd.Recv != nil && len(fd.Recv.List) > 0 {
				t := fd.Recv.List[0].Type
				if st, ok := t.(*ast.StarExpr); ok {
					t = st.X
				}
				fname = exprString(t) + "." + fname
			}
			type pc struct {
				name string
				pos  token.Pos
			}
			var phases []pc
			ast.Inspect(fd.Body, func(n ast.Node) bool {
				if c, ok := n.(*ast.CallExpr); ok {
					f := flat(c.Fun)
					for _, p := range phaseCalls {
						if f == p {
							phases = append(phases, pc{p, c.Pos()})
							if p != "request.Write" && p != "response.Read" {
								chain = append(chain, link{fname, p})
							}
						}
					}
				}
				return true
			})
			var walk func(n ast.Node, deferred bool, guards []string)
			walk = func(n ast.Node, deferred bool, guards []string) {
				if n == nil {
					return
				}
				switch x := n.(type) {
				case *ast.DeferStmt:
					walk(x.Call, true, guards)
					return
				case *ast.IfStmt:
					if x.Init != nil {
						walk(x.Init, deferred, guards)
					}
					c := flat(x.Cond)
					walk(x.Cond, deferred, guards)
					walk(x.Body, deferred, append(append([]string{}, guards...), c))
					if x.Else != nil {
						walk(x.Else, deferred, append(append([]string{}, guards...), "!("+c+")"))
					}
					return
				case *ast.CallExpr:
					if sel, ok := x.Fun.(*ast.SelectorExpr); ok && len(x.Args) == 1 &&
						(sel.Sel.Name == "SetDeadline" || sel.Sel.Name == "SetReadDeadline" || sel.Sel.Name == "SetWriteDeadline") {
						place := ""
						if deferred {
							place = "deferred " + strings.Join(guards, " && ")
						} else {
							var before []string
							for _, p := range phases {
								if p.pos < x.Pos() {
									before = append(before, p.name)
								}
							}
							place = "after " + strings.Join(before, ",")
							if len(guards) > 0 {
								place += " if " + strings.Join(guards, " && ")
							}
						}
						dsites = append(dsites, dsite{fname, sel.Sel.Name, flat(x.Args[0]), strings.TrimSpace(place)})
					}
				}
				// generic descent over the children
				first := true
				ast.Inspect(n, func(c ast.Node) bool {
					if first {
						first = false
						return true
					}
					if c != nil {
						walk(c, deferred, guards)
					}
					return false
				})
			}
			walk(fd.Body, false, nil)
		}
		fmt.Fprintf(b, "/-- client.go: every call that sets or clears a deadline: (function, method, argument, placement — `deferred <conditions>` = in a deferred closure, runs when the function returns; `after <phase calls preceding it in that function>`) -/\ndef c16DeadlineSites : List (String × String × String × String) := [\n")
		for i, d := range dsites {
			sep := ","
			if i == len(dsites)-1 {
				sep = ""
			}
			fmt.Fprintf(b, "  (%q, %q, %q, %q)%s\n", d.fn, d.method, d.arg, d.place, sep)
		}
		fmt.Fprintf(b, "]\n\n")
		fmt.Fprintf(b, "/-- client.go: which function runs which phase of the handshake (caller, call), in source order -/\ndef c16HandshakeChain : List (String × String) := [\n")
		for i, l := range chain {
			sep := ","
			if i == len(chain)-1 {
				sep = ""
			}
			fmt.Fprintf(b, "  (%q, %q)%s\n", l.caller, l.callee, sep)
		}
		fmt.Fprintf(b, "]\n\n")

		// ---- http.go: the websocket dial (TCP connect + TLS + HTTP upgrade) runs under a timeout
		hk := flat(findFunc(parse("internal/client/upstream/http.go"), "Http", "Connect"))
		fact("http.go: the websocket dial (connect, TLS handshake, HTTP upgrade) runs under websocket.Dialer.HandshakeTimeout",
			"c16WsDialBounded", strings.Contains(hk, "&websocket.Dialer{") && strings.Contains(hk, "HandshakeTimeout:") && strings.Contains(hk, "dialer.Dial("))
		fact("client.go NewClientConnection: a connection whose handshake failed is closed", "c16ClosesFailed", closesFailed)
	})
}

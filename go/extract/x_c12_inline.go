package main

// C12 panic-site inventory: the *units* of the inventory and the helpers accounted to them.
//
// The fingerprint of a site names the function it belongs to.  The units are the exported functions / methods of the
// anchored files plus the unexported ones listed in c12Units (the functions the hand-kept list
// SA.DnsServer.coveredSites names).  Any OTHER unexported function or method of the same package is a helper: its
// sites are accounted to the unit(s) that call it -- directly, through another helper, in a closure or under `go` --
// at the place of the call and with the arguments written in place of the parameters (`questionOrder(questions[i].Name)`
// with `name[0]` in the helper is the site `questions[i].Name[0]` of the caller; `splitChunk(data, chunkLenA)` is
// analysed with n = chunkLenA).  Hence "moved into a helper" is not a new site, and a helper's length guards are
// judged with the constants its callers pass.  A helper that only the (excluded) encoders reach is excluded with
// them; a helper nobody in the anchored files calls is a unit of its own.

import (
	"go/ast"
	"go/parser"
	"go/printer"
	"go/token"
	"path/filepath"
	"sort"
	"strings"
)

// unexported functions that are units of their own (everything else that is unexported is a helper)
var c12Units = map[string]bool{
	"newUser": true, "closeConnection": true, "validateAndGetUser": true, "onMessage": true, "packet": true, "version": true,
	"setOptionsRequest": true, "testDownstreamFragmentSize": true, "testUpstreamEncoder": true, "testDownstreamEncoder": true,
	"handleRequest": true, "unescapePresentation": true, "writeBool": true, "readBool": true, "randomChars": true,
}

type c12Pkg struct {
	funcs   map[string]*ast.FuncDecl
	methods map[string][]*ast.FuncDecl
	fileOf  map[*ast.FuncDecl]*ast.File
}

var c12PkgCache = map[string]*c12Pkg{}

func c12PkgOf(dir string) *c12Pkg {
	if p, ok := c12PkgCache[dir]; ok {
		return p
	}
	p := &c12Pkg{funcs: map[string]*ast.FuncDecl{}, methods: map[string][]*ast.FuncDecl{}, fileOf: map[*ast.FuncDecl]*ast.File{}}
	files, _ := filepath.Glob(filepath.Join(repo, dir, "*.go"))
	sort.Strings(files)
	for _, path := range files {
		if strings.HasSuffix(path, "_test.go") {
			continue
		}
		rel, _ := filepath.Rel(repo, path)
		f := c12Parse(rel)
		for _, d := range f.Decls {
			if fd, ok := d.(*ast.FuncDecl); ok && fd.Body != nil {
				p.fileOf[fd] = f
				if fd.Recv == nil {
					p.funcs[fd.Name.Name] = fd
				} else {
					p.methods[fd.Name.Name] = append(p.methods[fd.Name.Name], fd)
				}
			}
		}
	}
	c12PkgCache[dir] = p
	return p
}

var c12ParseCache = map[string]*ast.File{}

// one AST per file, so that declarations found through the package index are the ones the inventory walks
func c12Parse(rel string) *ast.File {
	if f, ok := c12ParseCache[rel]; ok {
		return f
	}
	f := parse(rel)
	c12ParseCache[rel] = f
	return f
}

func c12IsHelper(fd *ast.FuncDecl) bool {
	return fd != nil && !ast.IsExported(fd.Name.Name) && !c12Units[fd.Name.Name]
}

// c12Callee: the helper a call goes to (nil when the callee is a unit, a func field, another package, a builtin …)
func (p *c12Pkg) c12Callee(call *ast.CallExpr) *ast.FuncDecl {
	switch f := call.Fun.(type) {
	case *ast.Ident:
		if f.Obj != nil && f.Obj.Kind != ast.Fun {
			return nil // a local variable of function type
		}
		if fd := p.funcs[f.Name]; c12IsHelper(fd) {
			return fd
		}
	case *ast.SelectorExpr:
		if ms := p.methods[f.Sel.Name]; len(ms) == 1 && c12IsHelper(ms[0]) {
			return ms[0]
		}
	}
	return nil
}

// c12Reach: the helpers reachable from the bodies of `from` (through helpers)
func (p *c12Pkg) c12Reach(from []*ast.FuncDecl) map[*ast.FuncDecl]bool {
	seen := map[*ast.FuncDecl]bool{}
	var visit func(fd *ast.FuncDecl)
	visit = func(fd *ast.FuncDecl) {
		ast.Inspect(fd.Body, func(n ast.Node) bool {
			if call, ok := n.(*ast.CallExpr); ok {
				if h := p.c12Callee(call); h != nil && !seen[h] {
					seen[h] = true
					visit(h)
				}
			}
			return true
		})
	}
	for _, fd := range from {
		visit(fd)
	}
	return seen
}

func c12Pure(e ast.Expr) bool {
	pure := true
	ast.Inspect(e, func(n ast.Node) bool {
		switch n.(type) {
		case *ast.CallExpr, *ast.FuncLit, *ast.UnaryExpr, *ast.CompositeLit:
			if u, ok := n.(*ast.UnaryExpr); ok && u.Op != token.AND && u.Op != token.ARROW {
				return true
			}
			pure = false
		}
		return true
	})
	return pure
}

func c12Primary(e ast.Expr) bool {
	switch e.(type) {
	case *ast.Ident, *ast.SelectorExpr, *ast.IndexExpr, *ast.BasicLit, *ast.ParenExpr, *ast.SliceExpr:
		return true
	}
	return false
}

// c12Instantiate: the body of helper h with the (pure) arguments of `call` written in place of the parameters that
// the helper never assigns (an argument for which `keep` holds stays where it is); `taken` tells which argument expressions (by index; -1 = receiver) went into the body
func c12Instantiate(h *ast.FuncDecl, call *ast.CallExpr, keep func(ast.Expr) bool) (body *ast.FuncDecl, taken map[int]bool) {
	taken = map[int]bool{}
	type bind struct {
		obj *ast.Object
		arg ast.Expr
		idx int
	}
	var binds []bind
	if h.Recv != nil && len(h.Recv.List) == 1 && len(h.Recv.List[0].Names) == 1 {
		if sel, ok := call.Fun.(*ast.SelectorExpr); ok {
			binds = append(binds, bind{h.Recv.List[0].Names[0].Obj, sel.X, -1})
		}
	}
	k := 0
	variadic := false
	for _, fld := range h.Type.Params.List {
		if _, ok := fld.Type.(*ast.Ellipsis); ok {
			variadic = true
		}
		for _, nm := range fld.Names {
			if !variadic && k < len(call.Args) && call.Ellipsis == token.NoPos {
				binds = append(binds, bind{nm.Obj, call.Args[k], k})
			}
			k++
		}
	}
	// parameters the helper modifies keep their name
	modified := map[*ast.Object]bool{}
	mark := func(e ast.Expr) {
		for {
			switch x := e.(type) {
			case *ast.ParenExpr:
				e = x.X
				continue
			case *ast.IndexExpr:
				e = x.X
				continue
			case *ast.SliceExpr:
				e = x.X
				continue
			case *ast.StarExpr:
				e = x.X
				continue
			}
			break
		}
		if id, ok := e.(*ast.Ident); ok && id.Obj != nil {
			modified[id.Obj] = true
		}
	}
	ast.Inspect(h.Body, func(n ast.Node) bool {
		switch x := n.(type) {
		case *ast.AssignStmt:
			for _, l := range x.Lhs {
				if id, ok := l.(*ast.Ident); ok && id.Obj != nil {
					modified[id.Obj] = true
				}
			}
		case *ast.IncDecStmt:
			mark(x.X)
		case *ast.UnaryExpr:
			if x.Op == token.AND {
				mark(x.X)
			}
		case *ast.RangeStmt:
			if x.Tok == token.ASSIGN {
				for _, e := range []ast.Expr{x.Key, x.Value} {
					if e != nil {
						mark(e)
					}
				}
			}
		}
		return true
	})
	repl := map[*ast.Object]bind{}
	for _, b := range binds {
		if b.obj != nil && b.arg != nil && !modified[b.obj] && c12Pure(b.arg) && !keep(b.arg) {
			repl[b.obj] = b
		}
	}
	type saved struct {
		id   *ast.Ident
		name string
	}
	var undo []saved
	ast.Inspect(h.Body, func(n ast.Node) bool {
		if id, ok := n.(*ast.Ident); ok && id.Obj != nil {
			if b, ok := repl[id.Obj]; ok {
				txt := nodeText(b.arg)
				if !c12Primary(b.arg) {
					txt = "(" + txt + ")"
				}
				undo = append(undo, saved{id, id.Name})
				id.Name = txt
				taken[b.idx] = true
			}
		}
		return true
	})
	var sb strings.Builder
	sb.WriteString("package p\nfunc _() ")
	_ = printer.Fprint(&sb, fset, h.Body)
	for _, u := range undo {
		u.id.Name = u.name
	}
	f, err := parser.ParseFile(fset, "", sb.String(), 0)
	if err != nil || len(f.Decls) != 1 {
		return nil, map[int]bool{}
	}
	fd, _ := f.Decls[0].(*ast.FuncDecl)
	if fd == nil {
		return nil, map[int]bool{}
	}
	return fd, taken
}

func c12MergeEnv(a, b env) env {
	r := env{}
	for k, v := range b {
		r[k] = v
	}
	for k, v := range a {
		r[k] = v
	}
	return r
}

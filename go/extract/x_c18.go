// C18 facts (mechanism A): every scheme switch of the configuration parsers, the regex sources, the
// --channel flag's group wiring, the nil-address guards of unmarshalChannel, and the "+tls" decision
// chain of every Startup / Connect, written to SA/Gen/C18.lean as Lean tables that SA.Model.Schemes
// interprets.  A changed case list, constructor, guard, regex or branch lands in a proof obligation.
package main

import (
	"bytes"
	"fmt"
	"go/ast"
	"go/parser"
	"go/printer"
	"go/token"
	"os"
	"path/filepath"
	"regexp"
	"strconv"
	"strings"
)

func init() { extractors = append(extractors, extractC18) }

func src18(n ast.Node) string {
	var b bytes.Buffer
	_ = printer.Fprint(&b, fset, n)
	return strings.Join(strings.Fields(b.String()), " ")
}

func leanStr(s string) string {
	var b strings.Builder
	b.WriteByte('"')
	for _, r := range s {
		switch r {
		case '"':
			b.WriteString("\\\"")
		case '\\':
			b.WriteString("\\\\")
		case '\n':
			b.WriteString("\\n")
		default:
			b.WriteRune(r)
		}
	}
	b.WriteByte('"')
	return b.String()
}

func leanStrList(xs []string) string {
	q := make([]string, len(xs))
	for i, x := range xs {
		q[i] = leanStr(x)
	}
	return "[" + strings.Join(q, ", ") + "]"
}

// ---- semantic recognisers (robust against behaviour-preserving refactors) ------------------------------
//
// A "scheme switch of F" is a switch whose tag is the address scheme, wherever it is executed on behalf of
// F: in F itself or in a function/method of the same package that F calls (two levels), the tag being
// `<x>.Scheme`, a local that is only ever assigned `<x>.Scheme`, or a parameter bound to such a value at the
// call site.  A tag derived from the scheme by any computation (SplitN, ToLower, ...) does NOT count.

// pkgFuncs18 indexes every function of the package (directory) of the file rel: "name" / "Recv.name".
func pkgFuncs18(rel string) map[string]*ast.FuncDecl {
	out := map[string]*ast.FuncDecl{}
	dir := filepath.Dir(rel)
	ents, err := os.ReadDir(filepath.Join(repo, dir))
	if err != nil {
		fail("read dir %s: %v", dir, err)
		return out
	}
	for _, e := range ents {
		n := e.Name()
		if e.IsDir() || !strings.HasSuffix(n, ".go") || strings.HasSuffix(n, "_test.go") {
			continue
		}
		f, err := parser.ParseFile(fset, filepath.Join(repo, dir, n), nil, 0)
		if err != nil {
			continue
		}
		for _, d := range f.Decls {
			if fd, ok := d.(*ast.FuncDecl); ok && fd.Body != nil {
				out[funcKey18(fd)] = fd
			}
		}
	}
	return out
}

func recvType18(fd *ast.FuncDecl) (typ, name string) {
	if fd.Recv == nil || len(fd.Recv.List) == 0 {
		return "", ""
	}
	t := fd.Recv.List[0].Type
	if st, ok := t.(*ast.StarExpr); ok {
		t = st.X
	}
	if len(fd.Recv.List[0].Names) > 0 {
		name = fd.Recv.List[0].Names[0].Name
	}
	return exprString(t), name
}

func funcKey18(fd *ast.FuncDecl) string {
	if t, _ := recvType18(fd); t != "" {
		return t + "." + fd.Name.Name
	}
	return fd.Name.Name
}

// callee18 resolves a call made inside fn to a function of the same package (plain function, or a method
// called on fn's own receiver).
func callee18(fn *ast.FuncDecl, c *ast.CallExpr, funcs map[string]*ast.FuncDecl) *ast.FuncDecl {
	switch f := c.Fun.(type) {
	case *ast.Ident:
		if d := funcs[f.Name]; d != nil && d.Recv == nil {
			return d
		}
	case *ast.SelectorExpr:
		if x, ok := f.X.(*ast.Ident); ok {
			if t, rn := recvType18(fn); t != "" && rn == x.Name {
				return funcs[t+"."+f.Sel.Name]
			}
		}
	}
	return nil
}

func paramNames18(fd *ast.FuncDecl) []string {
	var out []string
	for _, fl := range fd.Type.Params.List {
		if len(fl.Names) == 0 {
			out = append(out, "_")
		}
		for _, n := range fl.Names {
			out = append(out, n.Name)
		}
	}
	return out
}

func unparen18(e ast.Expr) ast.Expr {
	for {
		p, ok := e.(*ast.ParenExpr)
		if !ok {
			return e
		}
		e = p.X
	}
}

func isSchemeExpr18(e ast.Expr, ids map[string]bool) bool {
	switch x := unparen18(e).(type) {
	case *ast.SelectorExpr:
		return x.Sel.Name == "Scheme"
	case *ast.Ident:
		return ids[x.Name]
	}
	return false
}

// schemeIdents18: the identifiers of fn that always hold the unmodified scheme: the given parameters and
// every local all of whose assignments are from a scheme expression.
func schemeIdents18(fn *ast.FuncDecl, params map[string]bool) map[string]bool {
	ids := map[string]bool{}
	for k := range params {
		ids[k] = true
	}
	for round := 0; round < 3; round++ {
		good, bad := map[string]bool{}, map[string]bool{}
		ast.Inspect(fn.Body, func(n ast.Node) bool {
			switch s := n.(type) {
			case *ast.AssignStmt:
				for i, l := range s.Lhs {
					id, ok := l.(*ast.Ident)
					if !ok || id.Name == "_" {
						continue
					}
					if len(s.Lhs) == len(s.Rhs) && (s.Tok == token.DEFINE || s.Tok == token.ASSIGN) && isSchemeExpr18(s.Rhs[i], ids) {
						good[id.Name] = true
					} else {
						bad[id.Name] = true
					}
				}
			case *ast.IncDecStmt:
				if id, ok := s.X.(*ast.Ident); ok {
					bad[id.Name] = true
				}
			case *ast.UnaryExpr:
				if id, ok := s.X.(*ast.Ident); ok && s.Op == token.AND {
					bad[id.Name] = true
				}
			}
			return true
		})
		next := map[string]bool{}
		for k := range params {
			if !bad[k] {
				next[k] = true
			}
		}
		for k := range good {
			if !bad[k] {
				next[k] = true
			}
		}
		ids = next
	}
	return ids
}

// errValue18: an expression that is certainly a non-nil error (errors.Wrapf(err, ..) is nil when err is).
func errValue18(e ast.Expr) bool {
	c, ok := unparen18(e).(*ast.CallExpr)
	if !ok {
		return false
	}
	switch src18(c.Fun) {
	case "errors.Errorf", "errors.New", "fmt.Errorf":
		return true
	}
	return false
}

// errReturn18: the statement list ends by returning an error: a certainly non-nil one (strict), or any
// non-`nil` last result such as `err` inside `if err != nil` (!strict).
func errReturn18(list []ast.Stmt, strict bool) bool {
	if len(list) == 0 {
		return false
	}
	r, ok := list[len(list)-1].(*ast.ReturnStmt)
	if !ok || len(r.Results) == 0 {
		return false
	}
	last := r.Results[len(r.Results)-1]
	if strict {
		return errValue18(last)
	}
	id, isId := unparen18(last).(*ast.Ident)
	return !(isId && id.Name == "nil")
}

// stmtLists18 calls f on every statement list below n.
func stmtLists18(n ast.Node, f func([]ast.Stmt)) {
	ast.Inspect(n, func(n ast.Node) bool {
		switch b := n.(type) {
		case *ast.BlockStmt:
			f(b.List)
		case *ast.CaseClause:
			f(b.Body)
		case *ast.CommClause:
			f(b.Body)
		}
		return true
	})
}

func isNeNil18(e ast.Expr, name string) bool {
	b, ok := unparen18(e).(*ast.BinaryExpr)
	return ok && b.Op == token.NEQ && (src18(b.X) == name && src18(b.Y) == "nil" || src18(b.Y) == name && src18(b.X) == "nil")
}

// propagates18: the error result of the call c (made in fn) reaches fn's caller: `return h(..)`,
// `.., e := h(..)` directly followed by `if e != nil { return .., <non-nil> }`, or the same as an if-init.
// A callee without results propagates nothing, but then its own `return <error>` cannot compile either.
func propagates18(fn *ast.FuncDecl, c *ast.CallExpr) bool {
	ok := false
	lastLhs := func(a *ast.AssignStmt) string {
		if len(a.Rhs) == 1 && unparen18(a.Rhs[0]) == ast.Expr(c) && len(a.Lhs) > 0 {
			if id, isId := a.Lhs[len(a.Lhs)-1].(*ast.Ident); isId && id.Name != "_" {
				return id.Name
			}
		}
		return ""
	}
	stmtLists18(fn.Body, func(list []ast.Stmt) {
		for i, st := range list {
			switch s := st.(type) {
			case *ast.ReturnStmt:
				if len(s.Results) == 1 && unparen18(s.Results[0]) == ast.Expr(c) {
					ok = true
				}
			case *ast.AssignStmt:
				if e := lastLhs(s); e != "" && i+1 < len(list) {
					if is, isIf := list[i+1].(*ast.IfStmt); isIf && is.Init == nil && isNeNil18(is.Cond, e) && errReturn18(is.Body.List, false) {
						ok = true
					}
				}
			case *ast.IfStmt:
				if a, isA := s.Init.(*ast.AssignStmt); isA {
					if e := lastLhs(a); e != "" && isNeNil18(s.Cond, e) && errReturn18(s.Body.List, false) {
						ok = true
					}
				}
			}
		}
	})
	return ok
}

// schemeEqLits18: cond is `s == "a" || s == "b" || ...` with s the unmodified scheme; returns the literals.
func schemeEqLits18(cond ast.Expr, ids map[string]bool) []ast.Expr {
	b, ok := unparen18(cond).(*ast.BinaryExpr)
	if !ok {
		return nil
	}
	switch b.Op {
	case token.LOR:
		l, r := schemeEqLits18(b.X, ids), schemeEqLits18(b.Y, ids)
		if l == nil || r == nil {
			return nil
		}
		return append(l, r...)
	case token.EQL:
		if lit, ok := unparen18(b.Y).(*ast.BasicLit); ok && lit.Kind == token.STRING && isSchemeExpr18(b.X, ids) {
			return []ast.Expr{lit}
		}
		if lit, ok := unparen18(b.X).(*ast.BasicLit); ok && lit.Kind == token.STRING && isSchemeExpr18(b.Y, ids) {
			return []ast.Expr{lit}
		}
	}
	return nil
}

// chainAsSwitch18 normalises an if / else-if [/ else] chain of at least two branches, every condition of
// which compares the unmodified scheme with string literals, to the equivalent switch statement (the final
// else is the default clause).  Anything else (an init statement, another kind of condition) gives nil.
func chainAsSwitch18(is *ast.IfStmt, ids map[string]bool) *ast.SwitchStmt {
	sw := &ast.SwitchStmt{Switch: is.Pos(), Tag: ast.NewIdent("scheme"), Body: &ast.BlockStmt{}}
	for cur := is; ; {
		lits := schemeEqLits18(cur.Cond, ids)
		if cur.Init != nil || lits == nil {
			return nil
		}
		sw.Body.List = append(sw.Body.List, &ast.CaseClause{List: lits, Body: cur.Body.List})
		switch e := cur.Else.(type) {
		case *ast.IfStmt:
			cur = e
			continue
		case *ast.BlockStmt:
			sw.Body.List = append(sw.Body.List, &ast.CaseClause{Body: e.List})
		}
		break
	}
	if len(sw.Body.List) < 2 || len(sw.Body.List) == 2 && sw.Body.List[1].(*ast.CaseClause).List == nil {
		return nil
	}
	return sw
}

// one scheme switch executed on behalf of a function
type schemeSw18 struct {
	sw         *ast.SwitchStmt
	propagated bool // an error returned by the switch's default clause is returned by the outer function
}

func schemeSwitchesDeep(fn *ast.FuncDecl, funcs map[string]*ast.FuncDecl) []schemeSw18 {
	if fn == nil || fn.Body == nil {
		return nil
	}
	var out []schemeSw18
	var walk func(fn *ast.FuncDecl, params map[string]bool, depth int, propagated bool, stack []*ast.FuncDecl)
	walk = func(fn *ast.FuncDecl, params map[string]bool, depth int, propagated bool, stack []*ast.FuncDecl) {
		ids := schemeIdents18(fn, params)
		inChain := map[*ast.IfStmt]bool{}
		ast.Inspect(fn.Body, func(n ast.Node) bool {
			switch x := n.(type) {
			case *ast.SwitchStmt:
				if x.Tag != nil && isSchemeExpr18(x.Tag, ids) {
					out = append(out, schemeSw18{x, propagated})
				}
			case *ast.IfStmt:
				// the same dispatch written as if / else-if over `scheme == "lit" || ...`
				if !inChain[x] {
					for e, ok := x.Else.(*ast.IfStmt); ok; e, ok = e.Else.(*ast.IfStmt) {
						inChain[e] = true
					}
					if sw := chainAsSwitch18(x, ids); sw != nil {
						out = append(out, schemeSw18{sw, propagated})
					}
				}
			case *ast.CallExpr:
				h := callee18(fn, x, funcs)
				if h == nil || depth == 0 {
					return true
				}
				for _, s := range stack {
					if s == h {
						return true
					}
				}
				bound := map[string]bool{}
				pn := paramNames18(h)
				for i, a := range x.Args {
					if i < len(pn) && isSchemeExpr18(a, ids) {
						bound[pn[i]] = true
					}
				}
				walk(h, bound, depth-1, propagated && propagates18(fn, x), append(stack, h))
			}
			return true
		})
	}
	walk(fn, nil, 2, true, []*ast.FuncDecl{fn})
	return out
}

// nilGuardBeforeSchemeUse18: the first place where fn reads `<x>.Scheme` (to switch on it or to pass it to a
// helper) is preceded, at the top level of fn's body (hence on every path), by
// `if <x> == nil { ... return .., <error> }`.
func nilGuardBeforeSchemeUse18(fn *ast.FuncDecl) bool {
	var use *ast.SelectorExpr
	ast.Inspect(fn.Body, func(n ast.Node) bool {
		if sel, ok := n.(*ast.SelectorExpr); ok && use == nil && sel.Sel.Name == "Scheme" {
			if _, isId := sel.X.(*ast.Ident); isId {
				use = sel
			}
		}
		return use == nil
	})
	if use == nil {
		return false
	}
	x := use.X.(*ast.Ident).Name
	for _, st := range fn.Body.List {
		if st.End() > use.Pos() {
			break
		}
		is, ok := st.(*ast.IfStmt)
		if !ok || is.Init != nil {
			continue
		}
		c, ok := unparen18(is.Cond).(*ast.BinaryExpr)
		if !ok || c.Op != token.EQL {
			continue
		}
		l, r := src18(c.X), src18(c.Y)
		if (l == x && r == "nil" || l == "nil" && r == x) && errReturn18(is.Body.List, true) {
			return true
		}
	}
	return false
}

// nonStringGuard18: fn (or a same-package helper whose error fn hands on) takes the value of the key
// "address", asserts it to be a string in the comma-ok form, and returns a non-nil error when it is not:
// `if k, ok := v.(string); ok {..} else { return <error> }`, `if k, ok := v.(string); !ok { return <error> }`,
// or the assertion as a statement directly followed by such an `if ok`/`if !ok`.
func nonStringGuard18(fn *ast.FuncDecl, funcs map[string]*ast.FuncDecl, depth int) bool {
	if fn == nil || fn.Body == nil {
		return false
	}
	// identifiers holding <map>["address"]
	isAddrKey := func(e ast.Expr) bool {
		ix, ok := unparen18(e).(*ast.IndexExpr)
		if !ok {
			return false
		}
		lit, ok := ix.Index.(*ast.BasicLit)
		return ok && lit.Value == `"address"`
	}
	vals := map[string]bool{}
	ast.Inspect(fn.Body, func(n ast.Node) bool {
		if a, ok := n.(*ast.AssignStmt); ok && len(a.Rhs) == 1 && isAddrKey(a.Rhs[0]) {
			if id, ok := a.Lhs[0].(*ast.Ident); ok {
				vals[id.Name] = true
			}
		}
		return true
	})
	// `_, okName := v.(string)` on such a value
	assertOk := func(st ast.Stmt) string {
		a, ok := st.(*ast.AssignStmt)
		if !ok || len(a.Lhs) != 2 || len(a.Rhs) != 1 {
			return ""
		}
		ta, ok := unparen18(a.Rhs[0]).(*ast.TypeAssertExpr)
		if !ok || ta.Type == nil || src18(ta.Type) != "string" {
			return ""
		}
		if id, isId := unparen18(ta.X).(*ast.Ident); !(isId && vals[id.Name]) && !isAddrKey(ta.X) {
			return ""
		}
		if id, ok := a.Lhs[1].(*ast.Ident); ok && id.Name != "_" {
			return id.Name
		}
		return ""
	}
	// the if statement rejects !okName
	rejects := func(is *ast.IfStmt, okName string) bool {
		c := src18(is.Cond)
		if c == "!"+okName {
			return errReturn18(is.Body.List, true)
		}
		if c == okName {
			if e, ok := is.Else.(*ast.BlockStmt); ok {
				return errReturn18(e.List, true)
			}
		}
		return false
	}
	found := false
	ast.Inspect(fn.Body, func(n ast.Node) bool {
		if is, ok := n.(*ast.IfStmt); ok && is.Init != nil {
			if okName := assertOk(is.Init); okName != "" && rejects(is, okName) {
				found = true
			}
		}
		return true
	})
	stmtLists18(fn.Body, func(list []ast.Stmt) {
		for i, st := range list {
			if okName := assertOk(st); okName != "" && i+1 < len(list) {
				if is, ok := list[i+1].(*ast.IfStmt); ok && is.Init == nil && rejects(is, okName) {
					found = true
				}
			}
		}
	})
	if found || depth == 0 {
		return found
	}
	ast.Inspect(fn.Body, func(n ast.Node) bool {
		if c, ok := n.(*ast.CallExpr); ok && !found {
			if h := callee18(fn, c, funcs); h != nil && h != fn && propagates18(fn, c) && nonStringGuard18(h, funcs, depth-1) {
				found = true
			}
		}
		return true
	})
	return found
}

var ctorRe = regexp.MustCompile(`(?:=|return)\s*&?(?:[a-z0-9]+\.)?([A-Z][A-Za-z0-9]*)\s*[({]`)

// switchTable renders one scheme switch as [(case strings, what the body constructs)], and reports
// whether the default clause returns an error.
func switchTable(sw *ast.SwitchStmt, where string) (rows []string, defErr bool) {
	hasDefault := false
	for _, st := range sw.Body.List {
		cc := st.(*ast.CaseClause)
		body := ""
		for _, s := range cc.Body {
			body += src18(s) + " ; "
		}
		if cc.List == nil {
			hasDefault = true
			// the clause ends by returning a certainly non-nil error (not errors.Wrapf(err, ..), nil when err is)
			defErr = errReturn18(cc.Body, true)
			continue
		}
		var keys []string
		for _, e := range cc.List {
			lit, ok := e.(*ast.BasicLit)
			if !ok || lit.Kind != token.STRING {
				fail("%s: non-literal case %s", where, src18(e))
				continue
			}
			s, _ := strconv.Unquote(lit.Value)
			keys = append(keys, s)
		}
		target := ""
		if m := ctorRe.FindStringSubmatch(body); m != nil {
			target = m[1]
			if strings.Contains(body, "PlusEnd.ReplaceAllString(") {
				target += "/strip"
			}
		} else if strings.Contains(body, "return") && strings.Contains(body, "errors.Errorf") {
			target = "error"
		} else {
			// e.g. `a.Scheme = "udp"`
			if m := regexp.MustCompile(`= "([^"]*)"`).FindStringSubmatch(body); m != nil {
				target = m[1]
			} else if m := regexp.MustCompile(`return net\.([A-Za-z]+)\((PlusEnd)?`).FindStringSubmatch(body); m != nil {
				target = m[1]
				if m[2] != "" {
					target += "/strip"
				}
			} else {
				fail("%s: cannot tell what case %v constructs: %s", where, keys, body)
			}
		}
		rows = append(rows, "("+leanStrList(keys)+", "+leanStr(target)+")")
	}
	if !hasDefault {
		defErr = false
	}
	return
}

func emitTable(b *strings.Builder, name, doc string, ss schemeSw18, where string) {
	if ss.sw == nil {
		fail("%s: scheme switch not found", where)
		return
	}
	rows, defErr := switchTable(ss.sw, where)
	// a default error raised in a helper counts only if every call site on the way hands it on
	defErr = defErr && ss.propagated
	fmt.Fprintf(b, "/-- %s -/\ndef %s : List (List String × String) :=\n  [%s]\n", doc, name, strings.Join(rows, ",\n   "))
	fmt.Fprintf(b, "/-- the switch's default clause returns a configuration error -/\ndef %sDefaultIsError : Bool := %v\n\n", name, defErr)
}

func regexSource(f *ast.File, name, where string) string {
	for _, d := range f.Decls {
		g, ok := d.(*ast.GenDecl)
		if !ok {
			continue
		}
		for _, s := range g.Specs {
			vs, ok := s.(*ast.ValueSpec)
			if !ok {
				continue
			}
			for i, n := range vs.Names {
				if n.Name == name && i < len(vs.Values) {
					if call, ok := vs.Values[i].(*ast.CallExpr); ok && len(call.Args) == 1 {
						if lit, ok := call.Args[0].(*ast.BasicLit); ok {
							s, _ := strconv.Unquote(lit.Value)
							return s
						}
					}
				}
			}
		}
	}
	fail("regex %s not found in %s", name, where)
	return ""
}

// one branch of an if / else-if / else chain that decides about TLS
type tlsBranch struct {
	cond    string
	secure  string // "true" | "false" | "" (not assigned)
	actions []string
	calls   []string
}

var watchCalls = []string{"tls.Listen", "net.Listen", "tls.Dial", "net.Dial", "tls.Client", "tls.Server", "ServeTLS", "Serve"}

func normCond(e ast.Expr) string {
	s := src18(e)
	if m := regexp.MustCompile(`^strings\.HasSuffix\([A-Za-z.]+\.Scheme, "([^"]*)"\)$`).FindStringSubmatch(s); m != nil {
		return "HasSuffix:" + m[1]
	}
	if regexp.MustCompile(`^addr\.HasTls\.MatchString\([A-Za-z.]+\.Scheme\)$`).MatchString(s) {
		return "HasTls"
	}
	if regexp.MustCompile(`^[a-z]+\.secure$|^secure$`).MatchString(s) {
		return "secure"
	}
	// a.Scheme == "x" || a.Scheme == "y"
	parts := strings.Split(s, " || ")
	var vals []string
	for _, p := range parts {
		m := regexp.MustCompile(`^[A-Za-z.]+\.Scheme == "([^"]*)"$`).FindStringSubmatch(p)
		if m == nil {
			return "?" + s
		}
		vals = append(vals, m[1])
	}
	return "eq:" + strings.Join(vals, "|")
}

func summariseBody(body *ast.BlockStmt) (secure string, actions, calls []string) {
	for _, st := range body.List {
		s := src18(st)
		if m := regexp.MustCompile(`^(?:[a-z]+\.)?secure = (true|false)$`).FindStringSubmatch(s); m != nil {
			secure = m[1]
			continue
		}
		if m := regexp.MustCompile(`^[A-Za-z.]+\.Scheme = [A-Za-z.]+\.Scheme\[:len\([A-Za-z.]+\.Scheme\)-(\d+)\]$`).FindStringSubmatch(s); m != nil {
			actions = append(actions, "strip:"+m[1])
			continue
		}
		if m := regexp.MustCompile(`^[A-Za-z.]+\.Scheme = "([^"]*)"$`).FindStringSubmatch(s); m != nil {
			actions = append(actions, "set:"+m[1])
			continue
		}
		if regexp.MustCompile(`^[A-Za-z.]+\.Scheme = addr\.PlusEnd\.ReplaceAllString\([A-Za-z.]+\.Scheme, ""\)$`).MatchString(s) {
			actions = append(actions, "plusEnd")
			continue
		}
		if m := regexp.MustCompile(`^[A-Za-z.]+\.Scheme = [A-Za-z.]+\.Scheme \+ "([^"]*)"$`).FindStringSubmatch(s); m != nil {
			actions = append(actions, "append:"+m[1])
			continue
		}
		if m := regexp.MustCompile(`^if [A-Za-z.]+\.Scheme == "([^"]*)" \{ [A-Za-z.]+\.Scheme = "([^"]*)" \}$`).FindStringSubmatch(s); m != nil {
			actions = append(actions, "ifeq:"+m[1]+":"+m[2])
			continue
		}
	}
	ast.Inspect(body, func(n ast.Node) bool {
		if c, ok := n.(*ast.CallExpr); ok {
			name := src18(c.Fun)
			// the same dial with an explicit dialer / timeout is the same transport decision
			switch name {
			case "tls.DialWithDialer":
				name = "tls.Dial"
			case "net.DialTimeout":
				name = "net.Dial"
			}
			for _, w := range watchCalls {
				if name == w || strings.HasSuffix(name, "."+w) && (w == "ServeTLS" || w == "Serve") {
					calls = append(calls, w)
				}
			}
		}
		return true
	})
	return
}

// ifChain finds, in fn, the first if statement whose normalised condition equals first, and
// summarises the whole chain.  An absent final else is reported as a branch with cond "else" and no
// effect only if withImplicitElse.
func ifChain(fn *ast.FuncDecl, first string, where string) []tlsBranch {
	return ifChainX(fn, first, where, false)
}

// ifChainX with needCalls only accepts a chain whose first branch contains one of the watched calls.
func ifChainX(fn *ast.FuncDecl, first string, where string, needCalls bool) []tlsBranch {
	var found *ast.IfStmt
	if fn != nil && fn.Body != nil {
		ast.Inspect(fn.Body, func(n ast.Node) bool {
			if found != nil {
				return false
			}
			if is, ok := n.(*ast.IfStmt); ok && is.Init == nil && strings.HasPrefix(normCond(is.Cond), first) {
				if needCalls {
					if _, _, calls := summariseBody(is.Body); len(calls) == 0 {
						return true
					}
				}
				found = is
				return false
			}
			return true
		})
	}
	if found == nil {
		fail("%s: if-chain starting with %q not found", where, first)
		return nil
	}
	var out []tlsBranch
	cur := found
	for {
		sec, act, calls := summariseBody(cur.Body)
		out = append(out, tlsBranch{normCond(cur.Cond), sec, act, calls})
		switch e := cur.Else.(type) {
		case *ast.IfStmt:
			cur = e
			continue
		case *ast.BlockStmt:
			sec, act, calls := summariseBody(e)
			out = append(out, tlsBranch{"else", sec, act, calls})
		}
		break
	}
	return out
}

func emitChain(b *strings.Builder, name, doc string, ch []tlsBranch) {
	rows := make([]string, len(ch))
	for i, br := range ch {
		sec := "none"
		if br.secure != "" {
			sec = "some " + br.secure
		}
		rows[i] = fmt.Sprintf("{ cond := %s, secure := %s, actions := %s, calls := %s }", leanStr(br.cond), sec, leanStrList(br.actions), leanStrList(br.calls))
	}
	fmt.Fprintf(b, "/-- %s -/\ndef %s : List TlsBranch :=\n  [%s]\n\n", doc, name, strings.Join(rows, ",\n   "))
}

func extractC18(o *out) {
	b := o.w("C18.lean")
	b.WriteString("/-- one branch of an if / else-if / else chain that decides about TLS: normalised condition, the value\n    assigned to the secure flag (if any), the scheme rewrites in order, the listen/dial calls it contains -/\n")
	b.WriteString("structure TlsBranch where\n  cond : String\n  secure : Option Bool\n  actions : List String\n  calls : List String\n  deriving Repr, DecidableEq\n\n")

	// ---- scheme switches
	srv := parse("internal/server/server.go")
	srvFuncs := pkgFuncs18("internal/server/server.go")
	sw := schemeSwitchesDeep(findFunc(srv, "", "unmarshalServer"), srvFuncs)
	if len(sw) != 1 {
		fail("unmarshalServer: expected 1 scheme switch, found %d", len(sw))
	} else {
		emitTable(b, "serverSchemes", "internal/server/server.go unmarshalServer: scheme → constructor", sw[0], "unmarshalServer")
	}
	chn := parse("internal/server/channel.go")
	uc := findFunc(chn, "", "unmarshalChannel")
	sw = schemeSwitchesDeep(uc, srvFuncs)
	if len(sw) != 1 {
		fail("unmarshalChannel: expected 1 scheme switch, found %d", len(sw))
	} else {
		emitTable(b, "channelSchemes", "internal/server/channel.go unmarshalChannel: scheme → channel type", sw[0], "unmarshalChannel")
	}
	ups := parse("internal/client/upstream/upstream.go")
	upsFuncs := pkgFuncs18("internal/client/upstream/upstream.go")
	sw = schemeSwitchesDeep(findFunc(ups, "", "unmarshalUpstream"), upsFuncs)
	if len(sw) != 1 {
		fail("unmarshalUpstream: expected 1 scheme switch, found %d", len(sw))
	} else {
		emitTable(b, "upstreamSchemes", "internal/client/upstream/upstream.go unmarshalUpstream: scheme → upstream type", sw[0], "unmarshalUpstream")
	}
	lst := parse("internal/client/listener/listener.go")
	lf := findFunc(lst, "Listeners", "UnmarshalFlag")
	sw = schemeSwitchesDeep(lf, pkgFuncs18("internal/client/listener/listener.go"))
	if len(sw) != 2 {
		fail("Listeners.UnmarshalFlag: expected 2 scheme switches (JSON branch, ~ branch), found %d", len(sw))
	} else {
		emitTable(b, "listenerJsonSchemes", "internal/client/listener/listener.go Listeners.UnmarshalFlag, '}'-prefixed JSON branch (unreachable: never valid JSON)", sw[0], "Listeners.UnmarshalFlag/json")
		emitTable(b, "listenerSchemes", "internal/client/listener/listener.go Listeners.UnmarshalFlag, name~listen~forward branch: scheme → listener type", sw[1], "Listeners.UnmarshalFlag/~")
	}
	if lf != nil {
		body := src18(lf.Body)
		fmt.Fprintf(b, "/-- the listener spec is split on this separator; parts[0] is the channel name, parts[1] the listen URL, parts[2] (optional) the forward URL -/\n")
		m := regexp.MustCompile(`strings\.Split\(data, "([^"]*)"\)`).FindStringSubmatch(body)
		if m == nil {
			fail("Listeners.UnmarshalFlag: split separator not found")
			m = []string{"", ""}
		}
		fmt.Fprintf(b, "def listenerSeparator : String := %s\n", leanStr(m[1]))
		ci := regexp.MustCompile(`channel := parts\[(\d+)\]`).FindStringSubmatch(body)
		ai := regexp.MustCompile(`address, err := addr\.ParseAddress\(parts\[(\d+)\]\)`).FindStringSubmatch(body)
		fi := regexp.MustCompile(`if len\(parts\) >= (\d+) \{ if a, err := addr\.ParseAddress\(parts\[(\d+)\]\)`).FindStringSubmatch(body)
		if ci == nil || ai == nil || fi == nil {
			fail("Listeners.UnmarshalFlag: parts[] wiring not recognised")
		} else {
			fmt.Fprintf(b, "def listenerNameIdx : Nat := %s\ndef listenerAddrIdx : Nat := %s\ndef listenerForwardMinParts : Nat := %s\ndef listenerForwardIdx : Nat := %s\n", ci[1], ai[1], fi[1], fi[2])
		}
		fmt.Fprintf(b, "/-- the JSON branch is guarded by HasPrefix(data, %q): with \"}\" it can never hold valid JSON -/\n", "}")
		jm := regexp.MustCompile(`strings\.HasPrefix\(data, "([^"]*)"\) && strings\.HasSuffix\(data, "([^"]*)"\)`).FindStringSubmatch(body)
		if jm == nil {
			fail("Listeners.UnmarshalFlag: JSON branch guard not recognised")
			jm = []string{"", "", ""}
		}
		fmt.Fprintf(b, "def listenerJsonPrefix : String := %s\ndef listenerJsonSuffix : String := %s\n\n", leanStr(jm[1]), leanStr(jm[2]))
	}
	pa := parse("internal/util/addr/protoaddress.go")
	sw = schemeSwitchesDeep(findFunc(pa, "ProtoAddress", "Addr"), pkgFuncs18("internal/util/addr/protoaddress.go"))
	if len(sw) != 1 {
		fail("ProtoAddress.Addr: expected 1 scheme switch, found %d", len(sw))
	} else {
		emitTable(b, "addrSchemes", "internal/util/addr/protoaddress.go ProtoAddress.Addr: scheme → resolver (\"/strip\" = scheme passed through PlusEnd first); default = the address itself", sw[0], "ProtoAddress.Addr")
	}

	// ---- regex sources
	ut := parse("internal/util/addr/util.go")
	fmt.Fprintf(b, "/-- internal/util/addr/util.go -/\ndef plusEndSrc : String := %s\ndef hasTlsSrc : String := %s\n", leanStr(regexSource(ut, "PlusEnd", "addr/util.go")), leanStr(regexSource(ut, "HasTls", "addr/util.go")))
	fmt.Fprintf(b, "/-- internal/server/channel.go ChannelRegex -/\ndef channelRegexSrc : String := %s\n\n", leanStr(regexSource(chn, "ChannelRegex", "channel.go")))

	// ---- Channels.UnmarshalFlag wiring
	cf := findFunc(chn, "Channels", "UnmarshalFlag")
	if cf == nil {
		fail("Channels.UnmarshalFlag not found")
	} else {
		body := src18(cf.Body)
		via := strings.Contains(body, "unmarshalChannel(")
		nm := regexp.MustCompile(`(?:"name"|Name): parts\[(\d+)\]`).FindStringSubmatch(body)
		a1 := regexp.MustCompile(`"address": parts\[(\d+)\] \+ "://" \+ strings\.TrimPrefix\(parts\[(\d+)\], "//"\)`).FindStringSubmatch(body)
		a2 := regexp.MustCompile(`addr\.ParseAddress\(parts\[(\d+)\]\)`).FindStringSubmatch(body)
		all := strings.Contains(body, "FindAllStringSubmatch(endpoint, -1)[0]") || strings.Contains(body, "FindStringSubmatch(endpoint)")
		switch {
		case nm == nil || !all:
			fail("Channels.UnmarshalFlag: group wiring not recognised")
		case via && a1 != nil:
			fmt.Fprintf(b, "/-- Channels.UnmarshalFlag: regex group used as the name; the address is parts[scheme] ++ \"://\" ++ TrimPrefix(parts[host], \"//\"), sent through unmarshalChannel -/\n")
			fmt.Fprintf(b, "def channelFlagNameIdx : Nat := %s\ndef channelFlagViaTable : Bool := true\ndef channelFlagSchemeIdx : Nat := %s\ndef channelFlagHostIdx : Nat := %s\n\n", nm[1], a1[1], a1[2])
		case !via && a2 != nil:
			fmt.Fprintf(b, "/-- Channels.UnmarshalFlag: regex group used as the name; the address is ParseAddress(parts[scheme]) put into a NetworkChannel without consulting the scheme table -/\n")
			fmt.Fprintf(b, "def channelFlagNameIdx : Nat := %s\ndef channelFlagViaTable : Bool := false\ndef channelFlagSchemeIdx : Nat := %s\ndef channelFlagHostIdx : Nat := %s\n\n", nm[1], a2[1], a2[1])
		default:
			fail("Channels.UnmarshalFlag: address wiring not recognised")
		}
	}

	// ---- unmarshalChannel guards against a nil address
	if uc != nil {
		nilGuard := nilGuardBeforeSchemeUse18(uc)
		elseGuard := nonStringGuard18(uc, srvFuncs, 2)
		fmt.Fprintf(b, "/-- unmarshalChannel returns an error when no address was parsed, before `switch address.Scheme` dereferences it -/\ndef channelNilAddressGuard : Bool := %v\n", nilGuard)
		fmt.Fprintf(b, "/-- unmarshalChannel returns an error when `address` is present but not a string -/\ndef channelNonStringGuard : Bool := %v\n\n", elseGuard)
	}

	// ---- the +tls decision chains
	ss := parse("internal/server/socket_server.go")
	fn := findFunc(ss, "SocketServer", "Startup")
	emitChain(b, "socketStartupTls", "socket_server.go SocketServer.Startup: secure flag and scheme rewrite", ifChain(fn, "HasSuffix:", "SocketServer.Startup"))
	emitChain(b, "socketStartupListen", "socket_server.go SocketServer.Startup: which Listen is called", ifChainX(fn, "secure", "SocketServer.Startup/listen", true))
	ds := parse("internal/server/dns_server.go")
	fn = findFunc(ds, "DnsServer", "Startup")
	emitChain(b, "dnsStartupTls", "dns_server.go DnsServer.Startup: secure flag and scheme rewrite", ifChain(fn, "HasSuffix:", "DnsServer.Startup"))
	if s := schemeSwitchesDeep(fn, srvFuncs); len(s) == 1 {
		emitTable(b, "dnsStartupNets", "dns_server.go DnsServer.Startup: (rewritten) scheme → network of the DNS listener", s[0], "DnsServer.Startup")
	} else {
		fail("DnsServer.Startup: expected 1 scheme switch, found %d", len(s))
	}
	hs := parse("internal/server/http_server.go")
	fn = findFunc(hs, "HttpServer", "Startup")
	emitChain(b, "httpStartupTls", "http_server.go HttpServer.Startup: secure flag and scheme rewrite", ifChain(fn, "HasTls", "HttpServer.Startup"))
	emitChain(b, "httpStartupServe", "http_server.go HttpServer.Startup: ServeTLS or Serve", ifChainX(fn, "secure", "HttpServer.Startup/serve", true))
	io := parse("internal/server/stdio_server.go")
	fn = findFunc(io, "IoServer", "Startup")
	emitChain(b, "stdioStartupTls", "stdio_server.go IoServer.Startup: secure flag and scheme rewrite", ifChain(fn, "HasTls", "IoServer.Startup"))
	uh := parse("internal/client/upstream/http.go")
	emitChain(b, "httpConnectTls", "client/upstream/http.go Http.Connect: secure flag and scheme rewrite chain ending in ws/wss", ifChain(findFunc(uh, "Http", "Connect"), "HasTls", "Http.Connect"))
	us := parse("internal/client/upstream/socket.go")
	emitChain(b, "socketConnectTls", "client/upstream/socket.go Socket.Connect: secure flag and dialer", ifChain(findFunc(us, "Socket", "Connect"), "HasTls", "Socket.Connect"))
	ui := parse("internal/client/upstream/input_output.go")
	emitChain(b, "stdioConnectTls", "client/upstream/input_output.go InputOutput.Connect: secure flag and TLS client", ifChain(findFunc(ui, "InputOutput", "Connect"), "HasTls", "InputOutput.Connect"))
	ud := parse("internal/client/upstream/dns.go")
	if fn := findFunc(ud, "Dns", "Connect"); fn != nil {
		m := regexp.MustCompile(`if ups\.Address\.Scheme != "([^"]*)" \{ return errors\.Errorf`).FindStringSubmatch(src18(fn.Body))
		if m == nil {
			fail("Dns.Connect: scheme guard not recognised")
		} else {
			fmt.Fprintf(b, "/-- client/upstream/dns.go Dns.Connect refuses every scheme but this one -/\ndef dnsConnectScheme : String := %s\n", leanStr(m[1]))
		}
	}
}

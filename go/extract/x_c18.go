// C18 facts (mechanism A): every scheme switch of the configuration parsers, the regex sources, the
// --channel flag's group wiring, the nil-address guards of unmarshalChannel, and the "+tls" decision
// chain of every Startup / Connect, written to SA/Gen/C18.lean as Lean tables that SA.Model.Schemes
// interprets.  A changed case list, constructor, guard, regex or branch lands in a proof obligation.
package main

import (
	"bytes"
	"fmt"
	"go/ast"
	"go/printer"
	"go/token"
	"regexp"
	"strconv"
	"strings"
)

func init() { extractors = append(extractors, extractC18) }

func src18(n ast.Node) string {
	var b bytes.Buffer
	_ = printer.Fprint(&b, fset, n)
	return strings.Join(strings.Fields(b.String()), " ")
}

func leanStr(s string) string {
	var b strings.Builder
	b.WriteByte('"')
	for _, r := range s {
		switch r {
		case '"':
			b.WriteString("\\\"")
		case '\\':
			b.WriteString("\\\\")
		case '\n':
			b.WriteString("\\n")
		default:
			b.WriteRune(r)
		}
	}
	b.WriteByte('"')
	return b.String()
}

func leanStrList(xs []string) string {
	q := make([]string, len(xs))
	for i, x := range xs {
		q[i] = leanStr(x)
	}
	return "[" + strings.Join(q, ", ") + "]"
}

// schemeSwitches returns every `switch <x>.Scheme` statement of fn, in source order.
func schemeSwitches(fn *ast.FuncDecl) []*ast.SwitchStmt {
	var out []*ast.SwitchStmt
	if fn == nil || fn.Body == nil {
		return nil
	}
	ast.Inspect(fn.Body, func(n ast.Node) bool {
		if sw, ok := n.(*ast.SwitchStmt); ok && sw.Tag != nil {
			if sel, ok := sw.Tag.(*ast.SelectorExpr); ok && sel.Sel.Name == "Scheme" {
				out = append(out, sw)
			}
		}
		return true
	})
	return out
}

var ctorRe = regexp.MustCompile(`(?:=|return)\s*&?(?:[a-z0-9]+\.)?([A-Z][A-Za-z0-9]*)\s*[({]`)

// switchTable renders one scheme switch as [(case strings, what the body constructs)], and reports
// whether the default clause returns an error.
func switchTable(sw *ast.SwitchStmt, where string) (rows []string, defErr bool) {
	hasDefault := false
	for _, st := range sw.Body.List {
		cc := st.(*ast.CaseClause)
		body := ""
		for _, s := range cc.Body {
			body += src18(s) + " ; "
		}
		if cc.List == nil {
			hasDefault = true
			defErr = strings.Contains(body, "return") && strings.Contains(body, "errors.Errorf")
			continue
		}
		var keys []string
		for _, e := range cc.List {
			lit, ok := e.(*ast.BasicLit)
			if !ok || lit.Kind != token.STRING {
				fail("%s: non-literal case %s", where, src18(e))
				continue
			}
			s, _ := strconv.Unquote(lit.Value)
			keys = append(keys, s)
		}
		target := ""
		if m := ctorRe.FindStringSubmatch(body); m != nil {
			target = m[1]
			if strings.Contains(body, "PlusEnd.ReplaceAllString(") {
				target += "/strip"
			}
		} else if strings.Contains(body, "return") && strings.Contains(body, "errors.Errorf") {
			target = "error"
		} else {
			// e.g. `a.Scheme = "udp"`
			if m := regexp.MustCompile(`= "([^"]*)"`).FindStringSubmatch(body); m != nil {
				target = m[1]
			} else if m := regexp.MustCompile(`return net\.([A-Za-z]+)\((PlusEnd)?`).FindStringSubmatch(body); m != nil {
				target = m[1]
				if m[2] != "" {
					target += "/strip"
				}
			} else {
				fail("%s: cannot tell what case %v constructs: %s", where, keys, body)
			}
		}
		rows = append(rows, "("+leanStrList(keys)+", "+leanStr(target)+")")
	}
	if !hasDefault {
		defErr = false
	}
	return
}

func emitTable(b *strings.Builder, name, doc string, sw *ast.SwitchStmt, where string) {
	if sw == nil {
		fail("%s: scheme switch not found", where)
		return
	}
	rows, defErr := switchTable(sw, where)
	fmt.Fprintf(b, "/-- %s -/\ndef %s : List (List String × String) :=\n  [%s]\n", doc, name, strings.Join(rows, ",\n   "))
	fmt.Fprintf(b, "/-- the switch's default clause returns a configuration error -/\ndef %sDefaultIsError : Bool := %v\n\n", name, defErr)
}

func regexSource(f *ast.File, name, where string) string {
	for _, d := range f.Decls {
		g, ok := d.(*ast.GenDecl)
		if !ok {
			continue
		}
		for _, s := range g.Specs {
			vs, ok := s.(*ast.ValueSpec)
			if !ok {
				continue
			}
			for i, n := range vs.Names {
				if n.Name == name && i < len(vs.Values) {
					if call, ok := vs.Values[i].(*ast.CallExpr); ok && len(call.Args) == 1 {
						if lit, ok := call.Args[0].(*ast.BasicLit); ok {
							s, _ := strconv.Unquote(lit.Value)
							return s
						}
					}
				}
			}
		}
	}
	fail("regex %s not found in %s", name, where)
	return ""
}

// one branch of an if / else-if / else chain that decides about TLS
type tlsBranch struct {
	cond    string
	secure  string // "true" | "false" | "" (not assigned)
	actions []string
	calls   []string
}

var watchCalls = []string{"tls.Listen", "net.Listen", "tls.Dial", "net.Dial", "tls.Client", "tls.Server", "ServeTLS", "Serve"}

func normCond(e ast.Expr) string {
	s := src18(e)
	if m := regexp.MustCompile(`^strings\.HasSuffix\([A-Za-z.]+\.Scheme, "([^"]*)"\)$`).FindStringSubmatch(s); m != nil {
		return "HasSuffix:" + m[1]
	}
	if regexp.MustCompile(`^addr\.HasTls\.MatchString\([A-Za-z.]+\.Scheme\)$`).MatchString(s) {
		return "HasTls"
	}
	if regexp.MustCompile(`^[a-z]+\.secure$|^secure$`).MatchString(s) {
		return "secure"
	}
	// a.Scheme == "x" || a.Scheme == "y"
	parts := strings.Split(s, " || ")
	var vals []string
	for _, p := range parts {
		m := regexp.MustCompile(`^[A-Za-z.]+\.Scheme == "([^"]*)"$`).FindStringSubmatch(p)
		if m == nil {
			return "?" + s
		}
		vals = append(vals, m[1])
	}
	return "eq:" + strings.Join(vals, "|")
}

func summariseBody(body *ast.BlockStmt) (secure string, actions, calls []string) {
	for _, st := range body.List {
		s := src18(st)
		if m := regexp.MustCompile(`^(?:[a-z]+\.)?secure = (true|false)$`).FindStringSubmatch(s); m != nil {
			secure = m[1]
			continue
		}
		if m := regexp.MustCompile(`^[A-Za-z.]+\.Scheme = [A-Za-z.]+\.Scheme\[:len\([A-Za-z.]+\.Scheme\)-(\d+)\]$`).FindStringSubmatch(s); m != nil {
			actions = append(actions, "strip:"+m[1])
			continue
		}
		if m := regexp.MustCompile(`^[A-Za-z.]+\.Scheme = "([^"]*)"$`).FindStringSubmatch(s); m != nil {
			actions = append(actions, "set:"+m[1])
			continue
		}
		if regexp.MustCompile(`^[A-Za-z.]+\.Scheme = addr\.PlusEnd\.ReplaceAllString\([A-Za-z.]+\.Scheme, ""\)$`).MatchString(s) {
			actions = append(actions, "plusEnd")
			continue
		}
		if m := regexp.MustCompile(`^[A-Za-z.]+\.Scheme = [A-Za-z.]+\.Scheme \+ "([^"]*)"$`).FindStringSubmatch(s); m != nil {
			actions = append(actions, "append:"+m[1])
			continue
		}
		if m := regexp.MustCompile(`^if [A-Za-z.]+\.Scheme == "([^"]*)" \{ [A-Za-z.]+\.Scheme = "([^"]*)" \}$`).FindStringSubmatch(s); m != nil {
			actions = append(actions, "ifeq:"+m[1]+":"+m[2])
			continue
		}
	}
	ast.Inspect(body, func(n ast.Node) bool {
		if c, ok := n.(*ast.CallExpr); ok {
			name := src18(c.Fun)
			// the same dial with an explicit dialer / timeout is the same transport decision
			switch name {
			case "tls.DialWithDialer":
				name = "tls.Dial"
			case "net.DialTimeout":
				name = "net.Dial"
			}
			for _, w := range watchCalls {
				if name == w || strings.HasSuffix(name, "."+w) && (w == "ServeTLS" || w == "Serve") {
					calls = append(calls, w)
				}
			}
		}
		return true
	})
	return
}

// ifChain finds, in fn, the first if statement whose normalised condition equals first, and
// summarises the whole chain.  An absent final else is reported as a branch with cond "else" and no
// effect only if withImplicitElse.
func ifChain(fn *ast.FuncDecl, first string, where string) []tlsBranch {
	return ifChainX(fn, first, where, false)
}

// ifChainX with needCalls only accepts a chain whose first branch contains one of the watched calls.
func ifChainX(fn *ast.FuncDecl, first string, where string, needCalls bool) []tlsBranch {
	var found *ast.IfStmt
	if fn != nil && fn.Body != nil {
		ast.Inspect(fn.Body, func(n ast.Node) bool {
			if found != nil {
				return false
			}
			if is, ok := n.(*ast.IfStmt); ok && is.Init == nil && strings.HasPrefix(normCond(is.Cond), first) {
				if needCalls {
					if _, _, calls := summariseBody(is.Body); len(calls) == 0 {
						return true
					}
				}
				found = is
				return false
			}
			return true
		})
	}
	if found == nil {
		fail("%s: if-chain starting with %q not found", where, first)
		return nil
	}
	var out []tlsBranch
	cur := found
	for {
		sec, act, calls := summariseBody(cur.Body)
		out = append(out, tlsBranch{normCond(cur.Cond), sec, act, calls})
		switch e := cur.Else.(type) {
		case *ast.IfStmt:
			cur = e
			continue
		case *ast.BlockStmt:
			sec, act, calls := summariseBody(e)
			out = append(out, tlsBranch{"else", sec, act, calls})
		}
		break
	}
	return out
}

func emitChain(b *strings.Builder, name, doc string, ch []tlsBranch) {
	rows := make([]string, len(ch))
	for i, br := range ch {
		sec := "none"
		if br.secure != "" {
			sec = "some " + br.secure
		}
		rows[i] = fmt.Sprintf("{ cond := %s, secure := %s, actions := %s, calls := %s }", leanStr(br.cond), sec, leanStrList(br.actions), leanStrList(br.calls))
	}
	fmt.Fprintf(b, "/-- %s -/\ndef %s : List TlsBranch :=\n  [%s]\n\n", doc, name, strings.Join(rows, ",\n   "))
}

func extractC18(o *out) {
	b := o.w("C18.lean")
	b.WriteString("/-- one branch of an if / else-if / else chain that decides about TLS: normalised condition, the value\n    assigned to the secure flag (if any), the scheme rewrites in order, the listen/dial calls it contains -/\n")
	b.WriteString("structure TlsBranch where\n  cond : String\n  secure : Option Bool\n  actions : List String\n  calls : List String\n  deriving Repr, DecidableEq\n\n")

	// ---- scheme switches
	srv := parse("internal/server/server.go")
	sw := schemeSwitches(findFunc(srv, "", "unmarshalServer"))
	if len(sw) != 1 {
		fail("unmarshalServer: expected 1 scheme switch, found %d", len(sw))
	} else {
		emitTable(b, "serverSchemes", "internal/server/server.go unmarshalServer: scheme → constructor", sw[0], "unmarshalServer")
	}
	chn := parse("internal/server/channel.go")
	uc := findFunc(chn, "", "unmarshalChannel")
	sw = schemeSwitches(uc)
	if len(sw) != 1 {
		fail("unmarshalChannel: expected 1 scheme switch, found %d", len(sw))
	} else {
		emitTable(b, "channelSchemes", "internal/server/channel.go unmarshalChannel: scheme → channel type", sw[0], "unmarshalChannel")
	}
	ups := parse("internal/client/upstream/upstream.go")
	sw = schemeSwitches(findFunc(ups, "", "unmarshalUpstream"))
	if len(sw) != 1 {
		fail("unmarshalUpstream: expected 1 scheme switch, found %d", len(sw))
	} else {
		emitTable(b, "upstreamSchemes", "internal/client/upstream/upstream.go unmarshalUpstream: scheme → upstream type", sw[0], "unmarshalUpstream")
	}
	lst := parse("internal/client/listener/listener.go")
	lf := findFunc(lst, "Listeners", "UnmarshalFlag")
	sw = schemeSwitches(lf)
	if len(sw) != 2 {
		fail("Listeners.UnmarshalFlag: expected 2 scheme switches (JSON branch, ~ branch), found %d", len(sw))
	} else {
		emitTable(b, "listenerJsonSchemes", "internal/client/listener/listener.go Listeners.UnmarshalFlag, '}'-prefixed JSON branch (unreachable: never valid JSON)", sw[0], "Listeners.UnmarshalFlag/json")
		emitTable(b, "listenerSchemes", "internal/client/listener/listener.go Listeners.UnmarshalFlag, name~listen~forward branch: scheme → listener type", sw[1], "Listeners.UnmarshalFlag/~")
	}
	if lf != nil {
		body := src18(lf.Body)
		fmt.Fprintf(b, "/-- the listener spec is split on this separator; parts[0] is the channel name, parts[1] the listen URL, parts[2] (optional) the forward URL -/\n")
		m := regexp.MustCompile(`strings\.Split\(data, "([^"]*)"\)`).FindStringSubmatch(body)
		if m == nil {
			fail("Listeners.UnmarshalFlag: split separator not found")
			m = []string{"", ""}
		}
		fmt.Fprintf(b, "def listenerSeparator : String := %s\n", leanStr(m[1]))
		ci := regexp.MustCompile(`channel := parts\[(\d+)\]`).FindStringSubmatch(body)
		ai := regexp.MustCompile(`address, err := addr\.ParseAddress\(parts\[(\d+)\]\)`).FindStringSubmatch(body)
		fi := regexp.MustCompile(`if len\(parts\) >= (\d+) \{ if a, err := addr\.ParseAddress\(parts\[(\d+)\]\)`).FindStringSubmatch(body)
		if ci == nil || ai == nil || fi == nil {
			fail("Listeners.UnmarshalFlag: parts[] wiring not recognised")
		} else {
			fmt.Fprintf(b, "def listenerNameIdx : Nat := %s\ndef listenerAddrIdx : Nat := %s\ndef listenerForwardMinParts : Nat := %s\ndef listenerForwardIdx : Nat := %s\n", ci[1], ai[1], fi[1], fi[2])
		}
		fmt.Fprintf(b, "/-- the JSON branch is guarded by HasPrefix(data, %q): with \"}\" it can never hold valid JSON -/\n", "}")
		jm := regexp.MustCompile(`strings\.HasPrefix\(data, "([^"]*)"\) && strings\.HasSuffix\(data, "([^"]*)"\)`).FindStringSubmatch(body)
		if jm == nil {
			fail("Listeners.UnmarshalFlag: JSON branch guard not recognised")
			jm = []string{"", "", ""}
		}
		fmt.Fprintf(b, "def listenerJsonPrefix : String := %s\ndef listenerJsonSuffix : String := %s\n\n", leanStr(jm[1]), leanStr(jm[2]))
	}
	pa := parse("internal/util/addr/protoaddress.go")
	sw = schemeSwitches(findFunc(pa, "ProtoAddress", "Addr"))
	if len(sw) != 1 {
		fail("ProtoAddress.Addr: expected 1 scheme switch, found %d", len(sw))
	} else {
		emitTable(b, "addrSchemes", "internal/util/addr/protoaddress.go ProtoAddress.Addr: scheme → resolver (\"/strip\" = scheme passed through PlusEnd first); default = the address itself", sw[0], "ProtoAddress.Addr")
	}

	// ---- regex sources
	ut := parse("internal/util/addr/util.go")
	fmt.Fprintf(b, "/-- internal/util/addr/util.go -/\ndef plusEndSrc : String := %s\ndef hasTlsSrc : String := %s\n", leanStr(regexSource(ut, "PlusEnd", "addr/util.go")), leanStr(regexSource(ut, "HasTls", "addr/util.go")))
	fmt.Fprintf(b, "/-- internal/server/channel.go ChannelRegex -/\ndef channelRegexSrc : String := %s\n\n", leanStr(regexSource(chn, "ChannelRegex", "channel.go")))

	// ---- Channels.UnmarshalFlag wiring
	cf := findFunc(chn, "Channels", "UnmarshalFlag")
	if cf == nil {
		fail("Channels.UnmarshalFlag not found")
	} else {
		body := src18(cf.Body)
		via := strings.Contains(body, "unmarshalChannel(")
		nm := regexp.MustCompile(`(?:"name"|Name): parts\[(\d+)\]`).FindStringSubmatch(body)
		a1 := regexp.MustCompile(`"address": parts\[(\d+)\] \+ "://" \+ strings\.TrimPrefix\(parts\[(\d+)\], "//"\)`).FindStringSubmatch(body)
		a2 := regexp.MustCompile(`addr\.ParseAddress\(parts\[(\d+)\]\)`).FindStringSubmatch(body)
		all := strings.Contains(body, "FindAllStringSubmatch(endpoint, -1)[0]") || strings.Contains(body, "FindStringSubmatch(endpoint)")
		switch {
		case nm == nil || !all:
			fail("Channels.UnmarshalFlag: group wiring not recognised")
		case via && a1 != nil:
			fmt.Fprintf(b, "/-- Channels.UnmarshalFlag: regex group used as the name; the address is parts[scheme] ++ \"://\" ++ TrimPrefix(parts[host], \"//\"), sent through unmarshalChannel -/\n")
			fmt.Fprintf(b, "def channelFlagNameIdx : Nat := %s\ndef channelFlagViaTable : Bool := true\ndef channelFlagSchemeIdx : Nat := %s\ndef channelFlagHostIdx : Nat := %s\n\n", nm[1], a1[1], a1[2])
		case !via && a2 != nil:
			fmt.Fprintf(b, "/-- Channels.UnmarshalFlag: regex group used as the name; the address is ParseAddress(parts[scheme]) put into a NetworkChannel without consulting the scheme table -/\n")
			fmt.Fprintf(b, "def channelFlagNameIdx : Nat := %s\ndef channelFlagViaTable : Bool := false\ndef channelFlagSchemeIdx : Nat := %s\ndef channelFlagHostIdx : Nat := %s\n\n", nm[1], a2[1], a2[1])
		default:
			fail("Channels.UnmarshalFlag: address wiring not recognised")
		}
	}

	// ---- unmarshalChannel guards against a nil address
	if uc != nil {
		nilGuard, elseGuard := false, false
		var swPos token.Pos
		if s := schemeSwitches(uc); len(s) == 1 {
			swPos = s[0].Pos()
		}
		ast.Inspect(uc.Body, func(n ast.Node) bool {
			is, ok := n.(*ast.IfStmt)
			if !ok {
				return true
			}
			c := src18(is.Cond)
			if c == "address == nil" && is.Pos() < swPos && strings.Contains(src18(is.Body), "return nil, errors.") {
				nilGuard = true
			}
			if strings.HasPrefix(src18(is), "if k, ok := val.(string); ok") {
				if e, ok := is.Else.(*ast.BlockStmt); ok && strings.Contains(src18(e), "return nil, errors.") {
					elseGuard = true
				}
			}
			return true
		})
		fmt.Fprintf(b, "/-- unmarshalChannel returns an error when no address was parsed, before `switch address.Scheme` dereferences it -/\ndef channelNilAddressGuard : Bool := %v\n", nilGuard)
		fmt.Fprintf(b, "/-- unmarshalChannel returns an error when `address` is present but not a string -/\ndef channelNonStringGuard : Bool := %v\n\n", elseGuard)
	}

	// ---- the +tls decision chains
	ss := parse("internal/server/socket_server.go")
	fn := findFunc(ss, "SocketServer", "Startup")
	emitChain(b, "socketStartupTls", "socket_server.go SocketServer.Startup: secure flag and scheme rewrite", ifChain(fn, "HasSuffix:", "SocketServer.Startup"))
	emitChain(b, "socketStartupListen", "socket_server.go SocketServer.Startup: which Listen is called", ifChainX(fn, "secure", "SocketServer.Startup/listen", true))
	ds := parse("internal/server/dns_server.go")
	fn = findFunc(ds, "DnsServer", "Startup")
	emitChain(b, "dnsStartupTls", "dns_server.go DnsServer.Startup: secure flag and scheme rewrite", ifChain(fn, "HasSuffix:", "DnsServer.Startup"))
	if s := schemeSwitches(fn); len(s) == 1 {
		emitTable(b, "dnsStartupNets", "dns_server.go DnsServer.Startup: (rewritten) scheme → network of the DNS listener", s[0], "DnsServer.Startup")
	} else {
		fail("DnsServer.Startup: expected 1 scheme switch, found %d", len(s))
	}
	hs := parse("internal/server/http_server.go")
	fn = findFunc(hs, "HttpServer", "Startup")
	emitChain(b, "httpStartupTls", "http_server.go HttpServer.Startup: secure flag and scheme rewrite", ifChain(fn, "HasTls", "HttpServer.Startup"))
	emitChain(b, "httpStartupServe", "http_server.go HttpServer.Startup: ServeTLS or Serve", ifChainX(fn, "secure", "HttpServer.Startup/serve", true))
	io := parse("internal/server/stdio_server.go")
	fn = findFunc(io, "IoServer", "Startup")
	emitChain(b, "stdioStartupTls", "stdio_server.go IoServer.Startup: secure flag and scheme rewrite", ifChain(fn, "HasTls", "IoServer.Startup"))
	uh := parse("internal/client/upstream/http.go")
	emitChain(b, "httpConnectTls", "client/upstream/http.go Http.Connect: secure flag and scheme rewrite chain ending in ws/wss", ifChain(findFunc(uh, "Http", "Connect"), "HasTls", "Http.Connect"))
	us := parse("internal/client/upstream/socket.go")
	emitChain(b, "socketConnectTls", "client/upstream/socket.go Socket.Connect: secure flag and dialer", ifChain(findFunc(us, "Socket", "Connect"), "HasTls", "Socket.Connect"))
	ui := parse("internal/client/upstream/input_output.go")
	emitChain(b, "stdioConnectTls", "client/upstream/input_output.go InputOutput.Connect: secure flag and TLS client", ifChain(findFunc(ui, "InputOutput", "Connect"), "HasTls", "InputOutput.Connect"))
	ud := parse("internal/client/upstream/dns.go")
	if fn := findFunc(ud, "Dns", "Connect"); fn != nil {
		m := regexp.MustCompile(`if ups\.Address\.Scheme != "([^"]*)" \{ return errors\.Errorf`).FindStringSubmatch(src18(fn.Body))
		if m == nil {
			fail("Dns.Connect: scheme guard not recognised")
		} else {
			fmt.Fprintf(b, "/-- client/upstream/dns.go Dns.Connect refuses every scheme but this one -/\ndef dnsConnectScheme : String := %s\n", leanStr(m[1]))
		}
	}
}

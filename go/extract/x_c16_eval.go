package main

import (
	"fmt"
	"go/ast"
	"go/token"
	"regexp"
	"sort"
	"strings"
)

// C16 facts, upstream.go: a small path-sensitive evaluator for the methods of one receiver type.  A
// condition or a method body is RUN under a scenario (truth values for the atomic tests, e.g.
// `$.connection.Closed()` ↦ true), calls into other methods of the same receiver are inlined, and what
// comes out is the value of the condition / the sequence of effects (calls, assignments to fields,
// Lock/Unlock with deferred calls placed where they run).  The facts are stated over these, so they do
// not depend on how the code is spelled: a test moved into a helper (`!ul.usable()`), an inverted guard
// with an early return, a shared close-and-forget helper, `switch` instead of if/else.
//
// Names are normalised: the receiver is `$`, the parameters of the method first entered are `%1`, `%2`…
// An equality is keyed `<a>==<b>` with the operands sorted (`nil` last); `!=` is its negation.

type mEval struct {
	file    *ast.File
	recv    string          // receiver type
	atoms   map[string]bool // scenario
	effects []string
	unknown string
	depth   int
}

type mFrame struct {
	re       []*regexp.Regexp
	to       []string
	deferred []string
}

func (e *mEval) giveUp(what string) {
	if e.unknown == "" {
		e.unknown = what
	}
}

func newFrame(fd *ast.FuncDecl, numberParams bool) *mFrame {
	f := &mFrame{}
	add := func(name, to string) {
		if name == "" || name == "_" {
			return
		}
		f.re = append(f.re, regexp.MustCompile(`(^|[^A-Za-z0-9_.])`+regexp.QuoteMeta(name)+`($|[^A-Za-z0-9_])`))
		f.to = append(f.to, "${1}"+to+"${2}")
	}
	if fd.Recv != nil && len(fd.Recv.List) > 0 && len(fd.Recv.List[0].Names) > 0 {
		add(fd.Recv.List[0].Names[0].Name, "$$")
	}
	if numberParams && fd.Type.Params != nil {
		i := 0
		for _, p := range fd.Type.Params.List {
			for _, n := range p.Names {
				i++
				add(n.Name, fmt.Sprintf("%%%d", i))
			}
		}
	}
	return f
}

func (f *mFrame) norm(n ast.Node) string {
	if n == nil {
		return ""
	}
	s := src(n) // renamed before the white space goes, while the identifiers are still delimited
	for i, re := range f.re {
		// twice: adjacent occurrences share a delimiter
		s = re.ReplaceAllString(re.ReplaceAllString(s, f.to[i]), f.to[i])
	}
	return wsRe.ReplaceAllString(s, "")
}

// ownMethod: the call is `<receiver>.<m>()` without arguments, m a method of the same type declared in the file
func (e *mEval) ownMethod(f *mFrame, c *ast.CallExpr) *ast.FuncDecl {
	sel, ok := c.Fun.(*ast.SelectorExpr)
	if !ok || len(c.Args) != 0 || f.norm(sel.X) != "$" {
		return nil
	}
	fd := findFunc(e.file, e.recv, sel.Sel.Name)
	if fd == nil || fd.Body == nil {
		return nil
	}
	return fd
}

func (e *mEval) cond(f *mFrame, x ast.Expr) bool {
	if e.unknown != "" {
		return false
	}
	switch c := x.(type) {
	case *ast.ParenExpr:
		return e.cond(f, c.X)
	case *ast.Ident:
		if c.Name == "true" || c.Name == "false" {
			return c.Name == "true"
		}
	case *ast.UnaryExpr:
		if c.Op == token.NOT {
			return !e.cond(f, c.X)
		}
	case *ast.BinaryExpr:
		switch c.Op {
		case token.LOR:
			return e.cond(f, c.X) || e.cond(f, c.Y) // short circuit, as the code
		case token.LAND:
			return e.cond(f, c.X) && e.cond(f, c.Y)
		case token.EQL, token.NEQ:
			ops := []string{f.norm(c.X), f.norm(c.Y)}
			sort.Slice(ops, func(i, j int) bool {
				if (ops[i] == "nil") != (ops[j] == "nil") {
					return ops[j] == "nil"
				}
				return ops[i] < ops[j]
			})
			key := ops[0] + "==" + ops[1]
			v, known := e.atoms[key]
			if !known {
				e.giveUp("test " + key + " is not part of the scenario")
				return false
			}
			return v == (c.Op == token.EQL)
		}
	case *ast.CallExpr:
		if fd := e.ownMethod(f, c); fd != nil {
			v, _ := e.call(fd, false)
			return v
		}
		key := f.norm(c)
		if v, known := e.atoms[key]; known {
			return v
		}
		e.giveUp("test " + key + " is not part of the scenario")
		return false
	}
	e.giveUp("condition " + f.norm(x))
	return false
}

// call runs a method: its boolean result (when it returns one) and whether a return was reached
func (e *mEval) call(fd *ast.FuncDecl, top bool) (bool, bool) {
	if e.depth > 4 {
		e.giveUp("call depth at " + fd.Name.Name)
		return false, true
	}
	e.depth++
	f := newFrame(fd, top)
	v, done := e.block(f, fd.Body.List)
	for i := len(f.deferred) - 1; i >= 0; i-- {
		e.effects = append(e.effects, f.deferred[i])
	}
	e.depth--
	return v, done
}

func (e *mEval) callStmt(f *mFrame, c *ast.CallExpr) {
	if fd := e.ownMethod(f, c); fd != nil {
		e.call(fd, false)
		return
	}
	s := f.norm(c)
	if strings.HasPrefix(s, "log.") {
		return
	}
	e.effects = append(e.effects, s)
}

func (e *mEval) block(f *mFrame, list []ast.Stmt) (val bool, done bool) {
	for _, s := range list {
		if e.unknown != "" {
			return false, true
		}
		switch st := s.(type) {
		case *ast.ExprStmt:
			if c, ok := st.X.(*ast.CallExpr); ok {
				e.callStmt(f, c)
			} else {
				e.giveUp("expression statement " + f.norm(st.X))
			}
		case *ast.AssignStmt:
			for i, l := range st.Lhs {
				if ln := f.norm(l); strings.HasPrefix(ln, "$.") {
					r := "?"
					if len(st.Rhs) == len(st.Lhs) {
						r = f.norm(st.Rhs[i])
					} else if len(st.Rhs) == 1 {
						r = f.norm(st.Rhs[0])
					}
					e.effects = append(e.effects, ln+"="+r)
				}
			}
		case *ast.DeferStmt:
			f.deferred = append(f.deferred, f.norm(st.Call))
		case *ast.GoStmt:
			// `go func() { … }()`: the effects of the body, in their order
			if fl, ok := st.Call.Fun.(*ast.FuncLit); ok && len(st.Call.Args) == 0 {
				g := &mFrame{re: f.re, to: f.to}
				e.block(g, fl.Body.List)
				for i := len(g.deferred) - 1; i >= 0; i-- {
					e.effects = append(e.effects, g.deferred[i])
				}
			} else {
				e.callStmt(f, st.Call)
			}
		case *ast.BlockStmt:
			if v, d := e.block(f, st.List); d {
				return v, true
			}
		case *ast.IfStmt:
			if v, d := e.ifStmt(f, st); d {
				return v, true
			}
		case *ast.SwitchStmt:
			if st.Tag != nil || st.Init != nil {
				e.giveUp("switch with a tag")
				return false, true
			}
			var chosen, deflt *ast.CaseClause
			for _, cs := range st.Body.List {
				cc := cs.(*ast.CaseClause)
				if cc.List == nil {
					deflt = cc
					continue
				}
				for _, x := range cc.List {
					if chosen == nil && e.cond(f, x) {
						chosen = cc
					}
				}
			}
			if chosen == nil {
				chosen = deflt
			}
			if chosen != nil {
				if v, d := e.block(f, chosen.Body); d {
					return v, true
				}
			}
		case *ast.ReturnStmt:
			if len(st.Results) == 1 {
				return e.cond(f, st.Results[0]), true
			}
			return false, true
		case *ast.DeclStmt, *ast.EmptyStmt:
		default:
			e.giveUp(fmt.Sprintf("statement %T", s))
			return false, true
		}
	}
	return false, false
}

func (e *mEval) ifStmt(f *mFrame, st *ast.IfStmt) (bool, bool) {
	if st.Init != nil {
		if v, d := e.block(f, []ast.Stmt{st.Init}); d {
			return v, true
		}
	}
	if e.cond(f, st.Cond) {
		return e.block(f, st.Body.List)
	}
	switch el := st.Else.(type) {
	case *ast.BlockStmt:
		return e.block(f, el.List)
	case *ast.IfStmt:
		return e.ifStmt(f, el)
	}
	return false, false
}

func hasEffect(eff []string, want ...string) bool {
	for _, x := range eff {
		for _, w := range want {
			if x == w {
				return true
			}
		}
	}
	return false
}

// underLock: the first effect takes the mutex, the last one releases it, and it is not released in between
func underLock(eff []string) bool {
	if len(eff) < 2 || eff[0] != "$.mutex.Lock()" || eff[len(eff)-1] != "$.mutex.Unlock()" {
		return false
	}
	for _, x := range eff[1 : len(eff)-1] {
		if x == "$.mutex.Unlock()" || x == "$.mutex.Lock()" {
			return false
		}
	}
	return true
}

package main

// C12 fact: the shape of NetConnectionServerCommunicator.handleRequest (server_communicator.go), the function miekg/dns
// calls for every query.  onMessage returns (resp, err) and resp is nil for some errors; the handler is safe because
// every use of `resp` is dominated by a test of that err (an `if err != nil { …; return }` earlier on the path) or of
// resp itself.  The walk is path-sensitive over the structured statements of the function.

import (
	"fmt"
	"go/ast"
	"go/token"
	"strings"
)

func init() {
	extractors = append(extractors, extractC12Handler)
}

type c12Use struct {
	text    string
	guarded bool
}

type c12Guard struct {
	respOk   bool // on this path err (of onMessage) is known nil or resp known non-nil
	errFresh bool // `err` still holds what onMessage returned (possibly wrapped)
}

// the names the function gives to onMessage's two results (found from the assignment itself)
var c12Resp, c12Err = "resp", "err"

type c12HandlerWalk struct {
	uses           []c12Use
	assigned       bool
	beforeRegister bool
	errReturns     int // 0 = no `if err != nil` after the call, 1 = it ends in return, 2 = it falls through
}

func c12Terminates(b *ast.BlockStmt) bool {
	if b == nil || len(b.List) == 0 {
		return false
	}
	switch s := b.List[len(b.List)-1].(type) {
	case *ast.ReturnStmt:
		return true
	case *ast.ExprStmt:
		if c, ok := s.X.(*ast.CallExpr); ok {
			if id, ok := c.Fun.(*ast.Ident); ok && id.Name == "panic" {
				return true
			}
		}
	}
	return false
}

// c12RespUses: the occurrences of the identifier `resp` in n that read the pointer (comparisons with nil excluded)
func c12RespUses(n ast.Node) int {
	if n == nil {
		return 0
	}
	cnt := 0
	ast.Inspect(n, func(x ast.Node) bool {
		switch v := x.(type) {
		case *ast.BinaryExpr:
			if (v.Op == token.NEQ || v.Op == token.EQL) && (exprString(v.X) == c12Resp && exprString(v.Y) == "nil" || exprString(v.Y) == c12Resp && exprString(v.X) == "nil") {
				return false
			}
		case *ast.BlockStmt, *ast.FuncLit:
			return false // nested statements are walked with their own guard
		case *ast.Ident:
			if v.Name == c12Resp {
				cnt++
			}
		}
		return true
	})
	return cnt
}

func (w *c12HandlerWalk) note(n ast.Node, g c12Guard) {
	if n == nil {
		return
	}
	if k := c12RespUses(n); k > 0 {
		t := nodeText(n)
		if len(t) > 70 {
			t = t[:70] + "…"
		}
		for i := 0; i < k; i++ {
			w.uses = append(w.uses, c12Use{t, g.respOk})
		}
	}
}

// condFacts: what the condition tells about resp in the then-branch / in the else-branch
func c12CondFacts(c ast.Expr, g c12Guard) (thenOk, elseOk bool) {
	t := strings.ReplaceAll(nodeText(c), " ", "")
	switch {
	case t == c12Err+"!=nil" && g.errFresh:
		return false, true
	case t == c12Err+"==nil" && g.errFresh:
		return true, false
	case t == c12Resp+"!=nil", strings.HasPrefix(t, c12Resp+"!=nil&&"), strings.HasSuffix(t, "&&"+c12Resp+"!=nil"):
		return true, false
	case t == c12Resp+"==nil":
		return false, true
	}
	return false, false
}

func (w *c12HandlerWalk) block(list []ast.Stmt, g c12Guard) c12Guard {
	for _, st := range list {
		g = w.stmt(st, g)
	}
	return g
}

func (w *c12HandlerWalk) stmt(st ast.Stmt, g c12Guard) c12Guard {
	switch s := st.(type) {
	case *ast.AssignStmt:
		lhsResp, lhsErr := false, false
		for _, l := range s.Lhs {
			switch exprString(l) {
			case c12Resp:
				lhsResp = true
			case c12Err:
				lhsErr = true
			default:
				w.note(l, g) // resp.Rcode = …, resp.Answer = …
			}
		}
		for _, r := range s.Rhs {
			w.note(r, g)
		}
		if lhsResp {
			if len(s.Rhs) == 1 && strings.Contains(nodeText(s.Rhs[0]), "onMessage(") && lhsErr {
				w.assigned = true
				return c12Guard{respOk: false, errFresh: true}
			}
			return c12Guard{} // resp from somewhere else: nothing is known
		}
		if lhsErr {
			keeps := len(s.Rhs) == 1 && strings.Contains(strings.ReplaceAll(nodeText(s.Rhs[0]), " ", ""), "("+c12Err+")")
			g.errFresh = g.errFresh && keeps
		}
		return g
	case *ast.IfStmt:
		if s.Init != nil {
			g = w.stmt(s.Init, g)
		}
		w.note(s.Cond, g)
		thenOk, elseOk := c12CondFacts(s.Cond, g)
		isErrTest := strings.ReplaceAll(nodeText(s.Cond), " ", "") == c12Err+"!=nil" && g.errFresh
		gt := g
		gt.respOk = g.respOk || thenOk
		gAfterThen := w.block(s.Body.List, gt)
		thenEnds := c12Terminates(s.Body)
		if isErrTest && w.assigned && w.errReturns == 0 {
			if thenEnds {
				w.errReturns = 1
			} else {
				w.errReturns = 2
			}
		}
		ge := g
		ge.respOk = g.respOk || elseOk
		gAfterElse := ge
		elseEnds := false
		switch e := s.Else.(type) {
		case *ast.BlockStmt:
			gAfterElse = w.block(e.List, ge)
			elseEnds = c12Terminates(e)
		case *ast.IfStmt:
			gAfterElse = w.stmt(e, ge)
		}
		switch {
		case s.Else == nil && strings.HasSuffix(strings.ReplaceAll(nodeText(s.Cond), " ", ""), ".onMessage!=nil"):
			// `if n.onMessage != nil { resp, err = n.onMessage(…) }`: a message that arrives before RegisterAccept leaves
			// resp and err nil (outside the property: the listener registers before it is handed out); the path through
			// the call is the one that is followed
			w.beforeRegister = true
			return gAfterThen
		case thenEnds && elseEnds:
			return g
		case thenEnds:
			return gAfterElse
		case elseEnds:
			return gAfterThen
		}
		return c12Guard{respOk: gAfterThen.respOk && gAfterElse.respOk, errFresh: gAfterThen.errFresh && gAfterElse.errFresh}
	case *ast.BlockStmt:
		return w.block(s.List, g)
	case *ast.ExprStmt:
		w.note(s.X, g)
	case *ast.ReturnStmt:
		for _, r := range s.Results {
			w.note(r, g)
		}
	case *ast.DeclStmt:
		// var resp *dns.Msg
	case *ast.ForStmt:
		w.note(s.Cond, g)
		w.block(s.Body.List, g)
	case *ast.RangeStmt:
		w.note(s.X, g)
		w.block(s.Body.List, g)
	case *ast.SwitchStmt:
		w.note(s.Tag, g)
		for _, c := range s.Body.List {
			if cc, ok := c.(*ast.CaseClause); ok {
				for _, e := range cc.List {
					w.note(e, g)
				}
				w.block(cc.Body, g)
			}
		}
	case *ast.DeferStmt:
		w.note(s.Call, c12Guard{}) // runs on every path out of the function
	case *ast.GoStmt:
		w.note(s.Call, g)
	default:
		w.note(st, g)
	}
	return g
}

func extractC12Handler(o *out) {
	b := o.w("C12Handler.lean")
	const file = "internal/streams/dns/server_communicator.go"
	f := parse(file)
	fd := findFunc(f, "NetConnectionServerCommunicator", "handleRequest")
	w := &c12HandlerWalk{}
	if fd == nil || fd.Body == nil {
		fail("NetConnectionServerCommunicator.handleRequest not found in %s", file)
	} else {
		// what does the function call onMessage's results?
		ast.Inspect(fd.Body, func(x ast.Node) bool {
			if as, ok := x.(*ast.AssignStmt); ok && len(as.Lhs) == 2 && len(as.Rhs) == 1 && strings.Contains(nodeText(as.Rhs[0]), "onMessage(") {
				c12Resp, c12Err = exprString(as.Lhs[0]), exprString(as.Lhs[1])
			}
			return true
		})
		w.block(fd.Body.List, c12Guard{})
		if !w.assigned {
			fail("handleRequest no longer assigns `resp, err = n.onMessage(…)`")
		}
	}
	fmt.Fprintf(b, "/-- %s, handleRequest: every read of `resp` (the *dns.Msg onMessage returned, nil for some errors) after the\n    onMessage call, in source order, with: is it dominated by a test of onMessage's err (`if err != nil { …; return }`,\n    `if err == nil { … }`) or of `resp != nil`? -/\n", file)
	fmt.Fprintf(b, "def c12HandlerRespUses : List (String × Bool) := [")
	for i, u := range w.uses {
		if i > 0 {
			fmt.Fprintf(b, ", ")
		}
		fmt.Fprintf(b, "(%q, %v)", u.text, u.guarded)
	}
	fmt.Fprintf(b, "]\n")
	fmt.Fprintf(b, "/-- does the `if err != nil` block that follows the onMessage call leave the function (return)? -/\n")
	fmt.Fprintf(b, "def c12HandlerErrReturns : Bool := %v\n", w.errReturns == 1)
	// is the handler what is registered with miekg/dns?
	reg := false
	regOn := "" // what HandleFunc is called on: "dns" = the library's process-wide default table, otherwise a variable
	ownMux, assigned, beforeServe := false, false, false
	if nf := findFunc(f, "", "NewNetConnectionServerCommunicator"); nf != nil && nf.Body != nil {
		served := false
		ast.Inspect(nf.Body, func(x ast.Node) bool {
			switch c := x.(type) {
			case *ast.CallExpr:
				fn := exprString(c.Fun)
				if strings.HasSuffix(fn, ".HandleFunc") && len(c.Args) == 2 && exprString(c.Args[1]) == "c.handleRequest" {
					reg = true
					regOn = strings.TrimSuffix(fn, ".HandleFunc")
				}
				if strings.HasSuffix(fn, ".ListenAndServe") || strings.HasSuffix(fn, ".ActivateAndServe") {
					served = true
				}
			case *ast.AssignStmt:
				for i, l := range c.Lhs {
					if exprString(l) == "server.Handler" && i < len(c.Rhs) {
						assigned = true
						beforeServe = !served
						if regOn != "" && regOn != "dns" && exprString(c.Rhs[i]) == regOn {
							ownMux = true
						}
					}
					if i < len(c.Rhs) {
						if call, ok := c.Rhs[i].(*ast.CallExpr); ok && exprString(call.Fun) == "dns.NewServeMux" {
							_ = l
						}
					}
				}
			}
			return true
		})
	}
	fmt.Fprintf(b, "/-- NewNetConnectionServerCommunicator registers `c.handleRequest` as the handler of \".\" -/\n")
	fmt.Fprintf(b, "def c12HandlerRegistered : Bool := %v\n", reg)
	fmt.Fprintf(b, "/-- … on a handler table of the server's own (`server.Handler = <that table>`, assigned before the server starts\n    to serve), not on the DNS library's process-wide default table, which every DNS endpoint of the process shares -/\n")
	fmt.Fprintf(b, "def dnsHandlerOnOwnMux : Bool := %v\n", reg && regOn != "dns" && ownMux && assigned && beforeServe)
}

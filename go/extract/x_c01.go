package main

import (
	"fmt"
	"go/ast"
	"go/constant"
	"go/printer"
	"strings"
)

// src renders a node as source text with whitespace normalised to single spaces.
func src(n ast.Node) string {
	var sb strings.Builder
	_ = printer.Fprint(&sb, fset, n)
	return strings.Join(strings.Fields(sb.String()), " ")
}

func init() {
	extractors = append(extractors, func(o *out) {
		b := o.w("C01.lean")
		// --- WebsocketTunnelConnection.Read: does it reject a message longer than the caller's buffer?
		f := parse("internal/streams/websockettunnel_connection.go")
		rd := findFunc(f, "WebsocketTunnelConnection", "Read")
		rejects := false
		if rd == nil {
			fail("WebsocketTunnelConnection.Read not found")
		} else {
			ast.Inspect(rd.Body, func(n ast.Node) bool {
				ifs, ok := n.(*ast.IfStmt)
				if !ok {
					return true
				}
				if strings.Contains(src(ifs.Cond), "len(p)") {
					for _, st := range ifs.Body.List {
						if r, ok := st.(*ast.ReturnStmt); ok && len(r.Results) == 2 {
							if id, ok := r.Results[1].(*ast.Ident); !ok || id.Name != "nil" {
								rejects = true
							}
						}
					}
				}
				return true
			})
		}
		fmt.Fprintf(b, "/-- internal/streams/websockettunnel_connection.go Read: `true` iff no branch testing `len(p)` returns an error,\n    i.e. a message longer than the caller's buffer is not rejected (its tail is kept for the next Read) -/\ndef wsReadKeepsTail : Bool := %v\n\n", !rejects)

		// --- MuxStreamConnection: io.Copy prefers a source's WriteTo (and a destination's ReadFrom) over Read/Write, so a
		// method of that name on the wrapper takes the data path around its Read (the retry after a spurious EOF)
		{
			mf := parse("internal/streams/muxstream_connection.go")
			var fast []string
			hasRead := false
			if mf != nil {
				for _, d := range mf.Decls {
					fd, ok := d.(*ast.FuncDecl)
					if !ok || fd.Recv == nil || len(fd.Recv.List) != 1 || !strings.HasSuffix(src(fd.Recv.List[0].Type), "MuxStreamConnection") {
						continue
					}
					switch fd.Name.Name {
					case "WriteTo", "ReadFrom":
						fast = append(fast, fd.Name.Name)
					case "Read":
						hasRead = true
					}
				}
			}
			if !hasRead {
				fail("muxstream_connection.go: MuxStreamConnection.Read not found")
			}
			q := make([]string, len(fast))
			for i, x := range fast {
				q[i] = fmt.Sprintf("%q", x)
			}
			fmt.Fprintf(b, "/-- internal/streams/muxstream_connection.go: methods of MuxStreamConnection that io.Copy would use instead of its Read/Write -/\ndef muxStreamFastPaths : List String := [%s]\n\n", strings.Join(q, ", "))
		}

		// --- logWriter.Write (the tee of the debug-mode copy loop): must report the whole chunk as written, or
		// io.MultiWriter ends the copy with ErrShortWrite
		{
			pf := parse("internal/streams/pipes.go")
			lw := findFunc(pf, "logWriter", "Write")
			honest := lw != nil
			nret := 0
			if lw != nil {
				ast.Inspect(lw.Body, func(n ast.Node) bool {
					if r, ok := n.(*ast.ReturnStmt); ok {
						nret++
						if len(r.Results) != 2 || src(r.Results[0]) != "len(p)" || src(r.Results[1]) != "nil" {
							honest = false
						}
					}
					return true
				})
				// the parameter must still be the slice it was given when its length is taken
				ast.Inspect(lw.Body, func(n ast.Node) bool {
					if as, ok := n.(*ast.AssignStmt); ok {
						for _, l := range as.Lhs {
							if src(l) == "p" {
								honest = false
							}
						}
					}
					return true
				})
			}
			if nret == 0 {
				honest = false
			}
			fmt.Fprintf(b, "/-- internal/streams/pipes.go logWriter.Write: every return is `len(p), nil` and `p` is not reassigned -/\ndef logWriterReturnsLen : Bool := %v\n\n", honest)
		}

		// --- smux MaxFrameSize on both ends
		bufEnv := fileConsts(parse("internal/util/buffers/buffer.go"), nil)
		en := env{"buffers.BufferSize": bufEnv["BufferSize"]}
		for _, site := range []struct{ file, recv, fn, name string }{
			{"internal/server/communicator.go", "ConnectionHandler", "HandleConnection", "maxFrameSizeServer"},
			{"internal/client/upstream/upstream.go", "Upstreams", "creteSession", "maxFrameSizeClient"},
		} {
			fd := findFunc(parse(site.file), site.recv, site.fn)
			var v constant.Value
			if fd != nil {
				ast.Inspect(fd.Body, func(n ast.Node) bool {
					as, ok := n.(*ast.AssignStmt)
					if ok && len(as.Lhs) == 1 && strings.HasSuffix(src(as.Lhs[0]), ".MaxFrameSize") {
						v = evalExpr(as.Rhs[0], en)
					}
					return true
				})
			}
			if v == nil {
				fail("%s: MaxFrameSize assignment not found in %s", site.file, site.fn)
				continue
			}
			i, _ := constant.Int64Val(v)
			fmt.Fprintf(b, "/-- %s %s: smux config.MaxFrameSize -/\ndef %s : Nat := %d\n", site.file, site.fn, site.name, i)
		}
		// --- copy buffer used by pipeData
		pf := parse("internal/streams/pipes.go")
		pd := findFunc(pf, "", "pipeData")
		var cb constant.Value
		if pd != nil {
			ast.Inspect(pd.Body, func(n ast.Node) bool {
				c, ok := n.(*ast.CallExpr)
				if ok && src(c.Fun) == "make" && len(c.Args) == 2 && src(c.Args[0]) == "[]byte" {
					cb = evalExpr(c.Args[1], en)
				}
				return true
			})
		}
		if cb == nil {
			fail("pipes.go pipeData: copy buffer allocation not found")
		} else {
			i, _ := constant.Int64Val(cb)
			fmt.Fprintf(b, "/-- internal/streams/pipes.go pipeData: size of the io.CopyBuffer buffer -/\ndef copyBufferSize : Nat := %d\n", i)
		}
	})
}

package main

// C08 facts: alphabets (const strings), Code() and Ratio() return literals of every codec, the
// codec registry of enc.FromCode, the Base85 substitution pairs, MinAsciiCode and two decisive
// shapes (what Base85.Encode returns, how Base85.Decode sizes its buffer, whether Base128.Encode
// guards its trailing append).

import (
	"fmt"
	"go/ast"
	"go/constant"
	"go/token"
	"path/filepath"
	"strings"
)

type c08codec struct {
	lean, file, recv string
}

func init() {
	extractors = append(extractors, func(o *out) {
		b := o.w("C08.lean")
		dir := "internal/util/enc/"
		codecs := []c08codec{
			{"b32", "base32.go", "Base32Encoder"},
			{"b64", "base64.go", "Base64Encoder"},
			{"b64u", "base64u.go", "Base64uEncoder"},
			{"b85", "base85.go", "Base85Encoder"},
			{"b91", "base91.go", "Base91Encoder"},
			{"b128", "base128.go", "Base128Encoder"},
			{"b192", "base192.go", "Base192Encoder"},
			{"raw", "raw.go", "RawEncoder"},
		}
		files := map[string]*ast.File{}
		envs := map[string]env{}
		for _, c := range codecs {
			f := parse(dir + c.file)
			files[c.file] = f
			envs[c.file] = fileConsts(f, nil)
		}
		// alphabets
		for _, a := range []struct{ lean, file, name string }{
			{"cb32", "base32.go", "cb32"},
			{"cb32Ucase", "base32.go", "cb32Ucase"},
			{"cb64", "base64.go", "cb64"},
			{"cb64u", "base64u.go", "cb64u"},
			{"cb91", "base91.go", "cb91"},
			{"cb128", "base128.go", "cb128"},
		} {
			fmt.Fprintf(b, "/-- %s%s const %s -/\ndef %s : List Nat := %s\n", dir, a.file, a.name, a.lean,
				leanBytes(strConst(envs[a.file], a.name, a.file)))
		}
		fmt.Fprintf(b, "/-- %sbase192.go MinAsciiCode -/\ndef minAsciiCode : Nat := %d\n", dir,
			intConst(envs["base192.go"], "MinAsciiCode", "base192.go"))

		// Code() / Ratio()
		byRecv := map[string]c08codec{}
		for _, c := range codecs {
			byRecv[c.recv] = c
			code := methodReturn(files[c.file], c.recv, "Code", envs[c.file])
			var cv int64
			if code != nil {
				cv, _ = constant.Int64Val(constant.ToInt(code))
			}
			fmt.Fprintf(b, "/-- %s%s %s.Code() -/\ndef code_%s : Nat := %d\n", dir, c.file, c.recv, c.lean, cv)
			ratio := methodReturn(files[c.file], c.recv, "Ratio", envs[c.file])
			num, den := "0", "1"
			if ratio != nil {
				r := constant.ToFloat(ratio)
				if r.Kind() != constant.Float && r.Kind() != constant.Int {
					fail("%s.Ratio(): not a numeric constant", c.recv)
				} else {
					n, d := constant.Num(r), constant.Denom(r)
					if n.Kind() != constant.Int || d.Kind() != constant.Int {
						fail("%s.Ratio(): no exact rational value", c.recv)
					} else {
						num, den = n.ExactString(), d.ExactString()
					}
				}
			}
			fmt.Fprintf(b, "/-- %s%s %s.Ratio() as an exact rational num/den -/\ndef ratioNum_%s : Nat := %s\ndef ratioDen_%s : Nat := %s\n",
				dir, c.file, c.recv, c.lean, num, c.lean, den)
		}

		// registry: the slice literal ranged over in FromCode, resolved through the package-level
		// `XEncoding Encoder = &XEncoder{}` declarations
		ifile := parse(dir + "interface.go")
		varType := map[string]string{}
		for _, d := range ifile.Decls {
			g, ok := d.(*ast.GenDecl)
			if !ok || g.Tok != token.VAR {
				continue
			}
			for _, s := range g.Specs {
				vs := s.(*ast.ValueSpec)
				for i, n := range vs.Names {
					if i < len(vs.Values) {
						if u, ok := vs.Values[i].(*ast.UnaryExpr); ok && u.Op == token.AND {
							if cl, ok := u.X.(*ast.CompositeLit); ok {
								varType[n.Name] = exprString(cl.Type)
							}
						}
					}
				}
			}
		}
		var reg []string
		if fd := findFunc(ifile, "", "FromCode"); fd != nil {
			ast.Inspect(fd, func(n ast.Node) bool {
				if rs, ok := n.(*ast.RangeStmt); ok {
					if cl, ok := rs.X.(*ast.CompositeLit); ok {
						for _, e := range cl.Elts {
							t := varType[exprString(e)]
							c, ok := byRecv[t]
							if !ok {
								// a registry entry without a model: emit its name so that the Lean
								// registry refers to an undefined constructor => build error
								reg = append(reg, "unmodelled_"+exprString(e))
								continue
							}
							reg = append(reg, c.lean)
						}
					}
				}
				return true
			})
		} else {
			fail("FromCode not found in interface.go")
		}
		if len(reg) == 0 {
			fail("FromCode: registry slice literal not found")
		}
		fmt.Fprintf(b, "/-- %sinterface.go FromCode: the codecs selectable by one-letter code, in order (names of the models) -/\n", dir)
		fmt.Fprintf(b, "def registryNames : List String := [%s]\n", quoteJoin(reg))
		fmt.Fprintf(b, "/-- the same list as a macro-free token sequence; SA.Model.Codec turns every name into a constructor of `Codec` -/\n")
		fmt.Fprintf(b, "def registryCodes : List Nat := [%s]\n", strings.Join(mapStr(reg, func(s string) string { return "code_" + s }), ", "))
		toUpper := false
		if fd := findFunc(ifile, "", "FromCode"); fd != nil {
			ast.Inspect(fd, func(n ast.Node) bool {
				if se, ok := n.(*ast.SelectorExpr); ok && exprString(se) == "strings.ToUpper" {
					toUpper = true
				}
				return true
			})
		}
		fmt.Fprintf(b, "/-- FromCode upper-cases the requested letter first -/\ndef fromCodeUppercases : Bool := %v\n", toUpper)

		// Base85 substitution pairs of Encode and Decode: the byte map the element loop computes (see substMap)
		f85 := files["base85.go"]
		var pkgFiles []*ast.File
		if names, _ := filepath.Glob(filepath.Join(repo, dir, "*.go")); true {
			for _, n := range names {
				if strings.HasSuffix(n, "_test.go") {
					continue
				}
				if f, ok := files[filepath.Base(n)]; ok {
					pkgFiles = append(pkgFiles, f)
				} else {
					pkgFiles = append(pkgFiles, parse(dir+filepath.Base(n)))
				}
			}
		}
		fmt.Fprintf(b, "/-- base85.go Encode: (ascii85 character, replacement) for every character Encode replaces, ascending -/\ndef b85EncSubst : List (Nat × Nat) := %s\n",
			leanPairs(substMap(pkgFiles, findFunc(f85, "Base85Encoder", "Encode"), "Base85Encoder.Encode")))
		fmt.Fprintf(b, "/-- base85.go Decode: (replacement, ascii85 character) for every character Decode maps back, ascending -/\ndef b85DecSubst : List (Nat × Nat) := %s\n",
			leanPairs(substMap(pkgFiles, findFunc(f85, "Base85Encoder", "Decode"), "Base85Encoder.Decode")))

		// shapes
		encRet := "?"
		if fd := findFunc(f85, "Base85Encoder", "Encode"); fd != nil && fd.Body != nil {
			countAssigned := ""
			for _, st := range fd.Body.List {
				if as, ok := st.(*ast.AssignStmt); ok && len(as.Rhs) == 1 {
					if ce, ok := as.Rhs[0].(*ast.CallExpr); ok && exprString(ce.Fun) == "ascii85.Encode" && len(as.Lhs) == 1 {
						countAssigned = exprString(as.Lhs[0])
					}
				}
				if r, ok := st.(*ast.ReturnStmt); ok && len(r.Results) == 1 {
					switch x := r.Results[0].(type) {
					case *ast.Ident:
						encRet = "whole"
					case *ast.SliceExpr:
						if x.Low == nil && x.High != nil && countAssigned != "" && countAssigned != "_" && exprString(x.High) == countAssigned {
							encRet = "count"
						} else {
							encRet = "other"
						}
					default:
						encRet = "other"
					}
				}
			}
		}
		if encRet == "?" || encRet == "other" {
			fail("Base85Encoder.Encode: return shape %q not recognised (expected `return dst` or `return dst[:n]` with n from ascii85.Encode)", encRet)
		}
		fmt.Fprintf(b, "/-- base85.go Encode returns only the bytes ascii85.Encode reported (`dst[:n]`), not the whole MaxEncodedLen scratch buffer -/\ndef b85EncodeReturnsCount : Bool := %v\n", encRet == "count")

		// Decode: dst := make([]byte, <k>*len(source)) — the multiplier (1 when there is none)
		mult := int64(-1)
		if fd := findFunc(f85, "Base85Encoder", "Decode"); fd != nil {
			ast.Inspect(fd, func(n ast.Node) bool {
				as, ok := n.(*ast.AssignStmt)
				if !ok || len(as.Lhs) != 1 || exprString(as.Lhs[0]) != "dst" || len(as.Rhs) != 1 {
					return true
				}
				ce, ok := as.Rhs[0].(*ast.CallExpr)
				if !ok || exprString(ce.Fun) != "make" || len(ce.Args) < 2 {
					return true
				}
				mult = lenMultiplier(ce.Args[1], "source")
				return true
			})
		}
		if mult < 1 {
			fail("Base85Encoder.Decode: `dst := make([]byte, k*len(source))` not recognised")
			mult = 1
		}
		fmt.Fprintf(b, "/-- base85.go Decode: dst has b85DecodeBufFactor*len(source) bytes (ascii85.Decode stops silently when fewer than 4 are free) -/\ndef b85DecodeBufFactor : Nat := %d\n", mult)

		// Base128.Encode: is the final `dst = append(dst, bufByte)` (the one after the range loop) guarded by an if?
		guarded := "?"
		if fd := findFunc(files["base128.go"], "Base128Encoder", "Encode"); fd != nil && fd.Body != nil {
			seenLoop := false
			for _, st := range fd.Body.List {
				if _, ok := st.(*ast.RangeStmt); ok {
					seenLoop = true
					continue
				}
				if !seenLoop {
					continue
				}
				if isAppendBuf(st) {
					guarded = "no"
				}
				if is, ok := st.(*ast.IfStmt); ok && is.Else == nil && len(is.Body.List) == 1 && isAppendBuf(is.Body.List[0]) {
					cond := nodeString(is.Cond)
					if cond == "whichByte > 1" || cond == "whichByte != 1" || cond == "1 < whichByte" {
						guarded = "yes"
					} else {
						fail("Base128Encoder.Encode: tail guard %q not recognised", cond)
					}
				}
			}
		}
		if guarded == "?" {
			fail("Base128Encoder.Encode: trailing append of bufByte not found")
		}
		fmt.Fprintf(b, "/-- base128.go Encode appends the trailing partial digit only when bits are pending (`if whichByte > 1`) -/\ndef b128TailGuarded : Bool := %v\n", guarded == "yes")
	})
}

func isAppendBuf(st ast.Stmt) bool {
	as, ok := st.(*ast.AssignStmt)
	if !ok || len(as.Rhs) != 1 {
		return false
	}
	ce, ok := as.Rhs[0].(*ast.CallExpr)
	return ok && exprString(ce.Fun) == "append" && len(ce.Args) == 2 && exprString(ce.Args[1]) == "bufByte"
}

func nodeString(e ast.Expr) string {
	switch x := e.(type) {
	case *ast.BinaryExpr:
		return nodeString(x.X) + " " + x.Op.String() + " " + nodeString(x.Y)
	case *ast.BasicLit:
		return x.Value
	case *ast.ParenExpr:
		return nodeString(x.X)
	}
	return exprString(e)
}

// lenMultiplier recognises len(name) => 1, k*len(name) / len(name)*k => k
func lenMultiplier(e ast.Expr, name string) int64 {
	isLen := func(e ast.Expr) bool {
		ce, ok := e.(*ast.CallExpr)
		return ok && exprString(ce.Fun) == "len" && len(ce.Args) == 1 && exprString(ce.Args[0]) == name
	}
	if isLen(e) {
		return 1
	}
	if be, ok := e.(*ast.BinaryExpr); ok && be.Op == token.MUL {
		var lit ast.Expr
		if isLen(be.X) {
			lit = be.Y
		} else if isLen(be.Y) {
			lit = be.X
		}
		if lit != nil {
			if v := evalExpr(lit, env{}); v != nil {
				if i, ok := constant.Int64Val(constant.ToInt(v)); ok {
					return i
				}
			}
		}
	}
	return -1
}

// substMap establishes the byte substitution a codec method applies to every element of a buffer:
// the first loop of fd (or, when fd has none, of an unexported same-package function it calls, two
// levels deep) that stores into the element it visits is *evaluated* for each of the 256 byte
// values (c08interp below: if/else chains, switch, early returns, local variables, named constants,
// conversions, and calls into same-package helpers are all followed), and the result is the list of
// (c, f(c)) with f(c) != c in ascending order of c.  It does not matter whether the mapping is
// written as an if/else chain in the loop, a switch, or a helper function called from the loop.
func substMap(pkg []*ast.File, fd *ast.FuncDecl, where string) [][2]int64 {
	if fd == nil || fd.Body == nil {
		fail("%s not found", where)
		return nil
	}
	in := &c08interp{pkg: pkg, consts: env{}}
	for _, f := range pkg {
		fileConsts(f, in.consts)
	}
	// candidate bodies: fd itself, then the same-package functions it calls (breadth first, depth 2)
	bodies := []*ast.FuncDecl{fd}
	seen := map[*ast.FuncDecl]bool{fd: true}
	for lo, depth := 0, 0; depth < 2; depth++ {
		hi := len(bodies)
		for _, b := range bodies[lo:hi] {
			ast.Inspect(b.Body, func(n ast.Node) bool {
				if ce, ok := n.(*ast.CallExpr); ok {
					if h := in.helper(ce.Fun); h != nil && !seen[h] {
						seen[h] = true
						bodies = append(bodies, h)
					}
				}
				return true
			})
		}
		lo = hi
	}
	why := "no loop that stores into the element it visits"
	for _, b := range bodies {
		var loops []ast.Stmt
		ast.Inspect(b.Body, func(n ast.Node) bool {
			switch n.(type) {
			case *ast.RangeStmt, *ast.ForStmt:
				loops = append(loops, n.(ast.Stmt))
			}
			return true
		})
		for _, lp := range loops {
			lc := c08loopOf(lp)
			if lc == nil {
				continue
			}
			var pairs [][2]int64
			ok, stores := true, false
			for c := int64(0); c < 256 && ok; c++ {
				fr := &c08frame{vars: env{}, loop: lc, elem: constant.MakeInt64(c)}
				if lc.val != "" {
					fr.vars[lc.val] = fr.elem
				}
				in.err = ""
				in.block(lc.body.List, fr)
				if fr.brk || fr.ret != nil {
					in.bad("the loop is left before all elements are visited")
				}
				if in.err != "" {
					ok = false
					why = in.err
					break
				}
				stores = stores || fr.stored
				y, exact := constant.Int64Val(constant.ToInt(fr.elem))
				if !exact {
					ok = false
					why = "stored value is not an integer"
					break
				}
				if y &= 0xff; y != c {
					pairs = append(pairs, [2]int64{c, y})
				}
			}
			if ok && stores {
				if len(pairs) == 0 {
					fail("%s: the element loop stores every byte back unchanged", where)
				}
				return pairs
			}
		}
	}
	fail("%s: substitution chain not found (%s)", where, why)
	return nil
}

// computedBytes evaluates a byte slice a function builds as `name := make([]byte, N)` followed by a
// loop over name that stores name[k] for every position k (same evaluator as substMap; the stored
// value may depend on k and be computed in same-package helpers).  Used by x_c11pat.go for
// Base85Encoder.TestPatterns.
func computedBytes(pkg []*ast.File, fd *ast.FuncDecl, name string) ([]byte, string) {
	in := &c08interp{pkg: pkg, consts: env{}}
	for _, f := range pkg {
		fileConsts(f, in.consts)
	}
	n := int64(-1)
	var lc *c08loop
	ast.Inspect(fd.Body, func(nd ast.Node) bool {
		switch x := nd.(type) {
		case *ast.AssignStmt:
			if n < 0 && len(x.Lhs) == 1 && len(x.Rhs) == 1 && exprString(x.Lhs[0]) == name {
				if ce, ok := x.Rhs[0].(*ast.CallExpr); ok && exprString(ce.Fun) == "make" && len(ce.Args) == 2 {
					if v := in.expr(ce.Args[1], &c08frame{vars: env{}}); v != nil {
						if i, ok := constant.Int64Val(constant.ToInt(v)); ok && i >= 0 && i <= 1<<16 {
							n = i
						}
					}
				}
			}
		case *ast.RangeStmt:
			if l := c08loopOf(x); lc == nil && l != nil && l.arr == name {
				lc = l
			}
		case *ast.ForStmt:
			if l := c08loopOf(x); lc == nil && l != nil && n >= 0 {
				// for k := 0; k < len(name); k++ — accepted when init is 0, cond is k < len(name) or k < N, post is k++
				as := x.Init.(*ast.AssignStmt)
				be, okc := x.Cond.(*ast.BinaryExpr)
				inc, okp := x.Post.(*ast.IncDecStmt)
				fr := &c08frame{vars: env{}}
				z := in.expr(as.Rhs[0], fr)
				if okc && okp && inc.Tok == token.INC && exprString(inc.X) == l.key && be.Op == token.LSS && exprString(be.X) == l.key &&
					z != nil && constant.Compare(z, token.EQL, constant.MakeInt64(0)) {
					bound := in.expr(be.Y, fr)
					if ce, ok := be.Y.(*ast.CallExpr); ok && exprString(ce.Fun) == "len" && len(ce.Args) == 1 && exprString(ce.Args[0]) == name {
						bound = constant.MakeInt64(n)
					}
					if bound != nil && constant.Compare(bound, token.EQL, constant.MakeInt64(n)) {
						l.arr = name
						lc = l
					}
				}
			}
		}
		return true
	})
	if n < 0 || lc == nil {
		return nil, "no `" + name + " := make([]byte, N)` followed by a loop over all of " + name
	}
	buf := make([]byte, n)
	for k := int64(0); k < n; k++ {
		fr := &c08frame{vars: env{}, loop: lc, elem: constant.MakeInt64(0), keyVal: constant.MakeInt64(k)}
		if lc.val != "" {
			fr.vars[lc.val] = fr.elem
		}
		in.err = ""
		in.block(lc.body.List, fr)
		if fr.brk || fr.ret != nil {
			in.bad("the loop is left before all elements are visited")
		}
		if in.err != "" {
			return nil, in.err
		}
		y, ok := constant.Int64Val(constant.ToInt(fr.elem))
		if !ok {
			return nil, "stored value is not an integer"
		}
		buf[k] = byte(y)
	}
	return buf, ""
}

// c08loop: `for K, V := range A`, `for K := range A` or `for K := ...; ...; ... {}`; the element is A[K]
type c08loop struct {
	arr, key, val string // arr == "" for a 3-clause loop: any X[K] is the element
	body          *ast.BlockStmt
}

func c08loopOf(st ast.Stmt) *c08loop {
	switch x := st.(type) {
	case *ast.RangeStmt:
		k, ok := x.Key.(*ast.Ident)
		if !ok || k.Name == "_" {
			return nil
		}
		lc := &c08loop{arr: exprString(x.X), key: k.Name, body: x.Body}
		if v, ok := x.Value.(*ast.Ident); ok && v.Name != "_" {
			lc.val = v.Name
		}
		return lc
	case *ast.ForStmt:
		if as, ok := x.Init.(*ast.AssignStmt); ok && len(as.Lhs) == 1 {
			if k, ok := as.Lhs[0].(*ast.Ident); ok {
				return &c08loop{key: k.Name, body: x.Body}
			}
		}
	}
	return nil
}

type c08frame struct {
	vars   env
	loop   *c08loop       // nil inside a helper function
	elem   constant.Value // current value of the visited element
	keyVal constant.Value // the position, when the caller fixes it (computedBytes); nil = must not matter
	stored bool
	ret    constant.Value
	done   bool // a return / continue / break was executed
	brk    bool // ... and it was a break
}

type c08interp struct {
	pkg    []*ast.File
	consts env
	err    string
	depth  int
}

func (in *c08interp) bad(format string, a ...interface{}) {
	if in.err == "" {
		in.err = fmt.Sprintf(format, a...)
	}
}

// helper resolves a call target to a plain (receiver-less) function declared in the same package
func (in *c08interp) helper(fun ast.Expr) *ast.FuncDecl {
	id, ok := fun.(*ast.Ident)
	if !ok {
		return nil
	}
	for _, f := range in.pkg {
		if fd := findFunc(f, "", id.Name); fd != nil && fd.Body != nil {
			return fd
		}
	}
	return nil
}

func (fr *c08frame) isElem(e ast.Expr) bool {
	ix, ok := e.(*ast.IndexExpr)
	if !ok || fr.loop == nil || exprString(ix.Index) != fr.loop.key {
		return false
	}
	return fr.loop.arr == "" || exprString(ix.X) == fr.loop.arr
}

func (in *c08interp) block(list []ast.Stmt, fr *c08frame) {
	for _, st := range list {
		if fr.done || in.err != "" {
			return
		}
		in.stmt(st, fr)
	}
}

func (in *c08interp) stmt(st ast.Stmt, fr *c08frame) {
	switch x := st.(type) {
	case *ast.BlockStmt:
		in.block(x.List, fr)
	case *ast.EmptyStmt, *ast.ExprStmt, *ast.DeclStmt:
		// no effect on the element (a call for its side effect, e.g. logging, is not followed)
	case *ast.IfStmt:
		if x.Init != nil {
			in.stmt(x.Init, fr)
		}
		c := in.expr(x.Cond, fr)
		if c == nil || c.Kind() != constant.Bool {
			in.bad("condition %s is not decidable from the element value", nodeString(x.Cond))
			return
		}
		if constant.BoolVal(c) {
			in.block(x.Body.List, fr)
		} else if x.Else != nil {
			in.stmt(x.Else, fr)
		}
	case *ast.SwitchStmt:
		if x.Init != nil {
			in.stmt(x.Init, fr)
		}
		var tag constant.Value = constant.MakeBool(true)
		if x.Tag != nil {
			if tag = in.expr(x.Tag, fr); tag == nil {
				in.bad("switch tag %s is not decidable from the element value", nodeString(x.Tag))
				return
			}
		}
		var taken, deflt *ast.CaseClause
		for _, cs := range x.Body.List {
			cc := cs.(*ast.CaseClause)
			if cc.List == nil {
				deflt = cc
			}
			for _, e := range cc.List {
				v := in.expr(e, fr)
				if v == nil || (v.Kind() == constant.Bool) != (tag.Kind() == constant.Bool) {
					in.bad("case %s is not decidable from the element value", nodeString(e))
					return
				}
				if taken == nil && constant.Compare(tag, token.EQL, v) {
					taken = cc
				}
			}
		}
		if taken == nil {
			taken = deflt
		}
		if taken != nil {
			for _, s := range taken.Body {
				if b, ok := s.(*ast.BranchStmt); ok && b.Tok == token.FALLTHROUGH {
					in.bad("fallthrough is not followed")
					return
				}
			}
			in.block(taken.Body, fr)
			if fr.brk { // `break` inside a switch leaves the switch only
				fr.brk, fr.done = false, false
			}
		}
	case *ast.AssignStmt:
		if len(x.Lhs) != 1 || len(x.Rhs) != 1 {
			in.bad("multi-value assignment in the element loop")
			return
		}
		var v constant.Value
		rhs := in.expr(x.Rhs[0], fr)
		if x.Tok != token.ASSIGN && x.Tok != token.DEFINE {
			// op-assignment: A op= e
			ops := map[token.Token]token.Token{token.ADD_ASSIGN: token.ADD, token.SUB_ASSIGN: token.SUB, token.OR_ASSIGN: token.OR,
				token.AND_ASSIGN: token.AND, token.XOR_ASSIGN: token.XOR}
			op, ok := ops[x.Tok]
			cur := in.expr(x.Lhs[0], fr)
			if !ok || cur == nil || rhs == nil {
				in.bad("assignment %s not evaluable", x.Tok)
				return
			}
			v = constant.BinaryOp(constant.ToInt(cur), op, constant.ToInt(rhs))
		} else {
			v = rhs
		}
		if fr.isElem(x.Lhs[0]) {
			if v == nil {
				in.bad("value stored into the element is not computable from the element value")
				return
			}
			fr.elem, fr.stored = c08byte(v), true
			return
		}
		if id, ok := x.Lhs[0].(*ast.Ident); ok {
			if v == nil {
				delete(fr.vars, id.Name)
				fr.vars["\x00unknown:"+id.Name] = constant.MakeBool(true)
			} else {
				fr.vars[id.Name] = v
			}
			return
		}
		// a store somewhere else (another slice, a field): not the element
	case *ast.IncDecStmt:
		if id, ok := x.X.(*ast.Ident); ok {
			if cur, ok := fr.vars[id.Name]; ok {
				d := int64(1)
				if x.Tok == token.DEC {
					d = -1
				}
				fr.vars[id.Name] = constant.BinaryOp(cur, token.ADD, constant.MakeInt64(d))
			}
		}
	case *ast.ReturnStmt:
		if len(x.Results) == 1 {
			if fr.ret = in.expr(x.Results[0], fr); fr.ret == nil {
				in.bad("return value %s not computable", nodeString(x.Results[0]))
			}
		} else if fr.loop == nil {
			in.bad("helper does not return exactly one value")
		}
		fr.done = true
	case *ast.BranchStmt:
		if x.Tok == token.CONTINUE && x.Label == nil {
			fr.done = true
		} else if x.Tok == token.BREAK && x.Label == nil {
			fr.done, fr.brk = true, true // leaves the enclosing switch (cleared there) or the loop (rejected by the caller)
		} else {
			in.bad("%s in the element loop is not followed", x.Tok)
		}
	default:
		in.bad("statement %T in the element loop is not followed", st)
	}
}

func c08byte(v constant.Value) constant.Value {
	return constant.BinaryOp(constant.ToInt(v), token.AND, constant.MakeInt64(0xff))
}

var c08convs = map[string]int64{"byte": 0xff, "uint8": 0xff, "uint16": 0xffff, "uint32": 0xffffffff, "int": -1, "int32": -1, "int64": -1,
	"uint": -1, "uint64": -1, "rune": -1}

func (in *c08interp) expr(e ast.Expr, fr *c08frame) constant.Value {
	switch x := e.(type) {
	case *ast.BasicLit:
		return constant.MakeFromLiteral(x.Value, x.Kind, 0)
	case *ast.ParenExpr:
		return in.expr(x.X, fr)
	case *ast.Ident:
		if v, ok := fr.vars[x.Name]; ok {
			return v
		}
		if _, shadowed := fr.vars["\x00unknown:"+x.Name]; shadowed {
			return nil
		}
		switch x.Name {
		case "true":
			return constant.MakeBool(true)
		case "false":
			return constant.MakeBool(false)
		}
		if fr.loop != nil && x.Name == fr.loop.key {
			return fr.keyVal // the position: nil for substMap (the substitution must not depend on it)
		}
		if v, ok := in.consts[x.Name]; ok {
			return v
		}
	case *ast.IndexExpr:
		if fr.isElem(x) {
			return fr.elem
		}
		// indexing a string constant (a translation table written as a const string)
		if s := in.expr(x.X, fr); s != nil && s.Kind() == constant.String {
			if i := in.expr(x.Index, fr); i != nil {
				if k, ok := constant.Int64Val(constant.ToInt(i)); ok && k >= 0 && int(k) < len(constant.StringVal(s)) {
					return constant.MakeInt64(int64(constant.StringVal(s)[k]))
				}
			}
		}
	case *ast.UnaryExpr:
		v := in.expr(x.X, fr)
		if v == nil {
			return nil
		}
		if x.Op == token.NOT && v.Kind() == constant.Bool {
			return constant.MakeBool(!constant.BoolVal(v))
		}
		if (x.Op == token.SUB || x.Op == token.ADD || x.Op == token.XOR) && v.Kind() == constant.Int {
			return constant.UnaryOp(x.Op, v, 0)
		}
	case *ast.BinaryExpr:
		a := in.expr(x.X, fr)
		if a == nil {
			return nil
		}
		if x.Op == token.LAND || x.Op == token.LOR {
			if a.Kind() != constant.Bool {
				return nil
			}
			if constant.BoolVal(a) == (x.Op == token.LOR) {
				return a // short circuit
			}
			if b := in.expr(x.Y, fr); b != nil && b.Kind() == constant.Bool {
				return b
			}
			return nil
		}
		b := in.expr(x.Y, fr)
		if b == nil {
			return nil
		}
		switch x.Op {
		case token.EQL, token.NEQ, token.LSS, token.LEQ, token.GTR, token.GEQ:
			if a.Kind() == constant.Bool || b.Kind() == constant.Bool || a.Kind() == constant.String || b.Kind() == constant.String {
				if a.Kind() != b.Kind() || (a.Kind() == constant.Bool && x.Op != token.EQL && x.Op != token.NEQ) {
					return nil
				}
			}
			return constant.MakeBool(constant.Compare(a, x.Op, b))
		case token.SHL, token.SHR:
			if s, ok := constant.Uint64Val(constant.ToInt(b)); ok && s < 64 && a.Kind() == constant.Int {
				return constant.Shift(a, x.Op, uint(s))
			}
			return nil
		case token.ADD, token.SUB, token.MUL, token.AND, token.OR, token.XOR, token.AND_NOT:
			if a.Kind() == constant.Int && b.Kind() == constant.Int {
				return constant.BinaryOp(a, x.Op, b)
			}
		case token.QUO, token.REM:
			if a.Kind() == constant.Int && b.Kind() == constant.Int && constant.Sign(b) != 0 {
				op := x.Op
				if op == token.QUO {
					op = token.QUO_ASSIGN // integer division
				}
				return constant.BinaryOp(a, op, b)
			}
		}
	case *ast.CallExpr:
		if id, ok := x.Fun.(*ast.Ident); ok && len(x.Args) == 1 {
			if mask, ok := c08convs[id.Name]; ok && in.helper(x.Fun) == nil {
				v := in.expr(x.Args[0], fr)
				if v == nil || v.Kind() != constant.Int {
					return nil
				}
				if mask > 0 {
					return constant.BinaryOp(v, token.AND, constant.MakeInt64(mask))
				}
				return v
			}
		}
		h := in.helper(x.Fun)
		if h == nil || h.Type.Params == nil || in.depth >= 4 {
			return nil
		}
		var names []string
		for _, p := range h.Type.Params.List {
			for _, n := range p.Names {
				names = append(names, n.Name)
			}
		}
		if len(names) != len(x.Args) {
			return nil
		}
		callee := &c08frame{vars: env{}}
		for i, a := range x.Args {
			v := in.expr(a, fr)
			if v == nil {
				return nil
			}
			callee.vars[names[i]] = v
		}
		in.depth++
		in.block(h.Body.List, callee)
		in.depth--
		if in.err != "" || !callee.done {
			return nil
		}
		return callee.ret
	}
	return nil
}

func leanPairs(p [][2]int64) string {
	parts := make([]string, len(p))
	for i, x := range p {
		parts[i] = fmt.Sprintf("(%d, %d)", x[0], x[1])
	}
	return "[" + strings.Join(parts, ", ") + "]"
}

func quoteJoin(xs []string) string {
	return strings.Join(mapStr(xs, func(s string) string { return `"` + s + `"` }), ", ")
}

func mapStr(xs []string, f func(string) string) []string {
	out := make([]string, len(xs))
	for i, x := range xs {
		out[i] = f(x)
	}
	return out
}

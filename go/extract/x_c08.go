package main

// C08 facts: alphabets (const strings), Code() and Ratio() return literals of every codec, the
// codec registry of enc.FromCode, the Base85 substitution pairs, MinAsciiCode and two decisive
// shapes (what Base85.Encode returns, how Base85.Decode sizes its buffer, whether Base128.Encode
// guards its trailing append).

import (
	"fmt"
	"go/ast"
	"go/constant"
	"go/token"
	"strings"
)

type c08codec struct {
	lean, file, recv string
}

func init() {
	extractors = append(extractors, func(o *out) {
		b := o.w("C08.lean")
		dir := "internal/util/enc/"
		codecs := []c08codec{
			{"b32", "base32.go", "Base32Encoder"},
			{"b64", "base64.go", "Base64Encoder"},
			{"b64u", "base64u.go", "Base64uEncoder"},
			{"b85", "base85.go", "Base85Encoder"},
			{"b91", "base91.go", "Base91Encoder"},
			{"b128", "base128.go", "Base128Encoder"},
			{"b192", "base192.go", "Base192Encoder"},
			{"raw", "raw.go", "RawEncoder"},
		}
		files := map[string]*ast.File{}
		envs := map[string]env{}
		for _, c := range codecs {
			f := parse(dir + c.file)
			files[c.file] = f
			envs[c.file] = fileConsts(f, nil)
		}
		// alphabets
		for _, a := range []struct{ lean, file, name string }{
			{"cb32", "base32.go", "cb32"},
			{"cb32Ucase", "base32.go", "cb32Ucase"},
			{"cb64", "base64.go", "cb64"},
			{"cb64u", "base64u.go", "cb64u"},
			{"cb91", "base91.go", "cb91"},
			{"cb128", "base128.go", "cb128"},
		} {
			fmt.Fprintf(b, "/-- %s%s const %s -/\ndef %s : List Nat := %s\n", dir, a.file, a.name, a.lean,
				leanBytes(strConst(envs[a.file], a.name, a.file)))
		}
		fmt.Fprintf(b, "/-- %sbase192.go MinAsciiCode -/\ndef minAsciiCode : Nat := %d\n", dir,
			intConst(envs["base192.go"], "MinAsciiCode", "base192.go"))

		// Code() / Ratio()
		byRecv := map[string]c08codec{}
		for _, c := range codecs {
			byRecv[c.recv] = c
			code := methodReturn(files[c.file], c.recv, "Code", envs[c.file])
			var cv int64
			if code != nil {
				cv, _ = constant.Int64Val(constant.ToInt(code))
			}
			fmt.Fprintf(b, "/-- %s%s %s.Code() -/\ndef code_%s : Nat := %d\n", dir, c.file, c.recv, c.lean, cv)
			ratio := methodReturn(files[c.file], c.recv, "Ratio", envs[c.file])
			num, den := "0", "1"
			if ratio != nil {
				r := constant.ToFloat(ratio)
				if r.Kind() != constant.Float && r.Kind() != constant.Int {
					fail("%s.Ratio(): not a numeric constant", c.recv)
				} else {
					n, d := constant.Num(r), constant.Denom(r)
					if n.Kind() != constant.Int || d.Kind() != constant.Int {
						fail("%s.Ratio(): no exact rational value", c.recv)
					} else {
						num, den = n.ExactString(), d.ExactString()
					}
				}
			}
			fmt.Fprintf(b, "/-- %s%s %s.Ratio() as an exact rational num/den -/\ndef ratioNum_%s : Nat := %s\ndef ratioDen_%s : Nat := %s\n",
				dir, c.file, c.recv, c.lean, num, c.lean, den)
		}

		// registry: the slice literal ranged over in FromCode, resolved through the package-level
		// `XEncoding Encoder = &XEncoder{}` declarations
		ifile := parse(dir + "interface.go")
		varType := map[string]string{}
		for _, d := range ifile.Decls {
			g, ok := d.(*ast.GenDecl)
			if !ok || g.Tok != token.VAR {
				continue
			}
			for _, s := range g.Specs {
				vs := s.(*ast.ValueSpec)
				for i, n := range vs.Names {
					if i < len(vs.Values) {
						if u, ok := vs.Values[i].(*ast.UnaryExpr); ok && u.Op == token.AND {
							if cl, ok := u.X.(*ast.CompositeLit); ok {
								varType[n.Name] = exprString(cl.Type)
							}
						}
					}
				}
			}
		}
		var reg []string
		if fd := findFunc(ifile, "", "FromCode"); fd != nil {
			ast.Inspect(fd, func(n ast.Node) bool {
				if rs, ok := n.(*ast.RangeStmt); ok {
					if cl, ok := rs.X.(*ast.CompositeLit); ok {
						for _, e := range cl.Elts {
							t := varType[exprString(e)]
							c, ok := byRecv[t]
							if !ok {
								// a registry entry without a model: emit its name so that the Lean
								// registry refers to an undefined constructor => build error
								reg = append(reg, "unmodelled_"+exprString(e))
								continue
							}
							reg = append(reg, c.lean)
						}
					}
				}
				return true
			})
		} else {
			fail("FromCode not found in interface.go")
		}
		if len(reg) == 0 {
			fail("FromCode: registry slice literal not found")
		}
		fmt.Fprintf(b, "/-- %sinterface.go FromCode: the codecs selectable by one-letter code, in order (names of the models) -/\n", dir)
		fmt.Fprintf(b, "def registryNames : List String := [%s]\n", quoteJoin(reg))
		fmt.Fprintf(b, "/-- the same list as a macro-free token sequence; SA.Model.Codec turns every name into a constructor of `Codec` -/\n")
		fmt.Fprintf(b, "def registryCodes : List Nat := [%s]\n", strings.Join(mapStr(reg, func(s string) string { return "code_" + s }), ", "))
		toUpper := false
		if fd := findFunc(ifile, "", "FromCode"); fd != nil {
			ast.Inspect(fd, func(n ast.Node) bool {
				if se, ok := n.(*ast.SelectorExpr); ok && exprString(se) == "strings.ToUpper" {
					toUpper = true
				}
				return true
			})
		}
		fmt.Fprintf(b, "/-- FromCode upper-cases the requested letter first -/\ndef fromCodeUppercases : Bool := %v\n", toUpper)

		// Base85 substitution pairs, from Encode (`if b == X { dst[k] = Y }`) and Decode
		f85 := files["base85.go"]
		fmt.Fprintf(b, "/-- base85.go Encode: (ascii85 character, replacement) in source order -/\ndef b85EncSubst : List (Nat × Nat) := %s\n",
			leanPairs(substPairs(findFunc(f85, "Base85Encoder", "Encode"), "Base85Encoder.Encode")))
		fmt.Fprintf(b, "/-- base85.go Decode: (replacement, ascii85 character) in source order -/\ndef b85DecSubst : List (Nat × Nat) := %s\n",
			leanPairs(substPairs(findFunc(f85, "Base85Encoder", "Decode"), "Base85Encoder.Decode")))

		// shapes
		encRet := "?"
		if fd := findFunc(f85, "Base85Encoder", "Encode"); fd != nil && fd.Body != nil {
			countAssigned := ""
			for _, st := range fd.Body.List {
				if as, ok := st.(*ast.AssignStmt); ok && len(as.Rhs) == 1 {
					if ce, ok := as.Rhs[0].(*ast.CallExpr); ok && exprString(ce.Fun) == "ascii85.Encode" && len(as.Lhs) == 1 {
						countAssigned = exprString(as.Lhs[0])
					}
				}
				if r, ok := st.(*ast.ReturnStmt); ok && len(r.Results) == 1 {
					switch x := r.Results[0].(type) {
					case *ast.Ident:
						encRet = "whole"
					case *ast.SliceExpr:
						if x.Low == nil && x.High != nil && countAssigned != "" && countAssigned != "_" && exprString(x.High) == countAssigned {
							encRet = "count"
						} else {
							encRet = "other"
						}
					default:
						encRet = "other"
					}
				}
			}
		}
		if encRet == "?" || encRet == "other" {
			fail("Base85Encoder.Encode: return shape %q not recognised (expected `return dst` or `return dst[:n]` with n from ascii85.Encode)", encRet)
		}
		fmt.Fprintf(b, "/-- base85.go Encode returns only the bytes ascii85.Encode reported (`dst[:n]`), not the whole MaxEncodedLen scratch buffer -/\ndef b85EncodeReturnsCount : Bool := %v\n", encRet == "count")

		// Decode: dst := make([]byte, <k>*len(source)) — the multiplier (1 when there is none)
		mult := int64(-1)
		if fd := findFunc(f85, "Base85Encoder", "Decode"); fd != nil {
			ast.Inspect(fd, func(n ast.Node) bool {
				as, ok := n.(*ast.AssignStmt)
				if !ok || len(as.Lhs) != 1 || exprString(as.Lhs[0]) != "dst" || len(as.Rhs) != 1 {
					return true
				}
				ce, ok := as.Rhs[0].(*ast.CallExpr)
				if !ok || exprString(ce.Fun) != "make" || len(ce.Args) < 2 {
					return true
				}
				mult = lenMultiplier(ce.Args[1], "source")
				return true
			})
		}
		if mult < 1 {
			fail("Base85Encoder.Decode: `dst := make([]byte, k*len(source))` not recognised")
			mult = 1
		}
		fmt.Fprintf(b, "/-- base85.go Decode: dst has b85DecodeBufFactor*len(source) bytes (ascii85.Decode stops silently when fewer than 4 are free) -/\ndef b85DecodeBufFactor : Nat := %d\n", mult)

		// Base128.Encode: is the final `dst = append(dst, bufByte)` (the one after the range loop) guarded by an if?
		guarded := "?"
		if fd := findFunc(files["base128.go"], "Base128Encoder", "Encode"); fd != nil && fd.Body != nil {
			seenLoop := false
			for _, st := range fd.Body.List {
				if _, ok := st.(*ast.RangeStmt); ok {
					seenLoop = true
					continue
				}
				if !seenLoop {
					continue
				}
				if isAppendBuf(st) {
					guarded = "no"
				}
				if is, ok := st.(*ast.IfStmt); ok && is.Else == nil && len(is.Body.List) == 1 && isAppendBuf(is.Body.List[0]) {
					cond := nodeString(is.Cond)
					if cond == "whichByte > 1" || cond == "whichByte != 1" || cond == "1 < whichByte" {
						guarded = "yes"
					} else {
						fail("Base128Encoder.Encode: tail guard %q not recognised", cond)
					}
				}
			}
		}
		if guarded == "?" {
			fail("Base128Encoder.Encode: trailing append of bufByte not found")
		}
		fmt.Fprintf(b, "/-- base128.go Encode appends the trailing partial digit only when bits are pending (`if whichByte > 1`) -/\ndef b128TailGuarded : Bool := %v\n", guarded == "yes")
	})
}

func isAppendBuf(st ast.Stmt) bool {
	as, ok := st.(*ast.AssignStmt)
	if !ok || len(as.Rhs) != 1 {
		return false
	}
	ce, ok := as.Rhs[0].(*ast.CallExpr)
	return ok && exprString(ce.Fun) == "append" && len(ce.Args) == 2 && exprString(ce.Args[1]) == "bufByte"
}

func nodeString(e ast.Expr) string {
	switch x := e.(type) {
	case *ast.BinaryExpr:
		return nodeString(x.X) + " " + x.Op.String() + " " + nodeString(x.Y)
	case *ast.BasicLit:
		return x.Value
	case *ast.ParenExpr:
		return nodeString(x.X)
	}
	return exprString(e)
}

// lenMultiplier recognises len(name) => 1, k*len(name) / len(name)*k => k
func lenMultiplier(e ast.Expr, name string) int64 {
	isLen := func(e ast.Expr) bool {
		ce, ok := e.(*ast.CallExpr)
		return ok && exprString(ce.Fun) == "len" && len(ce.Args) == 1 && exprString(ce.Args[0]) == name
	}
	if isLen(e) {
		return 1
	}
	if be, ok := e.(*ast.BinaryExpr); ok && be.Op == token.MUL {
		var lit ast.Expr
		if isLen(be.X) {
			lit = be.Y
		} else if isLen(be.Y) {
			lit = be.X
		}
		if lit != nil {
			if v := evalExpr(lit, env{}); v != nil {
				if i, ok := constant.Int64Val(constant.ToInt(v)); ok {
					return i
				}
			}
		}
	}
	return -1
}

// substPairs collects `if b == 'X' { arr[k] = 'Y' }` chains of the first range loop of fd
func substPairs(fd *ast.FuncDecl, where string) [][2]int64 {
	var pairs [][2]int64
	if fd == nil {
		fail("%s not found", where)
		return nil
	}
	var walkIf func(is *ast.IfStmt)
	walkIf = func(is *ast.IfStmt) {
		be, ok := is.Cond.(*ast.BinaryExpr)
		if ok && be.Op == token.EQL && len(is.Body.List) == 1 {
			if as, ok := is.Body.List[0].(*ast.AssignStmt); ok && len(as.Rhs) == 1 {
				a, c := evalExpr(be.Y, env{}), evalExpr(as.Rhs[0], env{})
				if a != nil && c != nil {
					x, _ := constant.Int64Val(constant.ToInt(a))
					y, _ := constant.Int64Val(constant.ToInt(c))
					pairs = append(pairs, [2]int64{x, y})
				}
			}
		}
		if e, ok := is.Else.(*ast.IfStmt); ok {
			walkIf(e)
		}
	}
	done := false
	ast.Inspect(fd, func(n ast.Node) bool {
		if done {
			return false
		}
		if rs, ok := n.(*ast.RangeStmt); ok {
			for _, st := range rs.Body.List {
				if is, ok := st.(*ast.IfStmt); ok {
					walkIf(is)
				}
			}
			done = true
			return false
		}
		return true
	})
	if len(pairs) == 0 {
		fail("%s: substitution chain not found", where)
	}
	return pairs
}

func leanPairs(p [][2]int64) string {
	parts := make([]string, len(p))
	for i, x := range p {
		parts[i] = fmt.Sprintf("(%d, %d)", x[0], x[1])
	}
	return "[" + strings.Join(parts, ", ") + "]"
}

func quoteJoin(xs []string) string {
	return strings.Join(mapStr(xs, func(s string) string { return `"` + s + `"` }), ", ")
}

func mapStr(xs []string, f func(string) string) []string {
	out := make([]string, len(xs))
	for i, x := range xs {
		out[i] = f(x)
	}
	return out
}

package main

// C19 fact: the connective of the reader+writer pair's status query
//
//   func (sc *ReadWriteCloser) Closed() bool { return sc.ReadCloserClosed.Closed() <op> sc.WriteCloserClosed.Closed() }
//
// c19PairClosedAnd = true for `&&` (closed when both halves are), false for `||`.

import (
	"fmt"
	"go/ast"
	"go/token"
)

func c19Half(e ast.Expr) string {
	for {
		p, ok := e.(*ast.ParenExpr)
		if !ok {
			break
		}
		e = p.X
	}
	c, ok := e.(*ast.CallExpr)
	if !ok || len(c.Args) != 0 {
		return "?"
	}
	return exprString(c.Fun)
}

func init() {
	extractors = append(extractors, func(o *out) {
		b := o.w("C19.lean")
		fd := findFunc(parse("internal/streams/readerwriter_stream.go"), "ReadWriteCloser", "Closed")
		and := true
		ok := false
		if fd != nil && fd.Body != nil && len(fd.Body.List) == 1 && fd.Recv != nil && len(fd.Recv.List) == 1 && len(fd.Recv.List[0].Names) == 1 {
			rn := fd.Recv.List[0].Names[0].Name
			if rs, isRet := fd.Body.List[0].(*ast.ReturnStmt); isRet && len(rs.Results) == 1 {
				e := rs.Results[0]
				for {
					p, isP := e.(*ast.ParenExpr)
					if !isP {
						break
					}
					e = p.X
				}
				if be, isBin := e.(*ast.BinaryExpr); isBin && (be.Op == token.LAND || be.Op == token.LOR) {
					x, y := c19Half(be.X), c19Half(be.Y)
					r, w := rn+".ReadCloserClosed.Closed", rn+".WriteCloserClosed.Closed"
					if (x == r && y == w) || (x == w && y == r) {
						ok = true
						and = be.Op == token.LAND
					}
				}
			}
		}
		if !ok {
			fail("readerwriter_stream.go ReadWriteCloser.Closed: not `return <recv>.ReadCloserClosed.Closed() &&/|| <recv>.WriteCloserClosed.Closed()`")
		}
		fmt.Fprintf(b, "/-- internal/streams/readerwriter_stream.go ReadWriteCloser.Closed(): the two halves' status is combined with `&&` (true) or `||` (false) -/\ndef c19PairClosedAnd : Bool := %v\n", and)
		// the delegating wrappers (Named*, SimulatedConnection, StreamWrappedConnection) have no Close / Closed of their
		// own: both come from the Safe* value they embed
		var own []string
		for _, f := range goFiles("internal/streams") {
			af := parse(f)
			if af == nil {
				continue
			}
			for _, d := range af.Decls {
				fd, ok := d.(*ast.FuncDecl)
				if !ok || fd.Recv == nil || len(fd.Recv.List) != 1 || (fd.Name.Name != "Close" && fd.Name.Name != "Closed") {
					continue
				}
				t := typeName(fd.Recv.List[0].Type)
				switch t {
				case "NamedConnection", "NamedStream", "NamedReader", "NamedWriter", "SimulatedConnection", "StreamWrappedConnection", "MuxStreamConnection":
					own = append(own, t+"."+fd.Name.Name)
				}
			}
		}
		fmt.Fprintf(b, "\n/-- Close / Closed methods declared on the delegating wrapper types themselves (they are expected to come from the embedded Safe* value only) -/\ndef c19DelegOwnMethods : List String := %s\n", leanStrList14(own))
	})
}

package main

// C19 fact: the connective of the reader+writer pair's status query
//
//   func (sc *ReadWriteCloser) Closed() bool { return sc.ReadCloserClosed.Closed() <op> sc.WriteCloserClosed.Closed() }
//
// c19PairClosedAnd = true for `&&` (closed when both halves are), false for `||`.
//
// The fact is semantic, not syntactic: the body of Closed() is *interpreted* as a boolean function of the two
// atoms R = <recv>.ReadCloserClosed.Closed() and W = <recv>.WriteCloserClosed.Closed() (all four assignments), and
// the resulting truth table must be the one of R && W (-> true) or of R || W (-> false).  The interpreter accepts
// return / if-else / early return / tagless or boolean switch / local boolean variables / named results / !, &&,
// ||, ==, != / and calls into functions and methods of the same package (inlined, up to depth 4), so
// `if !r.Closed() { return false }; return w.Closed()`, `return bothClosed(sc.ReadCloserClosed, sc.WriteCloserClosed)`
// and the one-line `&&` give the same value.  Anything else it meets (another call, a loop, a field write, a
// status query on something that is not one of the two halves) makes extraction fail, and so does any other truth
// table (e.g. "only the reader counts").

import (
	"fmt"
	"go/ast"
	"go/token"
	"strings"
)

// c19Val is a value of the little interpreter: a boolean or a reference to an object ("$recv",
// "$recv.ReadCloserClosed", ...)
type c19Val struct {
	isBool bool
	b      bool
	ref    string
}

type c19Interp struct {
	r, w  bool                     // the current assignment of the two atoms
	funcs map[string]*ast.FuncDecl // "name" / "Recv.name" of package internal/streams
	err   string
}

const c19Recv = "$recv"

func (in *c19Interp) bad(format string, a ...interface{}) c19Val {
	if in.err == "" {
		in.err = fmt.Sprintf(format, a...)
	}
	return c19Val{}
}

type c19Env map[string]c19Val

func (in *c19Interp) eval(e ast.Expr, en c19Env, depth int) c19Val {
	if in.err != "" {
		return c19Val{}
	}
	switch x := e.(type) {
	case *ast.ParenExpr:
		return in.eval(x.X, en, depth)
	case *ast.Ident:
		switch x.Name {
		case "true":
			return c19Val{isBool: true, b: true}
		case "false":
			return c19Val{isBool: true, b: false}
		}
		if v, ok := en[x.Name]; ok {
			return v
		}
		return in.bad("unknown identifier %s", x.Name)
	case *ast.SelectorExpr:
		v := in.eval(x.X, en, depth)
		if in.err != "" {
			return v
		}
		if v.isBool {
			return in.bad("selector on a boolean: %s", exprString(x))
		}
		return c19Val{ref: v.ref + "." + x.Sel.Name}
	case *ast.UnaryExpr:
		if x.Op != token.NOT {
			return in.bad("operator %s", x.Op)
		}
		v := in.eval(x.X, en, depth)
		if in.err == "" && !v.isBool {
			return in.bad("! on a non-boolean: %s", exprString(x))
		}
		v.b = !v.b
		return v
	case *ast.BinaryExpr:
		a := in.eval(x.X, en, depth)
		if in.err != "" {
			return a
		}
		if !a.isBool {
			return in.bad("%s on a non-boolean: %s", x.Op, exprString(x))
		}
		switch x.Op {
		case token.LAND:
			if !a.b {
				return a
			}
		case token.LOR:
			if a.b {
				return a
			}
		case token.EQL, token.NEQ:
		default:
			return in.bad("operator %s", x.Op)
		}
		b := in.eval(x.Y, en, depth)
		if in.err != "" {
			return b
		}
		if !b.isBool {
			return in.bad("%s on a non-boolean: %s", x.Op, exprString(x))
		}
		switch x.Op {
		case token.EQL:
			b.b = a.b == b.b
		case token.NEQ:
			b.b = a.b != b.b
		}
		return b
	case *ast.CallExpr:
		return in.call(x, en, depth)
	}
	return in.bad("expression %s", exprString(e))
}

func (in *c19Interp) call(c *ast.CallExpr, en c19Env, depth int) c19Val {
	if depth >= 4 {
		return in.bad("calls nested too deeply at %s", exprString(c))
	}
	var fd *ast.FuncDecl
	callee := c19Env{}
	switch f := c.Fun.(type) {
	case *ast.Ident:
		if _, local := en[f.Name]; local {
			return in.bad("call of a local value %s", f.Name)
		}
		fd = in.funcs[f.Name]
	case *ast.SelectorExpr:
		x := in.eval(f.X, en, depth)
		if in.err != "" {
			return x
		}
		if x.isBool {
			return in.bad("method call on a boolean: %s", exprString(c))
		}
		if f.Sel.Name == "Closed" && len(c.Args) == 0 {
			switch x.ref {
			case c19Recv + ".ReadCloserClosed":
				return c19Val{isBool: true, b: in.r}
			case c19Recv + ".WriteCloserClosed":
				return c19Val{isBool: true, b: in.w}
			}
			return in.bad("status query on something other than the two halves: %s", exprString(c))
		}
		if x.ref != c19Recv {
			return in.bad("call %s", exprString(c))
		}
		fd = in.funcs["ReadWriteCloser."+f.Sel.Name]
		if fd != nil && len(fd.Recv.List) == 1 && len(fd.Recv.List[0].Names) == 1 {
			callee[fd.Recv.List[0].Names[0].Name] = x
		}
	}
	if fd == nil || fd.Body == nil {
		return in.bad("call %s (not a function of this package)", exprString(c))
	}
	var params []string
	for _, p := range fd.Type.Params.List {
		if _, variadic := p.Type.(*ast.Ellipsis); variadic || len(p.Names) == 0 {
			return in.bad("call %s (unnamed or variadic parameter)", exprString(c))
		}
		for _, n := range p.Names {
			params = append(params, n.Name)
		}
	}
	if len(params) != len(c.Args) {
		return in.bad("call %s (argument count)", exprString(c))
	}
	for i, a := range c.Args {
		v := in.eval(a, en, depth)
		if in.err != "" {
			return v
		}
		callee[params[i]] = v
	}
	return in.runFunc(fd, callee, depth+1)
}

// runFunc interprets a function with a single boolean result under the given bindings of receiver and parameters
func (in *c19Interp) runFunc(fd *ast.FuncDecl, en c19Env, depth int) c19Val {
	res := fd.Type.Results
	if res == nil || len(res.List) != 1 || len(res.List[0].Names) > 1 || exprString(res.List[0].Type) != "bool" {
		return in.bad("%s: not a function with a single bool result", fd.Name.Name)
	}
	named := ""
	if len(res.List[0].Names) == 1 {
		named = res.List[0].Names[0].Name
		en[named] = c19Val{isBool: true}
	}
	v, returned := in.exec(fd.Body.List, en, named, depth)
	if in.err != "" {
		return c19Val{}
	}
	if !returned {
		return in.bad("%s: falls off the end", fd.Name.Name)
	}
	if !v.isBool {
		return in.bad("%s: returns a non-boolean", fd.Name.Name)
	}
	return v
}

func (in *c19Interp) assign(lhs []ast.Expr, rhs []ast.Expr, en c19Env, depth int) {
	if len(lhs) != len(rhs) {
		in.bad("assignment with %d left and %d right sides", len(lhs), len(rhs))
		return
	}
	vals := make([]c19Val, len(rhs))
	for i, r := range rhs {
		vals[i] = in.eval(r, en, depth)
		if in.err != "" {
			return
		}
	}
	for i, l := range lhs {
		id, ok := l.(*ast.Ident)
		if !ok {
			in.bad("assignment to %s", exprString(l))
			return
		}
		if id.Name != "_" {
			en[id.Name] = vals[i]
		}
	}
}

// exec runs a statement list; returned tells that a return statement was reached (with its value).  Scoping is
// flattened (one environment per function), which is exact for the shadow-free code this is meant for.
func (in *c19Interp) exec(stmts []ast.Stmt, en c19Env, named string, depth int) (c19Val, bool) {
	for _, st := range stmts {
		if in.err != "" {
			return c19Val{}, false
		}
		switch s := st.(type) {
		case *ast.EmptyStmt:
		case *ast.ReturnStmt:
			if len(s.Results) == 0 && named != "" {
				return en[named], true
			}
			if len(s.Results) != 1 {
				return in.bad("return with %d results", len(s.Results)), false
			}
			return in.eval(s.Results[0], en, depth), true
		case *ast.BlockStmt:
			if v, r := in.exec(s.List, en, named, depth); r || in.err != "" {
				return v, r
			}
		case *ast.AssignStmt:
			if s.Tok != token.DEFINE && s.Tok != token.ASSIGN {
				return in.bad("assignment operator %s", s.Tok), false
			}
			in.assign(s.Lhs, s.Rhs, en, depth)
		case *ast.DeclStmt:
			gd, ok := s.Decl.(*ast.GenDecl)
			if !ok || gd.Tok != token.VAR {
				return in.bad("declaration"), false
			}
			for _, sp := range gd.Specs {
				vs := sp.(*ast.ValueSpec)
				if len(vs.Values) == 0 {
					if vs.Type == nil || exprString(vs.Type) != "bool" {
						return in.bad("variable of a type other than bool without a value"), false
					}
					for _, n := range vs.Names {
						en[n.Name] = c19Val{isBool: true}
					}
					continue
				}
				lhs := make([]ast.Expr, len(vs.Names))
				for i, n := range vs.Names {
					lhs[i] = n
				}
				in.assign(lhs, vs.Values, en, depth)
			}
		case *ast.IfStmt:
			if s.Init != nil {
				if v, r := in.exec([]ast.Stmt{s.Init}, en, named, depth); r || in.err != "" {
					return v, r
				}
			}
			c := in.eval(s.Cond, en, depth)
			if in.err != "" {
				return c, false
			}
			if !c.isBool {
				return in.bad("non-boolean condition %s", exprString(s.Cond)), false
			}
			if c.b {
				if v, r := in.exec(s.Body.List, en, named, depth); r || in.err != "" {
					return v, r
				}
			} else if s.Else != nil {
				if v, r := in.exec([]ast.Stmt{s.Else}, en, named, depth); r || in.err != "" {
					return v, r
				}
			}
		case *ast.SwitchStmt:
			if s.Init != nil {
				if v, r := in.exec([]ast.Stmt{s.Init}, en, named, depth); r || in.err != "" {
					return v, r
				}
			}
			tag := c19Val{isBool: true, b: true}
			if s.Tag != nil {
				tag = in.eval(s.Tag, en, depth)
				if in.err == "" && !tag.isBool {
					return in.bad("switch on a non-boolean"), false
				}
			}
			var chosen, dflt *ast.CaseClause
		clauses:
			for _, cs := range s.Body.List {
				cc := cs.(*ast.CaseClause)
				if cc.List == nil {
					dflt = cc
					continue
				}
				for _, ce := range cc.List {
					v := in.eval(ce, en, depth)
					if in.err != "" {
						return v, false
					}
					if !v.isBool {
						return in.bad("non-boolean case %s", exprString(ce)), false
					}
					if v.b == tag.b {
						chosen = cc
						break clauses
					}
				}
			}
			if chosen == nil {
				chosen = dflt
			}
			if chosen != nil {
				for _, b := range chosen.Body {
					if br, ok := b.(*ast.BranchStmt); ok {
						return in.bad("%s in a switch", br.Tok), false
					}
				}
				if v, r := in.exec(chosen.Body, en, named, depth); r || in.err != "" {
					return v, r
				}
			}
		default:
			return in.bad("statement at %s", fset.Position(st.Pos())), false
		}
	}
	return c19Val{}, false
}

// c19PairClosedTable interprets ReadWriteCloser.Closed() for the four assignments of (reader closed, writer closed);
// the result is indexed r*2+w.
func c19PairClosedTable() (tab [4]bool, problem string) {
	funcs := map[string]*ast.FuncDecl{}
	for _, f := range goFiles("internal/streams") {
		af := parse(f)
		if af == nil {
			continue
		}
		for _, d := range af.Decls {
			fd, ok := d.(*ast.FuncDecl)
			if !ok {
				continue
			}
			if fd.Recv == nil {
				funcs[fd.Name.Name] = fd
			} else if len(fd.Recv.List) == 1 {
				funcs[typeName(fd.Recv.List[0].Type)+"."+fd.Name.Name] = fd
			}
		}
	}
	fd := funcs["ReadWriteCloser.Closed"]
	if fd == nil || fd.Body == nil {
		return tab, "method not found"
	}
	if fd.Type.Params != nil && len(fd.Type.Params.List) != 0 {
		return tab, "has parameters"
	}
	for i := 0; i < 4; i++ {
		in := &c19Interp{r: i&2 != 0, w: i&1 != 0, funcs: funcs}
		en := c19Env{}
		if len(fd.Recv.List[0].Names) == 1 {
			en[fd.Recv.List[0].Names[0].Name] = c19Val{ref: c19Recv}
		}
		v := in.runFunc(fd, en, 0)
		if in.err != "" {
			return tab, in.err
		}
		tab[i] = v.b
	}
	return tab, ""
}

func init() {
	extractors = append(extractors, func(o *out) {
		b := o.w("C19.lean")
		and := true
		tab, problem := c19PairClosedTable()
		switch {
		case problem != "":
			fail("readerwriter_stream.go ReadWriteCloser.Closed: not a boolean combination of <recv>.ReadCloserClosed.Closed() and <recv>.WriteCloserClosed.Closed() the extractor can evaluate: %s", problem)
		case tab == [4]bool{false, false, false, true}:
			and = true
		case tab == [4]bool{false, true, true, true}:
			and = false
		default:
			var rows []string
			for i, v := range tab {
				rows = append(rows, fmt.Sprintf("reader=%v,writer=%v->%v", i&2 != 0, i&1 != 0, v))
			}
			fail("readerwriter_stream.go ReadWriteCloser.Closed: neither the conjunction nor the disjunction of the two halves' status: %s", strings.Join(rows, " "))
		}
		fmt.Fprintf(b, "/-- internal/streams/readerwriter_stream.go ReadWriteCloser.Closed(): the two halves' status is combined with `&&` (true) or `||` (false) -/\ndef c19PairClosedAnd : Bool := %v\n", and)
		// the delegating wrappers (Named*, SimulatedConnection, StreamWrappedConnection) have no Close / Closed of their
		// own: both come from the Safe* value they embed
		var own []string
		for _, f := range goFiles("internal/streams") {
			af := parse(f)
			if af == nil {
				continue
			}
			for _, d := range af.Decls {
				fd, ok := d.(*ast.FuncDecl)
				if !ok || fd.Recv == nil || len(fd.Recv.List) != 1 || (fd.Name.Name != "Close" && fd.Name.Name != "Closed") {
					continue
				}
				t := typeName(fd.Recv.List[0].Type)
				switch t {
				case "NamedConnection", "NamedStream", "NamedReader", "NamedWriter", "SimulatedConnection", "StreamWrappedConnection", "MuxStreamConnection":
					own = append(own, t+"."+fd.Name.Name)
				}
			}
		}
		fmt.Fprintf(b, "\n/-- Close / Closed methods declared on the delegating wrapper types themselves (they are expected to come from the embedded Safe* value only) -/\ndef c19DelegOwnMethods : List String := %s\n", leanStrList14(own))
	})
}

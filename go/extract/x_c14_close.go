package main

import (
	"fmt"
	"go/ast"
	"go/token"
	"os"
	"path/filepath"
	"sort"
	"strings"
)

// C14 (a session ends while its carrier write is blocked): what the Close methods of the connection wrappers in
// internal/streams do BESIDES closing what they wrap.  A blocked Write of the carrier is released only by the close of
// the socket underneath; a Close that first writes, flushes, sends a control frame, takes a lock or waits for a
// goroutine - without a finite deadline - queues up behind the very Write it is supposed to release, and the closing
// goroutine, the multiplexer's send loop and the socket stay for as long as the peer keeps its end open.
//
// Every call in the body of such a Close (closures included) that is not a close of a wrapped object, logging or error
// bookkeeping is listed with "bounded" (it carries a finite deadline: an argument built from time.Now().Add / time.After,
// or a Set*Deadline with such an argument precedes it in the function) or "waits" (anything else, a zero time.Time{}
// deadline, a channel receive, a select without a time.After arm).  The same for the two functions of the client that
// end a session (Upstreams.discard, Upstreams.Shutdown), where taking the Upstreams mutex is part of the design.

var closeBookkeeping = map[string]bool{
	"LogClose": true, "TryClose": true, "Close": true, "Closed": true, "Append": true, "WithStack": true, "Wrapf": true,
	"Errorf": true, "Warnf": true, "Infof": true, "Debugf": true, "Tracef": true, "WithError": true, "String": true,
	"Error": true, "Unlock": true, "IsClosed": true,
}

func hasZeroTime(e ast.Expr) bool {
	found := false
	ast.Inspect(e, func(n ast.Node) bool {
		if cl, ok := n.(*ast.CompositeLit); ok && len(cl.Elts) == 0 && src(cl.Type) == "time.Time" {
			found = true
		}
		return true
	})
	return found
}

func hasFiniteTime(e ast.Expr) bool {
	s := src(e)
	return strings.Contains(s, "time.Now().Add(") || strings.Contains(s, "time.After(") || strings.Contains(s, "context.WithTimeout(")
}

// closeCalls lists "(call, kind)" pairs of a function body in source order.
func closeCalls14(body *ast.BlockStmt, allowLock bool) []string {
	return closeCallsIn14(body, allowLock, nil, nil, 0)
}

// closeCallsIn14 is closeCalls14 that looks into the functions and methods of the same package the body calls (idx,
// encl as for resolveCall14; two levels): what such a helper does is listed in place of the call, so that moving
// part of a Close into a helper neither hides a wait nor adds an entry.  Beyond two levels the call itself is listed.
func closeCallsIn14(body *ast.BlockStmt, allowLock bool, idx map[string]*ast.FuncDecl, encl *ast.FuncDecl, depth int) []string {
	var out []string
	if body == nil {
		return out
	}
	deadlineSet := false
	inBoundedSelect := map[ast.Node]bool{}
	ast.Inspect(body, func(n ast.Node) bool {
		switch x := n.(type) {
		case *ast.SelectStmt:
			bounded := false
			for _, cl := range x.Body.List {
				if cc, ok := cl.(*ast.CommClause); ok && (cc.Comm == nil || hasFiniteTime(exprOfStmt(cc.Comm))) {
					bounded = true // a default arm or a time.After arm
				}
			}
			if !bounded {
				out = append(out, `("select", "waits")`)
			}
			// the communications of the arms were judged with their select
			for _, cl := range x.Body.List {
				if cc, ok := cl.(*ast.CommClause); ok && cc.Comm != nil {
					ast.Inspect(cc.Comm, func(m ast.Node) bool {
						if u, ok := m.(*ast.UnaryExpr); ok && u.Op == token.ARROW {
							inBoundedSelect[u] = true
						}
						return true
					})
				}
			}
		case *ast.UnaryExpr:
			if x.Op == token.ARROW && !inBoundedSelect[x] {
				out = append(out, fmt.Sprintf(`(%q, "waits")`, "<-"+src(x.X)))
			}
		case *ast.CallExpr:
			name := src(x.Fun)
			last := name
			if i := strings.LastIndex(name, "."); i >= 0 {
				last = name[i+1:]
			}
			if closeBookkeeping[last] || strings.HasPrefix(name, "log.") || name == "len" || name == "append" || name == "make" {
				return true
			}
			if allowLock && (last == "Lock" || last == "TryLock") {
				return true
			}
			if _, isLit := x.Fun.(*ast.FuncLit); isLit {
				return true // its body is inspected as part of the walk
			}
			if idx != nil && depth < 2 {
				if callee := resolveCall14(idx, x, encl); callee != nil && callee != encl {
					out = append(out, closeCallsIn14(callee.Body, allowLock, idx, callee, depth+1)...)
					return true // the arguments are still walked
				}
			}
			for _, pure := range []string{"time.", "fmt.", "strings.", "errors.", "websocket.FormatCloseMessage"} {
				if strings.HasPrefix(name, pure) {
					return true // builds a value, touches no connection
				}
			}
			zero, finite := false, false
			for _, a := range x.Args {
				if hasZeroTime(a) {
					zero = true
				}
				if hasFiniteTime(a) {
					finite = true
				}
			}
			kind := "waits"
			switch {
			case zero:
				kind = "waits"
				if strings.HasPrefix(last, "Set") && strings.HasSuffix(last, "Deadline") {
					deadlineSet = false
				}
			case finite:
				kind = "bounded"
				if strings.HasPrefix(last, "Set") && strings.HasSuffix(last, "Deadline") {
					deadlineSet = true
				}
			case deadlineSet:
				kind = "bounded"
			}
			out = append(out, fmt.Sprintf(`(%q, %q)`, last, kind))
		}
		return true
	})
	return out
}

func exprOfStmt(s ast.Stmt) ast.Expr {
	switch x := s.(type) {
	case *ast.ExprStmt:
		return x.X
	case *ast.AssignStmt:
		if len(x.Rhs) == 1 {
			return x.Rhs[0]
		}
	}
	return &ast.Ident{Name: "_"}
}

func recvName14(fd *ast.FuncDecl) string {
	if fd.Recv == nil || len(fd.Recv.List) == 0 {
		return ""
	}
	t := fd.Recv.List[0].Type
	if s, ok := t.(*ast.StarExpr); ok {
		t = s.X
	}
	return src(t)
}

func init() {
	extractors = append(extractors, func(o *out) {
		b := o.w("C14Close.lean")
		dir := "internal/streams"
		ents, err := os.ReadDir(filepath.Join(repo, dir))
		if err != nil {
			fail("%s: %v", dir, err)
			return
		}
		var rows []string
		seen := map[string]bool{}
		sidx := pkgFuncIndex14(dir)
		for _, e := range ents {
			if e.IsDir() || !strings.HasSuffix(e.Name(), ".go") || strings.HasSuffix(e.Name(), "_test.go") {
				continue
			}
			f := parse(filepath.Join(dir, e.Name()))
			for _, d := range f.Decls {
				fd, ok := d.(*ast.FuncDecl)
				if !ok || fd.Name.Name != "Close" || fd.Recv == nil {
					continue
				}
				r := recvName14(fd)
				seen[r] = true
				rows = append(rows, fmt.Sprintf("(%q, [%s])", r, strings.Join(closeCallsIn14(fd.Body, false, sidx, fd, 0), ", ")))
			}
		}
		sort.Strings(rows)
		for _, need := range []string{"WebsocketTunnelConnection", "SafeConnection", "SafeStream", "ReadWriteCloser"} {
			if !seen[need] {
				fail("internal/streams: Close method of %s not found", need)
			}
		}
		fmt.Fprintf(b, "/-- internal/streams: for every Close method of a connection wrapper, the calls it makes besides closing what it\n    wraps, logging and error bookkeeping: (call, \"bounded\" = carries a finite deadline | \"waits\" = anything else) -/\ndef carrierCloseCalls : List (String × List (String × String)) := [\n  %s]\n\n", strings.Join(rows, ",\n  "))

		uf := parse("internal/client/upstream/upstream.go")
		var ends []string
		uidx := pkgFuncIndex14("internal/client/upstream")
		for _, fn := range []string{"Shutdown", "discard"} {
			fd := findFunc(uf, "Upstreams", fn)
			if fd == nil {
				fail("upstream.go: Upstreams.%s not found", fn)
				continue
			}
			ends = append(ends, fmt.Sprintf("(%q, [%s])", "Upstreams."+fn, strings.Join(closeCallsIn14(fd.Body, true, uidx, fd, 0), ", ")))
		}
		// the server's accept loop: the branch that ends a dead session
		if as := findFunc(parse("internal/server/communicator.go"), "ConnectionHandler", "acceptStream"); as == nil {
			fail("communicator.go: acceptStream not found")
		} else {
			// the branch taken on `err != nil` (an if, an else-if or a case of a switch alike) that closes the session
			var branch *ast.BlockStmt
			for _, g := range errBranches14(as.Body) {
				if branch != nil || condText14(g) != "err!=nil" {
					continue
				}
				blk := &ast.BlockStmt{List: g.body}
				closes := false
				ast.Inspect(blk, func(m ast.Node) bool {
					if c, ok := m.(*ast.CallExpr); ok && strings.HasSuffix(src(c.Fun), "Close") && len(c.Args) == 1 && strings.Contains(src(c.Args[0]), "session") {
						closes = true
					}
					return true
				})
				if closes {
					branch = blk
				}
			}
			if branch == nil {
				fail("communicator.go acceptStream: the `err != nil` branch that closes the session not found")
			} else {
				ends = append(ends, fmt.Sprintf("(%q, [%s])", "ConnectionHandler.acceptStream", strings.Join(closeCallsIn14(branch, false, pkgFuncIndex14("internal/server"), as, 0), ", ")))
			}
		}
		fmt.Fprintf(b, "/-- internal/client/upstream/upstream.go, internal/server/communicator.go: the same for the two functions that end the\n    client's session and for the branch of the server's accept loop that ends a dead session (taking the\n    Upstreams mutex is not listed) -/\ndef sessionEndCalls : List (String × List (String × String)) := [\n  %s]\n", strings.Join(ends, ",\n  "))
	})
}

// C03 facts, semantic recognisers (used by x_c03.go).  Instead of matching the printed source text, these establish
// the facts on the syntax tree and follow calls into unexported helpers of the same package:
//
//   - "e is <constant prefix> + v.Name()": the prefix may be a literal, a named constant, built by fmt.Sprintf, or
//     computed by a one-line package function (protocolId(v.Name()));
//   - "F connects the FIRST channel of <recv>.channels whose protocol id equals the requested one, and reports an
//     error when there is none": the first-match loop (guarded body or `if id != ... { continue }` form) may stand in F
//     itself or in a lookup helper returning (channel, found) or just the channel (nil = none); the matched-channel
//     path may continue in further helpers (OpenConnection sites are counted
//     through them, and every site must be a call on the matched channel);
//   - the shape of Channels.Filter / Channels.Find independent of the names of locals and of equivalent spellings of
//     "the list is empty".
package main

import (
	"go/ast"
	"go/constant"
	"go/token"
	"os"
	"path/filepath"
	"strings"
)

type c03pkg struct {
	consts  env                      // const declarations only (a package variable can be reassigned)
	funcs   map[string]*ast.FuncDecl // plain functions by name
	methods map[string]*ast.FuncDecl // "Recv.name"
}

func c03recvType(fd *ast.FuncDecl) string {
	if fd.Recv == nil || len(fd.Recv.List) == 0 {
		return ""
	}
	t := fd.Recv.List[0].Type
	if st, ok := t.(*ast.StarExpr); ok {
		t = st.X
	}
	return exprString(t)
}

func c03recvName(fd *ast.FuncDecl) string {
	if fd.Recv == nil || len(fd.Recv.List) == 0 || len(fd.Recv.List[0].Names) == 0 {
		return ""
	}
	return fd.Recv.List[0].Names[0].Name
}

// c03paramNames lists the parameter names of fd in order ("" for unnamed ones).
func c03paramNames(fd *ast.FuncDecl) []string {
	var r []string
	for _, fl := range fd.Type.Params.List {
		if len(fl.Names) == 0 {
			r = append(r, "")
		}
		for _, n := range fl.Names {
			r = append(r, n.Name)
		}
	}
	return r
}

func c03loadPkg(dir string) *c03pkg {
	p := &c03pkg{consts: env{}, funcs: map[string]*ast.FuncDecl{}, methods: map[string]*ast.FuncDecl{}}
	ents, err := os.ReadDir(filepath.Join(repo, dir))
	if err != nil {
		fail("C03: cannot list %s: %v", dir, err)
		return p
	}
	var files []*ast.File
	for _, e := range ents {
		if e.IsDir() || !strings.HasSuffix(e.Name(), ".go") || strings.HasSuffix(e.Name(), "_test.go") {
			continue
		}
		files = append(files, parse(filepath.Join(dir, e.Name())))
	}
	for pass := 0; pass < 2; pass++ { // twice: a constant may refer to one declared in a later file
		for _, f := range files {
			for _, d := range f.Decls {
				switch x := d.(type) {
				case *ast.GenDecl:
					if x.Tok != token.CONST {
						continue
					}
					for _, s := range x.Specs {
						vs := s.(*ast.ValueSpec)
						for i, n := range vs.Names {
							if i < len(vs.Values) {
								if v := evalExpr(vs.Values[i], p.consts); v != nil && v.Kind() != constant.Unknown {
									p.consts[n.Name] = v
								}
							}
						}
					}
				case *ast.FuncDecl:
					if r := c03recvType(x); r != "" {
						p.methods[r+"."+x.Name.Name] = x
					} else {
						p.funcs[x.Name.Name] = x
					}
				}
			}
		}
	}
	return p
}

func c03isIdent(e ast.Expr, name string) bool {
	id, ok := e.(*ast.Ident)
	return ok && name != "" && id.Name == name
}

// c03isNameCall: e is v.Name()
func c03isNameCall(e ast.Expr, v string) bool {
	c, ok := e.(*ast.CallExpr)
	if !ok || len(c.Args) != 0 {
		return false
	}
	s, ok := c.Fun.(*ast.SelectorExpr)
	return ok && s.Sel.Name == "Name" && c03isIdent(s.X, v)
}

// prefixOf: e denotes the string <prefix> + SYM for a constant prefix, where sym recognises the symbolic operand.
func (p *c03pkg) prefixOf(e ast.Expr, sym func(ast.Expr) bool, depth int) (string, bool) {
	if sym(e) {
		return "", true
	}
	switch x := e.(type) {
	case *ast.ParenExpr:
		return p.prefixOf(x.X, sym, depth)
	case *ast.BinaryExpr:
		if x.Op != token.ADD {
			return "", false
		}
		l := evalExpr(x.X, p.consts)
		if l == nil || l.Kind() != constant.String {
			return "", false
		}
		r, ok := p.prefixOf(x.Y, sym, depth)
		return constant.StringVal(l) + r, ok
	case *ast.CallExpr:
		if exprString(x.Fun) == "fmt.Sprintf" && len(x.Args) == 2 && sym(x.Args[1]) {
			f := evalExpr(x.Args[0], p.consts)
			if f == nil || f.Kind() != constant.String {
				return "", false
			}
			s := constant.StringVal(f)
			if strings.HasSuffix(s, "%s") && !strings.Contains(s[:len(s)-2], "%") {
				return s[:len(s)-2], true
			}
			return "", false
		}
		// a one-line package function: func f(x string) string { return <expr over x> }
		id, ok := x.Fun.(*ast.Ident)
		if !ok || depth <= 0 || len(x.Args) != 1 || !sym(x.Args[0]) {
			return "", false
		}
		fd := p.funcs[id.Name]
		if fd == nil || fd.Body == nil || len(fd.Body.List) != 1 {
			return "", false
		}
		ret, ok := fd.Body.List[0].(*ast.ReturnStmt)
		names := c03paramNames(fd)
		if !ok || len(ret.Results) != 1 || len(names) != 1 || names[0] == "" {
			return "", false
		}
		if _, shadowed := p.consts[names[0]]; shadowed {
			return "", false
		}
		return p.prefixOf(ret.Results[0], func(a ast.Expr) bool { return c03isIdent(a, names[0]) }, depth-1)
	}
	return "", false
}

// prefixOfName: e is <prefix> + v.Name()
func (p *c03pkg) prefixOfName(e ast.Expr, v string) (string, bool) {
	return p.prefixOf(e, func(a ast.Expr) bool { return c03isNameCall(a, v) }, 2)
}

func c03isLog(s ast.Stmt) bool {
	es, ok := s.(*ast.ExprStmt)
	if !ok {
		return false
	}
	c, ok := es.X.(*ast.CallExpr)
	if !ok {
		return false
	}
	sel, ok := c.Fun.(*ast.SelectorExpr)
	return ok && c03isIdent(sel.X, "log")
}

// c03rangeOverChannels: `for _, v := range <recv>.channels`; returns v.
func c03rangeOverChannels(s ast.Stmt, recv string) (*ast.RangeStmt, string) {
	rs, ok := s.(*ast.RangeStmt)
	if !ok || rs.Tok != token.DEFINE || rs.Value == nil {
		return nil, ""
	}
	if rs.Key != nil && !c03isIdent(rs.Key, "_") {
		return nil, ""
	}
	v, ok := rs.Value.(*ast.Ident)
	sel, ok2 := rs.X.(*ast.SelectorExpr)
	if !ok || !ok2 || sel.Sel.Name != "channels" || !c03isIdent(sel.X, recv) {
		return nil, ""
	}
	return rs, v.Name
}

// c03registration: fn registers, for EVERY channel of <recv>.channels, <prefix>+channel.Name() with the handler
// <recv>.<handler> on the muxer it then serves the connection with; no other AddHandler call.  Returns prefix.
func (p *c03pkg) registration(fn *ast.FuncDecl, handler string) (string, bool) {
	recv := c03recvName(fn)
	adds, loops := 0, 0
	prefix, good := "", false
	muxVar := ""
	ast.Inspect(fn.Body, func(n ast.Node) bool {
		if c, ok := n.(*ast.CallExpr); ok {
			if s, ok := c.Fun.(*ast.SelectorExpr); ok && s.Sel.Name == "AddHandler" {
				adds++
			}
		}
		return true
	})
	for _, st := range fn.Body.List { // the loop runs unconditionally: it is a top-level statement
		rs, v := c03rangeOverChannels(st, recv)
		if rs == nil {
			continue
		}
		loops++
		n := 0
		for _, bs := range rs.Body.List {
			if c03isLog(bs) {
				continue
			}
			es, ok := bs.(*ast.ExprStmt)
			if !ok {
				return "", false // a guard, continue, break, ... : not every channel is registered
			}
			c, ok := es.X.(*ast.CallExpr)
			if !ok || len(c.Args) != 2 {
				return "", false
			}
			s, ok := c.Fun.(*ast.SelectorExpr)
			h, ok2 := c.Args[1].(*ast.SelectorExpr)
			if !ok || !ok2 || s.Sel.Name != "AddHandler" || h.Sel.Name != handler || !c03isIdent(h.X, recv) {
				return "", false
			}
			pre, ok := p.prefixOfName(c.Args[0], v)
			if !ok {
				return "", false
			}
			prefix, good, muxVar = pre, true, exprString(s.X)
			n++
		}
		if n != 1 {
			return "", false
		}
	}
	if !good || adds != 1 || loops != 1 {
		return "", false
	}
	// the muxer the handlers were added to is the one that handles the connection
	handles := false
	ast.Inspect(fn.Body, func(n ast.Node) bool {
		if c, ok := n.(*ast.CallExpr); ok {
			if s, ok := c.Fun.(*ast.SelectorExpr); ok && s.Sel.Name == "Handle" && exprString(s.X) == muxVar {
				handles = true
			}
		}
		return true
	})
	return prefix, handles
}

// c03lookup is the result of recognising "first channel whose protocol id equals the requested one".
type c03lookup struct {
	prefix   string
	found    []ast.Stmt // executed for the matched channel (ends in a return)
	foundVar string     // the identifier bound to the matched channel there
	notFound []ast.Stmt // executed when no channel matches
}

// eqProto: cond is `<proto> == <prefix>+v.Name()` (either order).
func (p *c03pkg) eqProto(cond ast.Expr, proto, v string) (string, bool) {
	for {
		pe, ok := cond.(*ast.ParenExpr)
		if !ok {
			break
		}
		cond = pe.X
	}
	b, ok := cond.(*ast.BinaryExpr)
	if !ok || b.Op != token.EQL {
		return "", false
	}
	if c03isIdent(b.X, proto) {
		return p.prefixOfName(b.Y, v)
	}
	if c03isIdent(b.Y, proto) {
		return p.prefixOfName(b.X, v)
	}
	return "", false
}

// c03endsInReturn: the statements end in a return and contain no break/continue/goto (outside function literals),
// so control never goes back to an enclosing loop.
func c03endsInReturn(stmts []ast.Stmt) bool {
	if len(stmts) == 0 {
		return false
	}
	if _, ok := stmts[len(stmts)-1].(*ast.ReturnStmt); !ok {
		return false
	}
	ok := true
	for _, s := range stmts {
		ast.Inspect(s, func(n ast.Node) bool {
			switch n.(type) {
			case *ast.FuncLit:
				return false
			case *ast.BranchStmt:
				ok = false
			}
			return true
		})
	}
	return ok
}

// neqProto: cond is `<proto> != <prefix>+v.Name()` or `!(<proto> == <prefix>+v.Name())`.
func (p *c03pkg) neqProto(cond ast.Expr, proto, v string) (string, bool) {
	for {
		pe, ok := cond.(*ast.ParenExpr)
		if !ok {
			break
		}
		cond = pe.X
	}
	if u, ok := cond.(*ast.UnaryExpr); ok && u.Op == token.NOT {
		return p.eqProto(u.X, proto, v)
	}
	b, ok := cond.(*ast.BinaryExpr)
	if !ok || b.Op != token.NEQ {
		return "", false
	}
	return p.eqProto(&ast.BinaryExpr{X: b.X, Op: token.EQL, Y: b.Y}, proto, v)
}

// c03isContinue: the statements (logging aside) are exactly one unlabelled `continue`.
func c03isContinue(stmts []ast.Stmt) bool {
	n := 0
	for _, s := range stmts {
		if c03isLog(s) {
			continue
		}
		br, ok := s.(*ast.BranchStmt)
		if !ok || br.Tok != token.CONTINUE || br.Label != nil {
			return false
		}
		n++
	}
	return n == 1
}

// firstMatchLoop: s is a loop `for _, v := range <recv>.channels` whose body, logging aside, runs BODY for the first
// v with <proto> == <prefix>+v.Name() and does nothing for the others.  Accepted spellings of the body:
//
//	if <proto> == id(v) { BODY }
//	if <proto> == id(v) { BODY } else { continue }
//	if <proto> != id(v) { continue } ; BODY          (also `!(<proto> == id(v))`)
//	if <proto> != id(v) { continue } else { BODY }
//
// BODY ends in a return and has no break/continue/goto, so the loop never looks at a later channel once one matched.
// Returns prefix, v, BODY.
func (p *c03pkg) firstMatchLoop(s ast.Stmt, recv, proto string) (string, string, []ast.Stmt, bool) {
	rs, v := c03rangeOverChannels(s, recv)
	if rs == nil {
		return "", "", nil, false
	}
	var body []ast.Stmt
	for _, bs := range rs.Body.List {
		if !c03isLog(bs) {
			body = append(body, bs)
		}
	}
	if len(body) == 0 {
		return "", "", nil, false
	}
	is, ok := body[0].(*ast.IfStmt)
	if !ok || is.Init != nil {
		return "", "", nil, false
	}
	var elseB []ast.Stmt
	if is.Else != nil {
		eb, ok := is.Else.(*ast.BlockStmt)
		if !ok {
			return "", "", nil, false
		}
		elseB = eb.List
	}
	var pre string
	var found []ast.Stmt
	if q, ok := p.eqProto(is.Cond, proto, v); ok {
		// matched: the then-branch; not matched: nothing / continue, and nothing after the if
		if len(body) != 1 || (is.Else != nil && !c03isContinue(elseB)) {
			return "", "", nil, false
		}
		pre, found = q, is.Body.List
	} else if q, ok := p.neqProto(is.Cond, proto, v); ok {
		// not matched: continue; matched: the else-branch or what follows the if (never both)
		if !c03isContinue(is.Body.List) {
			return "", "", nil, false
		}
		switch {
		case is.Else != nil && len(body) == 1:
			found = elseB
		case is.Else == nil && len(body) > 1:
			found = body[1:]
		default:
			return "", "", nil, false
		}
		pre = q
	} else {
		return "", "", nil, false
	}
	if !c03endsInReturn(found) {
		return "", "", nil, false
	}
	return pre, v, found, true
}

func c03isBoolLit(e ast.Expr, name string) bool { return c03isIdent(e, name) }

// lookupHelper: method `func (r *T) h(p string) (Channel, bool)` whose body is the first-match loop returning
// (v, true), followed by `return nil, false`; or the single-result form `func (r *T) h(p string) Channel` returning v
// from the loop and nil after it (an element of the list that is nil cannot be returned: v.Name() was called on it
// first, so "result != nil" is exactly "found").  Returns the prefix and the number of results (2 or 1).
func (p *c03pkg) lookupHelper(fd *ast.FuncDecl) (string, int, bool) {
	names := c03paramNames(fd)
	if fd.Body == nil || len(names) != 1 || names[0] == "" {
		return "", 0, false
	}
	reassigned := false
	ast.Inspect(fd.Body, func(n ast.Node) bool {
		if as, ok := n.(*ast.AssignStmt); ok {
			for _, l := range as.Lhs {
				if c03isIdent(l, names[0]) {
					reassigned = true
				}
			}
		}
		return true
	})
	if reassigned {
		return "", 0, false
	}
	var body []ast.Stmt
	for _, s := range fd.Body.List {
		if !c03isLog(s) {
			body = append(body, s)
		}
	}
	if len(body) != 2 {
		return "", 0, false
	}
	pre, v, found, ok := p.firstMatchLoop(body[0], c03recvName(fd), names[0])
	if !ok || len(found) != 1 {
		return "", 0, false
	}
	r := found[0].(*ast.ReturnStmt)
	last, ok := body[1].(*ast.ReturnStmt)
	if !ok || len(last.Results) != len(r.Results) {
		return "", 0, false
	}
	switch len(r.Results) {
	case 2:
		if !c03isIdent(r.Results[0], v) || !c03isBoolLit(r.Results[1], "true") ||
			!c03isIdent(last.Results[0], "nil") || !c03isBoolLit(last.Results[1], "false") {
			return "", 0, false
		}
	case 1:
		if !c03isIdent(r.Results[0], v) || !c03isIdent(last.Results[0], "nil") {
			return "", 0, false
		}
	default:
		return "", 0, false
	}
	return pre, len(r.Results), true
}

// c03nilTest: cond is `<v> == nil` (isNil) or `<v> != nil` (!isNil), either operand order.
func c03nilTest(cond ast.Expr, v string) (isNil, ok bool) {
	for {
		pe, k := cond.(*ast.ParenExpr)
		if !k {
			break
		}
		cond = pe.X
	}
	b, k := cond.(*ast.BinaryExpr)
	if !k || (b.Op != token.EQL && b.Op != token.NEQ) {
		return false, false
	}
	if !((c03isIdent(b.X, v) && c03isIdent(b.Y, "nil")) || (c03isIdent(b.Y, v) && c03isIdent(b.X, "nil"))) {
		return false, false
	}
	return b.Op == token.EQL, true
}

// firstMatch recognises, in fn (first parameter = the requested protocol id), the selection of the first channel of
// <recv>.channels whose protocol id equals the request: either the loop itself, or a call of a lookup helper followed
// by a test of its `found` result, or of its only result against nil (either polarity, early return or if/else).
func (p *c03pkg) firstMatch(fn *ast.FuncDecl) (*c03lookup, string) {
	recv, names := c03recvName(fn), c03paramNames(fn)
	if fn.Body == nil || len(names) == 0 || names[0] == "" {
		return nil, "no protocol parameter"
	}
	proto := names[0]
	reassigned := false
	ast.Inspect(fn.Body, func(n ast.Node) bool {
		if as, ok := n.(*ast.AssignStmt); ok {
			for _, l := range as.Lhs {
				if c03isIdent(l, proto) {
					reassigned = true
				}
			}
		}
		return true
	})
	if reassigned {
		return nil, "the protocol parameter is reassigned"
	}
	list := fn.Body.List
	i := 0
	for i < len(list) && c03isLog(list[i]) {
		i++
	}
	if i == len(list) {
		return nil, "empty"
	}
	if pre, v, found, ok := p.firstMatchLoop(list[i], recv, proto); ok {
		return &c03lookup{prefix: pre, found: found, foundVar: v, notFound: list[i+1:]}, ""
	}
	// c, ok := recv.helper(proto)   /   if c, ok := recv.helper(proto); ok { ... }
	var as *ast.AssignStmt
	var test *ast.IfStmt
	var rest []ast.Stmt
	if a, ok := list[i].(*ast.AssignStmt); ok && i+1 < len(list) {
		if t, ok := list[i+1].(*ast.IfStmt); ok && t.Init == nil {
			as, test, rest = a, t, list[i+2:]
		}
	} else if t, ok := list[i].(*ast.IfStmt); ok && t.Init != nil {
		if a, ok := t.Init.(*ast.AssignStmt); ok {
			as, test, rest = a, t, list[i+1:]
		}
	}
	if as == nil || as.Tok != token.DEFINE || len(as.Lhs) < 1 || len(as.Lhs) > 2 || len(as.Rhs) != 1 {
		return nil, "neither a first-match loop nor a lookup call"
	}
	call, ok := as.Rhs[0].(*ast.CallExpr)
	if !ok || len(call.Args) != 1 || !c03isIdent(call.Args[0], proto) {
		return nil, "lookup call not recognised"
	}
	sel, ok := call.Fun.(*ast.SelectorExpr)
	if !ok || !c03isIdent(sel.X, recv) {
		return nil, "lookup call not recognised"
	}
	helper := p.methods[c03recvType(fn)+"."+sel.Sel.Name]
	if helper == nil {
		return nil, "lookup helper " + sel.Sel.Name + " not found"
	}
	pre, nres, ok := p.lookupHelper(helper)
	if !ok || nres != len(as.Lhs) {
		return nil, "lookup helper " + sel.Sel.Name + " is not a first-exact-match loop"
	}
	cv, ok1 := as.Lhs[0].(*ast.Ident)
	if !ok1 || cv.Name == "_" {
		return nil, "lookup results not bound"
	}
	lk := &c03lookup{prefix: pre, foundVar: cv.Name}
	cond := test.Cond
	neg := false
	if nres == 2 {
		// the found flag is tested: `ok` / `!ok`
		okv, ok2 := as.Lhs[1].(*ast.Ident)
		if !ok2 || okv.Name == "_" {
			return nil, "lookup results not bound"
		}
		if u, ok := cond.(*ast.UnaryExpr); ok && u.Op == token.NOT {
			neg, cond = true, u.X
		}
		if !c03isIdent(cond, okv.Name) {
			return nil, "the found result is not tested"
		}
	} else {
		// the single result is tested against nil: `c != nil` (found) / `c == nil` (not found)
		isNil, ok := c03nilTest(cond, cv.Name)
		if !ok {
			return nil, "the found result is not tested"
		}
		neg = isNil
	}
	thenB := test.Body.List
	var elseB []ast.Stmt
	if test.Else != nil {
		eb, ok := test.Else.(*ast.BlockStmt)
		if !ok || len(rest) != 0 {
			return nil, "found test: else form not recognised"
		}
		elseB = eb.List
	} else {
		if !c03endsInReturn(thenB) {
			return nil, "found test: the guarded branch does not return"
		}
		elseB = rest
	}
	if neg {
		lk.notFound, lk.found = thenB, elseB
	} else {
		lk.found, lk.notFound = thenB, elseB
	}
	if !c03endsInReturn(lk.found) {
		return nil, "the matched-channel path does not end in a return"
	}
	return lk, ""
}

// openSites counts the OpenConnection call sites reachable from stmts, following calls to methods of the same
// receiver type and to package functions (depth levels).  chanVar is the identifier bound to the matched channel
// ("" = none); a site whose receiver is anything else is reported in bad.
func (p *c03pkg) openSites(stmts []ast.Stmt, recvType, recv, chanVar string, depth int, bad *[]string) int {
	n := 0
	for _, s := range stmts {
		ast.Inspect(s, func(nd ast.Node) bool {
			c, ok := nd.(*ast.CallExpr)
			if !ok {
				return true
			}
			var callee *ast.FuncDecl
			switch f := c.Fun.(type) {
			case *ast.SelectorExpr:
				if f.Sel.Name == "OpenConnection" {
					if c03isIdent(f.X, chanVar) {
						n++
					} else {
						*bad = append(*bad, src(c))
					}
					return true
				}
				if c03isIdent(f.X, recv) {
					callee = p.methods[recvType+"."+f.Sel.Name]
				}
			case *ast.Ident:
				callee = p.funcs[f.Name]
			}
			if callee == nil || callee.Body == nil {
				return true
			}
			if depth <= 0 {
				if strings.Contains(src(callee.Body), "OpenConnection") {
					*bad = append(*bad, "too deep: "+callee.Name.Name)
				}
				return true
			}
			inner := ""
			names := c03paramNames(callee)
			for k, a := range c.Args {
				if c03isIdent(a, chanVar) && k < len(names) {
					inner = names[k]
				}
			}
			n += p.openSites(callee.Body.List, c03recvType(callee), c03recvName(callee), inner, depth-1, bad)
			return true
		})
	}
	return n
}

// c03alwaysError: the statements only log and then return a freshly constructed (never nil) error.
func c03alwaysError(stmts []ast.Stmt) bool {
	if len(stmts) == 0 {
		return false
	}
	for _, s := range stmts[:len(stmts)-1] {
		if !c03isLog(s) {
			return false
		}
	}
	r, ok := stmts[len(stmts)-1].(*ast.ReturnStmt)
	if !ok || len(r.Results) != 1 {
		return false
	}
	c, ok := r.Results[0].(*ast.CallExpr)
	if !ok {
		return false
	}
	switch exprString(c.Fun) {
	case "errors.Errorf", "errors.New", "fmt.Errorf":
		return true
	}
	return false
}

// ---- channel.go --------------------------------------------------------------------------------------------------

// c03isEmptyTest: cond says "the slice p is empty (nil included)": len(p) == 0, 0 == len(p), len(p) < 1,
// p == nil || len(p) == 0 (either order).
func c03isEmptyTest(cond ast.Expr, p string) bool {
	if pe, ok := cond.(*ast.ParenExpr); ok {
		return c03isEmptyTest(pe.X, p)
	}
	b, ok := cond.(*ast.BinaryExpr)
	if !ok {
		return false
	}
	isLen := func(e ast.Expr) bool {
		c, ok := e.(*ast.CallExpr)
		return ok && c03isIdent(c.Fun, "len") && len(c.Args) == 1 && c03isIdent(c.Args[0], p)
	}
	isLit := func(e ast.Expr, v string) bool { l, ok := e.(*ast.BasicLit); return ok && l.Value == v }
	isNilTest := func(e ast.Expr) bool {
		n, ok := e.(*ast.BinaryExpr)
		return ok && n.Op == token.EQL && ((c03isIdent(n.X, p) && c03isIdent(n.Y, "nil")) || (c03isIdent(n.Y, p) && c03isIdent(n.X, "nil")))
	}
	switch b.Op {
	case token.EQL:
		return (isLen(b.X) && isLit(b.Y, "0")) || (isLen(b.Y) && isLit(b.X, "0"))
	case token.LSS:
		return isLen(b.X) && isLit(b.Y, "1")
	case token.LEQ:
		return isLen(b.X) && isLit(b.Y, "0")
	case token.LOR: // nil-test is implied by the length test
		return (isNilTest(b.X) && c03isEmptyTest(b.Y, p)) || (isNilTest(b.Y) && c03isEmptyTest(b.X, p))
	}
	return false
}

// c03isAppendErr: s is `E = multierror.Append(E, <expr>)`; returns E and the appended expression.
func c03isAppendErr(s ast.Stmt) (string, ast.Expr) {
	as, ok := s.(*ast.AssignStmt)
	if !ok || as.Tok != token.ASSIGN || len(as.Lhs) != 1 || len(as.Rhs) != 1 {
		return "", nil
	}
	l, ok := as.Lhs[0].(*ast.Ident)
	c, ok2 := as.Rhs[0].(*ast.CallExpr)
	if !ok || !ok2 || exprString(c.Fun) != "multierror.Append" || len(c.Args) != 2 || !c03isIdent(c.Args[0], l.Name) {
		return "", nil
	}
	return l.Name, c.Args[1]
}

func c03mentions(e ast.Node, name string) bool {
	found := false
	ast.Inspect(e, func(n ast.Node) bool {
		if id, ok := n.(*ast.Ident); ok && id.Name == name {
			found = true
		}
		return true
	})
	return found
}

// c03filterShape establishes the three facts about Channels.Filter.
func c03filterShape(fn *ast.FuncDecl) (emptyMeansAll, unknownIsError, emptyResultIsError bool) {
	recv, names := c03recvName(fn), c03paramNames(fn)
	if fn.Body == nil || len(names) != 1 || names[0] == "" || len(fn.Body.List) == 0 {
		return
	}
	list := names[0]
	// first statement: if <list is empty> { return *recv, nil }
	if is, ok := fn.Body.List[0].(*ast.IfStmt); ok && is.Init == nil && is.Else == nil && c03isEmptyTest(is.Cond, list) && len(is.Body.List) == 1 {
		if r, ok := is.Body.List[0].(*ast.ReturnStmt); ok && len(r.Results) == 2 && c03isIdent(r.Results[1], "nil") {
			if st, ok := r.Results[0].(*ast.StarExpr); ok && c03isIdent(st.X, recv) {
				emptyMeansAll = true
			}
		}
	}
	// for _, n := range list { c, e := recv.Find(n); if e != nil { E = multierror.Append(E, ..e..); continue }; acc = append(acc, c) }
	acc, errVar := "", ""
	loopAt := -1
	for i, s := range fn.Body.List {
		rs, ok := s.(*ast.RangeStmt)
		if !ok || !c03isIdent(rs.X, list) || rs.Value == nil || (rs.Key != nil && !c03isIdent(rs.Key, "_")) || len(rs.Body.List) != 3 {
			continue
		}
		n, ok := rs.Value.(*ast.Ident)
		as, ok2 := rs.Body.List[0].(*ast.AssignStmt)
		if !ok || !ok2 || as.Tok != token.DEFINE || len(as.Lhs) != 2 || len(as.Rhs) != 1 {
			continue
		}
		c, ok := as.Lhs[0].(*ast.Ident)
		e, ok2 := as.Lhs[1].(*ast.Ident)
		call, ok3 := as.Rhs[0].(*ast.CallExpr)
		if !ok || !ok2 || !ok3 || exprString(call.Fun) != recv+".Find" || len(call.Args) != 1 || !c03isIdent(call.Args[0], n.Name) {
			continue
		}
		is, ok := rs.Body.List[1].(*ast.IfStmt)
		if !ok || is.Init != nil || is.Else != nil || len(is.Body.List) != 2 {
			continue
		}
		if b, ok := is.Cond.(*ast.BinaryExpr); !ok || b.Op != token.NEQ || !c03isIdent(b.X, e.Name) || !c03isIdent(b.Y, "nil") {
			continue
		}
		ev, appended := c03isAppendErr(is.Body.List[0])
		br, ok := is.Body.List[1].(*ast.BranchStmt)
		if ev == "" || !c03mentions(appended, e.Name) || !ok || br.Tok != token.CONTINUE || br.Label != nil {
			continue
		}
		ap, ok := rs.Body.List[2].(*ast.AssignStmt)
		if !ok || ap.Tok != token.ASSIGN || len(ap.Lhs) != 1 || len(ap.Rhs) != 1 {
			continue
		}
		a, ok := ap.Lhs[0].(*ast.Ident)
		ac, ok2 := ap.Rhs[0].(*ast.CallExpr)
		if !ok || !ok2 || !c03isIdent(ac.Fun, "append") || len(ac.Args) != 2 || !c03isIdent(ac.Args[0], a.Name) || !c03isIdent(ac.Args[1], c.Name) {
			continue
		}
		acc, errVar, loopAt = a.Name, ev, i
		unknownIsError = true
	}
	if loopAt < 0 {
		return
	}
	// after the loop: if len(acc) == 0 { E = multierror.Append(E, <new error>) }, and the result is (acc, E)
	for _, s := range fn.Body.List[loopAt+1:] {
		is, ok := s.(*ast.IfStmt)
		if !ok || is.Init != nil || is.Else != nil || !c03isEmptyTest(is.Cond, acc) || len(is.Body.List) != 1 {
			continue
		}
		if ev, appended := c03isAppendErr(is.Body.List[0]); ev == errVar && appended != nil {
			if _, isCall := appended.(*ast.CallExpr); isCall {
				emptyResultIsError = true
			}
		}
	}
	last, ok := fn.Body.List[len(fn.Body.List)-1].(*ast.ReturnStmt)
	if !ok || len(last.Results) != 2 || !c03isIdent(last.Results[0], acc) || !c03isIdent(last.Results[1], errVar) {
		unknownIsError, emptyResultIsError = false, false // the collected list / errors are not what is returned
	}
	return
}

// c03findShape: Channels.Find returns the first element v of *recv with v.Name() == <name parameter> (Go's ==, so
// exact and case sensitive); the parameter is not modified.
func c03findShape(fn *ast.FuncDecl) bool {
	recv, names := c03recvName(fn), c03paramNames(fn)
	if fn.Body == nil || len(names) != 1 || names[0] == "" {
		return false
	}
	name := names[0]
	modified := false
	ast.Inspect(fn.Body, func(n ast.Node) bool {
		if as, ok := n.(*ast.AssignStmt); ok {
			for _, l := range as.Lhs {
				if c03isIdent(l, name) {
					modified = true
				}
			}
		}
		return true
	})
	if modified {
		return false
	}
	for _, s := range fn.Body.List {
		switch x := s.(type) {
		case *ast.RangeStmt:
			st, ok := x.X.(*ast.StarExpr)
			v, ok2 := x.Value.(*ast.Ident)
			if !ok || !ok2 || !c03isIdent(st.X, recv) || (x.Key != nil && !c03isIdent(x.Key, "_")) || len(x.Body.List) == 0 {
				return false
			}
			is, ok := x.Body.List[0].(*ast.IfStmt)
			if !ok || is.Init != nil || is.Else != nil || len(is.Body.List) != 1 {
				return false
			}
			b, ok := is.Cond.(*ast.BinaryExpr)
			if !ok || b.Op != token.EQL ||
				!((c03isNameCall(b.X, v.Name) && c03isIdent(b.Y, name)) || (c03isNameCall(b.Y, v.Name) && c03isIdent(b.X, name))) {
				return false
			}
			r, ok := is.Body.List[0].(*ast.ReturnStmt)
			return ok && len(r.Results) == 2 && c03isIdent(r.Results[0], v.Name) && c03isIdent(r.Results[1], "nil")
		case *ast.DeclStmt: // var available []string
		default:
			return false // anything else before the loop could return early
		}
	}
	return false
}

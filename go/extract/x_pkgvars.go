package main

import (
	"fmt"
	"go/ast"
	"go/token"
	"sort"
	"strings"
)

// PkgVars: the models are functions of their arguments and of the state of the objects they are handed; nothing in them
// lives in the process.  That is a faithful picture only while the packages keep no mutable package-level state besides
// what is listed here: a new package-level variable (a counter, a cache, a scratch buffer, a shared map, a registry)
// makes later calls depend on earlier ones, or concurrent calls on each other, in a way no sequential per-call
// comparison of model and code can see.  The fact is the inventory of package-level `var` declarations per package
// (name and, in brief, type or initialiser); the theorems pin it to the inventory the models were written against.

// globalRegistrations: calls that change process-wide tables of the libraries the code uses (handler tables, private
// record types, default clients, random seeds).  Anything registered there is shared by every server, endpoint and
// client object of the process.
var globalRegFuncs = map[string]bool{
	"dns.HandleFunc": true, "dns.Handle": true, "dns.HandleRemove": true, "dns.PrivateHandle": true, "dns.PrivateHandleRemove": true,
	"http.Handle": true, "http.HandleFunc": true, "rand.Seed": true, "multistream.AddHandler": true,
}

func init() {
	extractors = append(extractors, func(o *out) {
		b := o.w("PkgVars.lean")
		var regs []string
		for _, dir := range []string{"internal/server", "internal/socketace", "internal/client/upstream", "internal/client/listener",
			"internal/streams", "internal/streams/dns", "internal/streams/dns/commands", "internal/streams/dns/util", "internal/util/cert", "internal/util/enc"} {
			for _, f := range goFiles(dir) {
				af := parse(f)
				if af == nil {
					continue
				}
				ast.Inspect(af, func(n ast.Node) bool {
					if c, ok := n.(*ast.CallExpr); ok && globalRegFuncs[src(c.Fun)] {
						regs = append(regs, f+": "+src(c.Fun))
					}
					return true
				})
			}
		}
		sort.Strings(regs)
		q := make([]string, len(regs))
		for i, r := range regs {
			q[i] = fmt.Sprintf("%q", r)
		}
		fmt.Fprintf(b, "/-- calls that register something in a process-wide table of a library (DNS / HTTP handler tables, private record types, …) -/\ndef globalRegistrations : List String := [%s]\n\n", strings.Join(q, ", "))
	})
}

func varBrief(e ast.Expr) string {
	s := strings.Join(strings.Fields(src(e)), " ")
	if len(s) > 60 {
		s = s[:60] + "…"
	}
	return s
}

func init() {
	extractors = append(extractors, func(o *out) {
		b := o.w("PkgVars.lean")
		pkgs := []struct{ name, dir string }{
			{"streams", "internal/streams"}, {"server", "internal/server"}, {"socketace", "internal/socketace"},
			{"upstream", "internal/client/upstream"}, {"listener", "internal/client/listener"}, {"cert", "internal/util/cert"},
			{"enc", "internal/util/enc"}, {"addr", "internal/util/addr"}, {"dns", "internal/streams/dns"},
			{"dnscommands", "internal/streams/dns/commands"}, {"dnsutil", "internal/streams/dns/util"},
		}
		for _, p := range pkgs {
			var vars []string
			for _, f := range goFiles(p.dir) {
				af := parse(f)
				if af == nil {
					fail("%s: cannot parse", f)
					continue
				}
				for _, d := range af.Decls {
					gd, ok := d.(*ast.GenDecl)
					if !ok || gd.Tok != token.VAR {
						continue
					}
					for _, sp := range gd.Specs {
						vs := sp.(*ast.ValueSpec)
						for i, n := range vs.Names {
							desc := ""
							if vs.Type != nil {
								desc = varBrief(vs.Type)
							}
							if i < len(vs.Values) {
								if desc != "" {
									desc += " = "
								}
								desc += varBrief(vs.Values[i])
							}
							vars = append(vars, n.Name+" : "+desc)
						}
					}
				}
			}
			sort.Strings(vars)
			fmt.Fprintf(b, "/-- package-level variables of %s -/\ndef pkgVars_%s : List String := [\n", p.dir, p.name)
			for i, v := range vars {
				sep := ","
				if i == len(vars)-1 {
					sep = ""
				}
				fmt.Fprintf(b, "  %q%s\n", v, sep)
			}
			fmt.Fprintf(b, "]\n\n")
			names := make([]string, len(vars))
			for i, v := range vars {
				names[i] = fmt.Sprintf("%q", strings.SplitN(v, " : ", 2)[0])
			}
			fmt.Fprintf(b, "def pkgVarNames_%s : List String := [%s]\n\n", p.name, strings.Join(names, ", "))
			// fields of the struct types of which a package-level variable holds an instance (process-wide singletons
			// such as the encoders): a field added there is process-wide state just as well
			structs := map[string][]string{}
			single := map[string]bool{}
			for _, f := range goFiles(p.dir) {
				af := parse(f)
				if af == nil {
					continue
				}
				for _, d := range af.Decls {
					gd, ok := d.(*ast.GenDecl)
					if !ok {
						continue
					}
					for _, sp := range gd.Specs {
						switch x := sp.(type) {
						case *ast.TypeSpec:
							if st, ok := x.Type.(*ast.StructType); ok {
								var fs []string
								for _, fl := range st.Fields.List {
									if len(fl.Names) == 0 {
										fs = append(fs, x.Name.Name+"."+typeName(fl.Type))
									}
									for _, n := range fl.Names {
										fs = append(fs, x.Name.Name+"."+n.Name)
									}
								}
								structs[x.Name.Name] = fs
							}
						case *ast.ValueSpec:
							if gd.Tok != token.VAR {
								continue
							}
							for _, v := range x.Values {
								e := v
								if u, ok := e.(*ast.UnaryExpr); ok {
									e = u.X
								}
								if cl, ok := e.(*ast.CompositeLit); ok {
									if t := typeName(cl.Type); t != "" {
										single[t] = true
									}
								}
							}
						}
					}
				}
			}
			var sf []string
			for t := range single {
				sf = append(sf, structs[t]...)
			}
			sort.Strings(sf)
			q := make([]string, len(sf))
			for i, x := range sf {
				q[i] = fmt.Sprintf("%q", x)
			}
			fmt.Fprintf(b, "/-- fields of the struct types instantiated by package-level variables of %s -/\ndef singletonFields_%s : List String := [%s]\n\n", p.dir, p.name, strings.Join(q, ", "))
		}
	})
}

package main

// C06 / C04 facts: handshake literals (method names, header names, capability token, security techs), the
// protocol versions, every status the server answers with, the literals the decision trees compare against,
// the panic-site inventory of the handshake files, and the mustSecure guard shape at the five Connect sites.

import (
	"fmt"
	"go/ast"
	"go/constant"
	"go/token"
	"sort"
	"strconv"
	"strings"
)

var httpStatus = map[string]int64{
	"http.StatusOK": 200, "http.StatusSwitchingProtocols": 101, "http.StatusBadRequest": 400,
	"http.StatusMethodNotAllowed": 405, "http.StatusNotAcceptable": 406, "http.StatusConflict": 409,
	"http.StatusInternalServerError": 500, "http.StatusServiceUnavailable": 503,
	"http.StatusUnauthorized": 401, "http.StatusForbidden": 403, "http.StatusNotFound": 404,
	"http.StatusUpgradeRequired": 426, "http.StatusNotImplemented": 501, "http.StatusBadGateway": 502,
}

// c06eval folds string/int constant expressions incl. strconv.Itoa(http.StatusX) and file constants.
func c06eval(e ast.Expr, en env) constant.Value {
	switch x := e.(type) {
	case *ast.CallExpr:
		if exprString(x.Fun) == "strconv.Itoa" && len(x.Args) == 1 {
			if v := c06eval(x.Args[0], en); v != nil && v.Kind() == constant.Int {
				return constant.MakeString(v.ExactString())
			}
		}
		return nil
	case *ast.SelectorExpr:
		if n, ok := httpStatus[exprString(x)]; ok {
			return constant.MakeInt64(n)
		}
		if v, ok := en[exprString(x)]; ok {
			return v
		}
		return nil
	case *ast.BinaryExpr:
		a, b := c06eval(x.X, en), c06eval(x.Y, en)
		if a == nil || b == nil {
			return nil
		}
		if a.Kind() != b.Kind() {
			return nil
		}
		return constant.BinaryOp(a, x.Op, b)
	case *ast.ParenExpr:
		return c06eval(x.X, en)
	}
	return evalExpr(e, en)
}

// ---- same-package helper resolution (a fact about "handshake builds / writes a response" also holds when the
// building / writing happens in an unexported helper the function calls)

var c06pkgFilesCache []*ast.File

// c06pkgFiles: the non-test files of internal/socketace that can carry a helper of the handshake code.
func c06pkgFiles() []*ast.File {
	if c06pkgFilesCache == nil {
		for _, rel := range []string{"server.go", "client.go", "util.go", "request.go", "response.go"} {
			c06pkgFilesCache = append(c06pkgFilesCache, parse("internal/socketace/"+rel))
		}
	}
	return c06pkgFilesCache
}

// c06callee resolves `f(…)` to a plain function and `x.m(…)` (x an identifier, e.g. the receiver) to a method of that
// name declared in the package; nil when it is something else (another package, a func value, a builtin).
func c06callee(c *ast.CallExpr) *ast.FuncDecl {
	name, method := "", false
	switch f := c.Fun.(type) {
	case *ast.Ident:
		name = f.Name
	case *ast.SelectorExpr:
		x, ok := f.X.(*ast.Ident)
		if !ok || x.Obj == nil { // package-qualified names (log.Warnf, errors.New) have no Obj
			return nil
		}
		name, method = f.Sel.Name, true
	default:
		return nil
	}
	for _, file := range c06pkgFiles() {
		for _, d := range file.Decls {
			fd, ok := d.(*ast.FuncDecl)
			if ok && fd.Body != nil && fd.Name.Name == name && (fd.Recv != nil) == method {
				return fd
			}
		}
	}
	return nil
}

// c06paramNames: the parameter names of fd in order ("" for unnamed / blank ones).
func c06paramNames(fd *ast.FuncDecl) []string {
	var ns []string
	for _, fl := range fd.Type.Params.List {
		if len(fl.Names) == 0 {
			ns = append(ns, "")
		}
		for _, n := range fl.Names {
			ns = append(ns, n.Name)
		}
	}
	return ns
}

// c06bind: the environment inside callee fd for the call c: the constants of en plus every parameter whose argument
// folds to a constant.
func c06bind(fd *ast.FuncDecl, c *ast.CallExpr, en env) env {
	e2 := env{}
	for k, v := range en {
		e2[k] = v
	}
	ns := c06paramNames(fd)
	for i, a := range c.Args {
		if i < len(ns) && ns[i] != "" && ns[i] != "_" {
			delete(e2, ns[i])
			if v := c06eval(a, en); v != nil {
				e2[ns[i]] = v
			}
		}
	}
	return e2
}

// c06respLit: (StatusCode, Status) of a `Response{…}` / `&Response{…}` literal under en; ok=false when e is not one.
// A field that is absent or does not fold to a constant is reported as "".
func c06respLit(e ast.Expr, en env) (code, st string, ok bool) {
	if u, isU := e.(*ast.UnaryExpr); isU && u.Op == token.AND {
		e = u.X
	}
	cl, isCl := e.(*ast.CompositeLit)
	if !isCl || exprString(cl.Type) != "Response" {
		return "", "", false
	}
	for _, el := range cl.Elts {
		kv, isKv := el.(*ast.KeyValueExpr)
		if !isKv {
			continue
		}
		v := c06eval(kv.Value, en)
		if v == nil {
			continue
		}
		switch exprString(kv.Key) {
		case "Status":
			if v.Kind() == constant.String {
				st = constant.StringVal(v)
			}
		case "StatusCode":
			code = v.ExactString()
		}
	}
	return code, st, true
}

// c06respCall: a call of a package helper that does nothing but build a response: its body contains exactly one
// Response literal (evaluated with the parameters bound to the constant arguments of the call), or returns the result
// of another such helper (followed up to three levels).  ok=false when the call is not of that kind.
func c06respCall(c *ast.CallExpr, en env, depth int) (code, st string, ok bool) {
	fd := c06callee(c)
	if fd == nil || depth > 3 || fd.Type.Results == nil || len(fd.Type.Results.List) != 1 {
		return "", "", false
	}
	rt := fd.Type.Results.List[0].Type
	if s, isS := rt.(*ast.StarExpr); isS {
		rt = s.X
	}
	if exprString(rt) != "Response" {
		return "", "", false
	}
	e2 := c06bind(fd, c, en)
	n := 0
	ast.Inspect(fd.Body, func(nd ast.Node) bool {
		switch x := nd.(type) {
		case *ast.CompositeLit:
			if c2, s2, isR := c06respLit(x, e2); isR {
				code, st = c2, s2
				n++
			}
		case *ast.CallExpr:
			if c2, s2, isR := c06respCall(x, e2, depth+1); isR {
				code, st = c2, s2
				n++
				return false
			}
		case *ast.AssignStmt:
			// a helper that sets the status afterwards is not a pure builder: not vouched for
			for _, l := range x.Lhs {
				if strings.HasSuffix(exprString(l), ".Status") || strings.HasSuffix(exprString(l), ".StatusCode") {
					n += 2
				}
			}
		}
		return true
	})
	if n != 1 {
		return "", "", n > 0 // a Response-returning helper of a shape we cannot read: ok with empty values = caller fails
	}
	return code, st, true
}

func leanStr06(s string) string { return strconv.Quote(s) }

func init() {
	extractors = append(extractors, func(o *out) {
		b := o.w("C06.lean")
		ver := fileConsts(parse("internal/version/version.go"), nil)
		en := env{}
		for k, v := range ver {
			en["version."+k] = v
		}
		utilF := parse("internal/socketace/util.go")
		en = fileConsts(utilF, en)
		def := func(name, doc string, s string) {
			fmt.Fprintf(b, "/-- %s = %s -/\ndef %s : List Nat := %s\n", doc, leanStr06(s), name, leanBytes(s))
		}
		for _, c := range [][2]string{{"RequestMethod", "requestMethod"}, {"AcceptsProtocolVersion", "acceptsProtocolVersion"},
			{"UserAgent", "userAgent"}, {"Capabilities", "capabilitiesHdr"}, {"CapabilityStartTls", "capabilityStartTls"},
			{"SecurityUnderlying", "securityUnderlying"}, {"SecurityNone", "securityNone"}, {"SecurityTls", "securityTls"}} {
			def(c[1], "internal/socketace/util.go "+c[0], strConst(en, c[0], "socketace/util.go"))
		}
		def("c06ProtocolVersion", "internal/version/version.go ProtocolVersion", strConst(ver, "ProtocolVersion", "version.go"))
		def("unknownVersion", "internal/version/version.go UnknownVersion (AppVersion() of an unstamped build)", strConst(ver, "UnknownVersion", "version.go"))
		// SupportedProtocolVersions
		var sup []string
		found := false
		for _, d := range utilF.Decls {
			g, ok := d.(*ast.GenDecl)
			if !ok || g.Tok != token.VAR {
				continue
			}
			for _, s := range g.Specs {
				vs := s.(*ast.ValueSpec)
				for i, n := range vs.Names {
					if n.Name == "SupportedProtocolVersions" && i < len(vs.Values) {
						if cl, ok := vs.Values[i].(*ast.CompositeLit); ok {
							found = true
							for _, el := range cl.Elts {
								v := c06eval(el, en)
								if v == nil || v.Kind() != constant.String {
									fail("SupportedProtocolVersions: element %s is not a constant string", src(el))
									continue
								}
								sup = append(sup, constant.StringVal(v))
							}
						}
					}
				}
			}
		}
		if !found {
			fail("SupportedProtocolVersions not found in socketace/util.go")
		}
		parts := []string{}
		for _, s := range sup {
			parts = append(parts, leanBytes(s))
		}
		fmt.Fprintf(b, "/-- internal/socketace/util.go SupportedProtocolVersions, in the server's order of preference: %q -/\ndef supportedVersions : List (List Nat) := [%s]\n", sup, strings.Join(parts, ", "))

		// ---- statuses answered by the server: every Response literal / Status assignment in handshake and upgrade
		serverF := parse("internal/socketace/server.go")
		statuses := func(fn string) [][2]string {
			fd := findFunc(serverF, "ServerConnection", fn)
			var res [][2]string
			if fd == nil {
				fail("ServerConnection.%s not found", fn)
				return nil
			}
			rank := c06canonRank(fd.Body)
			var at []int
			ast.Inspect(fd.Body, func(n ast.Node) bool {
				defer func() { // what this visit appended to res is ranked by the statement that holds n
					for n != nil && len(at) < len(res) {
						at = append(at, rank(n.Pos()))
					}
				}()
				switch x := n.(type) {
				case *ast.CompositeLit:
					code, st, ok := c06respLit(x, en)
					if !ok {
						return true
					}
					if st == "" || code == "" {
						fail("%s: Response literal without constant Status/StatusCode: %s", fn, src(x))
					}
					res = append(res, [2]string{code, st})
				case *ast.CallExpr:
					// a response built by a helper of the package (`newErrorResponse(http.StatusX, "…")`)
					code, st, ok := c06respCall(x, en, 0)
					if !ok {
						return true
					}
					if st == "" || code == "" {
						fail("%s: response built by %s without constant Status/StatusCode", fn, src(x))
					}
					res = append(res, [2]string{code, st})
				case *ast.AssignStmt:
					if len(x.Lhs) == 1 && len(x.Rhs) == 1 && strings.HasSuffix(exprString(x.Lhs[0]), ".Status") {
						if v := c06eval(x.Rhs[0], en); v != nil && v.Kind() == constant.String {
							s := constant.StringVal(v)
							res = append(res, [2]string{strings.SplitN(s, " ", 2)[0], s})
						} else {
							fail("%s: non-constant Status assignment %s", fn, src(x))
						}
					}
				}
				return true
			})
			// normalised source order (c06canonRank): which of two exclusive branches is written first does not matter
			order := make([]int, len(res))
			for i := range order {
				order[i] = i
			}
			sort.SliceStable(order, func(a, b int) bool { return at[order[a]] < at[order[b]] })
			sorted := make([][2]string, 0, len(res))
			for _, i := range order {
				sorted = append(sorted, res[i])
			}
			res = sorted
			return res
		}
		emitStatuses := func(name string, st [][2]string) {
			ps := []string{}
			for _, s := range st {
				ps = append(ps, fmt.Sprintf("(%s, %s)", s[0], leanBytes(s[1])))
			}
			fmt.Fprintf(b, "/-- (status code, status text) of every response built in server.go %s, source order (branches of a negated test positive-first): %q -/\ndef %s : List (Nat × List Nat) := [%s]\n", name, st, name, strings.Join(ps, ", "))
		}
		emitStatuses("handshakeStatuses", statuses("handshake"))
		emitStatuses("upgradeStatuses", statuses("upgrade"))

		// ---- literals the decision trees compare against
		cmpLit := func(f *ast.File, recv, fn, marker string) (string, string) {
			fd := findFunc(f, recv, fn)
			if fd == nil {
				fail("%s.%s not found", recv, fn)
				return "", ""
			}
			var lit, op string
			ast.Inspect(fd.Body, func(n ast.Node) bool {
				be, ok := n.(*ast.BinaryExpr)
				if !ok || (be.Op != token.NEQ && be.Op != token.EQL) || lit != "" {
					return true
				}
				l, r := src(be.X), src(be.Y)
				var other ast.Expr
				if strings.Contains(l, marker) {
					other = be.Y
				} else if strings.Contains(r, marker) {
					other = be.X
				} else {
					return true
				}
				// strip strings.ToUpper/ToLower around the constant side
				if ce, ok := other.(*ast.CallExpr); ok && len(ce.Args) == 1 && strings.HasPrefix(exprString(ce.Fun), "strings.To") {
					other = ce.Args[0]
				}
				// "socketace/"+sc.negotiatedVersion: the constant prefix
				if b2, ok := other.(*ast.BinaryExpr); ok && b2.Op == token.ADD {
					if v := c06eval(b2.X, en); v != nil && v.Kind() == constant.String {
						lit, op = constant.StringVal(v), be.Op.String()
						return false
					}
				}
				if v := c06eval(other, en); v != nil {
					if v.Kind() == constant.String {
						lit = constant.StringVal(v)
					} else {
						lit = v.ExactString()
					}
					op = be.Op.String()
					return false
				}
				return true
			})
			if lit == "" {
				fail("%s.%s: comparison on %q with a constant not found", recv, fn, marker)
			}
			return lit, op
		}
		want := func(name, doc string, lit, op, wantOp string) {
			if op != wantOp {
				fail("%s: comparison operator is %s, the model was written for %s", name, op, wantOp)
			}
			def(name, doc, lit)
		}
		l, op := cmpLit(serverF, "ServerConnection", "handshake", ".Method")
		want("srvAnnounceMethod", "server.go handshake: request.Method != <this> -> 405", l, op, "!=")
		l, op = cmpLit(serverF, "ServerConnection", "upgrade", ".Method")
		want("srvUpgradeMethod", "server.go upgrade: request.Method != <this> -> 405", l, op, "!=")
		l, op = cmpLit(serverF, "ServerConnection", "upgrade", `Get("Connection")`)
		want("srvUpgradeConnection", "server.go upgrade: ToLower(Get(\"Connection\")) != <this> -> 406", l, op, "!=")
		l, op = cmpLit(serverF, "ServerConnection", "upgrade", `Get("Upgrade")`)
		want("srvUpgradePrefix", "server.go upgrade: Get(\"Upgrade\") != <this>+negotiatedVersion -> 406", l, op, "!=")
		l, op = cmpLit(serverF, "ServerConnection", "upgrade", `Get("Security")`)
		want("srvSecurityToken", "server.go upgrade: ToUpper(Get(\"Security\")) == ToUpper(<this>) -> StartTLS asked", l, op, "==")
		clientF := parse("internal/socketace/client.go")
		l, op = cmpLit(clientF, "ClientConnection", "handshake", ".StatusCode")
		if op != "!=" {
			fail("client handshake status comparison is %s", op)
		}
		fmt.Fprintf(b, "/-- client.go handshake: response.StatusCode != <this> -> refused -/\ndef cliHandshakeStatus : Int := %s\n", l)
		l, op = cmpLit(clientF, "ClientConnection", "upgrade", ".StatusCode")
		if op != "!=" {
			fail("client upgrade status comparison is %s", op)
		}
		fmt.Fprintf(b, "/-- client.go upgrade: response.StatusCode != <this> -> refused -/\ndef cliUpgradeStatus : Int := %s\n", l)

		// ---- panic-site inventory of the handshake files
		var sites []string
		for _, rel := range []string{"internal/socketace/request.go", "internal/socketace/response.go", "internal/socketace/server.go",
			"internal/socketace/client.go", "internal/socketace/util.go", "internal/util/mime/fieldsplitter.go", "internal/streams/bufferedinput_connection.go"} {
			f := parse(rel)
			for _, d := range f.Decls {
				fd, ok := d.(*ast.FuncDecl)
				if !ok || fd.Body == nil {
					continue
				}
				commaOk := map[ast.Expr]bool{}
				ast.Inspect(fd.Body, func(n ast.Node) bool {
					if as, ok := n.(*ast.AssignStmt); ok && len(as.Lhs) == 2 && len(as.Rhs) == 1 {
						commaOk[as.Rhs[0]] = true
					}
					if vs, ok := n.(*ast.ValueSpec); ok && len(vs.Names) == 2 && len(vs.Values) == 1 {
						commaOk[vs.Values[0]] = true
					}
					return true
				})
				base := rel[strings.LastIndex(rel, "/")+1:]
				ast.Inspect(fd.Body, func(n ast.Node) bool {
					switch x := n.(type) {
					case *ast.IndexExpr:
						sites = append(sites, fmt.Sprintf("%s:%s:index", base, fd.Name.Name))
					case *ast.SliceExpr:
						sites = append(sites, fmt.Sprintf("%s:%s:slice", base, fd.Name.Name))
					case *ast.TypeAssertExpr:
						if x.Type != nil && !commaOk[x] {
							sites = append(sites, fmt.Sprintf("%s:%s:assert", base, fd.Name.Name))
						}
					case *ast.CallExpr:
						if id, ok := x.Fun.(*ast.Ident); ok && id.Name == "panic" {
							sites = append(sites, fmt.Sprintf("%s:%s:panic-call", base, fd.Name.Name))
						}
					}
					return true
				})
			}
		}
		sort.Strings(sites)
		uniq := sites[:0]
		for i, s := range sites {
			if i == 0 || s != sites[i-1] {
				uniq = append(uniq, s)
			}
		}
		sites = uniq
		qs := []string{}
		for _, s := range sites {
			qs = append(qs, "  "+leanStr06(s))
		}
		fmt.Fprintf(b, "/-- file:function:kind of every index / slice / unchecked type assertion / explicit panic call in the handshake files -/\ndef c06PanicSites : List String := [\n%s]\n", strings.Join(qs, ",\n"))

		// ---- C04: the mustSecure guard at the five Connect sites and Upstreams.open
		c4 := o.w("C04.lean")
		type site struct{ file, recv, fn string }
		var rows []string
		for _, s := range []site{{"socket.go", "Socket", "Connect"}, {"http.go", "Http", "Connect"}, {"packet.go", "Packet", "ConnectPacket"},
			{"input_output.go", "InputOutput", "Connect"}, {"dns.go", "Dns", "Connect"}} {
			f := parse("internal/client/upstream/" + s.file)
			fd := findFunc(f, s.recv, s.fn)
			if fd == nil {
				fail("%s.%s not found", s.recv, s.fn)
				continue
			}
			guardPos, assignPos, callPos := token.NoPos, token.NoPos, token.NoPos
			guardReturns := false
			ast.Inspect(fd.Body, func(n ast.Node) bool {
				switch x := n.(type) {
				case *ast.IfStmt:
					c := src(x.Cond)
					if strings.Contains(c, "mustSecure") && strings.Contains(c, "&&") && strings.Contains(c, "!") && strings.Contains(c, ".Secure()") && guardPos == token.NoPos {
						guardPos = x.Pos()
						for _, st := range x.Body.List {
							if r, ok := st.(*ast.ReturnStmt); ok && len(r.Results) == 1 && src(r.Results[0]) != "nil" {
								guardReturns = true
							}
						}
					}
				case *ast.AssignStmt:
					for _, lh := range x.Lhs {
						if strings.HasSuffix(exprString(lh), ".Connection") && assignPos == token.NoPos {
							assignPos = x.Pos()
						}
					}
				case *ast.CallExpr:
					if strings.HasSuffix(exprString(x.Fun), "NewClientConnection") && callPos == token.NoPos {
						callPos = x.Pos()
					}
				}
				return true
			})
			present := guardPos != token.NoPos && guardReturns
			before := present && assignPos != token.NoPos && guardPos < assignPos && callPos != token.NoPos && callPos < guardPos
			rows = append(rows, fmt.Sprintf("(%s, %v, %v)", leanStr06(s.file+":"+s.recv+"."+s.fn), present, before))
		}
		fmt.Fprintf(c4, "/-- per upstream Connect: (site, `if … mustSecure && !cc.Secure() { return <error> }` present,\n    it follows NewClientConnection and precedes the assignment of ups.Connection) -/\ndef mustSecureGuards : List (String × Bool × Bool) := [\n  %s]\n", strings.Join(rows, ",\n  "))
		// Upstreams.open: `ul.connection = a` only after `err = a.Connect(...)` and a `continue` on error
		uf := parse("internal/client/upstream/upstream.go")
		fd := findFunc(uf, "Upstreams", "open")
		storeAfter := false
		passesMust := false
		if fd == nil {
			fail("Upstreams.open not found")
		} else {
			ast.Inspect(fd.Body, func(n ast.Node) bool {
				rs, ok := n.(*ast.RangeStmt)
				if !ok {
					return true
				}
				stage := 0
				for _, st := range rs.Body.List {
					switch x := st.(type) {
					case *ast.AssignStmt:
						if stage == 0 && len(x.Rhs) == 1 && strings.Contains(src(x.Rhs[0]), ".Connect(") {
							stage = 1
							passesMust = strings.Contains(src(x.Rhs[0]), "ul.MustSecure")
						} else if stage == 2 && strings.HasSuffix(exprString(x.Lhs[0]), ".connection") {
							stage = 3
						} else if stage < 2 && strings.HasSuffix(exprString(x.Lhs[0]), ".connection") {
							stage = -1
						}
					case *ast.IfStmt:
						if stage == 1 && src(x.Cond) == "err != nil" {
							for _, s2 := range x.Body.List {
								if br, ok := s2.(*ast.BranchStmt); ok && br.Tok == token.CONTINUE {
									stage = 2
								}
								if _, ok := s2.(*ast.ReturnStmt); ok {
									stage = 2
								}
							}
						}
					}
				}
				storeAfter = stage == 3
				return false
			})
		}
		fmt.Fprintf(c4, "/-- upstream.go Upstreams.open stores `ul.connection` only after `Connect` returned nil -/\ndef openStoresAfterConnect : Bool := %v\n/-- Upstreams.open passes ul.MustSecure to Connect -/\ndef openPassesMustSecure : Bool := %v\n", storeAfter, passesMust)
		// client shouldStartTls expression and where the Security header is set
		ncc := findFunc(clientF, "", "NewClientConnection")
		should := ""
		if ncc != nil {
			ast.Inspect(ncc.Body, func(n ast.Node) bool {
				if as, ok := n.(*ast.AssignStmt); ok && len(as.Lhs) == 1 && exprString(as.Lhs[0]) == "shouldStartTls" {
					should = src(as.Rhs[0])
				}
				return true
			})
		}
		shape := "other"
		if strings.HasPrefix(should, "!secure && ") && strings.Contains(should, "containsCapability(") && strings.Contains(should, "CapabilityStartTls") {
			shape = "notSecureAndCapability"
		}
		if should == "" {
			fail("NewClientConnection: shouldStartTls assignment not found")
		}
		fmt.Fprintf(c4, "/-- client.go NewClientConnection: shouldStartTls := %s -/\ndef shouldStartTlsShape : String := %s\n", should, leanStr06(shape))
		_ = sort.Strings
	})
}

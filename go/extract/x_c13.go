package main

// C13 facts: session table size, the timeouts, and the *assignment lists* of the two loops of the pruning task
// started in NewServerDnsListener (which table each loop ranges over, which timeout it compares with, what it
// assigns to connections[u.UserId] / oldConnections[u.UserId]).  The Lean `expire` interprets these lists.
//
// The pruning task is "what the first goroutine started in NewServerDnsListener runs": a function literal or an unexported
// helper of the package, followed (c13Walk) into the unexported helpers it calls -- the two loops are found wherever they
// live (e.g. in a method pruneStaleConnections(now)), the sleep interval may be a named constant, and "the current
// time" of the expiry test is anything that resolves to time.Now() (a local, or a parameter bound to it at the call).

import (
	"fmt"
	"go/ast"
	"go/constant"
	"go/token"
	"os"
	"path/filepath"
	"strings"
)

func init() {
	extractors = append(extractors, extractC13)
}

func tableIndex(name string) int {
	switch name {
	case "connections":
		return 0
	case "oldConnections":
		return 1
	}
	return -1
}

// ---- helpers shared by the C13 extractors: following calls into unexported helpers of the same package --------------

// c13PkgFuncs returns every function declaration of the (non-test) files of a package directory, by name.
func c13PkgFuncs(dir string) map[string][]*ast.FuncDecl {
	m := map[string][]*ast.FuncDecl{}
	ents, err := os.ReadDir(filepath.Join(repo, dir))
	if err != nil {
		fail("read %s: %v", dir, err)
		return m
	}
	for _, e := range ents {
		n := e.Name()
		if e.IsDir() || !strings.HasSuffix(n, ".go") || strings.HasSuffix(n, "_test.go") {
			continue
		}
		for _, d := range parse(filepath.Join(dir, n)).Decls {
			if fd, ok := d.(*ast.FuncDecl); ok && fd.Body != nil {
				m[fd.Name.Name] = append(m[fd.Name.Name], fd)
			}
		}
	}
	return m
}

// c13Callee resolves a call of an *unexported* function `name(…)` or method `<x>.name(…)` of the same package to its
// declaration (nil when it is not one, or when the name is declared more than once in the package -- the extractor has
// no type information).  An unexported method can only be a method of this package.
func c13Callee(funcs map[string][]*ast.FuncDecl, call *ast.CallExpr) *ast.FuncDecl {
	name, method := "", false
	switch fn := call.Fun.(type) {
	case *ast.Ident:
		name = fn.Name
	case *ast.SelectorExpr:
		name, method = fn.Sel.Name, true
	default:
		return nil
	}
	if name == "" || !(name[0] == '_' || (name[0] >= 'a' && name[0] <= 'z')) {
		return nil
	}
	ds := funcs[name]
	if len(ds) != 1 || (ds[0].Recv != nil) != method {
		return nil
	}
	return ds[0]
}

// c13GoBody: the body run by the first goroutine started in a function: `go func() { … }()` or `go <x>.helper(…)` /
// `go helper(…)` with an unexported helper of the package.
func c13GoBody(funcs map[string][]*ast.FuncDecl, in *ast.FuncDecl) (body *ast.BlockStmt, sc *c13Scope) {
	ast.Inspect(in.Body, func(n ast.Node) bool {
		g, ok := n.(*ast.GoStmt)
		if !ok || body != nil {
			return body == nil
		}
		outer := &c13Scope{body: in.Body}
		if fl, ok := g.Call.Fun.(*ast.FuncLit); ok {
			body, sc = fl.Body, outer.enter(fl.Type, fl.Body, g.Call.Args)
		} else if fd := c13Callee(funcs, g.Call); fd != nil {
			body, sc = fd.Body, outer.enter(fd.Type, fd.Body, g.Call.Args)
		}
		return false
	})
	return
}

// c13Scope: where an identifier of an inlined body comes from (parameters are bound to the call's arguments)
type c13Scope struct {
	body   *ast.BlockStmt
	params map[string]ast.Expr
	parent *c13Scope
	depth  int
}

func (sc *c13Scope) enter(ft *ast.FuncType, body *ast.BlockStmt, args []ast.Expr) *c13Scope {
	n := &c13Scope{body: body, params: map[string]ast.Expr{}, parent: sc, depth: sc.depth + 1}
	i := 0
	if ft != nil && ft.Params != nil {
		for _, fld := range ft.Params.List {
			for _, nm := range fld.Names {
				if i < len(args) {
					n.params[nm.Name] = args[i]
				}
				i++
			}
		}
	}
	return n
}

func c13TimeNow(e ast.Expr) bool {
	c, ok := e.(*ast.CallExpr)
	return ok && len(c.Args) == 0 && exprString(c.Fun) == "time.Now"
}

// isNow: the expression is the current time -- `time.Now()`, a local variable whose every assignment is `time.Now()`,
// or a parameter bound to such an expression at the call.
func (sc *c13Scope) isNow(e ast.Expr) bool {
	if c13TimeNow(e) {
		return true
	}
	id, ok := e.(*ast.Ident)
	if !ok || sc == nil {
		return false
	}
	if a, ok := sc.params[id.Name]; ok {
		return sc.parent.isNow(a)
	}
	n, all := 0, true
	ast.Inspect(sc.body, func(x ast.Node) bool {
		if as, ok := x.(*ast.AssignStmt); ok {
			for i, l := range as.Lhs {
				if exprString(l) == id.Name {
					n++
					if len(as.Lhs) != len(as.Rhs) || !c13TimeNow(as.Rhs[i]) {
						all = false
					}
				}
			}
		}
		return true
	})
	if n == 0 && sc.parent != nil { // a closure sees the enclosing function's variables
		return sc.parent.isNow(e)
	}
	return n > 0 && all
}

// c13Conjuncts splits `a && (b && c)` into [a, b, c]
func c13Conjuncts(e ast.Expr) []ast.Expr {
	switch x := e.(type) {
	case *ast.ParenExpr:
		return c13Conjuncts(x.X)
	case *ast.BinaryExpr:
		if x.Op == token.LAND {
			return append(c13Conjuncts(x.X), c13Conjuncts(x.Y)...)
		}
	}
	return []ast.Expr{e}
}

// c13Walk visits the nodes of a body in source order and continues, at every call of an unexported helper of the package
// (directly or as `go helper(…)`), inside that helper (at most 3 levels deep; function literals that are not called
// are entered as ordinary nodes).
func c13Walk(funcs map[string][]*ast.FuncDecl, body *ast.BlockStmt, sc *c13Scope, visit func(n ast.Node, sc *c13Scope)) {
	ast.Inspect(body, func(n ast.Node) bool {
		if n == nil {
			return true
		}
		visit(n, sc)
		if call, ok := n.(*ast.CallExpr); ok && sc.depth < 4 {
			if fd := c13Callee(funcs, call); fd != nil {
				for _, a := range call.Args {
					c13Walk(funcs, &ast.BlockStmt{List: []ast.Stmt{&ast.ExprStmt{X: a}}}, sc, visit)
				}
				c13Walk(funcs, fd.Body, sc.enter(fd.Type, fd.Body, call.Args), visit)
				return false
			}
		}
		return true
	})
}

func extractC13(o *out) {
	const file = "internal/streams/dns/dns_server_connection.go"
	f := parse(file)
	funcs := c13PkgFuncs(filepath.Dir(file))
	b := o.w("C13.lean")
	en := env{"time.Minute": constant.MakeInt64(60), "time.Second": constant.MakeInt64(1), "time.Hour": constant.MakeInt64(3600)}
	en = fileConsts(f, en)
	fmt.Fprintf(b, "/-- %s ConnectionTimeout / OldConnectionTimeout (seconds) -/\n", file)
	fmt.Fprintf(b, "def connectionTimeout : Nat := %d\ndef oldConnectionTimeout : Nat := %d\n", intConst(en, "ConnectionTimeout", file), intConst(en, "OldConnectionTimeout", file))

	ctor := findFunc(f, "", "NewServerDnsListener")
	if ctor == nil {
		fail("NewServerDnsListener not found")
		return
	}
	// local const MaxUserCount
	maxUsers := int64(-1)
	goBody, goScope := c13GoBody(funcs, ctor)
	ast.Inspect(ctor.Body, func(n ast.Node) bool {
		switch x := n.(type) {
		case *ast.GenDecl:
			if x.Tok == token.CONST {
				for _, s := range x.Specs {
					vs := s.(*ast.ValueSpec)
					for i, nm := range vs.Names {
						if nm.Name == "MaxUserCount" && i < len(vs.Values) {
							if v := evalExpr(vs.Values[i], en); v != nil {
								maxUsers, _ = constant.Int64Val(constant.ToInt(v))
							}
						}
					}
				}
			}
		}
		return true
	})
	if maxUsers <= 0 {
		fail("MaxUserCount not found in NewServerDnsListener")
	}
	fmt.Fprintf(b, "/-- slots of connections / oldConnections -/\ndef maxUsers : Nat := %d\n", maxUsers)
	// both tables are made with MaxUserCount
	made := map[string]bool{}
	ast.Inspect(ctor.Body, func(n ast.Node) bool {
		kv, ok := n.(*ast.KeyValueExpr)
		if !ok {
			return true
		}
		k, _ := kv.Key.(*ast.Ident)
		call, _ := kv.Value.(*ast.CallExpr)
		if k == nil || call == nil || len(call.Args) != 2 {
			return true
		}
		if fn, _ := call.Fun.(*ast.Ident); fn != nil && fn.Name == "make" {
			if a, _ := call.Args[1].(*ast.Ident); a != nil && a.Name == "MaxUserCount" {
				made[k.Name] = true
			}
		}
		return true
	})
	if !made["connections"] || !made["oldConnections"] {
		fail("connections/oldConnections are no longer make(…, MaxUserCount)")
	}
	if goBody == nil {
		fail("pruning goroutine not found in NewServerDnsListener")
		return
	}
	// sweep interval and the range loops
	sleep := int64(-1)
	type loop struct {
		table   int
		timeout string
		assigns []string
	}
	var loops []loop
	// the goroutine's body, followed into the unexported helpers it calls (the loops may live in a method of the listener)
	c13Walk(funcs, goBody, goScope, func(n ast.Node, sc *c13Scope) {
		switch x := n.(type) {
		case *ast.CallExpr:
			if exprString(x.Fun) == "time.Sleep" && len(x.Args) == 1 {
				if v := evalExpr(x.Args[0], en); v != nil {
					sleep, _ = constant.Int64Val(constant.ToInt(v))
				}
			}
		case *ast.RangeStmt:
			sel, ok := x.X.(*ast.SelectorExpr)
			if !ok || tableIndex(sel.Sel.Name) < 0 {
				return
			}
			val, _ := x.Value.(*ast.Ident)
			if val == nil {
				fail("pruning loop over %s has no value variable", sel.Sel.Name)
				return
			}
			l := loop{table: tableIndex(sel.Sel.Name)}
			// the expiry `if` (anywhere in the loop body, possibly as one conjunct of the condition):
			// <val>.lastConnection.Add(<Timeout>).Before(<the current time>)
			found := false
			var ifStmts []*ast.IfStmt
			ast.Inspect(x.Body, func(m ast.Node) bool {
				if is, ok := m.(*ast.IfStmt); ok {
					ifStmts = append(ifStmts, is)
				}
				_, lit := m.(*ast.FuncLit)
				return !lit
			})
			for _, ifs := range ifStmts {
				var add *ast.CallExpr
				for _, cj := range c13Conjuncts(ifs.Cond) {
					call, ok := cj.(*ast.CallExpr)
					if !ok {
						continue // the nil check
					}
					s1, ok := call.Fun.(*ast.SelectorExpr)
					if !ok || s1.Sel.Name != "Before" || len(call.Args) != 1 || !sc.isNow(call.Args[0]) {
						continue
					}
					ad, ok := s1.X.(*ast.CallExpr)
					if !ok || len(ad.Args) != 1 {
						continue
					}
					s2, ok := ad.Fun.(*ast.SelectorExpr)
					if !ok || s2.Sel.Name != "Add" || exprString(s2.X) != val.Name+".lastConnection" {
						continue
					}
					add = ad
				}
				if add == nil {
					continue
				}
				if found {
					fail("pruning loop over %s: more than one expiry condition", sel.Sel.Name)
				}
				l.timeout = exprString(add.Args[0])
				found = true
				for _, bs := range ifs.Body.List {
					as, ok := bs.(*ast.AssignStmt)
					if !ok {
						continue
					}
					if len(as.Lhs) != 1 || len(as.Rhs) != 1 {
						fail("pruning loop: unexpected assignment shape")
						continue
					}
					ix, ok := as.Lhs[0].(*ast.IndexExpr)
					if !ok {
						fail("pruning loop: assignment to something that is not a table slot")
						continue
					}
					tsel, ok := ix.X.(*ast.SelectorExpr)
					if !ok || tableIndex(tsel.Sel.Name) < 0 || exprString(ix.Index) != val.Name+".UserId" {
						fail("pruning loop: assignment target is not <table>[%s.UserId]", val.Name)
						continue
					}
					rhs := exprString(as.Rhs[0])
					switch rhs {
					case "nil":
						l.assigns = append(l.assigns, fmt.Sprintf("(%d, false)", tableIndex(tsel.Sel.Name)))
					case val.Name:
						l.assigns = append(l.assigns, fmt.Sprintf("(%d, true)", tableIndex(tsel.Sel.Name)))
					default:
						fail("pruning loop: unexpected right-hand side %s", rhs)
					}
				}
			}
			if !found {
				fail("pruning loop over %s: expiry condition <u>.lastConnection.Add(T).Before(now) not found", sel.Sel.Name)
			}
			loops = append(loops, l)
		}
	})
	if sleep <= 0 {
		fail("pruning goroutine: time.Sleep interval not found")
	}
	if len(loops) != 2 {
		fail("pruning goroutine: expected 2 range loops over the session tables, found %d", len(loops))
	}
	fmt.Fprintf(b, "/-- seconds between two runs of the pruning task -/\ndef sweepInterval : Nat := %d\n", sleep)
	fmt.Fprintf(b, "/-- the pruning loops in source order: (table ranged over: 0 = connections, 1 = oldConnections; timeout in\n    seconds; assignments `table[u.UserId] := (u if true else nil)` in source order) -/\n")
	fmt.Fprintf(b, "def expiryLoops : List (Nat × Nat × List (Nat × Bool)) := [\n")
	for i, l := range loops {
		t := int64(0)
		if v, ok := en[l.timeout]; ok {
			t, _ = constant.Int64Val(constant.ToInt(v))
		} else {
			fail("pruning loop: timeout %s is not a known package variable", l.timeout)
		}
		sep := ","
		if i == len(loops)-1 {
			sep = ""
		}
		fmt.Fprintf(b, "  (%d, %d, [%s])%s\n", l.table, t, strings.Join(l.assigns, ", "), sep)
	}
	fmt.Fprintf(b, "]\n")

	// newUser: which tables it looks at
	nu := findFunc(f, "ServerDnsListener", "newUser")
	if nu == nil {
		fail("newUser not found")
		return
	}
	ranged, mentionsOld := "", false
	ast.Inspect(nu.Body, func(n ast.Node) bool {
		switch x := n.(type) {
		case *ast.RangeStmt:
			if s, ok := x.X.(*ast.SelectorExpr); ok {
				ranged = s.Sel.Name
			}
		case *ast.SelectorExpr:
			if x.Sel.Name == "oldConnections" {
				mentionsOld = true
			}
		}
		return true
	})
	if ranged != "connections" {
		fail("newUser no longer ranges over connections")
	}
	fmt.Fprintf(b, "/-- newUser takes the lowest free slot of `connections`; does it also consult `oldConnections`? -/\ndef newUserLooksAtRetired : Bool := %v\n", mentionsOld)

	// newUser: every session it returns is one it has just created in an empty slot (`if u == nil { u = &userConnection{…};
	// s.connections[i] = u; s.accept <- u; return u, nil }`), and every such session is handed to Accept
	returnsExisting, freshReturns, accepts := false, 0, 0
	var stack []ast.Node
	ast.Inspect(nu.Body, func(n ast.Node) bool {
		if n == nil {
			stack = stack[:len(stack)-1]
			return true
		}
		inFresh := false
		for _, a := range stack {
			if is, ok := a.(*ast.IfStmt); ok {
				if be, ok := is.Cond.(*ast.BinaryExpr); ok && be.Op == token.EQL && exprString(be.X) == "u" && exprString(be.Y) == "nil" {
					inFresh = true
				}
			}
		}
		switch x := n.(type) {
		case *ast.ReturnStmt:
			if len(x.Results) == 2 && exprString(x.Results[0]) != "nil" {
				if inFresh {
					freshReturns++
				} else {
					returnsExisting = true
				}
			}
		case *ast.SendStmt:
			if inFresh && exprString(x.Chan) == "s.accept" && exprString(x.Value) == "u" {
				accepts++
			}
		}
		stack = append(stack, n)
		return true
	})
	if freshReturns != 1 || accepts != 1 {
		fail("newUser: the `if u == nil { …; s.accept <- u; return u, nil }` block is not in the recognised shape (%d returns, %d sends to s.accept)", freshReturns, accepts)
	}
	fmt.Fprintf(b, "/-- does newUser have a return path that hands out a session which was in `connections` already (instead of one it\n    has just created in an empty slot and sent to `accept`)? -/\ndef newUserReturnsExisting : Bool := %v\n", returnsExisting)

	// validateAndGetUser: the live table decides.  `user := s.connections[userId]` comes first and every look at
	// `s.oldConnections` happens under `if user == nil { … }`: what the retired table remembers under an identifier can only
	// matter while no live session holds that identifier.
	va := findFunc(f, "ServerDnsListener", "validateAndGetUser")
	liveFirst := false
	if va == nil || va.Body == nil || len(va.Body.List) == 0 {
		fail("validateAndGetUser not found")
	} else {
		liveVar := ""
		if as, ok := va.Body.List[0].(*ast.AssignStmt); ok && len(as.Lhs) == 1 && len(as.Rhs) == 1 {
			if ix, ok := as.Rhs[0].(*ast.IndexExpr); ok && exprString(ix.X) == "s.connections" {
				liveVar = exprString(as.Lhs[0])
			}
		}
		liveFirst = liveVar != ""
		// statements after `if <liveVar> != nil { …; return … }` (no else) are reached only when no live session holds the identifier
		liveHandled := false
		for _, top := range va.Body.List {
			var st []ast.Node
			ast.Inspect(top, func(n ast.Node) bool {
				if n == nil {
					st = st[:len(st)-1]
					return true
				}
				if sel, ok := n.(*ast.SelectorExpr); ok && sel.Sel.Name == "oldConnections" {
					guarded := liveHandled
					for k, a := range st {
						if is, ok := a.(*ast.IfStmt); ok && liveVar != "" && k+1 < len(st) && st[k+1] == ast.Node(is.Body) {
							if be, ok := is.Cond.(*ast.BinaryExpr); ok && be.Op == token.EQL && exprString(be.X) == liveVar && exprString(be.Y) == "nil" {
								guarded = true
							}
						}
					}
					if !guarded {
						liveFirst = false
					}
				}
				st = append(st, n)
				return true
			})
			if is, ok := top.(*ast.IfStmt); ok && is.Else == nil && is.Init == nil && len(is.Body.List) > 0 {
				if be, ok := is.Cond.(*ast.BinaryExpr); ok && be.Op == token.NEQ && exprString(be.X) == liveVar && exprString(be.Y) == "nil" {
					if _, ret := is.Body.List[len(is.Body.List)-1].(*ast.ReturnStmt); ret {
						liveHandled = true
					}
				}
			}
		}
	}
	fmt.Fprintf(b, "/-- validateAndGetUser reads `s.connections[userId]` first and consults `s.oldConnections` only inside\n    `if <that variable> == nil { … }` -/\ndef validateLiveTableFirst : Bool := %v\n", liveFirst)
}

package main

// C12 panic-site inventory, semantic part: a small path-sensitive bounds analysis.
//
// An index / slice site is *discharged* when the length conditions that dominate it (the guards of enclosing
// if / for / switch-case statements, the negation of guards whose block always leaves the statement list --
// return / break / continue / goto / panic --, and the left operands of a short-circuit && / ||) imply, by linear
// arithmetic over `len(<expr>)` terms, that the site stays within bounds.  A discharged site is not part of
// `SA.Gen.panicSites`: it cannot raise an index-out-of-range panic wherever it lives (in the function itself or in a
// helper the code was moved into), whether the guard is written `if short { break }` or `if long enough { … }`.
// Everything the analysis cannot decide stays in the inventory under its fingerprint and must be in the hand-kept
// list `SA.DnsServer.coveredSites`.
//
// Soundness without type information rests on conservative kills: a fact about an expression is dropped as soon as
// an identifier it mentions is assigned, inc/decremented, declared, ranged over, has its address taken, is the
// receiver root of a method call or is handed (as a bare identifier or selector) to a non-builtin call; identifiers
// assigned inside a closure never carry facts; loops drop every fact about identifiers assigned anywhere in the loop.

import (
	"fmt"
	"go/ast"
	"go/constant"
	"go/token"
	"sort"
	"strings"
)

// lin: c + Σ t[k]·k ; a term is `len(<expr text>)` (known ≥ 0) or `v:<expr text>` (an integer of unknown sign)
type bcLin struct {
	c int64
	t map[string]int64
}

func bcConst(c int64) bcLin { return bcLin{c: c, t: map[string]int64{}} }
func bcTerm(k string) bcLin { return bcLin{t: map[string]int64{k: 1}} }
func (a bcLin) add(b bcLin, sign int64) bcLin {
	r := bcLin{c: a.c + sign*b.c, t: map[string]int64{}}
	for k, v := range a.t {
		r.t[k] = v
	}
	for k, v := range b.t {
		r.t[k] += sign * v
		if r.t[k] == 0 {
			delete(r.t, k)
		}
	}
	return r
}
func (a bcLin) String() string {
	var ks []string
	for k := range a.t {
		ks = append(ks, k)
	}
	sort.Strings(ks)
	s := fmt.Sprint(a.c)
	for _, k := range ks {
		s += fmt.Sprintf(" %+d*%s", a.t[k], k)
	}
	return s + " >= 0"
}
func (a bcLin) mentions(id string) bool {
	for k := range a.t {
		if bcMentions(k, id) {
			return true
		}
	}
	return false
}
func bcMentions(text, id string) bool {
	for _, m := range identRe.FindAllString(text, -1) {
		if m == id {
			return true
		}
	}
	return false
}

// nonNegative: every term is a len term with a positive coefficient and the constant is ≥ 0
func (a bcLin) nonNegative() bool {
	if a.c < 0 {
		return false
	}
	for k, v := range a.t {
		if v < 0 || !strings.HasPrefix(k, "len(") {
			return false
		}
	}
	return true
}

type bcEnv struct {
	facts []bcLin          // each ≥ 0
	subst map[string]bcLin // len(x) ↦ linear expression, for x := B[lo:hi] / x := B
}

func (e bcEnv) clone() bcEnv {
	n := bcEnv{facts: append([]bcLin(nil), e.facts...), subst: map[string]bcLin{}}
	for k, v := range e.subst {
		n.subst[k] = v
	}
	return n
}
func (e *bcEnv) kill(id string) {
	var fs []bcLin
	for _, f := range e.facts {
		if !f.mentions(id) {
			fs = append(fs, f)
		}
	}
	e.facts = fs
	for k, v := range e.subst {
		if bcMentions(k, id) || v.mentions(id) {
			delete(e.subst, k)
		}
	}
}
func (e bcEnv) with(fs []bcLin) bcEnv {
	n := e.clone()
	n.facts = append(n.facts, fs...)
	return n
}

// implies: r ≥ 0 follows from one fact (or none) plus the non-negativity of lengths
func (e bcEnv) implies(r bcLin) bool {
	if r.nonNegative() {
		return true
	}
	for _, f := range e.facts {
		if r.add(f, -1).nonNegative() {
			return true
		}
	}
	return false
}

type bcAnalysis struct {
	consts        env
	closureAssign map[string]bool
	discharged    map[ast.Node]string
	hasGoto       bool
}

var bcBuiltins = map[string]bool{"len": true, "cap": true, "append": true, "copy": true, "make": true, "new": true, "string": true,
	"byte": true, "rune": true, "int": true, "int8": true, "int16": true, "int32": true, "int64": true, "uint": true, "uint8": true,
	"uint16": true, "uint32": true, "uint64": true, "uintptr": true, "panic": true, "delete": true, "min": true, "max": true}

func bcHasCall(e ast.Expr) bool {
	found := false
	ast.Inspect(e, func(n ast.Node) bool {
		switch n.(type) {
		case *ast.CallExpr, *ast.FuncLit, *ast.UnaryExpr, *ast.TypeAssertExpr:
			found = true
		}
		return !found
	})
	return found
}

func bcRoot(e ast.Expr) string {
	for {
		switch x := e.(type) {
		case *ast.Ident:
			return x.Name
		case *ast.SelectorExpr:
			e = x.X
		case *ast.IndexExpr:
			e = x.X
		case *ast.SliceExpr:
			e = x.X
		case *ast.StarExpr:
			e = x.X
		case *ast.ParenExpr:
			e = x.X
		case *ast.UnaryExpr:
			e = x.X
		case *ast.TypeAssertExpr:
			e = x.X
		case *ast.CallExpr:
			e = x.Fun
		default:
			return ""
		}
	}
}

// lenOf: the length of a stable (call-free) expression as a linear term, after substitution
func (a *bcAnalysis) lenOf(e ast.Expr, en bcEnv) (bcLin, bool) {
	if p, ok := e.(*ast.ParenExpr); ok {
		return a.lenOf(p.X, en)
	}
	if bcHasCall(e) {
		return bcLin{}, false
	}
	k := "len(" + nodeText(e) + ")"
	if s, ok := en.subst[k]; ok {
		return s, true
	}
	return bcTerm(k), true
}

func (a *bcAnalysis) linOf(e ast.Expr, en bcEnv) (bcLin, bool) {
	if v := evalExpr(e, a.consts); v != nil && v.Kind() == constant.Int {
		if n, ok := constant.Int64Val(v); ok {
			if id, isId := e.(*ast.Ident); !isId || !a.closureAssign[id.Name] {
				return bcConst(n), true
			}
		}
	}
	switch x := e.(type) {
	case *ast.ParenExpr:
		return a.linOf(x.X, en)
	case *ast.BinaryExpr:
		if x.Op == token.ADD || x.Op == token.SUB {
			l, ok1 := a.linOf(x.X, en)
			r, ok2 := a.linOf(x.Y, en)
			if ok1 && ok2 {
				if x.Op == token.ADD {
					return l.add(r, 1), true
				}
				// a difference that involves a variable of unknown type could wrap around (unsigned); lengths are int
				d := l.add(r, -1)
				for k := range d.t {
					if !strings.HasPrefix(k, "len(") {
						return bcLin{}, false
					}
				}
				return d, true
			}
		}
		return bcLin{}, false
	case *ast.CallExpr:
		if id, ok := x.Fun.(*ast.Ident); ok && id.Name == "len" && len(x.Args) == 1 {
			return a.lenOf(x.Args[0], en)
		}
		return bcLin{}, false
	case *ast.Ident, *ast.SelectorExpr:
		if bcHasCall(e) {
			return bcLin{}, false
		}
		return bcTerm("v:" + nodeText(e)), true
	}
	return bcLin{}, false
}

// condFacts: the linear facts that hold when cond evaluates to `sense`
func (a *bcAnalysis) condFacts(cond ast.Expr, sense bool, en bcEnv) []bcLin {
	switch x := cond.(type) {
	case *ast.ParenExpr:
		return a.condFacts(x.X, sense, en)
	case *ast.UnaryExpr:
		if x.Op == token.NOT {
			return a.condFacts(x.X, !sense, en)
		}
	case *ast.BinaryExpr:
		switch x.Op {
		case token.LAND:
			if sense {
				return append(a.condFacts(x.X, true, en), a.condFacts(x.Y, true, en)...)
			}
			return nil
		case token.LOR:
			if !sense {
				return append(a.condFacts(x.X, false, en), a.condFacts(x.Y, false, en)...)
			}
			return nil
		case token.GEQ, token.GTR, token.LEQ, token.LSS, token.EQL, token.NEQ:
			l, ok1 := a.linOf(x.X, en)
			r, ok2 := a.linOf(x.Y, en)
			if !ok1 || !ok2 {
				return nil
			}
			op := x.Op
			if !sense {
				op = map[token.Token]token.Token{token.GEQ: token.LSS, token.GTR: token.LEQ, token.LEQ: token.GTR, token.LSS: token.GEQ,
					token.EQL: token.NEQ, token.NEQ: token.EQL}[op]
			}
			d := l.add(r, -1) // l - r
			switch op {
			case token.GEQ:
				return []bcLin{d}
			case token.GTR:
				return []bcLin{d.add(bcConst(1), -1)}
			case token.LEQ:
				return []bcLin{bcConst(0).add(d, -1)}
			case token.LSS:
				return []bcLin{bcConst(0).add(d, -1).add(bcConst(1), -1)}
			case token.EQL:
				return []bcLin{d, bcConst(0).add(d, -1)}
			case token.NEQ:
				// len(x) != 0 : a non-negative quantity that is not zero is ≥ 1
				if d.c == 0 && d.nonNegative() && len(d.t) == 1 {
					return []bcLin{d.add(bcConst(1), -1)}
				}
				if n := bcConst(0).add(d, -1); n.c == 0 && n.nonNegative() && len(n.t) == 1 {
					return []bcLin{n.add(bcConst(1), -1)}
				}
			}
		}
	}
	return nil
}

func (a *bcAnalysis) addFacts(en bcEnv, fs []bcLin) bcEnv {
	var keep []bcLin
	for _, f := range fs {
		bad := false
		for id := range a.closureAssign {
			if f.mentions(id) {
				bad = true
			}
		}
		if !bad {
			keep = append(keep, f)
		}
	}
	return en.with(keep)
}

// judge one index / slice site
func (a *bcAnalysis) judge(n ast.Node, en bcEnv) {
	var reqs []bcLin
	switch x := n.(type) {
	case *ast.IndexExpr:
		ln, ok := a.lenOf(x.X, en)
		idx, ok2 := a.linOf(x.Index, en)
		if !ok || !ok2 {
			return
		}
		reqs = []bcLin{idx, ln.add(idx, -1).add(bcConst(1), -1)}
	case *ast.SliceExpr:
		if x.Slice3 {
			return
		}
		ln, ok := a.lenOf(x.X, en)
		if !ok {
			return
		}
		lo, hi := bcConst(0), ln
		if x.Low != nil {
			if lo, ok = a.linOf(x.Low, en); !ok {
				return
			}
		}
		if x.High != nil {
			if hi, ok = a.linOf(x.High, en); !ok {
				return
			}
		}
		reqs = []bcLin{lo, hi.add(lo, -1), ln.add(hi, -1)}
	default:
		return
	}
	for _, r := range reqs {
		if !en.implies(r) {
			return
		}
	}
	var why []string
	for _, r := range reqs {
		why = append(why, r.String())
	}
	a.discharged[n] = strings.Join(why, " ; ")
}

// expr: judge the sites of an expression; short-circuit operands see the facts of the operands before them
func (a *bcAnalysis) expr(e ast.Node, en bcEnv) {
	if e == nil {
		return
	}
	ast.Inspect(e, func(n ast.Node) bool {
		switch x := n.(type) {
		case *ast.BinaryExpr:
			if x.Op == token.LAND || x.Op == token.LOR {
				a.expr(x.X, en)
				a.expr(x.Y, a.addFacts(en, a.condFacts(x.X, x.Op == token.LAND, en)))
				return false
			}
		case *ast.FuncLit:
			a.stmts(x.Body.List, bcEnv{subst: map[string]bcLin{}})
			return false
		case *ast.IndexExpr, *ast.SliceExpr:
			a.judge(n, en)
		}
		return true
	})
}

// assigned: identifiers (roots) that a node may modify
func bcAssigned(n ast.Node) map[string]bool {
	res := map[string]bool{}
	if n == nil {
		return res
	}
	ast.Inspect(n, func(m ast.Node) bool {
		switch x := m.(type) {
		case *ast.AssignStmt:
			for _, l := range x.Lhs {
				res[bcRoot(l)] = true
			}
		case *ast.IncDecStmt:
			res[bcRoot(x.X)] = true
		case *ast.RangeStmt:
			if x.Key != nil {
				res[bcRoot(x.Key)] = true
			}
			if x.Value != nil {
				res[bcRoot(x.Value)] = true
			}
		case *ast.ValueSpec:
			for _, nm := range x.Names {
				res[nm.Name] = true
			}
		case *ast.UnaryExpr:
			if x.Op == token.AND {
				res[bcRoot(x.X)] = true
			}
		case *ast.TypeSwitchStmt:
			if as, ok := x.Assign.(*ast.AssignStmt); ok {
				for _, l := range as.Lhs {
					res[bcRoot(l)] = true
				}
			}
		case *ast.CallExpr:
			if id, ok := x.Fun.(*ast.Ident); ok && bcBuiltins[id.Name] {
				return true
			}
			if _, ok := x.Fun.(*ast.ArrayType); ok {
				return true
			}
			if sel, ok := x.Fun.(*ast.SelectorExpr); ok {
				res[bcRoot(sel.X)] = true
			}
			for _, arg := range x.Args {
				switch arg.(type) {
				case *ast.Ident, *ast.SelectorExpr, *ast.StarExpr:
					res[bcRoot(arg)] = true
				}
			}
		}
		return true
	})
	delete(res, "")
	delete(res, "_")
	return res
}

func (e *bcEnv) killAll(ids map[string]bool) {
	for id := range ids {
		e.kill(id)
	}
}

func bcTerminates(list []ast.Stmt) bool {
	if len(list) == 0 {
		return false
	}
	switch x := list[len(list)-1].(type) {
	case *ast.ReturnStmt:
		return true
	case *ast.BranchStmt:
		return true
	case *ast.ExprStmt:
		if c, ok := x.X.(*ast.CallExpr); ok {
			if id, ok := c.Fun.(*ast.Ident); ok && id.Name == "panic" {
				return true
			}
		}
	case *ast.BlockStmt:
		return bcTerminates(x.List)
	}
	return false
}

// stmts walks a statement list; the environment it returns holds after the list
func (a *bcAnalysis) stmts(list []ast.Stmt, en bcEnv) bcEnv {
	en = en.clone()
	for _, s := range list {
		en = a.stmt(s, en)
	}
	return en
}

func (a *bcAnalysis) stmt(s ast.Stmt, en bcEnv) bcEnv {
	switch x := s.(type) {
	case nil:
		return en
	case *ast.BlockStmt:
		a.stmts(x.List, en)
		en.killAll(bcAssigned(x))
		return en
	case *ast.LabeledStmt:
		if a.hasGoto { // a label that a goto may reach from anywhere: nothing is known there
			return a.stmt(x.Stmt, bcEnv{subst: map[string]bcLin{}})
		}
		return a.stmt(x.Stmt, en)
	case *ast.IfStmt:
		inner := en.clone()
		if x.Init != nil {
			inner = a.stmt(x.Init, inner)
		}
		a.expr(x.Cond, inner)
		a.stmts(x.Body.List, a.addFacts(inner, a.condFacts(x.Cond, true, inner)))
		elseEnv := a.addFacts(inner, a.condFacts(x.Cond, false, inner))
		if x.Else != nil {
			a.stmt(x.Else, elseEnv)
		}
		after := inner.clone()
		if x.Else == nil && bcTerminates(x.Body.List) {
			after = elseEnv.clone()
		}
		after.killAll(bcAssigned(x))
		return after
	case *ast.ForStmt:
		if x.Init != nil {
			en = a.stmt(x.Init, en)
		}
		en.killAll(bcAssigned(x))
		if x.Cond != nil {
			a.expr(x.Cond, en)
			a.stmts(x.Body.List, a.addFacts(en, a.condFacts(x.Cond, true, en)))
		} else {
			a.stmts(x.Body.List, en)
		}
		if x.Post != nil {
			a.stmt(x.Post, en.clone())
		}
		return en
	case *ast.RangeStmt:
		a.expr(x.X, en)
		en.killAll(bcAssigned(x))
		a.stmts(x.Body.List, en)
		return en
	case *ast.SwitchStmt:
		if x.Init != nil {
			en = a.stmt(x.Init, en)
		}
		a.expr(x.Tag, en)
		// without `fallthrough` exactly one case body runs, once, and every case expression is evaluated before it:
		// what holds at the switch holds at the start of each body, and a tag-less switch is an if / else-if chain (a
		// case is reached with the earlier cases' conditions false; `default` with all of them false, wherever it stands)
		chain := x.Tag == nil
		ast.Inspect(x.Body, func(n ast.Node) bool {
			if br, ok := n.(*ast.BranchStmt); ok && br.Tok == token.FALLTHROUGH {
				chain = false
			}
			return true
		})
		if !chain {
			en.killAll(bcAssigned(x))
			for _, c := range x.Body.List {
				cc := c.(*ast.CaseClause)
				ce := en
				for _, e := range cc.List {
					a.expr(e, en)
				}
				if x.Tag == nil && len(cc.List) == 1 {
					ce = a.addFacts(en, a.condFacts(cc.List[0], true, en))
				}
				a.stmts(cc.Body, ce)
			}
			return en
		}
		{
			reach := en.clone() // facts when the next case expression is evaluated
			var deflt *ast.CaseClause
			for _, c := range x.Body.List {
				cc := c.(*ast.CaseClause)
				if cc.List == nil {
					deflt = cc
					continue
				}
				for _, e := range cc.List {
					a.expr(e, reach)
				}
				if len(cc.List) == 1 {
					a.stmts(cc.Body, a.addFacts(reach.clone(), a.condFacts(cc.List[0], true, reach)))
					reach = a.addFacts(reach.clone(), a.condFacts(cc.List[0], false, reach))
				} else {
					a.stmts(cc.Body, reach.clone())
					for _, e := range cc.List {
						reach = a.addFacts(reach.clone(), a.condFacts(e, false, reach))
					}
				}
			}
			if deflt != nil {
				a.stmts(deflt.Body, reach.clone())
			}
			en.killAll(bcAssigned(x))
			return en
		}
	case *ast.TypeSwitchStmt:
		if x.Init != nil {
			en = a.stmt(x.Init, en)
		}
		a.expr(x.Assign, en)
		en.killAll(bcAssigned(x))
		for _, c := range x.Body.List {
			a.stmts(c.(*ast.CaseClause).Body, en)
		}
		return en
	case *ast.SelectStmt:
		en.killAll(bcAssigned(x))
		for _, c := range x.Body.List {
			cc := c.(*ast.CommClause)
			if cc.Comm != nil {
				a.stmt(cc.Comm, en.clone())
			}
			a.stmts(cc.Body, en)
		}
		return en
	case *ast.AssignStmt:
		for _, r := range x.Rhs {
			a.expr(r, en)
		}
		for _, l := range x.Lhs {
			if _, isId := l.(*ast.Ident); !isId {
				a.expr(l, en)
			}
		}
		// x := B[lo:hi] / x := B (B stable, not mentioning x): remember len(x)
		var name string
		var newLen bcLin
		have := false
		if len(x.Lhs) == 1 && len(x.Rhs) == 1 && (x.Tok == token.DEFINE || x.Tok == token.ASSIGN) {
			if id, ok := x.Lhs[0].(*ast.Ident); ok && id.Name != "_" && !a.closureAssign[id.Name] {
				name = id.Name
				switch r := x.Rhs[0].(type) {
				case *ast.SliceExpr:
					if _, ok := a.discharged[r]; ok && !r.Slice3 {
						ln, _ := a.lenOf(r.X, en)
						lo, hi := bcConst(0), ln
						ok1, ok2 := true, true
						if r.Low != nil {
							lo, ok1 = a.linOf(r.Low, en)
						}
						if r.High != nil {
							hi, ok2 = a.linOf(r.High, en)
						}
						if ok1 && ok2 {
							newLen, have = hi.add(lo, -1), true
						}
					}
				case *ast.Ident, *ast.SelectorExpr:
					if ln, ok := a.lenOf(r, en); ok {
						newLen, have = ln, true
					}
				}
			}
		}
		en.killAll(bcAssigned(x))
		if have && !newLen.mentions(name) {
			bad := false
			for id := range a.closureAssign {
				if newLen.mentions(id) {
					bad = true
				}
			}
			if !bad {
				en.subst["len("+name+")"] = newLen
			}
		}
		return en
	default:
		// expression / return / inc-dec / declaration / go / defer / send / branch statements
		a.expr(s, en)
		en.killAll(bcAssigned(s))
		return en
	}
}

// bcDischarge analyses one function and returns the index / slice sites that provably stay within bounds
func bcDischarge(fd *ast.FuncDecl, consts env) map[ast.Node]string {
	a := &bcAnalysis{consts: consts, closureAssign: map[string]bool{}, discharged: map[ast.Node]string{}}
	ast.Inspect(fd.Body, func(n ast.Node) bool {
		if fl, ok := n.(*ast.FuncLit); ok {
			for id := range bcAssigned(fl.Body) {
				a.closureAssign[id] = true
			}
		}
		if br, ok := n.(*ast.BranchStmt); ok && br.Tok == token.GOTO {
			a.hasGoto = true
		}
		return true
	})
	a.stmts(fd.Body.List, bcEnv{subst: map[string]bcLin{}})
	return a.discharged
}

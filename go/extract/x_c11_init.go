package main

import (
	"fmt"
	"go/ast"
	"strings"
)

// C11 fact: the downstream codec a new ClientDnsConnection starts with (before anything has been negotiated): the
// `Encoder:` of the `Downstream: util.DownstreamConfig{…}` literal in NewClientDnsConnection ("" = none given, i.e. nil).
func init() {
	extractors = append(extractors, func(o *out) {
		b := o.w("C11Init.lean")
		fd := findFunc(parse("internal/streams/dns/dns_client_connection.go"), "", "NewClientDnsConnection")
		if fd == nil {
			fail("dns_client_connection.go: NewClientDnsConnection not found")
			return
		}
		name, found := "", false
		ast.Inspect(fd.Body, func(n ast.Node) bool {
			kv, ok := n.(*ast.KeyValueExpr)
			if !ok || src(kv.Key) != "Downstream" {
				return true
			}
			found = true
			if cl, ok := kv.Value.(*ast.CompositeLit); ok {
				for _, el := range cl.Elts {
					if e, ok := el.(*ast.KeyValueExpr); ok && src(e.Key) == "Encoder" {
						name = strings.TrimSuffix(strings.TrimPrefix(src(e.Value), "enc."), "Encoding")
					}
				}
			}
			return true
		})
		if !found {
			fail("NewClientDnsConnection: no Downstream field in the serializer literal")
		}
		fmt.Fprintf(b, "/-- NewClientDnsConnection: downstream codec of a new client (\"\" = nil until one is negotiated) -/\ndef c11ClientInitialDown : String := %q\n\n", name)
	})
}

// C03 facts (mechanism A): the protocol-id prefix at the three sites (handler registration, muxHandler
// comparison, client openStream), the number of OpenConnection call sites in muxHandler, and what every
// server kind's Startup does when Channels.Filter reports an error.  Written to SA/Gen/C03.lean.
package main

import (
	"fmt"
	"go/ast"
	"regexp"
	"strings"
)

func init() { extractors = append(extractors, extractC03) }

// filterErrorAction describes `if upstreams, err := channels.Filter(<list>); err != nil { return X }`:
// the variable wrapped in the return ("err" = the filter's error, anything else is whatever that
// variable holds), or "continue-collect" for the HTTP endpoint loop.
func filterErrorAction(fn *ast.FuncDecl, where string) (filterArg, returned string) {
	if fn == nil || fn.Body == nil {
		fail("%s: not found", where)
		return
	}
	body := src(fn.Body)
	m := regexp.MustCompile(`if upstreams, err := channels\.Filter\(([A-Za-z.]+)\); err != nil \{ return errors\.WithStack\(([a-z]+)\) \}`).FindStringSubmatch(body)
	if m != nil {
		return m[1], m[2]
	}
	m = regexp.MustCompile(`[A-Za-z0-9_]+, err := channels\.Filter\(([A-Za-z.]+)\) if err != nil \{ errs = multierror\.Append\(errs, errors\.WithStack\(err\)\) continue \}`).FindStringSubmatch(body)
	if m != nil && regexp.MustCompile(`if errs != nil \{ return errs \}`).MatchString(body) &&
		strings.Index(body, "if errs != nil { return errs }") < strings.Index(body, "net.Listen(") {
		return m[1], "errs-collected-before-listen"
	}
	fail("%s: Filter error handling not recognised", where)
	return
}

func extractC03(o *out) {
	b := o.w("C03.lean")
	com := parse("internal/server/communicator.go")
	mux := findFunc(com, "ConnectionHandler", "multiplexToUpstream")
	mh := findFunc(com, "ConnectionHandler", "muxHandler")
	if mux == nil || mh == nil {
		fail("communicator.go: multiplexToUpstream / muxHandler not found")
		return
	}
	// Semantic recognisers (x_c03_sem.go): named constants and one-line helpers are evaluated, the first-match loop may
	// live in a lookup helper, the matched-channel path is followed into helpers of the same package.
	pkg := c03loadPkg("internal/server")
	regPrefix, ok := pkg.registration(mux, "muxHandler")
	if !ok {
		fail("multiplexToUpstream: handler registration not recognised")
	}
	fmt.Fprintf(b, "/-- communicator.go multiplexToUpstream: mux.AddHandler(<prefix>+u.Name(), ch.muxHandler) for every kept channel -/\ndef registerPrefix : String := %s\n", leanStr(regPrefix))
	lk, why := pkg.firstMatch(mh)
	if lk == nil {
		fail("muxHandler: first-match loop not recognised (%s)", why)
		lk = &c03lookup{}
	}
	fmt.Fprintf(b, "/-- communicator.go muxHandler: first channel with protocol == <prefix>+channel.Name() -/\ndef muxPrefix : String := %s\n", leanStr(lk.prefix))
	var badSites []string
	sites := pkg.openSites(lk.found, c03recvType(mh), c03recvName(mh), lk.foundVar, 3, &badSites) +
		pkg.openSites(lk.notFound, c03recvType(mh), c03recvName(mh), "", 3, &badSites)
	if len(badSites) > 0 {
		fail("muxHandler: OpenConnection on something other than the matched channel: %v", badSites)
	}
	fmt.Fprintf(b, "/-- number of OpenConnection call sites in muxHandler -/\ndef muxOpenConnectionSites : Nat := %d\n", sites)
	fmt.Fprintf(b, "/-- muxHandler ends with an error for a protocol no kept channel matches -/\ndef muxUnknownIsError : Bool := %v\n", c03alwaysError(lk.notFound))
	var m []string
	ups := parse("internal/client/upstream/upstream.go")
	if fn := findFunc(ups, "Upstreams", "openStream"); fn != nil {
		m = regexp.MustCompile(`ms\.SelectProtoOrFail\(fmt\.Sprintf\("([^"]*)", subProtocol\), stream\)`).FindStringSubmatch(src(fn.Body))
		if m == nil {
			fail("openStream: SelectProtoOrFail call not recognised")
			m = []string{"", ""}
		}
		fmt.Fprintf(b, "/-- client/upstream/upstream.go openStream: SelectProtoOrFail(fmt.Sprintf(<format>, subProtocol)) -/\ndef clientFormat : String := %s\n\n", leanStr(m[1]))
	} else {
		fail("openStream not found")
	}
	for _, x := range []struct{ file, recv, fn, name string }{
		{"internal/server/socket_server.go", "SocketServer", "Startup", "socket"},
		{"internal/server/packet_server.go", "PacketServer", "StartupPacket", "packet"},
		{"internal/server/dns_server.go", "DnsServer", "Startup", "dns"},
		{"internal/server/stdio_server.go", "IoServer", "Startup", "stdio"},
		{"internal/server/http_server.go", "HttpServer", "Startup", "http"},
	} {
		arg, ret := filterErrorAction(findFunc(parse(x.file), x.recv, x.fn), x.recv+"."+x.fn)
		fmt.Fprintf(b, "/-- %s %s.%s: Filter(%s); on error returns / wraps `%s` -/\ndef %sFilterErrReturns : String := %s\n", x.file, x.recv, x.fn, arg, ret, x.name, leanStr(ret))
	}
	// where the channel list a connection is served with comes from, per server kind
	fmt.Fprintf(b, "\n/-- http_server.go: the list the websocket handler hands to AcceptConnection -/\ndef httpHandlerListOrigin : String := %s\n", leanStr(httpHandlerListOrigin(parse("internal/server/http_server.go"))))
	for _, x := range []struct{ file, recv, fn, name string }{
		{"internal/server/socket_server.go", "SocketServer", "Startup", "socket"},
		{"internal/server/packet_server.go", "PacketServer", "StartupPacket", "packet"},
		{"internal/server/stdio_server.go", "IoServer", "Startup", "stdio"},
	} {
		f := parse(x.file)
		ok := false
		if fn := findFunc(f, x.recv, x.fn); fn != nil && fn.Body != nil {
			ok = regexp.MustCompile(`if upstreams, err := channels\.Filter\(st\.Channels\); err != nil \{ return [^{}]* \} else \{ st\.upstreams = upstreams \}`).MatchString(src(fn.Body)) &&
				strings.Count(src(f), "st.upstreams") == 2 &&
				regexp.MustCompile(`AcceptConnection\([a-z]+, &st\.ServerConfig, [a-z.]+, st\.upstreams\)`).MatchString(src(f))
		}
		fmt.Fprintf(b, "/-- %s: connections are served with st.upstreams, assigned once from Filter(st.Channels) of the same server -/\ndef %sServesOwnFilterResult : Bool := %v\n", x.file, x.name, ok)
	}
	chn := parse("internal/server/channel.go")
	if fn := findFunc(chn, "Channels", "Filter"); fn != nil {
		emptyAll, unknownErr, emptyResErr := c03filterShape(fn)
		fmt.Fprintf(b, "\n/-- channel.go Channels.Filter: an empty / nil list of names returns every channel -/\ndef filterEmptyMeansAll : Bool := %v\n", emptyAll)
		fmt.Fprintf(b, "/-- Channels.Filter: a name Find does not know adds an error and is skipped -/\ndef filterUnknownIsError : Bool := %v\n", unknownErr)
		fmt.Fprintf(b, "/-- Channels.Filter: an empty result adds an error -/\ndef filterEmptyResultIsError : Bool := %v\n", emptyResErr)
	} else {
		fail("channel.go: Channels.Filter not found")
	}
	if fn := findFunc(chn, "Channels", "Find"); fn != nil {
		fmt.Fprintf(b, "/-- Channels.Find: first channel whose Name() == name (exact, case sensitive) -/\ndef findIsFirstExact : Bool := %v\n", c03findShape(fn))
	} else {
		fail("channel.go: Channels.Find not found")
	}
}

// httpHandlerListOrigin says where the 4th argument (the channel list) of the AcceptConnection call in the handler
// that HttpServer.EndpointHandler returns comes from. "per-endpoint-filter-result": it is a parameter of
// EndpointHandler that is never reassigned, and Startup's loop over ws.Endpoints passes, for that parameter, the
// variable it defined from channels.Filter(<loop value>.Channels) in the same iteration. Anything else is reported
// as what was found (a field reached through a pointer, a receiver field, ...).
func httpHandlerListOrigin(f *ast.File) string {
	eh := findFunc(f, "HttpServer", "EndpointHandler")
	st := findFunc(f, "HttpServer", "Startup")
	if eh == nil || st == nil || eh.Body == nil || st.Body == nil {
		fail("http_server.go: EndpointHandler / Startup not found")
		return "?"
	}
	params := map[string]int{}
	k := 0
	for _, fl := range eh.Type.Params.List {
		for _, n := range fl.Names {
			params[n.Name] = k
			k++
		}
	}
	var arg ast.Expr
	calls := 0
	reassigned := map[string]bool{}
	ast.Inspect(eh.Body, func(n ast.Node) bool {
		switch x := n.(type) {
		case *ast.CallExpr:
			if id, ok := x.Fun.(*ast.Ident); ok && id.Name == "AcceptConnection" && len(x.Args) == 4 {
				arg = x.Args[3]
				calls++
			}
		case *ast.AssignStmt:
			for _, l := range x.Lhs {
				if id, ok := l.(*ast.Ident); ok {
					reassigned[id.Name] = true
				}
			}
		}
		return true
	})
	if calls != 1 {
		return fmt.Sprintf("%d AcceptConnection calls in EndpointHandler", calls)
	}
	id, ok := arg.(*ast.Ident)
	if !ok {
		return "not a parameter: " + src(arg)
	}
	idx, isParam := params[id.Name]
	if !isParam || reassigned[id.Name] {
		return "not an unmodified parameter: " + id.Name
	}
	// Startup: for _, <v> := range ws.Endpoints { <x>, err := channels.Filter(<v>.Channels) ... ws.EndpointHandler(..., <x>) ... }
	result := "Startup: endpoint loop not recognised"
	ast.Inspect(st.Body, func(n ast.Node) bool {
		rs, ok := n.(*ast.RangeStmt)
		if !ok || src(rs.X) != "ws.Endpoints" {
			return true
		}
		v, ok := rs.Value.(*ast.Ident)
		if !ok {
			return false
		}
		filtered := map[string]bool{} // variables defined from channels.Filter(<v>.Channels) at the top level of the loop body
		for _, stmt := range rs.Body.List {
			as, ok := stmt.(*ast.AssignStmt)
			if !ok || len(as.Lhs) != 2 || len(as.Rhs) != 1 {
				continue
			}
			l, ok := as.Lhs[0].(*ast.Ident)
			if !ok {
				continue
			}
			if as.Tok.String() == ":=" && src(as.Rhs[0]) == "channels.Filter("+v.Name+".Channels)" {
				filtered[l.Name] = true
			} else if filtered[l.Name] {
				delete(filtered, l.Name) // overwritten later
			}
		}
		ast.Inspect(rs.Body, func(m ast.Node) bool {
			c, ok := m.(*ast.CallExpr)
			if !ok || src(c.Fun) != "ws.EndpointHandler" {
				return true
			}
			if idx < len(c.Args) {
				if a, ok := c.Args[idx].(*ast.Ident); ok && filtered[a.Name] {
					result = "per-endpoint-filter-result"
				} else {
					result = "Startup passes " + src(c.Args[idx])
				}
			} else {
				result = "Startup passes no such argument"
			}
			return false
		})
		return false
	})
	return result
}

package main

import (
	"fmt"
	"go/ast"
	"go/token"
	"strings"
)

// C16 facts, direct route: what AbstractListener.ConnectDirectly RETURNS on each way through it once a
// forward address is given — the dial fails / the dial succeeds and the piping ends cleanly / the dial
// succeeds and the piping ends with an error (target reset, application gone).  The function is
// evaluated path-sensitively over the nil-ness of its error variables, so the fact does not depend on
// how the branches are spelled (nested ifs, a shared error branch, `return err == nil`, …).

type dirEval struct {
	dialFails, pipeFails bool
	isNil                map[string]bool // tracked error variables
	piped                bool            // streams.PipeData was reached
	unknown              string          // first thing the evaluator could not decide
	// the scenarios without a usable forward address (c16DirectGuard): no address / empty host / empty scheme
	fwdNil, hostEmpty, schemeEmpty bool
	dialed                         bool // a dial was reached
}

func (e *dirEval) giveUp(what string) {
	if e.unknown == "" {
		e.unknown = what
	}
}

// cond evaluates a branch condition; ok = false when it is not of a known form
func (e *dirEval) cond(x ast.Expr) (v bool, ok bool) {
	switch c := x.(type) {
	case *ast.ParenExpr:
		return e.cond(c.X)
	case *ast.Ident:
		if c.Name == "true" {
			return true, true
		}
		if c.Name == "false" {
			return false, true
		}
	case *ast.UnaryExpr:
		if c.Op == token.NOT {
			v, ok := e.cond(c.X)
			return !v, ok
		}
	case *ast.BinaryExpr:
		switch c.Op {
		case token.LOR, token.LAND:
			a, ok1 := e.cond(c.X)
			b, ok2 := e.cond(c.Y)
			if c.Op == token.LOR {
				return a || b, ok1 && (a || ok2) // short circuit, as the code
			}
			return a && b, ok1 && (!a || ok2)
		case token.EQL, token.NEQ:
			l, r := flat(c.X), flat(c.Y)
			if l == "nil" || l == `""` {
				l, r = r, l
			}
			eq := false
			switch {
			case r == "nil":
				if n, tracked := e.isNil[l]; tracked {
					eq = n
				} else if l == "forward" || strings.HasSuffix(l, ".Forward") {
					eq = e.fwdNil
				} else if l == "direct" {
					eq = false // the scenarios have a forward address, and a dialled connection when asked
				} else {
					return false, false
				}
			case r == `""` && strings.HasSuffix(l, ".Host"):
				eq = e.hostEmpty
			case r == `""` && strings.HasSuffix(l, ".Scheme"):
				eq = e.schemeEmpty
			default:
				return false, false
			}
			if c.Op == token.NEQ {
				return !eq, true
			}
			return eq, true
		}
	}
	return false, false
}

func (e *dirEval) assign(lhs []ast.Expr, rhs []ast.Expr) {
	if len(rhs) != 1 {
		for _, l := range lhs {
			if _, tracked := e.isNil[flat(l)]; tracked {
				e.giveUp("assignment to " + flat(l))
			}
		}
		return
	}
	r := flat(rhs[0])
	last := flat(lhs[len(lhs)-1])
	switch {
	case strings.HasPrefix(r, "net.Dial(") || strings.Contains(r, ".Dial(") || strings.Contains(r, ".DialTimeout(") || strings.Contains(r, ".DialContext("):
		e.isNil[last] = !e.dialFails
		e.dialed = true
	case strings.Contains(r, "PipeData("):
		e.piped = true
		e.isNil[last] = !e.pipeFails
	case strings.HasPrefix(r, "errors.WithStack(") || strings.HasPrefix(r, "errors.Wrap"):
		if call, ok := rhs[0].(*ast.CallExpr); ok && len(call.Args) > 0 {
			if n, tracked := e.isNil[flat(call.Args[0])]; tracked {
				e.isNil[last] = n
				return
			}
		}
		e.giveUp("wrap of an untracked error")
	case r == "nil":
		if _, tracked := e.isNil[last]; tracked {
			e.isNil[last] = true
		}
	default:
		for _, l := range lhs {
			if _, tracked := e.isNil[flat(l)]; tracked {
				e.giveUp("assignment " + flat(l) + "=" + r)
			}
		}
	}
}

// block runs the statements; ret = "true" | "false" once a return was reached
func (e *dirEval) block(list []ast.Stmt) (ret string, done bool) {
	for _, s := range list {
		switch st := s.(type) {
		case *ast.AssignStmt:
			e.assign(st.Lhs, st.Rhs)
		case *ast.DeclStmt:
			if gd, ok := st.Decl.(*ast.GenDecl); ok {
				for _, sp := range gd.Specs {
					if vs, ok := sp.(*ast.ValueSpec); ok && flat(vs.Type) == "error" && len(vs.Values) == 0 {
						for _, n := range vs.Names {
							e.isNil[n.Name] = true
						}
					}
				}
			}
		case *ast.ExprStmt:
			if strings.Contains(flat(st.X), "PipeData(") {
				e.piped = true
			}
		case *ast.BlockStmt:
			if r, d := e.block(st.List); d {
				return r, true
			}
		case *ast.IfStmt:
			if r, d := e.ifStmt(st); d {
				return r, true
			}
		case *ast.ReturnStmt:
			if len(st.Results) != 1 {
				e.giveUp("return of " + fmt.Sprint(len(st.Results)) + " values")
				return "?", true
			}
			v, ok := e.cond(st.Results[0])
			if !ok {
				e.giveUp("return " + flat(st.Results[0]))
				return "?", true
			}
			return fmt.Sprint(v), true
		case *ast.DeferStmt, *ast.EmptyStmt:
		default:
			e.giveUp(fmt.Sprintf("statement %T", s))
		}
		if e.unknown != "" {
			return "?", true
		}
	}
	return "", false
}

func (e *dirEval) ifStmt(st *ast.IfStmt) (string, bool) {
	if st.Init != nil {
		if as, ok := st.Init.(*ast.AssignStmt); ok {
			e.assign(as.Lhs, as.Rhs)
		}
	}
	v, ok := e.cond(st.Cond)
	if !ok {
		e.giveUp("condition " + flat(st.Cond))
		return "?", true
	}
	if v {
		return e.block(st.Body.List)
	}
	switch el := st.Else.(type) {
	case *ast.BlockStmt:
		return e.block(el.List)
	case *ast.IfStmt:
		return e.ifStmt(el)
	}
	return "", false
}

func init() {
	extractors = append(extractors, func(o *out) {
		b := o.w("C16Direct.lean")
		lf := parse("internal/client/listener/listener.go")
		cd := findFunc(lf, "AbstractListener", "ConnectDirectly")
		if cd == nil || cd.Body == nil {
			fail("listener.go: ConnectDirectly not found")
			return
		}
		type path struct {
			name                 string
			dialFails, pipeFails bool
		}
		fmt.Fprintf(b, "/-- listener.go ConnectDirectly, a forward address being given: (way through the function, value returned, whether streams.PipeData ran); evaluated path-sensitively over the nil-ness of the error variables -/\n")
		fmt.Fprintf(b, "def c16DirectReturns : List (String × String × Bool) := [\n")
		paths := []path{{"dial-failed", true, false}, {"pipe-clean", false, false}, {"pipe-error", false, true}}
		for i, p := range paths {
			e := &dirEval{dialFails: p.dialFails, pipeFails: p.pipeFails, isNil: map[string]bool{}}
			ret, done := e.block(cd.Body.List)
			if !done {
				ret = "?"
				e.giveUp("no return reached")
			}
			if e.unknown != "" {
				ret = "? " + e.unknown // the theorem over this fact breaks and names the reason
			}
			sep := ","
			if i == len(paths)-1 {
				sep = ""
			}
			fmt.Fprintf(b, "  (%q, %q, %v)%s\n", p.name, ret, e.piped, sep)
		}
		fmt.Fprintf(b, "]\n\n")
	})
}

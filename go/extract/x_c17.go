package main

import (
	"fmt"
	"go/ast"
	"os"
	"path/filepath"
	"strings"
)

// C17 (SOCKS channel): does the connection handed to the in-process SOCKS server have a CloseWrite method?  The
// library half-closes towards its client through that method when the proxied target has finished; without it the
// application never sees end-of-stream when the target closes first.
func init() {
	extractors = append(extractors, func(o *out) {
		b := o.w("C17.lean")
		// types with a CloseWrite method in internal/server and internal/streams
		cw := map[string]bool{}
		for _, dir := range []string{"internal/server", "internal/streams"} {
			for _, f := range goFiles(dir) {
				af := parse(f)
				if af == nil {
					continue
				}
				for _, d := range af.Decls {
					if fd, ok := d.(*ast.FuncDecl); ok && fd.Recv != nil && len(fd.Recv.List) == 1 && fd.Name.Name == "CloseWrite" {
						cw[strings.TrimPrefix(src(fd.Recv.List[0].Type), "*")] = true
					}
				}
			}
		}
		fd := findFunc(parse("internal/server/channel.go"), "SocksChannel", "OpenConnection")
		if fd == nil {
			fail("channel.go: SocksChannel.OpenConnection not found")
			return
		}
		// the argument of ServeConn and the last value assigned to it
		arg := ""
		ast.Inspect(fd.Body, func(n ast.Node) bool {
			if c, ok := n.(*ast.CallExpr); ok && strings.HasSuffix(src(c.Fun), ".ServeConn") && len(c.Args) == 1 {
				arg = src(c.Args[0])
			}
			return true
		})
		if arg == "" {
			fail("channel.go SocksChannel.OpenConnection: call of ServeConn not found")
			return
		}
		typ := ""
		ast.Inspect(fd.Body, func(n ast.Node) bool {
			as, ok := n.(*ast.AssignStmt)
			if !ok || len(as.Lhs) != 1 || len(as.Rhs) != 1 || src(as.Lhs[0]) != arg {
				return true
			}
			rhs := as.Rhs[0]
			if u, ok := rhs.(*ast.UnaryExpr); ok {
				rhs = u.X
			}
			switch x := rhs.(type) {
			case *ast.CompositeLit:
				typ = src(x.Type)
			case *ast.CallExpr:
				name := src(x.Fun)
				if i := strings.LastIndex(name, "."); i >= 0 {
					name = name[i+1:]
				}
				typ = strings.TrimPrefix(name, "New")
			default:
				typ = "?" + src(rhs)
			}
			return true
		})
		if i := strings.LastIndex(typ, "."); i >= 0 {
			typ = typ[i+1:]
		}
		fmt.Fprintf(b, "/-- channel.go SocksChannel.OpenConnection: dynamic type of the connection handed to the SOCKS server's ServeConn -/\ndef socksServerConnType : String := %q\n\n", typ)
		fmt.Fprintf(b, "/-- … and whether that type has a CloseWrite method (the SOCKS library half-closes towards its client through it) -/\ndef socksConnHasCloseWrite : Bool := %v\n\n", cw[typ])
	})
}

// C17 / C02: which fields of the multiplexer configuration the code assigns on each end.  Everything else is the
// library's default — in particular the keep-alive (10 s interval, 30 s time-out), against which the slowest carrier
// the tunnel supports still gets a full frame across.
func init() {
	extractors = append(extractors, func(o *out) {
		b := o.w("C17.lean")
		for _, site := range []struct{ file, recv, fn, name string }{
			{"internal/server/communicator.go", "ConnectionHandler", "HandleConnection", "smuxConfigAssignedServer"},
			{"internal/client/upstream/upstream.go", "Upstreams", "creteSession", "smuxConfigAssignedClient"},
		} {
			fd := findFunc(parse(site.file), site.recv, site.fn)
			if fd == nil {
				fail("%s: %s not found", site.file, site.fn)
				continue
			}
			var fields []string
			ast.Inspect(fd.Body, func(n ast.Node) bool {
				if as, ok := n.(*ast.AssignStmt); ok {
					for _, l := range as.Lhs {
						if se, ok := l.(*ast.SelectorExpr); ok {
							if id, ok := se.X.(*ast.Ident); ok && id.Name == "config" {
								fields = append(fields, se.Sel.Name)
							}
						}
					}
				}
				return true
			})
			q := make([]string, len(fields))
			for i, f := range fields {
				q[i] = fmt.Sprintf("%q", f)
			}
			fmt.Fprintf(b, "/-- %s %s: fields of the multiplexer configuration the code assigns (the rest are smux.DefaultConfig()) -/\ndef %s : List String := [%s]\n\n", site.file, site.fn, site.name, strings.Join(q, ", "))
		}
	})
}

// goFiles lists the non-test Go files of a directory of the repository (paths relative to its root).
func goFiles(dir string) []string {
	ents, err := os.ReadDir(filepath.Join(repo, dir))
	if err != nil {
		return nil
	}
	var out []string
	for _, e := range ents {
		n := e.Name()
		if !e.IsDir() && strings.HasSuffix(n, ".go") && !strings.HasSuffix(n, "_test.go") {
			out = append(out, filepath.Join(dir, n))
		}
	}
	return out
}

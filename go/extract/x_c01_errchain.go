package main

import (
	"fmt"
	"go/ast"
	"strings"
)

// C01, lossy DNS path: the retransmission loop of ClientDnsConnection.SendAndReceive recognises a timed-out exchange
// by the CAUSE of the error (errors.Cause(err).(net.Error)), so every function between miekg's ExchangeWithConn and
// that test must hand the error up unchanged or through a cause-preserving wrapper (errors.Wrap/Wrapf/WithStack/
// WithMessage/WithMessagef).  A call that builds a NEW error out of the old one's text (errors.Errorf, errors.New,
// fmt.Errorf — pkg/errors' Cause does not look through fmt's %w either) cuts the chain.
func init() {
	extractors = append(extractors, func(o *out) {
		b := o.w("C01ErrChain.lean")
		type site struct{ file, recv, fn string }
		path := []site{
			{"internal/streams/dns/client_communicator.go", "NetConnectionClientCommunicator", "SendAndReceive"},
			{"internal/streams/dns/dns_client_connection.go", "ClientDnsConnection", "QueryWithData"},
			{"internal/streams/dns/dns_client_connection.go", "ClientDnsConnection", "Query"},
		}
		var cuts []string
		exchanges := false
		for _, s := range path {
			f := parse(s.file)
			fd := findFunc(f, s.recv, s.fn)
			if fd == nil || fd.Body == nil {
				fail("C01 error chain: %s.%s not found in %s", s.recv, s.fn, s.file)
				continue
			}
			ast.Inspect(fd.Body, func(n ast.Node) bool {
				call, ok := n.(*ast.CallExpr)
				if !ok {
					return true
				}
				name := src(call.Fun)
				if strings.HasSuffix(name, ".ExchangeWithConn") || strings.HasSuffix(name, ".Exchange") || strings.HasSuffix(name, ".ExchangeContext") {
					exchanges = true
				}
				switch name {
				case "errors.Errorf", "errors.New", "fmt.Errorf":
					usesErr := false
					for _, a := range call.Args {
						ast.Inspect(a, func(m ast.Node) bool {
							if id, ok := m.(*ast.Ident); ok && (id.Name == "err" || id.Name == "e") {
								usesErr = true
							}
							if se, ok := m.(*ast.SelectorExpr); ok && se.Sel.Name == "Error" {
								usesErr = true
							}
							return true
						})
					}
					if usesErr {
						cuts = append(cuts, fmt.Sprintf("%s.%s: %s", s.recv, s.fn, name))
					}
				}
				return true
			})
		}
		if !exchanges {
			fail("C01 error chain: NetConnectionClientCommunicator.SendAndReceive no longer calls miekg's Exchange*")
		}
		q := make([]string, len(cuts))
		for i, c := range cuts {
			q[i] = fmt.Sprintf("%q", c)
		}
		fmt.Fprintf(b, "/-- calls between miekg's ExchangeWithConn (NetConnectionClientCommunicator.SendAndReceive) and the time-out test of\n    ClientDnsConnection.SendAndReceive (through QueryWithData / Query) that build a NEW error from the text of the old one\n    (errors.Errorf / errors.New / fmt.Errorf over `err`): each of them hides the net.Error time-out from errors.Cause -/\ndef c01TimeoutCauseCuts : List String := [%s]\n\n", strings.Join(q, ", "))
	})
}

package main

import (
	"fmt"
	"go/ast"
	"strings"
)

// C14 (refused sessions): what server.AcceptConnection does with the connection once the session handshake has
// failed.  The model's "a refused session costs nothing" holds while that branch only logs and closes; any other
// call there (a read, a copy, a wait) can make the release of the connection depend on the peer.
func init() {
	extractors = append(extractors, func(o *out) {
		b := o.w("C14.lean")
		fd := findFunc(parse("internal/server/communicator.go"), "", "AcceptConnection")
		if fd == nil {
			fail("communicator.go: AcceptConnection not found")
			return
		}
		// the first `if err != nil { … }` after the call of NewServerConnection
		var branch *ast.BlockStmt
		seen := false
		for _, st := range fd.Body.List {
			if as, ok := st.(*ast.AssignStmt); ok && len(as.Rhs) == 1 && strings.HasSuffix(callName(as.Rhs[0]), "NewServerConnection") {
				seen = true
				continue
			}
			if is, ok := st.(*ast.IfStmt); ok && seen && src(is.Cond) == "err != nil" {
				branch = is.Body
				break
			}
		}
		if branch == nil {
			fail("communicator.go AcceptConnection: `if err != nil` after NewServerConnection not found")
			return
		}
		// Calls into functions of the package are followed (two levels, parameters bound to the arguments): what the
		// helper does counts as done in the branch, so a named predicate for the error-text test adds nothing and a
		// read or wait moved into a helper is still listed.
		var calls []string
		closes := false
		idx := pkgFuncIndex14("internal/server")
		var walk func(body ast.Node, bd bind14, encl *ast.FuncDecl, depth int)
		walk = func(body ast.Node, bd bind14, encl *ast.FuncDecl, depth int) {
			ast.Inspect(body, func(n ast.Node) bool {
				if c, ok := n.(*ast.CallExpr); ok {
					name := src(c.Fun)
					isErrText := name == "err.Error"
					if se, ok := c.Fun.(*ast.SelectorExpr); ok && se.Sel.Name == "Error" && len(c.Args) == 0 && bd.of(src(se.X)) == "err" {
						isErrText = true
					}
					switch {
					case strings.HasPrefix(name, "log."), name == "strings.Contains", isErrText:
					case (name == "streams.TryClose" || name == "streams.LogClose") && len(c.Args) == 1 && bd.of(src(c.Args[0])) == "conn":
						closes = true
					case strings.HasSuffix(name, ".Close") && len(c.Args) == 0 && bd.of(strings.TrimSuffix(name, ".Close")) == "conn":
						closes = true
					default:
						if callee := resolveCall14(idx, c, encl); callee != nil && callee != encl && depth < 2 {
							walk(callee.Body, bindCall14(bd, c, callee), callee, depth+1)
						} else {
							calls = append(calls, name)
						}
					}
				}
				return true
			})
		}
		walk(branch, bind14{}, fd, 0)
		fmt.Fprintf(b, "/-- communicator.go AcceptConnection, branch taken when the session handshake failed: it closes the connection -/\ndef refusalCloses : Bool := %v\n\n", closes)
		fmt.Fprintf(b, "/-- … and the calls in that branch other than logging, the error-text test and the close itself -/\ndef refusalOtherCalls : List String := %s\n\n", leanStrList14(calls))
	})
}

// C14 (slow targets): muxHandler connects to the channel's target on its own goroutine (no helper goroutine that could
// be left behind with the connection it obtained when the handler has given up waiting).
func init() {
	extractors = append(extractors, func(o *out) {
		b := o.w("C14.lean")
		fd := findFunc(parse("internal/server/communicator.go"), "ConnectionHandler", "muxHandler")
		v := calledUnderGo(fd, "OpenConnection")
		if v == "absent" {
			fail("communicator.go muxHandler: call of OpenConnection not found")
		}
		// a call inside a func literal that is not started with `go` (e.g. deferred) also counts as inline; a literal
		// handed to `go` does not
		fmt.Fprintf(b, "/-- communicator.go muxHandler: the target is dialled (channel.OpenConnection) on the handler's own goroutine -/\ndef muxDialInline : Bool := %v\n\n", v == "inline")
	})
}

func callName(e ast.Expr) string {
	if c, ok := e.(*ast.CallExpr); ok {
		return src(c.Fun)
	}
	return ""
}

package main

import (
	"fmt"
	"go/ast"
	"strings"
)

// C17 (read-ahead): the server selects the channel through a buffered wrapper (clientFirstConn: a bufio.Reader in
// front of the logical stream).  Whatever that reader read ahead beyond the selection tokens exists only in the
// wrapper, so the channel handler must be given the wrapper, not the stream below it.  Facts: the arguments of the
// muxer's Handle calls in multiplexToUpstream, the number of Negotiate calls there (a Negotiate followed by a direct
// call of the handler is the other way to hand a stream on), and what clientFirstConn.Read reads from.
func init() {
	extractors = append(extractors, func(o *out) {
		b := o.w("C17ReadAhead.lean")
		const file = "internal/server/communicator.go"
		f := parse(file)
		fd := findFunc(f, "ConnectionHandler", "multiplexToUpstream")
		var handleArgs []string
		negotiate := 0
		if fd == nil || fd.Body == nil {
			fail("%s: ConnectionHandler.multiplexToUpstream not found", file)
		} else {
			// The fact is about WHAT the handler is given (the wrapper built over the function's connection parameter),
			// not about what that parameter is called: parameters are rendered under fixed names by position, the
			// first one as `multiplexChannel` (the name the theorems of C01/C17 are stated over).
			canon := bind14{}
			pi := 0
			if fd.Type.Params != nil {
				for _, fld := range fd.Type.Params.List {
					for _, nm := range fld.Names {
						if pi == 0 {
							canon[nm.Name] = "multiplexChannel"
						} else {
							canon[nm.Name] = fmt.Sprintf("param%d", pi)
						}
						pi++
					}
				}
			}
			var render func(e ast.Expr) string
			render = func(e ast.Expr) string {
				switch x := e.(type) {
				case *ast.Ident:
					return canon.of(x.Name)
				case *ast.CallExpr:
					as := make([]string, len(x.Args))
					for i, a := range x.Args {
						as[i] = render(a)
					}
					return strings.Join(strings.Fields(src(x.Fun)), "") + "(" + strings.Join(as, ",") + ")"
				case *ast.ParenExpr:
					return "(" + render(x.X) + ")"
				}
				return strings.Join(strings.Fields(src(e)), "")
			}
			ast.Inspect(fd.Body, func(n ast.Node) bool {
				c, ok := n.(*ast.CallExpr)
				if !ok {
					return true
				}
				fn := src(c.Fun)
				switch {
				case strings.HasSuffix(fn, ".Handle") && len(c.Args) == 1:
					handleArgs = append(handleArgs, render(c.Args[0]))
				case strings.HasSuffix(fn, ".Negotiate") || strings.HasSuffix(fn, ".NegotiateLazy"):
					negotiate++
				}
				return true
			})
		}
		reads := ""
		if rd := findFunc(f, "clientFirstConn", "Read"); rd != nil && rd.Body != nil {
			for _, st := range rd.Body.List {
				if r, ok := st.(*ast.ReturnStmt); ok && len(r.Results) == 1 {
					reads = strings.Join(strings.Fields(src(r.Results[0])), "")
				}
			}
		}
		ctor := ""
		if nf := findFunc(f, "", "newClientFirstConn"); nf != nil && nf.Body != nil {
			ast.Inspect(nf.Body, func(n ast.Node) bool {
				if kv, ok := n.(*ast.KeyValueExpr); ok && src(kv.Key) == "reader" {
					ctor = strings.Join(strings.Fields(src(kv.Value)), "")
				}
				return true
			})
		}
		fmt.Fprintf(b, "/-- %s multiplexToUpstream: the argument of every `<muxer>.Handle(…)` call -/\ndef c17MuxHandleArgs : List String := %s\n\n", file, leanStrList14(handleArgs))
		fmt.Fprintf(b, "/-- … and the number of `Negotiate` / `NegotiateLazy` calls there (selection separated from the handler call) -/\ndef c17MuxNegotiateCalls : Nat := %d\n\n", negotiate)
		fmt.Fprintf(b, "/-- clientFirstConn.Read returns … -/\ndef c17WrapperReadsFrom : String := %q\n\n", reads)
		fmt.Fprintf(b, "/-- newClientFirstConn: the wrapper's reader is … -/\ndef c17WrapperReader : String := %q\n", ctor)
	})
}

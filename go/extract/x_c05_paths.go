package main

// C05: recognisers that establish the facts of internal/util/cert/cert.go semantically instead of by statement shape.
//
//   c05walkPaths   visits every assignment of a function body together with its PATH CONDITION: the conditions of the
//                  enclosing `if` statements AND the negated conditions of every earlier `if` of an enclosing block
//                  whose body leaves the block (return / panic / continue / break / goto).  So
//                      conf, err := f(); if err == nil { if flag { X } }; return
//                  and
//                      conf, err := f(); if err != nil { return conf, err }; if flag { X }; return conf, nil
//                  both give X the path condition [err == nil, flag].
//   c05cond        renders a condition in a normal form: parentheses dropped, `!` pushed into ==, !=, <, <=, >, >=, and
//                  a call of a function / method of the same file whose body is one `return <expr>` (an accessor such as
//                  ServerConfig.ClientCertRequired) replaced by that expression with the receiver substituted.

import (
	"go/ast"
	"go/token"
	"regexp"
	"strings"
)

// c05accessor: if call is `x.M()` / `f()` without arguments and the same file declares exactly one M / f whose body is
// the single statement `return <expr>`, the expression with the receiver name replaced by x; else nil-string, false.
func c05accessor(f *ast.File, call *ast.CallExpr) (string, bool) {
	if f == nil || len(call.Args) != 0 {
		return "", false
	}
	name, recvExpr := "", ""
	switch fun := call.Fun.(type) {
	case *ast.Ident:
		name = fun.Name
	case *ast.SelectorExpr:
		name = fun.Sel.Name
		recvExpr = c05src(fun.X)
	default:
		return "", false
	}
	var hit *ast.FuncDecl
	n := 0
	for _, d := range f.Decls {
		fd, ok := d.(*ast.FuncDecl)
		if !ok || fd.Body == nil || fd.Name.Name != name || (fd.Recv == nil) != (recvExpr == "") {
			continue
		}
		n++
		hit = fd
	}
	if n != 1 || len(hit.Body.List) != 1 {
		return "", false
	}
	rs, ok := hit.Body.List[0].(*ast.ReturnStmt)
	if !ok || len(rs.Results) != 1 {
		return "", false
	}
	s := c05src(rs.Results[0])
	if hit.Recv != nil && len(hit.Recv.List) == 1 && len(hit.Recv.List[0].Names) == 1 {
		rn := hit.Recv.List[0].Names[0].Name
		if rn != "_" && rn != recvExpr {
			s = regexp.MustCompile(`\b`+regexp.QuoteMeta(rn)+`\b`).ReplaceAllString(s, recvExpr)
		}
	}
	return s, true
}

var c05negOp = map[token.Token]token.Token{token.EQL: token.NEQ, token.NEQ: token.EQL, token.LSS: token.GEQ,
	token.GEQ: token.LSS, token.GTR: token.LEQ, token.LEQ: token.GTR}

// c05cond: normal form of (neg ? !e : e); f is the file whose accessors may be inlined (nil: none)
func c05cond(f *ast.File, e ast.Expr, neg bool) string {
	switch x := e.(type) {
	case *ast.ParenExpr:
		return c05cond(f, x.X, neg)
	case *ast.UnaryExpr:
		if x.Op == token.NOT {
			return c05cond(f, x.X, !neg)
		}
	case *ast.BinaryExpr:
		if neg {
			if op, ok := c05negOp[x.Op]; ok {
				return c05src(x.X) + " " + op.String() + " " + c05src(x.Y)
			}
		}
	case *ast.CallExpr:
		if s, ok := c05accessor(f, x); ok {
			if neg {
				return "!(" + s + ")"
			}
			return s
		}
	}
	if neg {
		return "!(" + c05src(e) + ")"
	}
	return c05src(e)
}

// c05leaves: the statement list always leaves the enclosing block (its last statement is a return, a panic, a
// continue / break / goto, or an if/else all of whose branches leave)
func c05leaves(list []ast.Stmt) bool {
	if len(list) == 0 {
		return false
	}
	switch s := list[len(list)-1].(type) {
	case *ast.ReturnStmt:
		return true
	case *ast.BranchStmt:
		return s.Tok != token.FALLTHROUGH
	case *ast.ExprStmt:
		if c, ok := s.X.(*ast.CallExpr); ok {
			if id, ok := c.Fun.(*ast.Ident); ok && id.Name == "panic" {
				return true
			}
		}
	case *ast.BlockStmt:
		return c05leaves(s.List)
	case *ast.IfStmt:
		if s.Else == nil || !c05leaves(s.Body.List) {
			return false
		}
		switch e := s.Else.(type) {
		case *ast.BlockStmt:
			return c05leaves(e.List)
		case *ast.IfStmt:
			return c05leaves([]ast.Stmt{e})
		}
	}
	return false
}

// c05walkPaths: see the head of the file.  Closures (go / defer / called literals) are walked under the guards of the
// statement that holds them, as c05walk does.
func c05walkPaths(f *ast.File, body ast.Node, visit func(as *ast.AssignStmt, guards []string)) {
	with := func(g []string, c string) []string { return append(append([]string{}, g...), c) }
	var rec func(n ast.Node, guards []string)
	var list func(l []ast.Stmt, guards []string)
	// after: the conditions known to hold behind an if statement that was passed (nil when it tells nothing)
	var after func(is *ast.IfStmt) []string
	after = func(is *ast.IfStmt) []string {
		bodyLeaves := c05leaves(is.Body.List)
		switch e := is.Else.(type) {
		case nil:
			if bodyLeaves {
				return []string{c05cond(f, is.Cond, true)}
			}
		case *ast.BlockStmt:
			elseLeaves := c05leaves(e.List)
			if bodyLeaves && !elseLeaves {
				return []string{c05cond(f, is.Cond, true)}
			}
			if elseLeaves && !bodyLeaves {
				return []string{c05cond(f, is.Cond, false)}
			}
		case *ast.IfStmt:
			if bodyLeaves {
				return append([]string{c05cond(f, is.Cond, true)}, after(e)...)
			}
		}
		return nil
	}
	list = func(l []ast.Stmt, guards []string) {
		for _, s := range l {
			rec(s, guards)
			if is, ok := s.(*ast.IfStmt); ok {
				for _, c := range after(is) {
					guards = with(guards, c)
				}
			}
		}
	}
	rec = func(n ast.Node, guards []string) {
		switch x := n.(type) {
		case nil:
			return
		case *ast.BlockStmt:
			if x != nil {
				list(x.List, guards)
			}
		case *ast.IfStmt:
			if x.Init != nil {
				rec(x.Init, guards)
			}
			rec(x.Body, with(guards, c05cond(f, x.Cond, false)))
			if x.Else != nil {
				rec(x.Else, with(guards, c05cond(f, x.Cond, true)))
			}
		case *ast.AssignStmt:
			visit(x, guards)
		case *ast.ForStmt:
			rec(x.Body, guards)
		case *ast.RangeStmt:
			rec(x.Body, guards)
		case *ast.SwitchStmt:
			// `switch { case c: … }` / `switch tag { case v: … }`: each clause under its own condition(s)
			tag := ""
			if x.Tag != nil {
				tag = c05src(x.Tag) + " == "
			}
			var earlier []string
			for _, st := range x.Body.List {
				cc, ok := st.(*ast.CaseClause)
				if !ok {
					continue
				}
				g := append([]string{}, guards...)
				var here []string
				for _, e := range cc.List {
					if tag == "" {
						here = append(here, c05cond(f, e, false))
					} else {
						here = append(here, tag+c05src(e))
					}
				}
				if cc.List == nil { // default: none of the other cases
					for _, e := range earlier {
						g = append(g, "!("+e+")")
					}
				} else {
					g = append(g, strings.Join(here, " || "))
					earlier = append(earlier, strings.Join(here, " || "))
				}
				list(cc.Body, g)
			}
		case *ast.TypeSwitchStmt:
			rec(x.Body, guards)
		case *ast.SelectStmt:
			rec(x.Body, guards)
		case *ast.CommClause:
			list(x.Body, guards)
		case *ast.CaseClause:
			list(x.Body, guards)
		case *ast.GoStmt:
			if fl, ok := x.Call.Fun.(*ast.FuncLit); ok {
				rec(fl.Body, guards)
			}
		case *ast.DeferStmt:
			if fl, ok := x.Call.Fun.(*ast.FuncLit); ok {
				rec(fl.Body, guards)
			}
		case *ast.ExprStmt:
			if call, ok := x.X.(*ast.CallExpr); ok {
				if fl, ok := call.Fun.(*ast.FuncLit); ok {
					rec(fl.Body, guards)
				}
			}
		case *ast.LabeledStmt:
			rec(x.Stmt, guards)
		}
	}
	rec(body, nil)
}

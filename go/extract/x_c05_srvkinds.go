package main

// C05: which configuration object each server KIND hands to the TLS layer.
//
//   c05ServerManagerSites  every place in internal/server where a server kind passes a certificate manager to
//                          the handshake (`AcceptConnection(conn, M, …)`: role "starttls") or asks one for the
//                          *tls.Config of its TLS listener (`X.GetTlsConfig()`: role "listener"), as
//                          (file, Type.method, role, class).  class (identifiers resolved through their single
//                          definition):
//                            ServerConfig   `&r.ServerConfig` / `r.ServerConfig` / the receiver itself where its struct
//                                           embeds cert.ServerConfig (the promoted GetTlsConfig is ServerConfig's)
//                            Config         `&r.Config` / `r.ServerConfig.Config`: the embedded BASE configuration - it
//                                           satisfies cert.TlsConfig too, supplies certificate and CAs, and never applies
//                                           RequireClientCert
//                            ?<source>      anything else
//   c05DnsUsesSocketAccept the DNS server embeds SocketServer and has no accept loop of its own (its StartTLS path is
//                          SocketServer.acceptConnection)

import (
	"fmt"
	"go/ast"
	"go/token"
	"os"
	"path/filepath"
	"sort"
	"strings"
)

func c05kRecvName(fd *ast.FuncDecl) (name, typ string) {
	if fd.Recv == nil || len(fd.Recv.List) == 0 {
		return "", ""
	}
	t := fd.Recv.List[0].Type
	if st, ok := t.(*ast.StarExpr); ok {
		t = st.X
	}
	typ = exprString(t)
	if len(fd.Recv.List[0].Names) > 0 {
		name = fd.Recv.List[0].Names[0].Name
	}
	return
}

// c05kEmbeds: does struct `typ` (declared in one of files) embed cert.ServerConfig, directly or through an embedded
// struct of the same package?
func c05kEmbeds(files []*ast.File, typ string, depth int) bool {
	if depth > 4 {
		return false
	}
	for _, f := range files {
		for _, d := range f.Decls {
			gd, ok := d.(*ast.GenDecl)
			if !ok {
				continue
			}
			for _, sp := range gd.Specs {
				ts, ok := sp.(*ast.TypeSpec)
				if !ok || ts.Name.Name != typ {
					continue
				}
				st, ok := ts.Type.(*ast.StructType)
				if !ok {
					return false
				}
				for _, fl := range st.Fields.List {
					if len(fl.Names) != 0 {
						continue
					}
					switch exprString(fl.Type) {
					case "cert.ServerConfig":
						return true
					case "cert.Config":
						return false
					default:
						if c05kEmbeds(files, exprString(fl.Type), depth+1) {
							return true
						}
					}
				}
			}
		}
	}
	return false
}

func c05kClass(files []*ast.File, fd *ast.FuncDecl, recv, recvType string, e ast.Expr, depth int) string {
	if depth > 4 {
		return "?" + src(e)
	}
	switch x := e.(type) {
	case *ast.ParenExpr:
		return c05kClass(files, fd, recv, recvType, x.X, depth+1)
	case *ast.UnaryExpr:
		if x.Op == token.AND {
			return c05kClass(files, fd, recv, recvType, x.X, depth+1)
		}
	case *ast.SelectorExpr:
		s := exprString(x)
		switch s {
		case recv + ".ServerConfig":
			return "ServerConfig"
		case recv + ".Config", recv + ".ServerConfig.Config":
			return "Config"
		}
		// through an embedded server struct: r.SocketServer.ServerConfig
		if strings.HasPrefix(s, recv+".") && strings.HasSuffix(s, ".ServerConfig") {
			return "ServerConfig"
		}
		if strings.HasPrefix(s, recv+".") && strings.HasSuffix(s, ".Config") {
			return "Config"
		}
	case *ast.Ident:
		if x.Name == recv {
			if c05kEmbeds(files, recvType, 0) {
				return "ServerConfig"
			}
			return "?self:" + recvType
		}
		if x.Obj == nil {
			return "?" + x.Name
		}
		// a single definition, never assigned again
		reassigned := false
		ast.Inspect(fd.Body, func(n ast.Node) bool {
			if as, ok := n.(*ast.AssignStmt); ok && as.Tok != token.DEFINE {
				for _, l := range as.Lhs {
					if li, ok := l.(*ast.Ident); ok && li.Obj == x.Obj {
						reassigned = true
					}
				}
			}
			return true
		})
		if reassigned {
			return "?reassigned:" + x.Name
		}
		switch d := x.Obj.Decl.(type) {
		case *ast.AssignStmt:
			for i, l := range d.Lhs {
				if li, ok := l.(*ast.Ident); ok && li.Obj == x.Obj && len(d.Rhs) == len(d.Lhs) {
					return c05kClass(files, fd, recv, recvType, d.Rhs[i], depth+1)
				}
			}
		case *ast.ValueSpec:
			for i, n := range d.Names {
				if n.Obj == x.Obj && i < len(d.Values) {
					return c05kClass(files, fd, recv, recvType, d.Values[i], depth+1)
				}
			}
		}
	}
	return "?" + src(e)
}

func init() {
	extractors = append(extractors, func(o *out) {
		b := o.w("C05Kinds.lean")
		dir := filepath.Join(repo, "internal/server")
		ents, err := os.ReadDir(dir)
		if err != nil {
			fail("internal/server: %v", err)
			return
		}
		var names []string
		for _, e := range ents {
			if strings.HasSuffix(e.Name(), ".go") && !strings.HasSuffix(e.Name(), "_test.go") {
				names = append(names, e.Name())
			}
		}
		sort.Strings(names)
		var files []*ast.File
		for _, n := range names {
			files = append(files, parse("internal/server/"+n))
		}
		type site struct{ file, fn, role, class string }
		var sites []site
		dnsHasAccept, dnsEmbedsSocket := false, false
		for i, f := range files {
			for _, d := range f.Decls {
				if gd, ok := d.(*ast.GenDecl); ok {
					for _, sp := range gd.Specs {
						if ts, ok := sp.(*ast.TypeSpec); ok && ts.Name.Name == "DnsServer" {
							if st, ok := ts.Type.(*ast.StructType); ok {
								for _, fl := range st.Fields.List {
									if len(fl.Names) == 0 && exprString(fl.Type) == "SocketServer" {
										dnsEmbedsSocket = true
									}
								}
							}
						}
					}
				}
				fd, ok := d.(*ast.FuncDecl)
				if !ok || fd.Body == nil {
					continue
				}
				recv, recvType := c05kRecvName(fd)
				if recvType == "DnsServer" && fd.Name.Name == "acceptConnection" {
					dnsHasAccept = true
				}
				fn := fd.Name.Name
				if recvType != "" {
					fn = recvType + "." + fn
				}
				ast.Inspect(fd.Body, func(n ast.Node) bool {
					c, ok := n.(*ast.CallExpr)
					if !ok {
						return true
					}
					if id, ok := c.Fun.(*ast.Ident); ok && id.Name == "AcceptConnection" && len(c.Args) >= 2 {
						sites = append(sites, site{names[i], fn, "starttls", c05kClass(files, fd, recv, recvType, c.Args[1], 0)})
					}
					if sel, ok := c.Fun.(*ast.SelectorExpr); ok && sel.Sel.Name == "GetTlsConfig" && len(c.Args) == 0 {
						sites = append(sites, site{names[i], fn, "listener", c05kClass(files, fd, recv, recvType, sel.X, 0)})
					}
					return true
				})
			}
		}
		if len(sites) == 0 {
			fail("internal/server: no AcceptConnection / GetTlsConfig call found")
		}
		ps := []string{}
		for _, s := range sites {
			ps = append(ps, fmt.Sprintf("(%q, %q, %q, %q)", s.file, s.fn, s.role, s.class))
		}
		fmt.Fprintf(b, "/-- every place in internal/server where a server kind hands a certificate manager to the session handshake (starttls) or asks one for its TLS listener's config (listener): (file, function, role, class of the manager expression) -/\ndef c05ServerManagerSites : List (String × String × String × String) := [\n  %s]\n", strings.Join(ps, ",\n  "))
		fmt.Fprintf(b, "/-- DnsServer embeds SocketServer and declares no acceptConnection of its own: its StartTLS path is SocketServer.acceptConnection -/\ndef c05DnsUsesSocketAccept : Bool := %v\n", dnsEmbedsSocket && !dnsHasAccept)
	})
}

package main

// C12 facts: the command table (order, code, NeedsUserId, nil-ness of the constructors), the codec codes in
// FromCode's order, limits, error strings, and the inventory of panic sites (index / slice / type assertion /
// func-field call) of the anchored DNS decoder files.

import (
	"fmt"
	"go/ast"
	"go/constant"
	"go/printer"
	"go/token"
	"hash/fnv"
	"path/filepath"
	"regexp"
	"sort"
	"strings"
)

func init() {
	extractors = append(extractors, extractC12)
}

func nodeText(n ast.Node) string {
	var sb strings.Builder
	_ = printer.Fprint(&sb, fset, n)
	return strings.Join(strings.Fields(sb.String()), " ")
}

var identRe = regexp.MustCompile(`[A-Za-z_][A-Za-z0-9_]*`)

// shapeText: the expression with every identifier replaced by `_` (so that renaming a variable or a field is not a
// new site) but literals, operators and the bounds structure kept
func shapeText(n ast.Node) string {
	return strings.ReplaceAll(identRe.ReplaceAllString(nodeText(n), "_"), " ", "")
}

func extractC12(o *out) {
	b := o.w("C12.lean")
	cmdDir := "internal/streams/dns/commands"
	files, _ := filepath.Glob(filepath.Join(repo, cmdDir, "*.go"))
	sort.Strings(files)
	type cmdLit struct {
		code               int64
		needs, hasQ, hasR  bool
	}
	lits := map[string]cmdLit{}
	var order []string
	errStrings := map[string]string{}
	for _, p := range files {
		if strings.HasSuffix(p, "_test.go") {
			continue
		}
		rel, _ := filepath.Rel(repo, p)
		f := parse(rel)
		for _, d := range f.Decls {
			g, ok := d.(*ast.GenDecl)
			if !ok || g.Tok != token.VAR {
				continue
			}
			for _, s := range g.Specs {
				vs := s.(*ast.ValueSpec)
				for i, nm := range vs.Names {
					if i >= len(vs.Values) {
						continue
					}
					if call, ok := vs.Values[i].(*ast.CallExpr); ok && exprString(call.Fun) == "errors.New" && len(call.Args) == 1 {
						if v := evalExpr(call.Args[0], nil); v != nil && v.Kind() == constant.String {
							errStrings[nm.Name] = constant.StringVal(v)
						}
					}
					cl, ok := vs.Values[i].(*ast.CompositeLit)
					if !ok {
						continue
					}
					if t, ok := cl.Type.(*ast.Ident); ok && t.Name == "Command" {
						var c cmdLit
						c.code = -1
						for _, e := range cl.Elts {
							kv, ok := e.(*ast.KeyValueExpr)
							if !ok {
								fail("Command literal %s is not keyed", nm.Name)
								continue
							}
							switch exprString(kv.Key) {
							case "Code":
								if v := evalExpr(kv.Value, nil); v != nil {
									c.code, _ = constant.Int64Val(constant.ToInt(v))
								}
							case "NeedsUserId":
								c.needs = exprString(kv.Value) == "true"
							case "NewRequest":
								c.hasQ = exprString(kv.Value) != "nil"
							case "NewResponse":
								c.hasR = exprString(kv.Value) != "nil"
							}
						}
						if c.code < 0 {
							fail("Command literal %s has no constant Code", nm.Name)
						}
						lits[nm.Name] = c
					}
					if at, ok := cl.Type.(*ast.ArrayType); ok && nm.Name == "Commands" && exprString(at.Elt) == "Command" {
						for _, e := range cl.Elts {
							order = append(order, exprString(e))
						}
					}
				}
			}
		}
	}
	if len(order) == 0 {
		fail("commands.Commands table not found")
	}
	fmt.Fprintf(b, "/-- commands.Commands in order: (code, NeedsUserId, NewRequest ≠ nil, NewResponse ≠ nil) -/\ndef commandTable : List (Nat × Bool × Bool × Bool) := [\n")
	for i, n := range order {
		c, ok := lits[n]
		if !ok {
			fail("command %s of the Commands table has no literal", n)
		}
		sep := ","
		if i == len(order)-1 {
			sep = ""
		}
		fmt.Fprintf(b, "  (%d, %v, %v, %v)%s  -- %s %q\n", c.code, c.needs, c.hasQ, c.hasR, sep, n, string(rune(c.code)))
	}
	fmt.Fprintf(b, "]\n")
	for _, e := range []struct{ lean, goName string }{{"errBadVersion", "BadVersion"}, {"errBadIp", "BadIp"}, {"errBadCommand", "BadCommand"},
		{"errBadCodec", "BadCodec"}, {"errBadFrag", "BadFrag"}, {"errBadUser", "BadUser"}, {"errBadConn", "BadConn"}, {"errServerFull", "BadServerFull"}} {
		s, ok := errStrings[e.goName]
		if !ok {
			fail("commands.%s not found", e.goName)
		}
		fmt.Fprintf(b, "def %s : String := %q\n", e.lean, s)
	}

	// codec codes in FromCode's order
	encDir := "internal/util/enc"
	iface := parse(encDir + "/interface.go")
	varType := map[string]string{}
	for _, d := range iface.Decls {
		g, ok := d.(*ast.GenDecl)
		if !ok || g.Tok != token.VAR {
			continue
		}
		for _, s := range g.Specs {
			vs := s.(*ast.ValueSpec)
			for i, nm := range vs.Names {
				if i < len(vs.Values) {
					if u, ok := vs.Values[i].(*ast.UnaryExpr); ok {
						if cl, ok := u.X.(*ast.CompositeLit); ok {
							varType[nm.Name] = exprString(cl.Type)
						}
					}
				}
			}
		}
	}
	codeOf := map[string]int64{}
	efiles, _ := filepath.Glob(filepath.Join(repo, encDir, "*.go"))
	for _, p := range efiles {
		if strings.HasSuffix(p, "_test.go") {
			continue
		}
		rel, _ := filepath.Rel(repo, p)
		f := parse(rel)
		for _, d := range f.Decls {
			fd, ok := d.(*ast.FuncDecl)
			if !ok || fd.Name.Name != "Code" || fd.Recv == nil {
				continue
			}
			t := fd.Recv.List[0].Type
			if st, ok := t.(*ast.StarExpr); ok {
				t = st.X
			}
			if v := methodReturn(f, exprString(t), "Code", nil); v != nil {
				codeOf[exprString(t)], _ = constant.Int64Val(constant.ToInt(v))
			}
		}
	}
	var codes []string
	if fc := findFunc(iface, "", "FromCode"); fc != nil {
		ast.Inspect(fc.Body, func(n ast.Node) bool {
			if cl, ok := n.(*ast.CompositeLit); ok {
				if at, ok := cl.Type.(*ast.ArrayType); ok && exprString(at.Elt) == "Encoder" {
					for _, e := range cl.Elts {
						c, ok := codeOf[varType[exprString(e)]]
						if !ok {
							fail("FromCode: no Code() for %s", exprString(e))
						}
						codes = append(codes, fmt.Sprint(c))
					}
				}
			}
			return true
		})
	}
	if len(codes) == 0 {
		fail("enc.FromCode encoder list not found")
	}
	fmt.Fprintf(b, "/-- Code() of the encoders enc.FromCode searches, in order -/\ndef encoderCodes : List Nat := [%s]\n", strings.Join(codes, ", "))

	// limits
	srvFile := "internal/streams/dns/dns_server_connection.go"
	sf := parse(srvFile)
	sen := fileConsts(sf, nil)
	fmt.Fprintf(b, "def maxDownstreamFragmentSize : Nat := %d\n", intConst(sen, "MaxDownstreamFragmentSize", srvFile))
	cen := fileConsts(parse("internal/streams/dns/consts.go"), nil)
	fmt.Fprintf(b, "def protocolVersion : Nat := %d\n", intConst(cen, "ProtocolVersion", "consts.go"))
	defFrag := int64(-1)
	if ctor := findFunc(sf, "", "NewServerDnsListener"); ctor != nil {
		ast.Inspect(ctor.Body, func(n ast.Node) bool {
			if kv, ok := n.(*ast.KeyValueExpr); ok && exprString(kv.Key) == "Downstream" {
				ast.Inspect(kv.Value, func(m ast.Node) bool {
					if kv2, ok := m.(*ast.KeyValueExpr); ok && exprString(kv2.Key) == "FragmentSize" {
						if v := evalExpr(kv2.Value, sen); v != nil {
							defFrag, _ = constant.Int64Val(constant.ToInt(v))
						}
					}
					return true
				})
			}
			return true
		})
	}
	if defFrag < 0 {
		fail("default downstream fragment size not found in NewServerDnsListener")
	}
	fmt.Fprintf(b, "def defaultDownstreamFragmentSize : Nat := %d\n", defFrag)

	// query type numbers of the record types whose wrapping cannot fail on length (NULL, PRIVATE)
	{
		pen := fileConsts(parse("internal/streams/dns/util/socketace_private_rr.go"), nil)
		qf := parse("internal/streams/dns/util/query_types.go")
		typeNum := func(name string) int64 {
			for _, d := range qf.Decls {
				g, ok := d.(*ast.GenDecl)
				if !ok || g.Tok != token.VAR {
					continue
				}
				for _, sp := range g.Specs {
					vs := sp.(*ast.ValueSpec)
					for i, nm := range vs.Names {
						if nm.Name != name || i >= len(vs.Values) {
							continue
						}
						if call, ok := vs.Values[i].(*ast.CallExpr); ok && exprString(call.Fun) == "dnsmessage.Type" && len(call.Args) == 1 {
							if v := evalExpr(call.Args[0], pen); v != nil {
								n, _ := constant.Int64Val(constant.ToInt(v))
								return n
							}
						}
					}
				}
			}
			fail("util.%s is no longer dnsmessage.Type(<constant>)", name)
			return 0
		}
		fmt.Fprintf(b, "/-- util/query_types.go QueryTypeNull / QueryTypePrivate -/\ndef c12QueryTypeNull : Nat := %d\ndef c12QueryTypePrivate : Nat := %d\n",
			typeNum("QueryTypeNull"), typeNum("QueryTypePrivate"))
	}

	// ---- panic-site inventory ------------------------------------------------------------------
	siteFiles := []string{srvFile, "internal/streams/dns/server_communicator.go", "internal/streams/dns/util/wrap.go"}
	for _, p := range files {
		if !strings.HasSuffix(p, "_test.go") {
			rel, _ := filepath.Rel(repo, p)
			siteFiles = append(siteFiles, rel)
		}
	}
	sort.Strings(siteFiles)
	funcFields := map[string]bool{"NewRequest": true, "NewResponse": true, "closer": true, "onMessage": true, "OnChunkAdded": true}
	type site struct {
		fp   uint32
		text string
	}
	var sites []site
	var discharged []string
	constCache := map[*ast.File]env{}
	fileConstsOf := func(f *ast.File) env {
		if en, ok := constCache[f]; ok {
			return en
		}
		en := fileConsts(f, nil)
		constCache[f] = en
		return en
	}
	for _, rel := range siteFiles {
		f := parse(rel)
		for _, d := range f.Decls {
			fd, ok := d.(*ast.FuncDecl)
			if !ok || fd.Body == nil {
				continue
			}
			fname := fd.Name.Name
			if fd.Recv != nil && len(fd.Recv.List) > 0 {
				t := fd.Recv.List[0].Type
				if st, ok := t.(*ast.StarExpr); ok {
					t = st.X
				}
				fname = exprString(t) + "." + fname
			}
			// request/response *encoders* work on the program's own values, not on attacker input
			if strings.HasSuffix(fname, ".Encode") || strings.HasPrefix(fname, "Serializer.EncodeDnsRequest") ||
				fname == "EncodeRequestHeader" || fname == "EncodeUserId" || fname == "randomChars" || strings.HasSuffix(fname, ".writeBool") {
				continue
			}
			count := map[string]int{}
			// index / slice sites whose dominating length guards imply that they stay within bounds (x_c12_bounds.go) are
			// not part of the inventory, wherever they live and however the guard is spelled; they still count as
			// occurrences so that the fingerprints of the remaining sites are the ones they always had
			safe := bcDischarge(fd, fileConstsOf(f))
			add := func(kind string, n ast.Node) {
				key := fmt.Sprintf("%s|%s|%s|%s", filepath.Base(rel), fname, kind, shapeText(n))
				count[key]++
				full := fmt.Sprintf("%s#%d", key, count[key])
				if why, ok := safe[n]; ok {
					discharged = append(discharged, fmt.Sprintf("%s   %s   [%s]", full, nodeText(n), why))
					return
				}
				h := fnv.New32a()
				h.Write([]byte(full))
				sites = append(sites, site{h.Sum32(), full + "   " + nodeText(n)})
			}
			typeSwitchAsserts := map[ast.Node]bool{}
			commaOk := map[ast.Node]bool{}
			ast.Inspect(fd.Body, func(n ast.Node) bool {
				switch x := n.(type) {
				case *ast.TypeSwitchStmt:
					ast.Inspect(x.Assign, func(m ast.Node) bool {
						if ta, ok := m.(*ast.TypeAssertExpr); ok {
							typeSwitchAsserts[ta] = true
						}
						return true
					})
				case *ast.AssignStmt:
					if len(x.Lhs) == 2 && len(x.Rhs) == 1 {
						if ta, ok := x.Rhs[0].(*ast.TypeAssertExpr); ok {
							commaOk[ta] = true
						}
					}
				}
				return true
			})
			ast.Inspect(fd.Body, func(n ast.Node) bool {
				switch x := n.(type) {
				case *ast.IndexExpr:
					add("index", x)
				case *ast.SliceExpr:
					add("slice", x)
				case *ast.TypeAssertExpr:
					if !typeSwitchAsserts[x] && !commaOk[x] {
						add("assert", x)
					}
				case *ast.CallExpr:
					if sel, ok := x.Fun.(*ast.SelectorExpr); ok && funcFields[sel.Sel.Name] {
						add("callfield", x.Fun)
					}
				}
				return true
			})
		}
	}
	fmt.Fprintf(b, "/-- fingerprints (FNV-32a of `file|func|kind|expression shape#occurrence`) of every index / slice / unchecked type\n    assertion / func-field call in the DNS server handler, the command decoders and the record (un)wrapping -/\n")
	fmt.Fprintf(b, "def panicSites : List Nat := [\n")
	for i, s := range sites {
		sep := ","
		if i == len(sites)-1 {
			sep = ""
		}
		fmt.Fprintf(b, "  %d%s  -- %s\n", s.fp, sep, s.text)
	}
	fmt.Fprintf(b, "]\n")
	fmt.Fprintf(b, "-- %d index / slice sites are left out of `panicSites` because the length guards that dominate them imply that they stay\n-- within bounds (go/extract/x_c12_bounds.go); each with the discharged requirements:\n", len(discharged))
	for _, d := range discharged {
		fmt.Fprintf(b, "-- within bounds: %s\n", d)
	}

	// the session-bound handlers refuse before they act: the statement after `…, err := s.validateAndGetUser(…)` is
	// `if err != nil { resp.Err = err } else …` — whatever the request carries (close flag, options, payload), nothing
	// of it is looked at while the sender has not been validated as the owner of the live session it names
	{
		const file = "internal/streams/dns/dns_server_connection.go"
		f := parse(file)
		fmt.Fprintf(b, "/-- %s: for each handler of a command that carries a user id, is the statement that follows\n    `…, err := s.validateAndGetUser(…)` of the form `if err != nil { resp.Err = err } …` (nothing of the request is acted on\n    before the sender is validated)? -/\n", file)
		fmt.Fprintf(b, "def handlerRefusesFirst : List (String × Bool) := [")
		for i, name := range []string{"packet", "setOptionsRequest", "testDownstreamFragmentSize", "testUpstreamEncoder"} {
			fd := findFunc(f, "ServerDnsListener", name)
			ok := false
			if fd == nil || fd.Body == nil {
				fail("handler %s not found in %s", name, file)
			} else {
				found := false
				for k, st := range fd.Body.List {
					as, isAs := st.(*ast.AssignStmt)
					if !isAs || len(as.Rhs) != 1 || !strings.HasPrefix(nodeText(as.Rhs[0]), "s.validateAndGetUser(") {
						continue
					}
					found = true
					if len(as.Lhs) == 2 && exprString(as.Lhs[1]) == "err" && k+1 < len(fd.Body.List) {
						if is, isIf := fd.Body.List[k+1].(*ast.IfStmt); isIf && is.Init == nil && nodeText(is.Cond) == "err != nil" &&
							len(is.Body.List) == 1 && nodeText(is.Body.List[0]) == "resp.Err = err" {
							ok = true
						}
					}
					break
				}
				if !found {
					fail("handler %s no longer calls validateAndGetUser in a top-level assignment", name)
				}
			}
			if i > 0 {
				fmt.Fprintf(b, ", ")
			}
			fmt.Fprintf(b, "(%q, %v)", name, ok)
		}
		fmt.Fprintf(b, "]\n")
	}
}

package main

// C12 facts: the command table (order, code, NeedsUserId, nil-ness of the constructors), the codec codes in
// FromCode's order, limits, error strings, and the inventory of panic sites (index / slice / type assertion /
// func-field call) of the anchored DNS decoder files.

import (
	"fmt"
	"go/ast"
	"go/constant"
	"go/printer"
	"go/token"
	"hash/fnv"
	"path/filepath"
	"regexp"
	"sort"
	"strings"
)

func init() {
	extractors = append(extractors, extractC12)
}

func nodeText(n ast.Node) string {
	var sb strings.Builder
	_ = printer.Fprint(&sb, fset, n)
	return strings.Join(strings.Fields(sb.String()), " ")
}

var identRe = regexp.MustCompile(`[A-Za-z_][A-Za-z0-9_]*`)

// shapeText: the expression with every identifier replaced by `_` (so that renaming a variable or a field is not a
// new site) but literals, operators and the bounds structure kept
func shapeText(n ast.Node) string {
	return strings.ReplaceAll(identRe.ReplaceAllString(lenAtomRe.ReplaceAllString(nodeText(n), "_"), "_"), " ", "")
}

// the length of a variable is an atom of a shape, like a variable that holds it (`data[0:len(data)-k]` and
// `n := len(data); data[0:n-k]` are one site)
var lenAtomRe = regexp.MustCompile(`\blen\([A-Za-z_][A-Za-z0-9_]*\)`)

func extractC12(o *out) {
	b := o.w("C12.lean")
	cmdDir := "internal/streams/dns/commands"
	files, _ := filepath.Glob(filepath.Join(repo, cmdDir, "*.go"))
	sort.Strings(files)
	type cmdLit struct {
		code               int64
		needs, hasQ, hasR  bool
	}
	lits := map[string]cmdLit{}
	var order []string
	errStrings := map[string]string{}
	for _, p := range files {
		if strings.HasSuffix(p, "_test.go") {
			continue
		}
		rel, _ := filepath.Rel(repo, p)
		f := parse(rel)
		for _, d := range f.Decls {
			g, ok := d.(*ast.GenDecl)
			if !ok || g.Tok != token.VAR {
				continue
			}
			for _, s := range g.Specs {
				vs := s.(*ast.ValueSpec)
				for i, nm := range vs.Names {
					if i >= len(vs.Values) {
						continue
					}
					if call, ok := vs.Values[i].(*ast.CallExpr); ok && exprString(call.Fun) == "errors.New" && len(call.Args) == 1 {
						if v := evalExpr(call.Args[0], nil); v != nil && v.Kind() == constant.String {
							errStrings[nm.Name] = constant.StringVal(v)
						}
					}
					cl, ok := vs.Values[i].(*ast.CompositeLit)
					if !ok {
						continue
					}
					if t, ok := cl.Type.(*ast.Ident); ok && t.Name == "Command" {
						var c cmdLit
						c.code = -1
						for _, e := range cl.Elts {
							kv, ok := e.(*ast.KeyValueExpr)
							if !ok {
								fail("Command literal %s is not keyed", nm.Name)
								continue
							}
							switch exprString(kv.Key) {
							case "Code":
								if v := evalExpr(kv.Value, nil); v != nil {
									c.code, _ = constant.Int64Val(constant.ToInt(v))
								}
							case "NeedsUserId":
								c.needs = exprString(kv.Value) == "true"
							case "NewRequest":
								c.hasQ = exprString(kv.Value) != "nil"
							case "NewResponse":
								c.hasR = exprString(kv.Value) != "nil"
							}
						}
						if c.code < 0 {
							fail("Command literal %s has no constant Code", nm.Name)
						}
						lits[nm.Name] = c
					}
					if at, ok := cl.Type.(*ast.ArrayType); ok && nm.Name == "Commands" && exprString(at.Elt) == "Command" {
						for _, e := range cl.Elts {
							order = append(order, exprString(e))
						}
					}
				}
			}
		}
	}
	if len(order) == 0 {
		fail("commands.Commands table not found")
	}
	fmt.Fprintf(b, "/-- commands.Commands in order: (code, NeedsUserId, NewRequest ≠ nil, NewResponse ≠ nil) -/\ndef commandTable : List (Nat × Bool × Bool × Bool) := [\n")
	for i, n := range order {
		c, ok := lits[n]
		if !ok {
			fail("command %s of the Commands table has no literal", n)
		}
		sep := ","
		if i == len(order)-1 {
			sep = ""
		}
		fmt.Fprintf(b, "  (%d, %v, %v, %v)%s  -- %s %q\n", c.code, c.needs, c.hasQ, c.hasR, sep, n, string(rune(c.code)))
	}
	fmt.Fprintf(b, "]\n")
	for _, e := range []struct{ lean, goName string }{{"errBadVersion", "BadVersion"}, {"errBadIp", "BadIp"}, {"errBadCommand", "BadCommand"},
		{"errBadCodec", "BadCodec"}, {"errBadFrag", "BadFrag"}, {"errBadUser", "BadUser"}, {"errBadConn", "BadConn"}, {"errServerFull", "BadServerFull"}} {
		s, ok := errStrings[e.goName]
		if !ok {
			fail("commands.%s not found", e.goName)
		}
		fmt.Fprintf(b, "def %s : String := %q\n", e.lean, s)
	}

	// codec codes in FromCode's order
	encDir := "internal/util/enc"
	iface := parse(encDir + "/interface.go")
	varType := map[string]string{}
	for _, d := range iface.Decls {
		g, ok := d.(*ast.GenDecl)
		if !ok || g.Tok != token.VAR {
			continue
		}
		for _, s := range g.Specs {
			vs := s.(*ast.ValueSpec)
			for i, nm := range vs.Names {
				if i < len(vs.Values) {
					if u, ok := vs.Values[i].(*ast.UnaryExpr); ok {
						if cl, ok := u.X.(*ast.CompositeLit); ok {
							varType[nm.Name] = exprString(cl.Type)
						}
					}
				}
			}
		}
	}
	codeOf := map[string]int64{}
	efiles, _ := filepath.Glob(filepath.Join(repo, encDir, "*.go"))
	for _, p := range efiles {
		if strings.HasSuffix(p, "_test.go") {
			continue
		}
		rel, _ := filepath.Rel(repo, p)
		f := parse(rel)
		for _, d := range f.Decls {
			fd, ok := d.(*ast.FuncDecl)
			if !ok || fd.Name.Name != "Code" || fd.Recv == nil {
				continue
			}
			t := fd.Recv.List[0].Type
			if st, ok := t.(*ast.StarExpr); ok {
				t = st.X
			}
			if v := methodReturn(f, exprString(t), "Code", nil); v != nil {
				codeOf[exprString(t)], _ = constant.Int64Val(constant.ToInt(v))
			}
		}
	}
	var codes []string
	if fc := findFunc(iface, "", "FromCode"); fc != nil {
		ast.Inspect(fc.Body, func(n ast.Node) bool {
			if cl, ok := n.(*ast.CompositeLit); ok {
				if at, ok := cl.Type.(*ast.ArrayType); ok && exprString(at.Elt) == "Encoder" {
					for _, e := range cl.Elts {
						c, ok := codeOf[varType[exprString(e)]]
						if !ok {
							fail("FromCode: no Code() for %s", exprString(e))
						}
						codes = append(codes, fmt.Sprint(c))
					}
				}
			}
			return true
		})
	}
	if len(codes) == 0 {
		fail("enc.FromCode encoder list not found")
	}
	fmt.Fprintf(b, "/-- Code() of the encoders enc.FromCode searches, in order -/\ndef encoderCodes : List Nat := [%s]\n", strings.Join(codes, ", "))

	// limits
	srvFile := "internal/streams/dns/dns_server_connection.go"
	sf := parse(srvFile)
	sen := fileConsts(sf, nil)
	fmt.Fprintf(b, "def maxDownstreamFragmentSize : Nat := %d\n", intConst(sen, "MaxDownstreamFragmentSize", srvFile))
	cen := fileConsts(parse("internal/streams/dns/consts.go"), nil)
	fmt.Fprintf(b, "def protocolVersion : Nat := %d\n", intConst(cen, "ProtocolVersion", "consts.go"))
	defFrag := int64(-1)
	if ctor := findFunc(sf, "", "NewServerDnsListener"); ctor != nil {
		ast.Inspect(ctor.Body, func(n ast.Node) bool {
			if kv, ok := n.(*ast.KeyValueExpr); ok && exprString(kv.Key) == "Downstream" {
				ast.Inspect(kv.Value, func(m ast.Node) bool {
					if kv2, ok := m.(*ast.KeyValueExpr); ok && exprString(kv2.Key) == "FragmentSize" {
						if v := evalExpr(kv2.Value, sen); v != nil {
							defFrag, _ = constant.Int64Val(constant.ToInt(v))
						}
					}
					return true
				})
			}
			return true
		})
	}
	if defFrag < 0 {
		fail("default downstream fragment size not found in NewServerDnsListener")
	}
	fmt.Fprintf(b, "def defaultDownstreamFragmentSize : Nat := %d\n", defFrag)

	// query type numbers of the record types whose wrapping cannot fail on length (NULL, PRIVATE)
	{
		pen := fileConsts(parse("internal/streams/dns/util/socketace_private_rr.go"), nil)
		qf := parse("internal/streams/dns/util/query_types.go")
		typeNum := func(name string) int64 {
			for _, d := range qf.Decls {
				g, ok := d.(*ast.GenDecl)
				if !ok || g.Tok != token.VAR {
					continue
				}
				for _, sp := range g.Specs {
					vs := sp.(*ast.ValueSpec)
					for i, nm := range vs.Names {
						if nm.Name != name || i >= len(vs.Values) {
							continue
						}
						if call, ok := vs.Values[i].(*ast.CallExpr); ok && exprString(call.Fun) == "dnsmessage.Type" && len(call.Args) == 1 {
							if v := evalExpr(call.Args[0], pen); v != nil {
								n, _ := constant.Int64Val(constant.ToInt(v))
								return n
							}
						}
					}
				}
			}
			fail("util.%s is no longer dnsmessage.Type(<constant>)", name)
			return 0
		}
		fmt.Fprintf(b, "/-- util/query_types.go QueryTypeNull / QueryTypePrivate -/\ndef c12QueryTypeNull : Nat := %d\ndef c12QueryTypePrivate : Nat := %d\n",
			typeNum("QueryTypeNull"), typeNum("QueryTypePrivate"))
	}

	// ---- panic-site inventory ------------------------------------------------------------------
	siteFiles := []string{srvFile, "internal/streams/dns/server_communicator.go", "internal/streams/dns/util/wrap.go"}
	for _, p := range files {
		if !strings.HasSuffix(p, "_test.go") {
			rel, _ := filepath.Rel(repo, p)
			siteFiles = append(siteFiles, rel)
		}
	}
	sort.Strings(siteFiles)
	funcFields := map[string]bool{"NewRequest": true, "NewResponse": true, "closer": true, "onMessage": true, "OnChunkAdded": true}
	type site struct {
		fp   uint32
		text string
	}
	var sites []site
	var discharged []string
	constCache := map[*ast.File]env{}
	fileConstsOf := func(f *ast.File) env {
		if en, ok := constCache[f]; ok {
			return en
		}
		en := fileConsts(f, nil)
		constCache[f] = en
		return en
	}
	// units, helpers and who reaches the helpers (x_c12_inline.go)
	c12Excluded := func(fname string) bool {
		// request/response *encoders* work on the program's own values, not on attacker input
		return strings.HasSuffix(fname, ".Encode") || strings.HasPrefix(fname, "Serializer.EncodeDnsRequest") ||
			fname == "EncodeRequestHeader" || fname == "EncodeUserId" || fname == "randomChars" || strings.HasSuffix(fname, ".writeBool")
	}
	c12Fname := func(fd *ast.FuncDecl) string {
		fname := fd.Name.Name
		if fd.Recv != nil && len(fd.Recv.List) > 0 {
			t := fd.Recv.List[0].Type
			if st, ok := t.(*ast.StarExpr); ok {
				t = st.X
			}
			fname = exprString(t) + "." + fname
		}
		return fname
	}
	liveReach, exclReach := map[*ast.FuncDecl]bool{}, map[*ast.FuncDecl]bool{}
	for _, rel := range siteFiles {
		pkg := c12PkgOf(filepath.Dir(rel))
		var live, excl []*ast.FuncDecl
		for _, d := range c12Parse(rel).Decls {
			if fd, ok := d.(*ast.FuncDecl); ok && fd.Body != nil && !c12IsHelper(fd) {
				if c12Excluded(c12Fname(fd)) {
					excl = append(excl, fd)
				} else {
					live = append(live, fd)
				}
			}
		}
		for h := range pkg.c12Reach(live) {
			liveReach[h] = true
		}
		for h := range pkg.c12Reach(excl) {
			exclReach[h] = true
		}
	}
	for _, rel := range siteFiles {
		f := c12Parse(rel)
		pkg := c12PkgOf(filepath.Dir(rel))
		for _, d := range f.Decls {
			fd, ok := d.(*ast.FuncDecl)
			if !ok || fd.Body == nil {
				continue
			}
			fname := c12Fname(fd)
			if c12Excluded(fname) {
				continue
			}
			if c12IsHelper(fd) && (liveReach[fd] || exclReach[fd]) {
				// accounted to the units that call it / reached by the excluded encoders only
				continue
			}
			count := map[string]int{}
			// index / slice sites whose dominating length guards imply that they stay within bounds (x_c12_bounds.go) are
			// not part of the inventory, wherever they live and however the guard is spelled; they still count as
			// occurrences so that the fingerprints of the remaining sites are the ones they always had
			add := func(kind string, n ast.Node, safe map[ast.Node]string) {
				key := fmt.Sprintf("%s|%s|%s|%s", filepath.Base(rel), fname, kind, shapeText(n))
				count[key]++
				full := fmt.Sprintf("%s#%d", key, count[key])
				if why, ok := safe[n]; ok {
					discharged = append(discharged, fmt.Sprintf("%s   %s   [%s]", full, nodeText(n), why))
					return
				}
				h := fnv.New32a()
				h.Write([]byte(full))
				sites = append(sites, site{h.Sum32(), full + "   " + nodeText(n)})
			}
			var walk func(body *ast.FuncDecl, en env, stack []*ast.FuncDecl)
			walk = func(body *ast.FuncDecl, en env, stack []*ast.FuncDecl) {
				safe := bcDischarge(body, en)
				typeSwitchAsserts := map[ast.Node]bool{}
				commaOk := map[ast.Node]bool{}
				ast.Inspect(body.Body, func(n ast.Node) bool {
					switch x := n.(type) {
					case *ast.TypeSwitchStmt:
						ast.Inspect(x.Assign, func(m ast.Node) bool {
							if ta, ok := m.(*ast.TypeAssertExpr); ok {
								typeSwitchAsserts[ta] = true
							}
							return true
						})
					case *ast.AssignStmt:
						if len(x.Lhs) == 2 && len(x.Rhs) == 1 {
							if ta, ok := x.Rhs[0].(*ast.TypeAssertExpr); ok {
								commaOk[ta] = true
							}
						}
					}
					return true
				})
				var visit func(n ast.Node) bool
				visit = func(n ast.Node) bool {
					switch x := n.(type) {
					case *ast.IndexExpr:
						add("index", x, safe)
					case *ast.SliceExpr:
						add("slice", x, safe)
					case *ast.TypeAssertExpr:
						if !typeSwitchAsserts[x] && !commaOk[x] {
							add("assert", x, safe)
						}
					case *ast.CallExpr:
						if sel, ok := x.Fun.(*ast.SelectorExpr); ok && funcFields[sel.Sel.Name] {
							add("callfield", x.Fun, safe)
						}
						// a call into a helper: the helper's sites are sites of this unit, with the arguments in place
						if h := pkg.c12Callee(x); h != nil && len(stack) < 4 {
							onStack := false
							for _, s := range stack {
								onStack = onStack || s == h
							}
							// an argument whose own sites are all within bounds where the call stands is evaluated there, under
							// the caller's guards; any other argument is written in place of the parameter
							guarded := func(e ast.Expr) bool {
								n, all := 0, true
								ast.Inspect(e, func(m ast.Node) bool {
									switch m.(type) {
									case *ast.IndexExpr, *ast.SliceExpr:
										n++
										if _, ok := safe[m]; !ok {
											all = false
										}
									}
									return true
								})
								return n > 0 && all
							}
							if inst, taken := c12Instantiate(h, x, guarded); inst != nil && !onStack {
								if sel, ok := x.Fun.(*ast.SelectorExpr); ok && !taken[-1] {
									ast.Inspect(sel.X, visit)
								}
								for i, arg := range x.Args {
									if !taken[i] {
										ast.Inspect(arg, visit)
									}
								}
								walk(inst, c12MergeEnv(en, fileConstsOf(pkg.fileOf[h])), append(stack, h))
								return false
							}
						}
					}
					return true
				}
				ast.Inspect(body.Body, visit)
			}
			walk(fd, fileConstsOf(f), nil)
		}
	}
	fmt.Fprintf(b, "/-- fingerprints (FNV-32a of `file|func|kind|expression shape#occurrence`) of every index / slice / unchecked type\n    assertion / func-field call in the DNS server handler, the command decoders and the record (un)wrapping -/\n")
	fmt.Fprintf(b, "def panicSites : List Nat := [\n")
	for i, s := range sites {
		sep := ","
		if i == len(sites)-1 {
			sep = ""
		}
		fmt.Fprintf(b, "  %d%s  -- %s\n", s.fp, sep, s.text)
	}
	fmt.Fprintf(b, "]\n")
	fmt.Fprintf(b, "-- %d index / slice sites are left out of `panicSites` because the length guards that dominate them imply that they stay\n-- within bounds (go/extract/x_c12_bounds.go); each with the discharged requirements:\n", len(discharged))
	for _, d := range discharged {
		fmt.Fprintf(b, "-- within bounds: %s\n", d)
	}

	// the session-bound handlers refuse before they act: the statement after `…, err := s.validateAndGetUser(…)` is
	// `if err != nil { resp.Err = err } else …` — whatever the request carries (close flag, options, payload), nothing
	// of it is looked at while the sender has not been validated as the owner of the live session it names
	{
		const file = "internal/streams/dns/dns_server_connection.go"
		f := parse(file)
		fmt.Fprintf(b, "/-- %s: for each handler of a command that carries a user id, is the statement that follows\n    `…, err := s.validateAndGetUser(…)` of the form `if err != nil { resp.Err = err } …` (nothing of the request is acted on\n    before the sender is validated)? -/\n", file)
		fmt.Fprintf(b, "def handlerRefusesFirst : List (String × Bool) := [")
		for i, name := range []string{"packet", "setOptionsRequest", "testDownstreamFragmentSize", "testUpstreamEncoder"} {
			fd := findFunc(f, "ServerDnsListener", name)
			ok := false
			if fd == nil || fd.Body == nil {
				fail("handler %s not found in %s", name, file)
			} else {
				found := false
				reqName := ""
				if ps := fd.Type.Params.List; len(ps) > 0 && len(ps[0].Names) > 0 {
					reqName = ps[0].Names[0].Name
				}
				for k, st := range fd.Body.List {
					as, isAs := st.(*ast.AssignStmt)
					if !isAs || len(as.Rhs) != 1 || !strings.HasPrefix(nodeText(as.Rhs[0]), "s.validateAndGetUser(") {
						continue
					}
					found = true
					if len(as.Lhs) == 2 && k+1 < len(fd.Body.List) {
						errName := exprString(as.Lhs[1])
						// the statement that follows tests the error, and what it does with an error is: store it in the
						// response and -- at most -- hand the response to the encoder (directly or through a helper that
						// only picks the serializer), without a look at the request
						if is, isIf := fd.Body.List[k+1].(*ast.IfStmt); isIf && is.Init == nil && errName != "_" &&
							(nodeText(is.Cond) == errName+" != nil" || nodeText(is.Cond) == "nil != "+errName) {
							ok = c12RefusalBranch(c12PkgOf(filepath.Dir(file)), is.Body.List, errName, reqName)
						}
					}
					break
				}
				if !found {
					fail("handler %s no longer calls validateAndGetUser in a top-level assignment", name)
				}
			}
			if i > 0 {
				fmt.Fprintf(b, ", ")
			}
			fmt.Fprintf(b, "(%q, %v)", name, ok)
		}
		fmt.Fprintf(b, "]\n")
	}
}

// c12RefusalBranch: the statements are `<resp>.Err = <err>` (exactly once) followed, at most, by a `return` whose
// expressions do not mention the request and call nothing but a response encoder -- `….EncodeDnsResponse(…)` or a
// helper of the package whose body, in turn, consists of nothing but such returns under conditions without calls
func c12RefusalBranch(pkg *c12Pkg, list []ast.Stmt, errName, reqName string) bool {
	if len(list) == 0 || len(list) > 2 {
		return false
	}
	as, isAs := list[0].(*ast.AssignStmt)
	if !isAs || as.Tok != token.ASSIGN || len(as.Lhs) != 1 || len(as.Rhs) != 1 || exprString(as.Rhs[0]) != errName {
		return false
	}
	if sel, isSel := as.Lhs[0].(*ast.SelectorExpr); !isSel || sel.Sel.Name != "Err" {
		return false
	} else if _, isId := sel.X.(*ast.Ident); !isId {
		return false
	}
	if len(list) == 1 {
		return true
	}
	ret, isRet := list[1].(*ast.ReturnStmt)
	if !isRet {
		return false
	}
	mentionsReq := false
	ast.Inspect(ret, func(n ast.Node) bool {
		if id, isId := n.(*ast.Ident); isId && reqName != "" && id.Name == reqName {
			mentionsReq = true
		}
		return true
	})
	return !mentionsReq && c12OnlyEncodes(pkg, ret, 0)
}

// c12OnlyEncodes: every call below n is `….EncodeDnsResponse(…)` or a helper that only encodes
func c12OnlyEncodes(pkg *c12Pkg, n ast.Node, depth int) bool {
	good := true
	ast.Inspect(n, func(m ast.Node) bool {
		call, isCall := m.(*ast.CallExpr)
		if !isCall {
			return true
		}
		if sel, isSel := call.Fun.(*ast.SelectorExpr); isSel && sel.Sel.Name == "EncodeDnsResponse" {
			return true
		}
		if h := pkg.c12Callee(call); h != nil && depth < 2 && c12EncodeHelper(pkg, h.Body.List, depth+1) {
			return true
		}
		good = false
		return false
	})
	return good
}

func c12EncodeHelper(pkg *c12Pkg, list []ast.Stmt, depth int) bool {
	for _, st := range list {
		switch x := st.(type) {
		case *ast.ReturnStmt:
			if !c12OnlyEncodes(pkg, x, depth) {
				return false
			}
		case *ast.IfStmt:
			if x.Init != nil || bcHasCall(x.Cond) || !c12EncodeHelper(pkg, x.Body.List, depth) {
				return false
			}
			switch e := x.Else.(type) {
			case nil:
			case *ast.BlockStmt:
				if !c12EncodeHelper(pkg, e.List, depth) {
					return false
				}
			default:
				if !c12EncodeHelper(pkg, []ast.Stmt{e}, depth) {
					return false
				}
			}
		default:
			return false
		}
	}
	return true
}

package main

// C05 facts (SA/Gen/C05.lean): the decisive shapes of the TLS configuration derivation.
//   * polarity of the condition guarding ClientAuth in ServerConfig.GetTlsConfig
//   * every site that sets InsecureSkipVerify (file, function, value, enclosing conditions)
//   * the expression assigned to ServerName in startTls, and whether it is the port-stripped host
//   * whether Socket.Connect names the server for tls.Dial (otherwise the resolved address is verified)
//   * the host argument every upstream kind passes to NewClientConnection
//   * the argument lists of the two pbkdf2.Key calls, the salt derivation, the cipher constructor

import (
	"bytes"
	"fmt"
	"go/ast"
	"go/printer"
	"go/token"
	"os"
	"path/filepath"
	"sort"
	"strings"
)

func c05src(n ast.Node) string {
	var b bytes.Buffer
	_ = printer.Fprint(&b, token.NewFileSet(), n)
	return strings.Join(strings.Fields(b.String()), " ")
}

func leanStr05(s string) string {
	s = strings.ReplaceAll(s, "\\", "\\\\")
	s = strings.ReplaceAll(s, "\"", "\\\"")
	return "\"" + s + "\""
}

func leanStrList05(xs []string) string {
	q := make([]string, len(xs))
	for i, x := range xs {
		q[i] = leanStr05(x)
	}
	return "[" + strings.Join(q, ", ") + "]"
}

// c05walk visits every assignment statement of fn together with the conditions of the enclosing
// if statements ("!(c)" for else branches).
func c05walk(body ast.Node, visit func(as *ast.AssignStmt, guards []string)) {
	var rec func(n ast.Node, guards []string)
	rec = func(n ast.Node, guards []string) {
		switch x := n.(type) {
		case nil:
			return
		case *ast.BlockStmt:
			if x == nil {
				return
			}
			for _, s := range x.List {
				rec(s, guards)
			}
		case *ast.IfStmt:
			if x.Init != nil {
				rec(x.Init, guards)
			}
			c := c05src(x.Cond)
			rec(x.Body, append(append([]string{}, guards...), c))
			if x.Else != nil {
				rec(x.Else, append(append([]string{}, guards...), "!("+c+")"))
			}
		case *ast.AssignStmt:
			visit(x, guards)
		case *ast.ForStmt:
			rec(x.Body, guards)
		case *ast.RangeStmt:
			rec(x.Body, guards)
		case *ast.SwitchStmt:
			rec(x.Body, guards)
		case *ast.CaseClause:
			for _, s := range x.Body {
				rec(s, guards)
			}
		case *ast.GoStmt:
			if fl, ok := x.Call.Fun.(*ast.FuncLit); ok {
				rec(fl.Body, guards)
			}
		case *ast.DeferStmt:
			if fl, ok := x.Call.Fun.(*ast.FuncLit); ok {
				rec(fl.Body, guards)
			}
		case *ast.ExprStmt:
			if call, ok := x.X.(*ast.CallExpr); ok {
				if fl, ok := call.Fun.(*ast.FuncLit); ok {
					rec(fl.Body, guards)
				}
			}
		case *ast.LabeledStmt:
			rec(x.Stmt, guards)
		}
	}
	rec(body, nil)
}

func c05funcName(fd *ast.FuncDecl) string {
	if fd.Recv != nil && len(fd.Recv.List) > 0 {
		t := fd.Recv.List[0].Type
		if st, ok := t.(*ast.StarExpr); ok {
			t = st.X
		}
		return exprString(t) + "." + fd.Name.Name
	}
	return fd.Name.Name
}

func c05selIs(e ast.Expr, field string) bool {
	s, ok := e.(*ast.SelectorExpr)
	return ok && s.Sel.Name == field
}

// c05calls collects every call expression in n whose function renders as name
func c05calls(n ast.Node, name string) []*ast.CallExpr {
	var out []*ast.CallExpr
	ast.Inspect(n, func(x ast.Node) bool {
		if c, ok := x.(*ast.CallExpr); ok && c05src(c.Fun) == name {
			out = append(out, c)
		}
		return true
	})
	return out
}

func init() {
	extractors = append(extractors, func(o *out) {
		b := o.w("C05.lean")

		// ---- 1. ServerConfig.GetTlsConfig: the guard around ClientAuth
		certF := parse("internal/util/cert/cert.go")
		fd := findFunc(certF, "ServerConfig", "GetTlsConfig")
		if fd == nil || fd.Body == nil {
			fail("C05: ServerConfig.GetTlsConfig not found")
			return
		}
		found := 0
		var guards []string
		var rhs string
		// path condition of the assignment (x_c05_paths.go): enclosing conditions and the negations of earlier
		// early exits, in normal form, accessors of cert.go (ServerConfig.ClientCertRequired) inlined
		c05walkPaths(certF, fd.Body, func(as *ast.AssignStmt, g []string) {
			if len(as.Lhs) == 1 && c05selIs(as.Lhs[0], "ClientAuth") && len(as.Rhs) == 1 {
				found++
				guards = g
				rhs = c05src(as.Rhs[0])
			}
		})
		if found != 1 {
			fail("C05: expected exactly one assignment to ClientAuth in ServerConfig.GetTlsConfig, found %d", found)
			return
		}
		errNil, errNonNil, flagGuard := false, false, false
		for _, g := range guards {
			switch g {
			case "err == nil", "!(err != nil)":
				errNil = true
			case "err != nil", "!(err == nil)":
				errNonNil = true
			case "m.RequireClientCert":
				flagGuard = true
			default:
				fail("C05: unrecognised condition %q around ClientAuth in ServerConfig.GetTlsConfig", g)
			}
		}
		if errNil == errNonNil {
			fail("C05: cannot tell under which error state ClientAuth is set (guards %v)", guards)
		}
		if !flagGuard {
			fail("C05: ClientAuth is no longer guarded by m.RequireClientCert (guards %v)", guards)
		}
		fmt.Fprintf(b, "/-- cert.go ServerConfig.GetTlsConfig: conditions enclosing `conf.ClientAuth = …` -/\ndef serverAuthGuards : List String := %s\n", leanStrList05(guards))
		fmt.Fprintf(b, "/-- true iff ClientAuth is set on the success path (`err == nil`) of Config.GetTlsConfig -/\ndef serverAuthGuardErrNil : Bool := %v\n", errNil)
		fmt.Fprintf(b, "def serverAuthValue : String := %s\n\n", leanStr05(rhs))

		// ---- 2. every site that sets InsecureSkipVerify
		type site struct{ file, fn, rhs, guard string }
		var sites []site
		var files []string
		for _, root := range []string{"internal", "cmd"} {
			_ = filepath.Walk(filepath.Join(repo, root), func(p string, info os.FileInfo, err error) error {
				if err != nil {
					return nil
				}
				if info.IsDir() {
					if info.Name() == "zzverif" {
						return filepath.SkipDir
					}
					return nil
				}
				if strings.HasSuffix(p, ".go") && !strings.HasSuffix(p, "_test.go") && !strings.Contains(info.Name(), "verif") {
					rel, _ := filepath.Rel(repo, p)
					files = append(files, filepath.ToSlash(rel))
				}
				return nil
			})
		}
		sort.Strings(files)
		for _, rel := range files {
			f := parse(rel)
			for _, d := range f.Decls {
				fn, ok := d.(*ast.FuncDecl)
				if !ok || fn.Body == nil {
					continue
				}
				name := c05funcName(fn)
				// cert.go: the model mirrors under which error state of Config.GetTlsConfig the option is applied, so
				// the guard is the full path condition (early exits included); elsewhere: the enclosing conditions
				walk := c05walk
				if rel == "internal/util/cert/cert.go" {
					walk = func(body ast.Node, visit func(as *ast.AssignStmt, guards []string)) { c05walkPaths(f, body, visit) }
				}
				walk(fn.Body, func(as *ast.AssignStmt, g []string) {
					for i, l := range as.Lhs {
						if c05selIs(l, "InsecureSkipVerify") && i < len(as.Rhs) {
							sites = append(sites, site{rel, name, c05src(as.Rhs[i]), strings.Join(g, " && ")})
						}
					}
				})
				ast.Inspect(fn.Body, func(x ast.Node) bool {
					if kv, ok := x.(*ast.KeyValueExpr); ok {
						if id, ok := kv.Key.(*ast.Ident); ok && id.Name == "InsecureSkipVerify" {
							sites = append(sites, site{rel, name, c05src(kv.Value), "<composite literal>"})
						}
					}
					return true
				})
			}
		}
		// ---- 2b. inventory of every site that sets a verification-affecting field of a tls.Config:
		// an assignment `x.<Field> = …` (also op-assignments, also inside closures, select and type
		// switch bodies) or a keyed element `<Field>: …` of a composite literal whose type is
		// tls.Config or elided.  AST only: the receiver's type is not resolved, so a same-named field
		// of another struct type shows up here too (and names itself in the broken obligation).
		verifFields := map[string]bool{"Time": true, "VerifyPeerCertificate": true, "VerifyConnection": true,
			"InsecureSkipVerify": true, "ClientAuth": true, "RootCAs": true, "ClientCAs": true, "ServerName": true,
			"GetConfigForClient": true}
		type vsite struct{ file, fn, field string }
		var vsites []vsite
		for _, rel := range files {
			f := parse(rel)
			for _, d := range f.Decls {
				name := "<package level>"
				if fn, ok := d.(*ast.FuncDecl); ok {
					name = c05funcName(fn)
				}
				ast.Inspect(d, func(x ast.Node) bool {
					switch n := x.(type) {
					case *ast.AssignStmt:
						for _, l := range n.Lhs {
							if sel, ok := l.(*ast.SelectorExpr); ok && verifFields[sel.Sel.Name] {
								vsites = append(vsites, vsite{rel, name, sel.Sel.Name})
							}
						}
					case *ast.CompositeLit:
						if n.Type != nil {
							t := c05src(n.Type)
							if t != "tls.Config" {
								return true // elements of another struct type; nested literals are still visited
							}
						}
						for _, e := range n.Elts {
							if kv, ok := e.(*ast.KeyValueExpr); ok {
								if id, ok := kv.Key.(*ast.Ident); ok && verifFields[id.Name] {
									vsites = append(vsites, vsite{rel, name, id.Name})
								}
							}
						}
					}
					return true
				})
			}
		}
		sort.Slice(vsites, func(i, j int) bool {
			a, c := vsites[i], vsites[j]
			if a.file != c.file {
				return a.file < c.file
			}
			if a.fn != c.fn {
				return a.fn < c.fn
			}
			return a.field < c.field
		})
		fmt.Fprintf(b, "/-- every site in non-test code that sets a verification-affecting field of a tls.Config (Time, VerifyPeerCertificate, VerifyConnection, InsecureSkipVerify, ClientAuth, RootCAs, ClientCAs, ServerName, GetConfigForClient) by assignment or in a composite literal: (file, function, field), sorted; a site occurring twice is listed twice -/\ndef tlsVerifFieldSites : List (String × String × String) := [\n")
		for i, v := range vsites {
			sep := ","
			if i == len(vsites)-1 {
				sep = ""
			}
			fmt.Fprintf(b, "  (%s, %s, %s)%s\n", leanStr05(v.file), leanStr05(v.fn), leanStr05(v.field), sep)
		}
		fmt.Fprintf(b, "]\n\n")

		// ---- 2c. inventory of every site that gives a tls.Config state which outlives one connection or alters
		// session resumption: ClientSessionCache, SessionTicketsDisabled, SessionTicketKey, WrapSession,
		// UnwrapSession (assignment or keyed literal element) and calls of SetSessionTicketKeys.  With such state
		// crypto/tls may RESUME a session - no certificate exchange, no verification against the pools of the
		// config in force now.  kind: "nil" / "true" / "false" (that literal), "percall" (the value is a tls.NewLRUClientSessionCache(...) call made
		// inside a function, i.e. a cache that lives and dies with that one config), else "shared:<expression>".
		sessFields := map[string]bool{"ClientSessionCache": true, "SessionTicketsDisabled": true, "SessionTicketKey": true,
			"WrapSession": true, "UnwrapSession": true}
		type ssite struct{ file, fn, field, kind string }
		var ssites []ssite
		sessKind := func(fn string, v ast.Expr) string {
			if id, ok := v.(*ast.Ident); ok && (id.Name == "nil" || id.Name == "true" || id.Name == "false") {
				return id.Name
			}
			if call, ok := v.(*ast.CallExpr); ok && c05src(call.Fun) == "tls.NewLRUClientSessionCache" && fn != "<package level>" {
				return "percall"
			}
			return "shared:" + c05src(v)
		}
		for _, rel := range files {
			f := parse(rel)
			for _, d := range f.Decls {
				name := "<package level>"
				if fn, ok := d.(*ast.FuncDecl); ok {
					name = c05funcName(fn)
				}
				ast.Inspect(d, func(x ast.Node) bool {
					switch n := x.(type) {
					case *ast.AssignStmt:
						for i, l := range n.Lhs {
							if sel, ok := l.(*ast.SelectorExpr); ok && sessFields[sel.Sel.Name] {
								k := "shared:<multi-value>"
								if len(n.Rhs) == len(n.Lhs) {
									k = sessKind(name, n.Rhs[i])
								}
								ssites = append(ssites, ssite{rel, name, sel.Sel.Name, k})
							}
						}
					case *ast.CompositeLit:
						if n.Type != nil && c05src(n.Type) != "tls.Config" {
							return true
						}
						for _, e := range n.Elts {
							if kv, ok := e.(*ast.KeyValueExpr); ok {
								if id, ok := kv.Key.(*ast.Ident); ok && sessFields[id.Name] {
									ssites = append(ssites, ssite{rel, name, id.Name, sessKind(name, kv.Value)})
								}
							}
						}
					case *ast.CallExpr:
						if sel, ok := n.Fun.(*ast.SelectorExpr); ok && sel.Sel.Name == "SetSessionTicketKeys" {
							ssites = append(ssites, ssite{rel, name, "SetSessionTicketKeys", "shared:<call>"})
						}
					}
					return true
				})
			}
		}
		sort.Slice(ssites, func(i, j int) bool {
			a, c := ssites[i], ssites[j]
			if a.file != c.file {
				return a.file < c.file
			}
			if a.fn != c.fn {
				return a.fn < c.fn
			}
			return a.field < c.field
		})
		fmt.Fprintf(b, "/-- every site in non-test code that gives a tls.Config session-resumption state (ClientSessionCache, SessionTicketsDisabled, SessionTicketKey, WrapSession, UnwrapSession set by assignment or in a composite literal, SetSessionTicketKeys called): (file, function, field, kind), sorted; kind = nil | true | false | percall (a tls.NewLRUClientSessionCache(...) call inside a function: the cache lives and dies with that one config) | shared:<expression> -/\ndef tlsSessionStateSites : List (String × String × String × String) := [\n")
		shared := false
		for i, v := range ssites {
			sep := ","
			if i == len(ssites)-1 {
				sep = ""
			}
			if v.field == "ClientSessionCache" && strings.HasPrefix(v.kind, "shared:") {
				shared = true
			}
			fmt.Fprintf(b, "  (%s, %s, %s, %s)%s\n", leanStr05(v.file), leanStr05(v.fn), leanStr05(v.field), leanStr05(v.kind), sep)
		}
		fmt.Fprintf(b, "]\n")
		fmt.Fprintf(b, "/-- true iff some site hands crypto/tls a ClientSessionCache that outlives the config it is attached to (a package-level or otherwise shared cache): sessions are then resumed across connections -/\ndef clientSessionCacheShared : Bool := %v\n\n", shared)

		fmt.Fprintf(b, "/-- every assignment to a field `InsecureSkipVerify` in non-test code: (file, function, value, enclosing conditions) -/\ndef isvSites : List (String × String × String × String) := [\n")
		for i, s := range sites {
			sep := ","
			if i == len(sites)-1 {
				sep = ""
			}
			fmt.Fprintf(b, "  (%s, %s, %s, %s)%s\n", leanStr05(s.file), leanStr05(s.fn), leanStr05(s.rhs), leanStr05(s.guard), sep)
		}
		fmt.Fprintf(b, "]\n\n")

		// ---- 3. startTls: the expression assigned to ServerName
		cliF := parse("internal/socketace/client.go")
		st := findFunc(cliF, "ClientConnection", "startTls")
		if st == nil || st.Body == nil {
			fail("C05: ClientConnection.startTls not found")
			return
		}
		var nameExpr ast.Expr
		n := 0
		c05walk(st.Body, func(as *ast.AssignStmt, g []string) {
			if len(as.Lhs) == 1 && c05selIs(as.Lhs[0], "ServerName") && len(as.Rhs) == 1 {
				n++
				nameExpr = as.Rhs[0]
				if len(g) != 0 {
					fail("C05: startTls sets ServerName under a condition (%v)", g)
				}
			}
		})
		if n != 1 {
			fail("C05: expected exactly one assignment to ServerName in startTls, found %d", n)
			return
		}
		expr := c05src(nameExpr)
		strips := false
		// the VALUE of that expression (x_c05_name.go): the host field as it stands, or the host with the port
		// removed by net.SplitHostPort (the host itself when the split fails) — whether computed through a local
		// variable or in a helper of the package
		vals := c05fieldValue(st, "ServerName")
		switch {
		case len(vals) == 1 && vals[0].pc == c05pcAny && vals[0].v == c05nvHost:
			strips = false
		case len(vals) == 1 && vals[0].pc == c05pcAny && vals[0].v == c05nvStrip:
			strips = true
		default:
			fail("C05: unrecognised derivation of ServerName (%q) in startTls", expr)
		}
		fmt.Fprintf(b, "/-- client.go startTls: right-hand side of `tlsConfig.ServerName = …` -/\ndef startTlsServerNameExpr : String := %s\n", leanStr05(expr))
		fmt.Fprintf(b, "/-- true iff that value is cc.host with the port removed by net.SplitHostPort (cc.host itself when it has no port) -/\ndef startTlsStripsPort : Bool := %v\n\n", strips)

		// ---- 4. the host argument every upstream kind passes to NewClientConnection; Socket's tls.Dial name
		kinds := []struct{ kind, file, recv string }{
			{"socket", "internal/client/upstream/socket.go", "Socket"},
			{"http", "internal/client/upstream/http.go", "Http"},
			{"packet", "internal/client/upstream/packet.go", "Packet"},
			{"dns", "internal/client/upstream/dns.go", "Dns"},
			{"stdio", "internal/client/upstream/input_output.go", "InputOutput"},
		}
		fmt.Fprintf(b, "/-- (upstream kind, file, `secure` argument, `host` argument) of the NewClientConnection call of each upstream kind -/\ndef clientConnArgs : List (String × String × String × String) := [\n")
		for i, k := range kinds {
			f := parse(k.file)
			calls := c05calls(f, "socketace.NewClientConnection")
			if len(calls) != 1 || len(calls[0].Args) != 4 {
				fail("C05: expected one 4-argument NewClientConnection call in %s, found %d", k.file, len(calls))
				continue
			}
			sep := ","
			if i == len(kinds)-1 {
				sep = ""
			}
			fmt.Fprintf(b, "  (%s, %s, %s, %s)%s\n", leanStr05(k.kind), leanStr05(k.file), leanStr05(c05src(calls[0].Args[2])), leanStr05(c05src(calls[0].Args[3])), sep)
		}
		fmt.Fprintf(b, "]\n\n")

		sockF := parse("internal/client/upstream/socket.go")
		sc := findFunc(sockF, "Socket", "Connect")
		if sc == nil || sc.Body == nil {
			fail("C05: Socket.Connect not found")
			return
		}
		// tls.Dial(network, addr, config) or tls.DialWithDialer(dialer, network, addr, config): the config is last
		dials := c05calls(sc.Body, "tls.Dial")
		if len(dials) == 0 {
			dials = c05calls(sc.Body, "tls.DialWithDialer")
		}
		if len(dials) != 1 || len(dials[0].Args) < 3 {
			fail("C05: expected one tls.Dial / tls.DialWithDialer call in Socket.Connect")
			return
		}
		dialCfg := c05src(dials[0].Args[len(dials[0].Args)-1])
		sockName := ""
		sockGuards := []string{}
		c05walk(sc.Body, func(as *ast.AssignStmt, g []string) {
			if len(as.Lhs) == 1 && c05src(as.Lhs[0]) == dialCfg+".ServerName" && len(as.Rhs) == 1 && as.Pos() < dials[0].Pos() {
				sockName = c05src(as.Rhs[0])
				sockGuards = g
			}
		})
		sets := false
		switch sockName {
		case "":
		case "ups.Address.Hostname()", "a.Hostname()":
			sets = true
			for _, g := range sockGuards {
				if g != "addr.HasTls.MatchString(a.Scheme)" && g != dialCfg+".ServerName == \"\"" {
					fail("C05: Socket.Connect sets ServerName under an unrecognised condition %q", g)
				}
			}
		default:
			fail("C05: unrecognised ServerName expression %q in Socket.Connect", sockName)
		}
		fmt.Fprintf(b, "/-- socket.go Connect: address expression handed to tls.Dial, and the ServerName it sets on the config before (\"\" = none) -/\n")
		fmt.Fprintf(b, "def socketDialAddrExpr : String := %s\ndef socketDialServerNameExpr : String := %s\n", leanStr05(c05src(dials[0].Args[len(dials[0].Args)-2])), leanStr05(sockName))
		fmt.Fprintf(b, "/-- true iff Socket.Connect names the upstream host (url Hostname) for verification; false = crypto/tls derives the name from the dialled (resolved) address -/\ndef socketDialSetsHostname : Bool := %v\n\n", sets)

		// ---- 5. UDP shared secret: both pbkdf2 calls, the salt, the cipher
		udp := func(tag, file, recv, fn string) {
			f := parse(file)
			d := findFunc(f, recv, fn)
			if d == nil || d.Body == nil {
				fail("C05: %s.%s not found", recv, fn)
				return
			}
			calls := c05calls(d.Body, "pbkdf2.Key")
			if len(calls) != 1 {
				fail("C05: expected one pbkdf2.Key call in %s.%s, found %d", recv, fn, len(calls))
				return
			}
			var args []string
			for _, a := range calls[0].Args {
				args = append(args, c05src(a))
			}
			// where pass and salt come from, and under which condition the endpoint is protected
			var deriv []string
			c05walk(d.Body, func(as *ast.AssignStmt, g []string) {
				if len(as.Lhs) == 1 {
					l := c05src(as.Lhs[0])
					if l == "pass" || l == "salt" || l == "h" || l == "secure" {
						deriv = append(deriv, l+" "+as.Tok.String()+" "+c05src(as.Rhs[0])+" | "+strings.Join(g, " && "))
					}
				}
			})
			ast.Inspect(d.Body, func(x ast.Node) bool {
				if es, ok := x.(*ast.ExprStmt); ok {
					if s := c05src(es.X); strings.HasPrefix(s, "h.Write(") {
						deriv = append(deriv, s)
					}
				}
				return true
			})
			for i := range deriv {
				deriv[i] = strings.ReplaceAll(strings.ReplaceAll(deriv[i], "ups.Address", "self.Address"), "st.Address", "self.Address")
			}
			sort.Strings(deriv)
			ciph := c05calls(d.Body, "kcp.NewAESBlockCrypt")
			carg := ""
			if len(ciph) == 1 && len(ciph[0].Args) == 1 {
				carg = c05src(ciph[0].Args[0])
			} else {
				fail("C05: expected one kcp.NewAESBlockCrypt(key) call in %s.%s", recv, fn)
			}
			fmt.Fprintf(b, "/-- %s %s.%s: arguments of pbkdf2.Key, derivation of pass/salt, argument of kcp.NewAESBlockCrypt -/\n", file, recv, fn)
			fmt.Fprintf(b, "def pbkdf2Args%s : List String := %s\ndef secretDerivation%s : List String := %s\ndef cipherArg%s : String := %s\n", tag, leanStrList05(args), tag, leanStrList05(deriv), tag, leanStr05(carg))
			if len(args) == 5 {
				en := fileConsts(f, nil)
				iter, klen := evalExpr(calls[0].Args[2], en), evalExpr(calls[0].Args[3], en)
				if iter == nil || klen == nil {
					fail("C05: pbkdf2 iteration count / key length in %s.%s are not constants", recv, fn)
				} else {
					fmt.Fprintf(b, "def pbkdf2Iter%s : Nat := %s\ndef pbkdf2KeyLen%s : Nat := %s\n", tag, iter.ExactString(), tag, klen.ExactString())
				}
			} else {
				fail("C05: pbkdf2.Key in %s.%s has %d arguments", recv, fn, len(args))
			}
			fmt.Fprintf(b, "\n")
		}
		udp("Client", "internal/client/upstream/packet.go", "Packet", "ConnectPacket")
		udp("Server", "internal/server/packet_server.go", "PacketServer", "StartupPacket")

		// ---- 6. is the *tls.Config handed out by GetTlsConfig a new object on every call?
		// Every upstream kind writes into the object it gets (ServerName, InsecureSkipVerify), so the
		// per-attempt theorems hold for a history of attempts only if nothing is shared between calls.
		// Recognised: (a) every non-nil value Config.GetTlsConfig returns is a new object
		// (&tls.Config{…}, new(tls.Config), x.Clone()) or an identifier bound, in that function and
		// nowhere re-bound, to one; (b) the Client/Server wrappers return what m.Config.GetTlsConfig()
		// gave them.  (A cache that hands out clones is therefore still "fresh".)
		isFresh := func(e ast.Expr) bool {
			switch x := e.(type) {
			case *ast.UnaryExpr:
				if cl, ok := x.X.(*ast.CompositeLit); ok && x.Op == token.AND {
					return c05src(cl.Type) == "tls.Config"
				}
			case *ast.CallExpr:
				fn := c05src(x.Fun)
				if fn == "new" && len(x.Args) == 1 && c05src(x.Args[0]) == "tls.Config" {
					return true
				}
				return strings.HasSuffix(fn, ".Clone") && len(x.Args) == 0
			}
			return false
		}
		// returned identifiers of fd (named results for bare returns); ok=false when something else is returned
		returned := func(fd *ast.FuncDecl) (map[string]bool, bool) {
			ids := map[string]bool{}
			ok := true
			direct := 0
			named := ""
			if fd.Type.Results != nil && len(fd.Type.Results.List) > 0 && len(fd.Type.Results.List[0].Names) > 0 {
				named = fd.Type.Results.List[0].Names[0].Name
			}
			ast.Inspect(fd.Body, func(x ast.Node) bool {
				if _, isLit := x.(*ast.FuncLit); isLit {
					return false
				}
				if rs, isRet := x.(*ast.ReturnStmt); isRet {
					if len(rs.Results) == 0 {
						if named == "" {
							ok = false
						} else {
							ids[named] = true
						}
					} else if id, isId := rs.Results[0].(*ast.Ident); isId {
						if id.Name != "nil" {
							ids[id.Name] = true
						}
					} else if isFresh(rs.Results[0]) {
						direct++
					} else {
						ok = false
					}
				}
				return true
			})
			return ids, ok && len(ids)+direct > 0
		}
		// every binding of one of ids in fd satisfies good
		boundOnlyBy := func(fd *ast.FuncDecl, ids map[string]bool, good func(ast.Expr) bool) (bool, []string) {
			ok := true
			n := 0
			var how []string
			c05walk(fd.Body, func(as *ast.AssignStmt, g []string) {
				for i, l := range as.Lhs {
					id, isId := l.(*ast.Ident)
					if !isId || !ids[id.Name] {
						continue
					}
					n++
					var rhs ast.Expr
					if len(as.Rhs) == len(as.Lhs) {
						rhs = as.Rhs[i]
					} else if len(as.Rhs) == 1 && i == 0 {
						rhs = as.Rhs[0]
					}
					if rhs == nil || !good(rhs) {
						ok = false
					}
					if rhs != nil {
						how = append(how, c05src(rhs))
					}
				}
			})
			ast.Inspect(fd.Body, func(x ast.Node) bool { // `var conf = …` / `var conf *tls.Config`
				if vs, isVs := x.(*ast.ValueSpec); isVs {
					for i, nm := range vs.Names {
						if ids[nm.Name] && i < len(vs.Values) {
							n++
							how = append(how, c05src(vs.Values[i]))
							if !good(vs.Values[i]) {
								ok = false
							}
						}
					}
				}
				return true
			})
			return ok && (n > 0 || len(ids) == 0), how
		}
		freshBase := false
		origin := []string{}
		if gd := findFunc(certF, "Config", "GetTlsConfig"); gd == nil || gd.Body == nil {
			fail("C05: Config.GetTlsConfig not found")
		} else if ids, ok := returned(gd); ok {
			freshBase, origin = boundOnlyBy(gd, ids, isFresh)
		}
		wrappers := true
		for _, sn := range []string{"ClientConfig", "ServerConfig"} {
			wd := findFunc(certF, sn, "GetTlsConfig")
			if wd == nil || wd.Body == nil {
				fail("C05: %s.GetTlsConfig not found", sn)
				wrappers = false
				continue
			}
			ids, ok := returned(wd)
			if !ok {
				wrappers = false
				continue
			}
			delete(ids, "err")
			okb, _ := boundOnlyBy(wd, ids, func(e ast.Expr) bool { return c05src(e) == "m.Config.GetTlsConfig()" })
			wrappers = wrappers && okb
		}
		fmt.Fprintf(b, "/-- what the value returned by Config.GetTlsConfig is bound to -/\ndef getTlsConfigResultOrigin : List String := %s\n", leanStrList05(origin))
		fmt.Fprintf(b, "/-- true iff every GetTlsConfig call hands out a new *tls.Config (new object in Config.GetTlsConfig, passed on by the Client/Server wrappers) -/\ndef getTlsConfigFreshPerCall : Bool := %v\n\n", freshBase && wrappers)

		// ---- 9. Config.addCaCertificates: what the pools handed to crypto/tls (RootCAs / ClientCAs) are made from
		c05poolFacts(b, certF)
	})
}

// c05poolFacts: the trust anchors of the pools assigned to RootCAs / ClientCAs in Config.addCaCertificates.
//
//	caPoolInit    what the pool variable(s) are initialised / re-assigned with (sorted, distinct); a variable that is
//	              not declared inside the function shows as "<outer> name"
//	caPoolAdds    every call that can put certificates into such a pool: its methods called, and calls that receive it
//	caPoolPemFrom what the argument(s) of AppendCertsFromPEM are bound to
//	caPoolStartsEmpty  the pool is a function-local x509.NewCertPool() to which only the PEM returned by
//	              m.GetCaCertificates() is appended: the pool holds the configured CA certificates and nothing else
//
// A pool that is the result of a function of cert.go (`pool, err := newCertPool(pem)`) is followed into that function
// (two levels): the facts are then about the variable(s) that function returns, its parameters resolved to the
// arguments of the call.  So the facts say the same whether the pool is built in place or in a helper.
func c05poolFacts(b *strings.Builder, certF *ast.File) {
	fd := findFunc(certF, "Config", "addCaCertificates")
	if fd == nil || fd.Body == nil {
		fail("C05: Config.addCaCertificates not found")
		return
	}
	rhsOf := func(as *ast.AssignStmt, i int) ast.Expr {
		if len(as.Rhs) == len(as.Lhs) {
			return as.Rhs[i]
		}
		if len(as.Rhs) == 1 && i == 0 {
			return as.Rhs[0]
		}
		return nil
	}
	// the function of cert.go a call goes to (f(…) or x.f(…) with a unique declaration of that name), else nil
	helperOf := func(call *ast.CallExpr) *ast.FuncDecl {
		name := ""
		switch fun := call.Fun.(type) {
		case *ast.Ident:
			name = fun.Name
		case *ast.SelectorExpr:
			if _, ok := fun.X.(*ast.Ident); !ok {
				return nil
			}
			name = fun.Sel.Name
		}
		var hit *ast.FuncDecl
		for _, d := range certF.Decls {
			if h, ok := d.(*ast.FuncDecl); ok && h.Body != nil && h.Name.Name == name {
				if _, isSel := call.Fun.(*ast.SelectorExpr); isSel != (h.Recv != nil) {
					continue
				}
				if hit != nil {
					return nil
				}
				hit = h
			}
		}
		return hit
	}
	paramIndex := func(h *ast.FuncDecl, name string) int {
		k := 0
		for _, fl := range h.Type.Params.List {
			for _, nm := range fl.Names {
				if nm.Name == name {
					return k
				}
				k++
			}
			if len(fl.Names) == 0 {
				k++
			}
		}
		return -1
	}
	shapeOK := true
	inits := map[string]bool{}
	adds := map[string]bool{}
	pemFrom := map[string]bool{}
	// analyse: the pool variables `pools` of function h; arg(i) = what the i-th parameter of h is bound to, as a set of
	// rendered origins (nil for the top function)
	var analyse func(h *ast.FuncDecl, pools map[string]bool, arg func(i int) []string, depth int)
	// origins of identifier name in h: the right-hand sides it is bound to; a parameter resolves through arg
	var originsOf func(h *ast.FuncDecl, name string, arg func(i int) []string) []string
	originsOf = func(h *ast.FuncDecl, name string, arg func(i int) []string) []string {
		var out []string
		c05walk(h.Body, func(as *ast.AssignStmt, g []string) {
			for i, l := range as.Lhs {
				if id, ok := l.(*ast.Ident); ok && id.Name == name {
					if r := rhsOf(as, i); r != nil {
						out = append(out, c05src(r))
					}
				}
			}
		})
		if len(out) == 0 && arg != nil {
			if k := paramIndex(h, name); k >= 0 {
				return arg(k)
			}
		}
		if len(out) == 0 {
			out = []string{"<outer> " + name}
		}
		return out
	}
	analyse = func(h *ast.FuncDecl, pools map[string]bool, arg func(i int) []string, depth int) {
		declared := map[string]bool{}
		type follow struct {
			call *ast.CallExpr
			idx  int
		}
		var follows []follow
		seenFollow := map[*ast.CallExpr]bool{}
		for changed := true; changed; {
			changed = false
			bind := func(name string, tok token.Token, rhs ast.Expr, idx int) {
				if !pools[name] {
					return
				}
				if tok == token.DEFINE || tok == token.VAR {
					declared[name] = true
				}
				if rhs == nil {
					return
				}
				if id, ok := rhs.(*ast.Ident); ok && id.Name != "nil" {
					if !pools[id.Name] {
						pools[id.Name] = true
						changed = true
					}
					return
				}
				if call, ok := rhs.(*ast.CallExpr); ok && depth < 2 {
					if hf := helperOf(call); hf != nil {
						if !seenFollow[call] {
							seenFollow[call] = true
							follows = append(follows, follow{call, idx})
						}
						return
					}
				}
				inits[c05src(rhs)] = true
			}
			c05walk(h.Body, func(as *ast.AssignStmt, g []string) {
				for i, l := range as.Lhs {
					if id, ok := l.(*ast.Ident); ok {
						bind(id.Name, as.Tok, rhsOf(as, i), i)
					}
				}
			})
			ast.Inspect(h.Body, func(x ast.Node) bool {
				if vs, ok := x.(*ast.ValueSpec); ok {
					for i, nm := range vs.Names {
						var rhs ast.Expr
						if i < len(vs.Values) {
							rhs = vs.Values[i]
						} else if len(vs.Values) == 1 && i == 0 {
							rhs = vs.Values[0]
						}
						bind(nm.Name, token.VAR, rhs, i)
					}
				}
				return true
			})
		}
		for name := range pools {
			if !strings.HasPrefix(name, "<expr> ") && !declared[name] {
				inits["<outer> "+name] = true
				shapeOK = false
			}
		}
		ast.Inspect(h.Body, func(x ast.Node) bool {
			call, ok := x.(*ast.CallExpr)
			if !ok {
				return true
			}
			var args []string
			for _, a := range call.Args {
				args = append(args, c05src(a))
			}
			if sel, ok := call.Fun.(*ast.SelectorExpr); ok {
				if id, ok := sel.X.(*ast.Ident); ok && pools[id.Name] {
					adds[sel.Sel.Name+"("+strings.Join(args, ", ")+")"] = true
					if sel.Sel.Name == "AppendCertsFromPEM" {
						for _, a := range call.Args {
							if aid, ok := a.(*ast.Ident); ok {
								for _, o := range originsOf(h, aid.Name, arg) {
									pemFrom[o] = true
								}
							} else {
								pemFrom["<expr> "+c05src(a)] = true
							}
						}
					}
					return true
				}
			}
			for _, a := range call.Args {
				if id, ok := a.(*ast.Ident); ok && pools[id.Name] {
					adds["<passed to> "+c05src(call)] = true
				}
			}
			return true
		})
		// pools that are the result of a function of cert.go: the facts are about what that function returns
		for _, fo := range follows {
			hf := helperOf(fo.call)
			sub := map[string]bool{}
			ast.Inspect(hf.Body, func(x ast.Node) bool {
				if _, isLit := x.(*ast.FuncLit); isLit {
					return false
				}
				rs, ok := x.(*ast.ReturnStmt)
				if !ok {
					return true
				}
				if len(rs.Results) == 0 { // bare return: the named result
					k := 0
					for _, fl := range hf.Type.Results.List {
						for _, nm := range fl.Names {
							if k == fo.idx {
								sub[nm.Name] = true
							}
							k++
						}
					}
					return true
				}
				if fo.idx >= len(rs.Results) {
					shapeOK = false
					inits["<expr> "+c05src(rs)] = true
					return true
				}
				switch r := rs.Results[fo.idx].(type) {
				case *ast.Ident:
					if r.Name != "nil" {
						sub[r.Name] = true
					}
				default:
					inits[c05src(r)] = true
				}
				return true
			})
			call := fo.call
			analyse(hf, sub, func(i int) []string {
				if i >= len(call.Args) {
					return []string{"<variadic>"}
				}
				if id, ok := call.Args[i].(*ast.Ident); ok {
					return originsOf(h, id.Name, arg)
				}
				return []string{"<expr> " + c05src(call.Args[i])}
			}, depth+1)
		}
	}
	pools := map[string]bool{}
	nAssigned := 0
	c05walk(fd.Body, func(as *ast.AssignStmt, g []string) {
		for i, l := range as.Lhs {
			if !(c05selIs(l, "RootCAs") || c05selIs(l, "ClientCAs")) {
				continue
			}
			nAssigned++
			if id, ok := rhsOf(as, i).(*ast.Ident); ok {
				pools[id.Name] = true
			} else {
				shapeOK = false
				pools["<expr> "+c05src(rhsOf(as, i))] = true
			}
		}
	})
	if nAssigned == 0 {
		fail("C05: addCaCertificates assigns neither RootCAs nor ClientCAs")
	}
	analyse(fd, pools, nil, 0)
	keys := func(m map[string]bool) []string {
		var out []string
		for k := range m {
			out = append(out, k)
		}
		sort.Strings(out)
		return out
	}
	initL, addL, pemL := keys(inits), keys(adds), keys(pemFrom)
	startsEmpty := shapeOK && len(initL) == 1 && initL[0] == "x509.NewCertPool()" &&
		len(addL) == 1 && strings.HasPrefix(addL[0], "AppendCertsFromPEM(") &&
		len(pemL) == 1 && pemL[0] == "m.GetCaCertificates()"
	fmt.Fprintf(b, "/-- cert.go Config.addCaCertificates: what the pool(s) assigned to RootCAs / ClientCAs are initialised with (\"<outer> x\" = not declared in the function) -/\ndef caPoolInit : List String := %s\n", leanStrList05(initL))
	fmt.Fprintf(b, "/-- every call in it that can put certificates into such a pool -/\ndef caPoolAdds : List String := %s\n", leanStrList05(addL))
	fmt.Fprintf(b, "/-- what the PEM given to AppendCertsFromPEM is bound to -/\ndef caPoolPemFrom : List String := %s\n", leanStrList05(pemL))
	fmt.Fprintf(b, "/-- true iff the pool is a function-local x509.NewCertPool() that receives only the PEM returned by m.GetCaCertificates(): it holds the configured CA certificates and no other trust anchor -/\ndef caPoolStartsEmpty : Bool := %v\n\n", startsEmpty)
}

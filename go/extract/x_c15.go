package main

import (
	"fmt"
	"go/ast"
	"sort"
)

// C15: the accept-loop scheduler model is untimed.  That is a faithful picture of the code only while nothing on
// the path from Accept() to the end of the session handshake arms a timer or a deadline: a timer is an extra actor
// that can act on a connection other than the one it was armed for (a shared loop variable captured by the
// callback, a deadline that is never cleared).  The fact lists every such call site on that path.
func init() {
	extractors = append(extractors, func(o *out) {
		b := o.w("C15.lean")
		names := map[string]bool{
			"AfterFunc": true, "NewTimer": true, "After": true, "Tick": true, "NewTicker": true,
			"SetDeadline": true, "SetReadDeadline": true, "SetWriteDeadline": true,
			"WithTimeout": true, "WithDeadline": true,
		}
		files := []string{
			"internal/server/socket_server.go", "internal/server/packet_server.go", "internal/server/server.go",
			"internal/server/dns_server.go", "internal/server/stdio_server.go", "internal/server/http_server.go",
			"internal/socketace/server.go", "internal/socketace/util.go", "internal/socketace/request.go",
			"internal/socketace/response.go",
		}
		var sites []string
		for _, f := range files {
			af := parse(f)
			if af == nil {
				fail("%s: cannot parse", f)
				continue
			}
			for _, d := range af.Decls {
				fd, ok := d.(*ast.FuncDecl)
				if !ok || fd.Body == nil || fd.Name.Name == "Shutdown" {
					// Shutdown runs once, when the endpoint is stopped: not on the path of an accepted connection
					continue
				}
				ast.Inspect(fd.Body, func(n ast.Node) bool {
					if c, ok := n.(*ast.CallExpr); ok {
						if s, ok := c.Fun.(*ast.SelectorExpr); ok && names[s.Sel.Name] {
							sites = append(sites, fmt.Sprintf("%s %s: %s", f, fd.Name.Name, src(c.Fun)))
						}
					}
					return true
				})
			}
		}
		sort.Strings(sites)
		fmt.Fprintf(b, "/-- timers and deadlines armed on the path Accept() → session handshake (server side): call sites of\n    time.AfterFunc/NewTimer/After/Tick/NewTicker, Set*Deadline, context.WithTimeout/WithDeadline in\n    internal/server/{socket,packet,dns,stdio,http}_server.go, server.go and internal/socketace/{server,util,request,response}.go -/\ndef acceptPathTimers : List String := %s\n\n", leanStrList14(sites))
	})
}

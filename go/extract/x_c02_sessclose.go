package main

import (
	"fmt"
	"go/ast"
	"sort"
	"strings"
)

// C02 (a session outlives its logical connections): every place in internal/server and internal/client/upstream that
// closes a multiplexer session object (`<x>.session` or a variable named session), with the function it is in and
// whether it runs on a per-stream goroutine (inside a `go func` literal / a function started per stream) or on the
// session's own path.  The models close a session only when its carrier or the session itself has failed, or on
// shutdown; a close reachable from the end of ONE logical connection takes the others (and those being opened) with it.
func init() {
	extractors = append(extractors, func(o *out) {
		b := o.w("C02SessClose.lean")
		var sites []string
		for _, dir := range []string{"internal/server", "internal/client/upstream"} {
			for _, f := range goFiles(dir) {
				af := parse(f)
				if af == nil {
					continue
				}
				for _, d := range af.Decls {
					fd, ok := d.(*ast.FuncDecl)
					if !ok || fd.Body == nil {
						continue
					}
					var walk func(n ast.Node, where string)
					walk = func(n ast.Node, where string) {
						ast.Inspect(n, func(m ast.Node) bool {
							switch x := m.(type) {
							case *ast.GoStmt:
								if fl, ok := x.Call.Fun.(*ast.FuncLit); ok {
									walk(fl.Body, "go")
									for _, a := range x.Call.Args {
										walk(a, where)
									}
									return false
								}
							case *ast.CallExpr:
								fn := src(x.Fun)
								target := ""
								switch {
								case (strings.HasSuffix(fn, "TryClose") || strings.HasSuffix(fn, "LogClose")) && len(x.Args) == 1:
									target = src(x.Args[0])
								case strings.HasSuffix(fn, ".Close") && len(x.Args) == 0:
									target = strings.TrimSuffix(fn, ".Close")
								}
								if target == "session" || strings.HasSuffix(target, ".session") {
									sites = append(sites, fmt.Sprintf("%s %s %s:%s", strings.TrimPrefix(f, "internal/"), fd.Name.Name, target, where))
								}
							}
							return true
						})
					}
					walk(fd.Body, "own")
				}
			}
		}
		sort.Strings(sites)
		onStream := false
		for _, s := range sites {
			if strings.HasPrefix(s, "server/") && strings.HasSuffix(s, ":go") {
				onStream = true
			}
		}
		fmt.Fprintf(b, "/-- every close of a multiplexer session object in internal/server and internal/client/upstream:\n    `<file> <function> <what is closed>:<own|go>` (go = inside a goroutine literal started by that function) -/\ndef sessionCloseSites : List String := %s\n", leanStrList14(sites))
		fmt.Fprintf(b, "\n/-- is one of them in internal/server on a goroutine started per logical connection? -/\ndef serverSessionClosedOnStreamGoroutine : Bool := %v\n", onStream)
	})
}

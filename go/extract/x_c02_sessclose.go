package main

import (
	"fmt"
	"go/ast"
	"sort"
	"strings"
)

// C02 (a session outlives its logical connections): is the server's multiplexer session ever closed from the
// goroutine that serves ONE logical connection?  The per-stream goroutine is whatever `acceptStream` starts with `go`
// for an accepted stream (a function literal or a method); calls into functions and methods of package server are
// followed (four levels).  A close is `TryClose(x)`, `LogClose(x)` or `x.Close()` with x = `<recv>.session` or a
// variable named `session`.  The close sites of both packages are also listed (function and what is closed) for the
// reader; only the boolean is pinned by a theorem, so moving a close into a helper changes nothing.
func c02SessionCloseIn(n ast.Node) []string {
	var out []string
	ast.Inspect(n, func(m ast.Node) bool {
		c, ok := m.(*ast.CallExpr)
		if !ok {
			return true
		}
		fn := src(c.Fun)
		target := ""
		switch {
		case (strings.HasSuffix(fn, "TryClose") || strings.HasSuffix(fn, "LogClose")) && len(c.Args) == 1:
			target = src(c.Args[0])
		case strings.HasSuffix(fn, ".Close") && len(c.Args) == 0:
			target = strings.TrimSuffix(fn, ".Close")
		}
		if target == "session" || strings.HasSuffix(target, ".session") {
			out = append(out, target)
		}
		return true
	})
	return out
}

func init() {
	extractors = append(extractors, func(o *out) {
		b := o.w("C02SessClose.lean")
		var sites []string
		for _, dir := range []string{"internal/server", "internal/client/upstream"} {
			for _, f := range goFiles(dir) {
				af := parse(f)
				if af == nil {
					continue
				}
				for _, d := range af.Decls {
					if fd, ok := d.(*ast.FuncDecl); ok && fd.Body != nil {
						for _, t := range c02SessionCloseIn(fd.Body) {
							sites = append(sites, fmt.Sprintf("%s %s %s", strings.TrimPrefix(f, "internal/"), fd.Name.Name, t))
						}
					}
				}
			}
		}
		sort.Strings(sites)
		// the per-stream goroutine(s) of acceptStream and everything they reach inside the package
		onStream, found := false, false
		as := findFunc(parse("internal/server/communicator.go"), "ConnectionHandler", "acceptStream")
		if as == nil || as.Body == nil {
			fail("communicator.go: ConnectionHandler.acceptStream not found")
		} else {
			seen := map[*ast.FuncDecl]bool{}
			var visit func(cur *ast.FuncDecl, n ast.Node, depth int)
			visit = func(cur *ast.FuncDecl, n ast.Node, depth int) {
				if len(c02SessionCloseIn(n)) > 0 {
					onStream = true
				}
				if depth >= 4 {
					return
				}
				ast.Inspect(n, func(m ast.Node) bool {
					if c, ok := m.(*ast.CallExpr); ok {
						if cal := c02Callee(cur, c.Fun); cal != nil && cal.Body != nil && !seen[cal] {
							seen[cal] = true
							visit(cal, cal.Body, depth+1)
						}
					}
					return true
				})
			}
			ast.Inspect(as.Body, func(m ast.Node) bool {
				g, ok := m.(*ast.GoStmt)
				if !ok {
					return true
				}
				found = true
				if fl, ok := g.Call.Fun.(*ast.FuncLit); ok {
					visit(as, fl.Body, 0)
				} else if cal := c02Callee(as, g.Call.Fun); cal != nil && cal.Body != nil {
					seen[cal] = true
					visit(cal, cal.Body, 1)
				} else {
					fail("communicator.go acceptStream: the function started with `go` cannot be resolved: %s", src(g.Call.Fun))
				}
				return false
			})
			if !found {
				// no per-stream goroutine at all: the handler runs on the accept loop (C02's other fact says so); what it
				// reaches is then what the loop itself reaches — nothing to add here
			}
		}
		fmt.Fprintf(b, "/-- every close of a multiplexer session object in internal/server and internal/client/upstream (for the reader;\n    `<file> <function> <what is closed>`) -/\ndef sessionCloseSites : List String := %s\n", leanStrList14(sites))
		fmt.Fprintf(b, "\n/-- is the server's session closed by code that runs on the goroutine acceptStream starts per logical connection\n    (that goroutine's body and the functions of package server it calls, four levels)? -/\ndef serverSessionClosedOnStreamGoroutine : Bool := %v\n", onStream)
	})
}

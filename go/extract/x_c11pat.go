package main

// C11 (coverage of the handshake's probes): the byte tables the probes are made of.
//   * TestPatterns() of every codec the auto-detection can try (numbering of SA.Gen.C11: 0 b32 1 b64
//     2 b64u 3 b85 4 b91 5 b128 6 raw).  Literal patterns are constant-folded; Base85 builds its
//     pattern in a loop (`str[k] = subst(byte(k + 33))`), which is recognised by shape and evaluated.
//   * util.DownloadCodecCheck.
// The `patterns` harness component compares both with what the running code returns.

import (
	"fmt"
	"go/ast"
	"go/constant"
	"path/filepath"
	"strings"
)

func c11patBytesList(xs []string) string {
	parts := make([]string, len(xs))
	for i, s := range xs {
		parts[i] = leanBytes(s)
	}
	return "[" + strings.Join(parts, ", ") + "]"
}

// c11patByteConv evaluates `[]byte(<constant string expression>)`
func c11patByteConv(e ast.Expr, en env) (string, bool) {
	ce, ok := e.(*ast.CallExpr)
	if !ok || len(ce.Args) != 1 {
		return "", false
	}
	at, ok := ce.Fun.(*ast.ArrayType)
	if !ok || at.Len != nil || exprString(at.Elt) != "byte" {
		return "", false
	}
	v := evalExpr(ce.Args[0], en)
	if v == nil || v.Kind() != constant.String {
		return "", false
	}
	return constant.StringVal(v), true
}

// c11patPkg parses the non-test files of internal/util/enc (helper lookup for computedBytes)
func c11patPkg() []*ast.File {
	var fs []*ast.File
	names, _ := filepath.Glob(filepath.Join(repo, "internal/util/enc", "*.go"))
	for _, n := range names {
		if !strings.HasSuffix(n, "_test.go") {
			fs = append(fs, parse("internal/util/enc/"+filepath.Base(n)))
		}
	}
	return fs
}

func init() {
	extractors = append(extractors, func(o *out) {
		b := o.w("C11Pat.lean")
		fmt.Fprintf(b, "namespace C11Pat\n\n")
		var all []string
		for _, f := range [][2]string{{"base32.go", "Base32Encoder"}, {"base64.go", "Base64Encoder"}, {"base64u.go", "Base64uEncoder"},
			{"base85.go", "Base85Encoder"}, {"base91.go", "Base91Encoder"}, {"base128.go", "Base128Encoder"}, {"raw.go", "RawEncoder"}} {
			ef := parse("internal/util/enc/" + f[0])
			en := fileConsts(ef, nil)
			fd := findFunc(ef, f[1], "TestPatterns")
			if fd == nil || fd.Body == nil {
				fail("C11Pat: %s.TestPatterns not found", f[1])
				all = append(all, "[]")
				continue
			}
			var ret *ast.CompositeLit
			for _, st := range fd.Body.List {
				if r, ok := st.(*ast.ReturnStmt); ok && len(r.Results) == 1 {
					if cl, ok := r.Results[0].(*ast.CompositeLit); ok {
						ret = cl
					}
				}
			}
			if ret == nil {
				fail("C11Pat: %s.TestPatterns: no literal return", f[1])
				all = append(all, "[]")
				continue
			}
			var pats []string
			for _, el := range ret.Elts {
				if s, ok := c11patByteConv(el, en); ok {
					pats = append(pats, s)
					continue
				}
				// the computed pattern: str := make([]byte, N); for k := range str { b := byte(k + M); if-chain; else str[k] = b }
				id, ok := el.(*ast.Ident)
				if !ok {
					fail("C11Pat: %s.TestPatterns: element is neither []byte(const) nor a variable", f[1])
					continue
				}
				// evaluated, not pattern-matched (x_c08.go computedBytes): the loop may use an if/else chain, a
				// switch or a same-package helper for the substitution
				buf, why := computedBytes(c11patPkg(), fd, id.Name)
				if buf == nil {
					fail("C11Pat: %s.TestPatterns: computed pattern %s not evaluable: %s", f[1], id.Name, why)
					continue
				}
				pats = append(pats, string(buf))
			}
			all = append(all, c11patBytesList(pats))
		}
		fmt.Fprintf(b, "/-- TestPatterns() per codec (0 b32 1 b64 2 b64u 3 b85 4 b91 5 b128 6 raw) -/\ndef testPatterns : List (List (List Nat)) := [%s]\n", strings.Join(all, ",\n  "))

		// util.DownloadCodecCheck
		cf := parse("internal/streams/dns/util/consts.go")
		en := fileConsts(cf, nil)
		found := false
		for _, d := range cf.Decls {
			g, ok := d.(*ast.GenDecl)
			if !ok {
				continue
			}
			for _, s := range g.Specs {
				vs, ok := s.(*ast.ValueSpec)
				if !ok {
					continue
				}
				for i, n := range vs.Names {
					if n.Name == "DownloadCodecCheck" && i < len(vs.Values) {
						if str, ok := c11patByteConv(vs.Values[i], en); ok {
							fmt.Fprintf(b, "/-- util/consts.go DownloadCodecCheck -/\ndef downloadCodecCheck : List Nat := %s\n", leanBytes(str))
							found = true
						}
					}
				}
			}
		}
		if !found {
			fail("C11Pat: util.DownloadCodecCheck is no longer []byte(<constant string>)")
		}
		fmt.Fprintf(b, "\nend C11Pat\n")
	})
}

package main

import (
	"fmt"
	"go/ast"
	"sort"
	"strings"
)

// Locks: the models treat everything a function does between Lock and Unlock of one of the repository's mutexes as one
// atomic step.  That picture is wrong if, while a sync.Mutex is held, the function calls (directly, through another
// function of the package, or through a function-valued field) something that locks the same mutex again: Go's
// mutexes are not re-entrant, the goroutine blocks for ever with the lock held and every later user of the object
// queues up behind it.  The fact lists every such path found lexically; the models' theorems state that there is none.
//
// Resolution is by name within a package and over-approximates: a call `x.M()` on a variable of unknown type is taken
// to reach every method M of the package; a call of a function-valued field reaches every method value assigned to a
// field of that name in a composite literal.

type lockFn struct {
	name   string // Type.Method or function name; literals get "<outer>$lit<n>"
	file   string
	locks  map[string]bool            // mutex keys locked somewhere in the body
	calls  map[string]bool            // resolved callee names
	held   map[string]map[string]bool // mutex key -> callees invoked while it is held
	recv   string
	vtypes map[string]string
}

func typeName(e ast.Expr) string {
	switch t := e.(type) {
	case *ast.StarExpr:
		return typeName(t.X)
	case *ast.Ident:
		return t.Name
	case *ast.SelectorExpr:
		return t.Sel.Name
	}
	return ""
}

func init() {
	extractors = append(extractors, func(o *out) {
		b := o.w("Locks.lean")
		dirs := []string{"internal/client/upstream", "internal/client/listener", "internal/server", "internal/socketace",
			"internal/streams", "internal/streams/dns", "internal/streams/dns/util", "internal/util/cert"}
		var paths, regions []string
		for _, dir := range dirs {
			fns := map[string]*lockFn{}
			methodsByName := map[string][]string{}
			fieldFuncs := map[string][]string{} // field name -> method values assigned to it
			var files []*ast.File
			var fnames []string
			for _, f := range goFiles(dir) {
				af := parse(f)
				if af != nil {
					files = append(files, af)
					fnames = append(fnames, f)
				}
			}
			// pass 1: declarations
			type decl struct {
				fd   *ast.FuncDecl
				file string
			}
			var decls []decl
			for i, af := range files {
				for _, d := range af.Decls {
					if fd, ok := d.(*ast.FuncDecl); ok && fd.Body != nil {
						decls = append(decls, decl{fd, fnames[i]})
						n := fd.Name.Name
						if fd.Recv != nil && len(fd.Recv.List) == 1 {
							n = typeName(fd.Recv.List[0].Type) + "." + n
							methodsByName[fd.Name.Name] = append(methodsByName[fd.Name.Name], n)
						} else {
							methodsByName[fd.Name.Name] = append(methodsByName[fd.Name.Name], n)
						}
					}
				}
			}
			// function-valued fields: `field: recv.Method` in composite literals inside methods
			for _, d := range decls {
				if d.fd.Recv == nil || len(d.fd.Recv.List) != 1 || len(d.fd.Recv.List[0].Names) != 1 {
					continue
				}
				rn, rt := d.fd.Recv.List[0].Names[0].Name, typeName(d.fd.Recv.List[0].Type)
				ast.Inspect(d.fd.Body, func(n ast.Node) bool {
					if kv, ok := n.(*ast.KeyValueExpr); ok {
						if k, ok := kv.Key.(*ast.Ident); ok {
							if se, ok := kv.Value.(*ast.SelectorExpr); ok {
								if id, ok := se.X.(*ast.Ident); ok && id.Name == rn {
									fieldFuncs[k.Name] = append(fieldFuncs[k.Name], rt+"."+se.Sel.Name)
								}
							}
						}
					}
					return true
				})
			}
			// pass 2: bodies
			var analyse func(name, file string, body *ast.BlockStmt, vt map[string]string)
			analyse = func(name, file string, body *ast.BlockStmt, vt map[string]string) {
				fn := &lockFn{name: name, file: file, locks: map[string]bool{}, calls: map[string]bool{}, held: map[string]map[string]bool{}, vtypes: vt}
				fns[name] = fn
				lit := 0
				keyOf := func(x ast.Expr) string { // x = the mutex expression (recv.field or a local)
					if se, ok := x.(*ast.SelectorExpr); ok {
						if id, ok := se.X.(*ast.Ident); ok {
							if t := vt[id.Name]; t != "" {
								return t + "." + se.Sel.Name
							}
							return "?." + se.Sel.Name
						}
					}
					return src(x)
				}
				ownType := ""
				if i := strings.Index(name, "."); i > 0 {
					ownType = name[:i]
				}
				notOwn := func(cands []string) []string {
					// a call on a value of unknown type is not taken to reach a method of the enclosing function's own
					// receiver type (such calls go through the receiver variable, which is resolved exactly)
					var o []string
					for _, c := range cands {
						if ownType == "" || !strings.HasPrefix(c, ownType+".") {
							o = append(o, c)
						}
					}
					return o
				}
				resolve := func(c *ast.CallExpr) []string {
					switch f := c.Fun.(type) {
					case *ast.Ident:
						if _, ok := fns[f.Name]; ok || len(methodsByName[f.Name]) > 0 {
							return methodsByName[f.Name]
						}
					case *ast.SelectorExpr:
						m := f.Sel.Name
						if id, ok := f.X.(*ast.Ident); ok {
							if t := vt[id.Name]; t != "" {
								for _, cand := range methodsByName[m] {
									if cand == t+"."+m {
										return []string{cand}
									}
								}
							}
						}
						if len(methodsByName[m]) > 0 {
							return notOwn(methodsByName[m])
						}
						if len(fieldFuncs[m]) > 0 {
							return fieldFuncs[m]
						}
					}
					return nil
				}
				var walk func(n ast.Node, held map[string]bool)
				walkStmts := func(list []ast.Stmt, held map[string]bool) {
					h := map[string]bool{}
					for k := range held {
						h[k] = true
					}
					for _, st := range list {
						// lock bookkeeping on plain statements of this list
						if es, ok := st.(*ast.ExprStmt); ok {
							if c, ok := es.X.(*ast.CallExpr); ok {
								if se, ok := c.Fun.(*ast.SelectorExpr); ok && len(c.Args) == 0 {
									switch se.Sel.Name {
									case "Lock", "RLock":
										k := keyOf(se.X)
										fn.locks[k] = true
										if h[k] && se.Sel.Name == "Lock" {
											paths = append(paths, fmt.Sprintf("%s %s: locks %s while holding it", file, name, k))
										}
										h[k] = true
										continue
									case "Unlock", "RUnlock":
										delete(h, keyOf(se.X))
										continue
									}
								}
							}
						}
						if ds, ok := st.(*ast.DeferStmt); ok {
							if se, ok := ds.Call.Fun.(*ast.SelectorExpr); ok && (se.Sel.Name == "Unlock" || se.Sel.Name == "RUnlock") {
								continue // held to the end of the function
							}
						}
						walk(st, h)
					}
				}
				walk = func(n ast.Node, held map[string]bool) {
					ast.Inspect(n, func(m ast.Node) bool {
						switch x := m.(type) {
						case *ast.BlockStmt:
							walkStmts(x.List, held)
							return false
						case *ast.CaseClause:
							for _, e := range x.List {
								walk(e, held)
							}
							walkStmts(x.Body, held)
							return false
						case *ast.CommClause:
							if x.Comm != nil {
								walk(x.Comm, held)
							}
							walkStmts(x.Body, held)
							return false
						case *ast.FuncLit:
							lit++
							ln := fmt.Sprintf("%s$lit%d", name, lit)
							vt2 := map[string]string{}
							for k, v := range vt {
								vt2[k] = v
							}
							analyse(ln, file, x.Body, vt2)
							// a literal that is called or deferred in place runs under the caller's locks; one that is
							// started with `go` or stored does not.  Calls of literals are attributed where they occur:
							return false
						case *ast.GoStmt:
							// the new goroutine does not hold the caller's locks
							if fl, ok := x.Call.Fun.(*ast.FuncLit); ok {
								lit++
								ln := fmt.Sprintf("%s$lit%d", name, lit)
								vt2 := map[string]string{}
								for k, v := range vt {
									vt2[k] = v
								}
								analyse(ln, file, fl.Body, vt2)
							}
							return false
						case *ast.AssignStmt:
							// local variable types: x := &T{…} / T{…} / NewT(…)
							if len(x.Lhs) == 1 && len(x.Rhs) == 1 {
								if id, ok := x.Lhs[0].(*ast.Ident); ok {
									r := x.Rhs[0]
									if u, ok := r.(*ast.UnaryExpr); ok {
										r = u.X
									}
									if cl, ok := r.(*ast.CompositeLit); ok {
										if t := typeName(cl.Type); t != "" {
											vt[id.Name] = t
										}
									}
								}
							}
						case *ast.CallExpr:
							for _, callee := range resolve(x) {
								fn.calls[callee] = true
								for k := range held {
									if fn.held[k] == nil {
										fn.held[k] = map[string]bool{}
									}
									fn.held[k][callee] = true
								}
							}
						}
						return true
					})
				}
				walkStmts(body.List, map[string]bool{})
			}
			for _, d := range decls {
				vt := map[string]string{}
				name := d.fd.Name.Name
				if d.fd.Recv != nil && len(d.fd.Recv.List) == 1 {
					t := typeName(d.fd.Recv.List[0].Type)
					name = t + "." + name
					if len(d.fd.Recv.List[0].Names) == 1 {
						vt[d.fd.Recv.List[0].Names[0].Name] = t
					}
				}
				if d.fd.Type.Params != nil {
					for _, p := range d.fd.Type.Params.List {
						for _, n := range p.Names {
							if t := typeName(p.Type); t != "" {
								vt[n.Name] = t
							}
						}
					}
				}
				analyse(name, d.file, d.fd.Body, vt)
			}
			// function-valued fields are known only after all bodies were seen: resolve calls of such fields now
			// (second sweep over the bodies would be cleaner; the field names are few, so patch the call sets)
			// transitive closure of "locks"
			reach := map[string]map[string]bool{}
			for n, f := range fns {
				reach[n] = map[string]bool{}
				for k := range f.locks {
					reach[n][k] = true
				}
			}
			for changed := true; changed; {
				changed = false
				for n, f := range fns {
					for c := range f.calls {
						for k := range reach[c] {
							if !reach[n][k] {
								reach[n][k] = true
								changed = true
							}
						}
					}
				}
			}
			for n, f := range fns {
				for k, callees := range f.held {
					if strings.HasPrefix(k, "?.") {
						continue
					}
					regions = append(regions, fmt.Sprintf("%s %s holds %s", f.file, n, k))
					for c := range callees {
						if reach[c][k] {
							paths = append(paths, fmt.Sprintf("%s %s: holds %s and calls %s, which locks %s", f.file, n, k, c, k))
						}
					}
				}
				for k := range f.locks {
					if len(f.held[k]) == 0 {
						regions = append(regions, fmt.Sprintf("%s %s holds %s", f.file, n, k))
					}
				}
			}
		}
		sort.Strings(paths)
		sort.Strings(regions)
		uniq := func(xs []string) []string {
			var o []string
			for i, x := range xs {
				if i == 0 || xs[i-1] != x {
					o = append(o, x)
				}
			}
			return o
		}
		paths, regions = uniq(paths), uniq(regions)
		fmt.Fprintf(b, "/-- every (function, mutex) pair in which the function holds the mutex -/\ndef lockedRegions : List String := [\n")
		for i, r := range regions {
			sep := ","
			if i == len(regions)-1 {
				sep = ""
			}
			fmt.Fprintf(b, "  %q%s\n", r, sep)
		}
		fmt.Fprintf(b, "]\n\n")
		fmt.Fprintf(b, "/-- paths on which a function, while holding one of the repository's mutexes, reaches code that locks the same\n    mutex again (sync.Mutex is not re-entrant: the goroutine would block for ever with the lock held) -/\ndef reentrantLockPaths : List String := %s\n\n", leanStrList14(paths))
	})
}

package main

// C04 facts (third file, SA/Gen/C04Dial.lean): how often a Connect may open a carrier before it tells the handshake
// whether that carrier is encrypted.
//
// The `secure` argument of socketace.NewClientConnection is computed from the CONFIGURED address.  It describes the
// carrier in use only if the carrier is opened once, for that address: a Connect that dials again - follows a
// redirect, falls back to another scheme after an error, retries in a loop - hands the handshake a flag computed for
// a carrier that is no longer the one in use.  Per upstream kind this extractor records
//
//   maxDials   the largest number of carrier-opening calls (a call whose function name contains "Dial") on one path
//              through the Connect function: sequence = sum, if/else and switch = the larger branch, a loop or a
//              function literal counts its body twice
//   lateFlag   the variable passed as `secure` is assigned after the first carrier-opening call (in source order)
//
// The Lean theorem C04_flag_computed_for_the_carrier_in_use requires maxDials <= 1 and no late assignment for every
// kind whose `secure` argument is not the literal false; the model of the front-end sweep (SA.Security.cellFront)
// follows a redirect / falls back exactly when this fact says the code can.

import (
	"fmt"
	"go/ast"
	"go/token"
	"strings"
)

func c04IsDial(call *ast.CallExpr) bool {
	name := ""
	switch f := call.Fun.(type) {
	case *ast.SelectorExpr:
		name = f.Sel.Name
	case *ast.Ident:
		name = f.Name
	}
	return strings.Contains(strings.ToLower(name), "dial")
}

// c04DialsIn counts the carrier-opening calls of an expression or simple statement (function literals count twice)
func c04DialsIn(n ast.Node) int {
	if n == nil {
		return 0
	}
	total := 0
	ast.Inspect(n, func(x ast.Node) bool {
		switch v := x.(type) {
		case *ast.FuncLit:
			total += 2 * c04MaxDials(v.Body)
			return false
		case *ast.CallExpr:
			if c04IsDial(v) {
				total++
			}
		}
		return true
	})
	return total
}

func c04MaxDials(s ast.Stmt) int {
	max := func(a, b int) int {
		if a > b {
			return a
		}
		return b
	}
	switch v := s.(type) {
	case nil:
		return 0
	case *ast.BlockStmt:
		if v == nil {
			return 0
		}
		t := 0
		for _, st := range v.List {
			t += c04MaxDials(st)
		}
		return t
	case *ast.IfStmt:
		els := 0
		if v.Else != nil {
			els = c04MaxDials(v.Else)
		}
		return c04MaxDials(v.Init) + c04DialsIn(v.Cond) + max(c04MaxDials(v.Body), els)
	case *ast.ForStmt:
		return c04MaxDials(v.Init) + 2*(c04DialsIn(v.Cond)+c04MaxDials(v.Post)+c04MaxDials(v.Body))
	case *ast.RangeStmt:
		return c04DialsIn(v.X) + 2*c04MaxDials(v.Body)
	case *ast.LabeledStmt:
		return c04MaxDials(v.Stmt)
	case *ast.SwitchStmt:
		m := 0
		for _, c := range v.Body.List {
			cc := c.(*ast.CaseClause)
			t := 0
			for _, e := range cc.List {
				t += c04DialsIn(e)
			}
			for _, st := range cc.Body {
				t += c04MaxDials(st)
			}
			m = max(m, t)
		}
		return c04MaxDials(v.Init) + c04DialsIn(v.Tag) + m
	case *ast.TypeSwitchStmt:
		m := 0
		for _, c := range v.Body.List {
			t := 0
			for _, st := range c.(*ast.CaseClause).Body {
				t += c04MaxDials(st)
			}
			m = max(m, t)
		}
		return c04MaxDials(v.Init) + c04MaxDials(v.Assign) + m
	case *ast.SelectStmt:
		m := 0
		for _, c := range v.Body.List {
			cc := c.(*ast.CommClause)
			t := c04MaxDials(cc.Comm)
			for _, st := range cc.Body {
				t += c04MaxDials(st)
			}
			m = max(m, t)
		}
		return m
	default:
		return c04DialsIn(s)
	}
}

func init() {
	extractors = append(extractors, func(o *out) {
		b := o.w("C04Dial.lean")
		kinds := []struct{ kind, file, recv, fn string }{
			{"socket", "socket.go", "Socket", "Connect"},
			{"http", "http.go", "Http", "Connect"},
			{"packet", "packet.go", "Packet", "ConnectPacket"},
			{"stdio", "input_output.go", "InputOutput", "Connect"},
			{"dns", "dns.go", "Dns", "Connect"},
		}
		var rows []string
		for _, k := range kinds {
			f := parse("internal/client/upstream/" + k.file)
			fd := findFunc(f, k.recv, k.fn)
			if fd == nil || fd.Body == nil {
				fail("C04: %s.%s not found in %s", k.recv, k.fn, k.file)
				continue
			}
			calls := c05calls(fd.Body, "socketace.NewClientConnection")
			if len(calls) != 1 || len(calls[0].Args) != 4 {
				fail("C04: expected one 4-argument socketace.NewClientConnection call in %s.%s, found %d", k.recv, k.fn, len(calls))
				continue
			}
			n := c04MaxDials(fd.Body)
			// first carrier-opening call in source order
			first := token.NoPos
			ast.Inspect(fd.Body, func(x ast.Node) bool {
				if c, ok := x.(*ast.CallExpr); ok && c04IsDial(c) && (first == token.NoPos || c.Pos() < first) {
					first = c.Pos()
				}
				return true
			})
			late := false
			if id, ok := calls[0].Args[2].(*ast.Ident); ok && first != token.NoPos {
				ast.Inspect(fd.Body, func(x ast.Node) bool {
					switch v := x.(type) {
					case *ast.AssignStmt:
						for _, lh := range v.Lhs {
							if c05src(lh) == id.Name && v.Pos() > first {
								late = true
							}
						}
					case *ast.IncDecStmt:
						if c05src(v.X) == id.Name && v.Pos() > first {
							late = true
						}
					}
					return true
				})
			}
			rows = append(rows, fmt.Sprintf("(%s, %d, %v)", leanStr05(k.kind), n, late))
		}
		fmt.Fprintf(b, "/-- per upstream kind: (kind, largest number of carrier-opening calls - function name contains \"Dial\" - on one path\n    through its Connect (a loop or function literal counts twice), the `secure` argument's variable is assigned after\n    the first such call) -/\ndef c04DialPaths : List (String × Nat × Bool) := [\n  %s]\n", strings.Join(rows, ",\n  "))
	})
}

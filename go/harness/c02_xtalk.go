//go:build verif

package main

import (
	"bytes"
	"fmt"
	"strconv"
	"strings"
	"sync"
	"time"
)

// ---- C02 `xtalk <carrier> <k> <seed>`: k concurrent logical connections on one session, each writing its own
// payload (own size, own write partition, pauses) and reading its own echo; one of them stays paused
// (unread data below the multiplexer's window) while the others must finish.  result: ok | fail:<why>

type xtalkComp struct{}

func init() { register("xtalk", xtalkComp{}) }

func (xtalkComp) Exec(op string) (string, string, string, bool) {
	f := strings.Fields(op)
	if len(f) != 3 {
		return "bad-op", "", "bad", false
	}
	k, _ := strconv.Atoi(f[1])
	seed, _ := strconv.ParseUint(f[2], 10, 64)
	rig, err := NewRig(RigOpts{Carrier: f[0], Insecure: true})
	if err != nil {
		return "fail:rig", err.Error(), "fail", false
	}
	defer rig.Close()
	r := NewRand(seed)
	type job struct {
		n, part int
		seed    uint64
		pause   time.Duration
	}
	jobs := make([]job, k)
	for i := range jobs {
		jobs[i] = job{n: 1 + r.Intn(200000), part: []int{0, 1000, 4096, 32768}[r.Intn(4)], seed: r.Next(), pause: time.Duration(r.Intn(30)) * time.Millisecond}
	}
	dl := 30 * time.Second
	if f[0] == "dns" {
		for i := range jobs {
			jobs[i].n = 1 + r.Intn(3000)
		}
		dl = 120 * time.Second
	}
	errs := make([]string, k)
	var wg sync.WaitGroup
	for i := range jobs {
		wg.Add(1)
		go func(i int) {
			defer wg.Done()
			j := jobs[i]
			c, err := rig.Dial("echo")
			if err != nil {
				errs[i] = "dial: " + err.Error()
				return
			}
			defer c.Close()
			time.Sleep(j.pause)
			data := payload(j.seed, j.n)
			werr := make(chan error, 1)
			go func() { werr <- writeParts(c, data, j.part, dl) }()
			if i == 0 {
				time.Sleep(300 * time.Millisecond) // the slow reader
			}
			got, err := readFullDeadline(c, j.n, dl)
			if err != nil {
				errs[i] = fmt.Sprintf("connection %d (%d bytes): %v", i, j.n, err)
				return
			}
			if !bytes.Equal(got, data) {
				errs[i] = fmt.Sprintf("connection %d received bytes that are not its own", i)
				return
			}
			if e := <-werr; e != nil {
				errs[i] = "write: " + e.Error()
			}
		}(i)
	}
	wg.Wait()
	for _, e := range errs {
		if e != "" {
			return "fail", e, f[0], false
		}
	}
	return "ok", "", f[0], true
}

func (xtalkComp) Gen(r *Rand, tier string, emit func(string)) {
	emit(fmt.Sprintf("tcp 3 %d", r.Next()%1000))
	emit(fmt.Sprintf("ws 3 %d", r.Next()%1000))
	emit(fmt.Sprintf("stdio 2 %d", r.Next()%1000))
	emit(fmt.Sprintf("udp 2 %d", r.Next()%1000))
	if tier == "thorough" {
		for _, c := range []string{"tcp", "tcptls", "starttls", "ws", "wss", "stdio", "udp"} {
			for i := 0; i < 4; i++ {
				emit(fmt.Sprintf("%s %d %d", c, []int{2, 3, 8}[r.Intn(3)], r.Next()%100000))
			}
		}
		emit(fmt.Sprintf("dns 2 %d", r.Next()%1000))
	}
}

// ---- C02 `isolate <carrier> <ending>`: logical connections A and B share one session; A then ends in the given
// manner — clean (orderly close), rst (closed by its application with unread inbound data, so the client sees a
// reset), flood (A's application stops reading while the target keeps sending) — and B, opened before, must keep
// echoing, and a new connection C must work.  result: ok | fail

type isolateComp struct{}

func init() { register("isolate", isolateComp{}) }

func (isolateComp) Exec(op string) (string, string, string, bool) {
	f := strings.Fields(op)
	if len(f) != 2 {
		return "bad-op", "", "bad", false
	}
	chans := map[string]string{"echo": "echo"}
	if f[1] == "stalltarget" {
		chans["sink"] = "unix-noread"
	}
	rig, err := NewRig(RigOpts{Carrier: f[0], Insecure: true, Channels: chans})
	if err != nil {
		return "fail:rig", err.Error(), "fail", false
	}
	defer rig.Close()
	dl := 8 * time.Second
	if f[1] == "stalltarget" {
		// connection S goes to a target that accepts and never reads; the application pushes 2 MiB at it (far less
		// than the multiplexer's shared 4 MiB receive buffer); B, opened before and after, must keep working
		sc, err := rig.Dial("sink")
		if err != nil {
			return "fail", "connection to the stalled target: " + err.Error(), f[0], false
		}
		defer sc.Close()
		go func() { _ = writeParts(sc, payload(4, 2<<20), 32768, 20*time.Second) }()
		time.Sleep(500 * time.Millisecond)
	}
	a, err := echoOnce(rig, 16, 1, dl)
	if err != nil {
		return "fail", "connection A: " + err.Error(), f[0], false
	}
	b, err := echoOnce(rig, 16, 2, dl)
	if err != nil {
		a.Close()
		return "fail", "connection B: " + err.Error(), f[0], false
	}
	defer b.Close()
	switch f[1] {
	case "clean":
		a.Close()
	case "rst":
		// make the echo target send a lot back, read one byte, close with the rest unread
		_ = writeParts(a, payload(3, 300000), 0, dl)
		_, _ = readFullDeadline(a, 1, dl)
		a.Close()
	case "flood":
		go func() { _ = writeParts(a, payload(4, 2000000), 0, 3*time.Second) }()
		defer a.Close()
	}
	time.Sleep(200 * time.Millisecond)
	for i := 0; i < 5; i++ {
		data := payload(uint64(50+i), 64)
		if err := writeParts(b, data, 0, dl); err != nil {
			return "fail", fmt.Sprintf("connection B broke after connection A ended (%s): write: %v", f[1], err), f[0] + " " + f[1], false
		}
		got, err := readFullDeadline(b, 64, dl)
		if err != nil || !bytes.Equal(got, data) {
			return "fail", fmt.Sprintf("connection B broke after connection A ended (%s): %v", f[1], err), f[0] + " " + f[1], false
		}
	}
	c, err := echoOnce(rig, 16, 9, dl)
	if err != nil {
		return "fail", fmt.Sprintf("a new connection failed after connection A ended (%s): %v", f[1], err), f[0] + " " + f[1], false
	}
	c.Close()
	return "ok", "", f[0] + " " + f[1], true
}

func (isolateComp) Gen(r *Rand, tier string, emit func(string)) {
	for _, e := range []string{"clean", "rst", "flood", "stalltarget"} {
		emit("tcp " + e)
	}
	emit("ws stalltarget")
	emit("ws rst")
	emit("stdio rst")
	if tier == "thorough" {
		for _, c := range []string{"tcptls", "starttls", "ws", "wss", "stdio", "udp"} {
			for _, e := range []string{"clean", "rst", "flood", "stalltarget"} {
				emit(c + " " + e)
			}
		}
	}
}

//go:build verif

package main

import (
	"net"
	"github.com/bokysan/socketace/v2/internal/client/upstream"
	"os"
	"io"
	"bytes"
	"fmt"
	"strconv"
	"strings"
	"sync"
	"time"
)

// ---- C02 `xtalk <carrier> <k> <seed>`: k concurrent logical connections on one session, each writing its own
// payload (own size, own write partition, pauses) and reading its own echo; one of them stays paused
// (unread data below the multiplexer's window) while the others must finish.  result: ok | fail:<why>

type xtalkComp struct{}

func init() { register("xtalk", xtalkComp{}) }

func (xtalkComp) Exec(op string) (string, string, string, bool) {
	f := strings.Fields(op)
	if len(f) != 3 {
		return "bad-op", "", "bad", false
	}
	k, _ := strconv.Atoi(f[1])
	seed, _ := strconv.ParseUint(f[2], 10, 64)
	rig, err := NewRig(RigOpts{Carrier: f[0], Insecure: true, Relay: k > 50 && f[0] == "tcp"})
	if err != nil {
		return "fail:rig", err.Error(), "fail", false
	}
	defer rig.Close()
	r := NewRand(seed)
	type job struct {
		n, part int
		seed    uint64
		pause   time.Duration
	}
	jobs := make([]job, k)
	for i := range jobs {
		jobs[i] = job{n: 1 + r.Intn(200000), part: []int{0, 1000, 4096, 32768}[r.Intn(4)], seed: r.Next(), pause: time.Duration(r.Intn(30)) * time.Millisecond}
	}
	if k > 50 {
		// many connections at once: all of them are open before the first one finishes (everyone waits for the last dial)
		for i := range jobs {
			jobs[i].n = 1 + r.Intn(20000)
			jobs[i].pause = 0
		}
	}
	dl := 30 * time.Second
	if f[0] == "dns" {
		for i := range jobs {
			jobs[i].n = 1 + r.Intn(3000)
		}
		dl = 120 * time.Second
	}
	errs := make([]string, k)
	var wg, opened sync.WaitGroup
	if k > 50 {
		opened.Add(k)
	}
	// many connections: they are opened one after the other (each proves it exists end to end before the next is
	// dialled), stay open, and then all move their data at the same time
	pre := make([]net.Conn, k)
	if k > 50 {
		for i := range pre {
			c, err := rig.Dial("echo")
			if err != nil {
				return "fail", fmt.Sprintf("connection %d: dial: %v", i, err), f[0], false
			}
			defer c.Close()
			one := []byte{byte(i)}
			if _, err := c.Write(one); err != nil {
				return "fail", fmt.Sprintf("connection %d (opened while %d others are open): first byte: %v", i, i, err), f[0], false
			}
			if got, err := readFullDeadline(c, 1, 10*time.Second); err != nil || got[0] != one[0] {
				return "fail", fmt.Sprintf("connection %d (opened while %d others are open): first byte not echoed: %v", i, i, err), f[0], false
			}
			pre[i] = c
		}
	}
	for i := range jobs {
		wg.Add(1)
		go func(i int) {
			defer wg.Done()
			j := jobs[i]
			c := pre[i]
			if c == nil {
				var err error
				c, err = rig.Dial("echo")
				if err != nil {
					errs[i] = "dial: " + err.Error()
					return
				}
				defer c.Close()
			}
			if false {
				// prove the connection exists end to end, then wait until all k are open
				one := []byte{byte(i)}
				if _, err := c.Write(one); err != nil {
					errs[i] = "first byte: " + err.Error()
					opened.Done()
					return
				}
				if got, err := readFullDeadline(c, 1, dl); err != nil || got[0] != one[0] {
					errs[i] = fmt.Sprintf("connection %d: first byte not echoed: %v", i, err)
					opened.Done()
					return
				}
				opened.Done()
				opened.Wait()
				if i == 0 && os.Getenv("VERIF_DEBUG") != "" {
					fmt.Fprintf(os.Stderr, "DEBUG streams on the client session after all are open: %d\n", upstream.VerifNumStreams(&rig.cli.Upstream))
				}
			}
			time.Sleep(j.pause)
			data := payload(j.seed, j.n)
			werr := make(chan error, 1)
			go func() { werr <- writeParts(c, data, j.part, dl) }()
			if i == 0 {
				time.Sleep(300 * time.Millisecond) // the slow reader
			}
			got, err := readFullDeadline(c, j.n, dl)
			if err != nil {
				errs[i] = fmt.Sprintf("connection %d (%d bytes): %v", i, j.n, err)
				return
			}
			if !bytes.Equal(got, data) {
				errs[i] = fmt.Sprintf("connection %d received bytes that are not its own", i)
				return
			}
			if e := <-werr; e != nil {
				errs[i] = "write: " + e.Error()
			}
		}(i)
	}
	wg.Wait()
	if rig.Relay != nil && os.Getenv("VERIF_DEBUG") != "" {
		_, _, acc := rig.Relay.Captured()
		fmt.Fprintf(os.Stderr, "DEBUG physical connections: %d\n", acc)
	}
	for _, e := range errs {
		if e != "" {
			return "fail", e, f[0], false
		}
	}
	return "ok", "", f[0], true
}

func (xtalkComp) Gen(r *Rand, tier string, emit func(string)) {
	emit(fmt.Sprintf("tcp 160 %d", r.Next()%1000)) // far more logical connections at once than the usual handful
	emit(fmt.Sprintf("tcp 3 %d", r.Next()%1000))
	emit(fmt.Sprintf("ws 3 %d", r.Next()%1000))
	emit(fmt.Sprintf("stdio 2 %d", r.Next()%1000))
	emit(fmt.Sprintf("udp 2 %d", r.Next()%1000))
	if tier == "thorough" {
		for _, c := range []string{"tcp", "tcptls", "starttls", "ws", "wss", "stdio", "udp"} {
			for i := 0; i < 4; i++ {
				emit(fmt.Sprintf("%s %d %d", c, []int{2, 3, 8}[r.Intn(3)], r.Next()%100000))
			}
		}
		emit(fmt.Sprintf("dns 2 %d", r.Next()%1000))
	}
}

// ---- C02 `isolate <carrier> <ending>`: logical connections A and B share one session; A then ends in the given
// manner — clean (orderly close), rst (closed by its application with unread inbound data, so the client sees a
// reset), flood (A's application stops reading while the target keeps sending) — and B, opened before, must keep
// echoing, and a new connection C must work.  result: ok | fail

type isolateComp struct{}

func init() { register("isolate", isolateComp{}) }

func (isolateComp) Exec(op string) (string, string, string, bool) {
	f := strings.Fields(op)
	if len(f) != 2 {
		return "bad-op", "", "bad", false
	}
	if f[1] == "burstidle" {
		return burstIdle(f[0])
	}
	if f[1] == "lastclose" {
		return lastClose(f[0])
	}
	chans := map[string]string{"echo": "echo"}
	if f[1] == "stalltarget" {
		chans["sink"] = "unix-noread"
	}
	if f[1] == "refusedmid" {
		chans["big"] = "source:6291456:5"
	}
	rig, err := NewRig(RigOpts{Carrier: f[0], Insecure: true, Channels: chans})
	if err != nil {
		return "fail:rig", err.Error(), "fail", false
	}
	defer rig.Close()
	dl := 8 * time.Second
	if f[1] == "stalltarget" {
		// connection S goes to a target that accepts and never reads; the application pushes 2 MiB at it (far less
		// than the multiplexer's shared 4 MiB receive buffer); B, opened before and after, must keep working
		sc, err := rig.Dial("sink")
		if err != nil {
			return "fail", "connection to the stalled target: " + err.Error(), f[0], false
		}
		defer sc.Close()
		go func() { _ = writeParts(sc, payload(4, 2<<20), 32768, 20*time.Second) }()
		time.Sleep(500 * time.Millisecond)
	}
	a, err := echoOnce(rig, 16, 1, dl)
	if err != nil {
		return "fail", "connection A: " + err.Error(), f[0], false
	}
	b, err := echoOnce(rig, 16, 2, dl)
	if err != nil {
		a.Close()
		return "fail", "connection B: " + err.Error(), f[0], false
	}
	defer b.Close()
	var bigDone chan string
	switch f[1] {
	case "refused", "refusedmid":
		// A stays open; meanwhile a connection arrives on another listener of the same client whose channel the server
		// does not offer (it is refused).  With refusedmid a third connection D is in the middle of receiving 6 MiB
		// from its target: it must get all of it, then end-of-stream.
		defer a.Close()
		if _, err := rig.AddAppListener("nochan"); err != nil {
			return "fail:rig", err.Error(), "fail", false
		}
		if f[1] == "refusedmid" {
			d, err := rig.Dial("big")
			if err != nil {
				return "fail", "connection D: " + err.Error(), f[0], false
			}
			defer d.Close()
			if _, err := readFullDeadline(d, 100000, dl); err != nil {
				return "fail", "connection D: first 100000 bytes: " + err.Error(), f[0], false
			}
			bigDone = make(chan string, 1)
			go func() {
				_ = d.SetReadDeadline(time.Now().Add(40 * time.Second))
				rest, err := io.ReadAll(d)
				want := payload(5, 6291456)
				if err != nil || 100000+len(rest) != len(want) || !bytes.Equal(rest, want[100000:]) {
					bigDone <- fmt.Sprintf("connection D received %d of %d bytes before end-of-stream (err=%v) after a connection on another listener was refused", 100000+len(rest), len(want), err)
					return
				}
				bigDone <- ""
			}()
		}
		for i := 0; i < 2; i++ {
			x, err := rig.Dial("nochan")
			if err == nil {
				_ = x.SetReadDeadline(time.Now().Add(5 * time.Second))
				_, _ = x.Write([]byte("hello?"))
				_, _ = io.ReadAll(x)
				x.Close()
			}
		}
	case "clean":
		a.Close()
	case "rst":
		// make the echo target send a lot back, read one byte, close with the rest unread
		_ = writeParts(a, payload(3, 300000), 0, dl)
		_, _ = readFullDeadline(a, 1, dl)
		a.Close()
	case "flood":
		go func() { _ = writeParts(a, payload(4, 2000000), 0, 3*time.Second) }()
		defer a.Close()
	}
	time.Sleep(200 * time.Millisecond)
	for i := 0; i < 5; i++ {
		data := payload(uint64(50+i), 64)
		if err := writeParts(b, data, 0, dl); err != nil {
			return "fail", fmt.Sprintf("connection B broke after connection A ended (%s): write: %v", f[1], err), f[0] + " " + f[1], false
		}
		got, err := readFullDeadline(b, 64, dl)
		if err != nil || !bytes.Equal(got, data) {
			return "fail", fmt.Sprintf("connection B broke after connection A ended (%s): %v", f[1], err), f[0] + " " + f[1], false
		}
	}
	c, err := echoOnce(rig, 16, 9, dl)
	if err != nil {
		return "fail", fmt.Sprintf("a new connection failed after connection A ended (%s): %v", f[1], err), f[0] + " " + f[1], false
	}
	c.Close()
	if bigDone != nil {
		select {
		case why := <-bigDone:
			if why != "" {
				return "fail", why, f[0] + " " + f[1], false
			}
		case <-time.After(45 * time.Second):
			return "fail", "connection D never saw end-of-stream", f[0] + " " + f[1], false
		}
	}
	if f[1] == "refused" || f[1] == "refusedmid" {
		// the long-open connection A has survived too
		if err := echoAgain(a, 64, 77, dl); err != nil {
			return "fail", fmt.Sprintf("connection A broke after a connection on another listener was refused: %v", err), f[0] + " " + f[1], false
		}
	}
	return "ok", "", f[0] + " " + f[1], true
}

// latRelay: a TCP relay with a one-way latency: every chunk (and the end of the stream) is delivered `lat` after it was
// read, in order.  It stands between the rig's Relay and the server endpoint (Relay.SetTarget).
type latRelay struct {
	ln   net.Listener
	Addr string
	mu   sync.Mutex
	cs   []net.Conn
}

type latChunk struct {
	at  time.Time
	b   []byte
	end bool
}

func newLatRelay(to string, lat time.Duration) (*latRelay, error) {
	ln, err := net.Listen("tcp", "127.0.0.1:0")
	if err != nil {
		return nil, err
	}
	l := &latRelay{ln: ln, Addr: ln.Addr().String()}
	oneWay := func(from, dst net.Conn) {
		q := make(chan latChunk, 4096)
		go func() {
			for ch := range q {
				if d := time.Until(ch.at); d > 0 {
					time.Sleep(d)
				}
				if ch.end {
					if tc, ok := dst.(*net.TCPConn); ok {
						_ = tc.CloseWrite()
					} else {
						_ = dst.Close()
					}
					return
				}
				if _, err := dst.Write(ch.b); err != nil {
					_ = from.Close()
					return
				}
			}
		}()
		buf := make([]byte, 32768)
		for {
			n, err := from.Read(buf)
			if n > 0 {
				q <- latChunk{at: time.Now().Add(lat), b: append([]byte(nil), buf[:n]...)}
			}
			if err != nil {
				q <- latChunk{at: time.Now().Add(lat), end: true}
				close(q)
				return
			}
		}
	}
	go func() {
		for {
			c, err := ln.Accept()
			if err != nil {
				return
			}
			d, err := net.Dial("tcp", to)
			if err != nil {
				_ = c.Close()
				continue
			}
			l.mu.Lock()
			l.cs = append(l.cs, c, d)
			l.mu.Unlock()
			go oneWay(c, d)
			go oneWay(d, c)
		}
	}()
	return l, nil
}

func (l *latRelay) Close() {
	_ = l.ln.Close()
	l.mu.Lock()
	for _, c := range l.cs {
		_ = c.Close()
	}
	l.mu.Unlock()
}

// `isolate <carrier> lastclose`: the carrier has a one-way latency of 150 ms (a mobile or intercontinental link).  A
// logical connection A is the only one of its session; its application closes it, and 60 ms later — while A's close is
// still travelling — the application opens connection B.  B must be served like any other connection; repeated with B
// in A's place.  Afterwards, with two connections open, one is closed and the other must keep echoing.
func lastClose(carrier string) (string, string, string, bool) {
	class := carrier + " lastclose"
	rig, err := NewRig(RigOpts{Carrier: carrier, Insecure: true, Relay: true})
	if err != nil {
		return "fail:rig", err.Error(), "fail", false
	}
	defer rig.Close()
	if rig.Relay == nil || rig.ServerAddr == "" {
		return "bad-op", "", "bad", false
	}
	lat, err := newLatRelay(rig.ServerAddr, 150*time.Millisecond)
	if err != nil {
		return "fail:rig", err.Error(), "fail", false
	}
	defer lat.Close()
	rig.Relay.SetTarget(lat.Addr)
	dl := 10 * time.Second
	a, err := appEcho(rig.AppAddrs["echo"], dl)
	if err != nil {
		return "fail:conn", err.Error(), "fail", false
	}
	for round := 1; round <= 4; round++ {
		_ = a.Close()
		time.Sleep(time.Duration(20+40*(round%3)) * time.Millisecond)
		b, err := appEcho(rig.AppAddrs["echo"], dl)
		if err != nil {
			return "fail", fmt.Sprintf("round %d: a connection opened while the session's only other connection was being closed (carrier latency 150 ms) was not served: %v", round, err), class, false
		}
		a = b
	}
	// two open, one closes, the other keeps going and a third is served
	b, err := appEcho(rig.AppAddrs["echo"], dl)
	if err != nil {
		return "fail", fmt.Sprintf("second concurrent connection: %v", err), class, false
	}
	defer b.Close()
	_ = a.Close()
	time.Sleep(400 * time.Millisecond)
	if err := echoAgain(b, 64, 78, dl); err != nil {
		return "fail", fmt.Sprintf("connection B broke after connection A of the same session was closed: %v", err), class, false
	}
	c, err := appEcho(rig.AppAddrs["echo"], dl)
	if err != nil {
		return "fail", fmt.Sprintf("a connection opened after another one was closed was not served: %v", err), class, false
	}
	_ = c.Close()
	return "ok", "", class, true
}

// `isolate <carrier> burstidle`: six client sessions on one server endpoint; on each, 32 logical connections are opened
// at the same moment and prove they exist; then everything stays idle for 23 s (longer than any handshake or selection
// time-out of the implementation) and every connection must still echo: nothing that is armed while a connection is
// being set up may fire later on the session or on its neighbours.
func burstIdle(carrier string) (string, string, string, bool) {
	rig, err := NewRig(RigOpts{Carrier: carrier, Insecure: true})
	if err != nil {
		return "fail:rig", err.Error(), "fail", false
	}
	defer rig.Close()
	dials := []func(string) (net.Conn, error){rig.Dial}
	for i := 0; i < 5; i++ {
		d, cl, err := rig.SecondClient()
		if err != nil {
			return "fail:rig", err.Error(), "fail", false
		}
		defer cl()
		dials = append(dials, d)
	}
	const per = 32
	dl := 10 * time.Second
	conns := make([]net.Conn, len(dials)*per)
	errs := make([]error, len(conns))
	for si, dial := range dials {
		// establish the session first, so that the burst is a burst of logical connections only
		c0, err := dial("echo")
		if err != nil {
			return "fail", "session " + fmt.Sprint(si) + ": " + err.Error(), carrier, false
		}
		if err := echoAgain(c0, 8, uint64(si), dl); err != nil {
			c0.Close()
			return "fail", "session " + fmt.Sprint(si) + ": " + err.Error(), carrier, false
		}
		c0.Close()
		var wg sync.WaitGroup
		start := make(chan struct{})
		for k := 0; k < per; k++ {
			wg.Add(1)
			go func(idx int) {
				defer wg.Done()
				<-start
				c, err := dial("echo")
				if err == nil {
					err = echoAgain(c, 16, uint64(idx), dl)
				}
				conns[idx], errs[idx] = c, err
			}(si*per + k)
		}
		close(start)
		wg.Wait()
	}
	defer func() {
		for _, c := range conns {
			if c != nil {
				c.Close()
			}
		}
	}()
	for i, e := range errs {
		if e != nil {
			return "fail", fmt.Sprintf("connection %d of the burst: %v", i, e), carrier + " burstidle", false
		}
	}
	time.Sleep(23 * time.Second)
	dropped, sess := 0, map[int]bool{}
	var first error
	for i, c := range conns {
		if err := echoAgain(c, 16, uint64(1000+i), 5*time.Second); err != nil {
			dropped++
			sess[i/per] = true
			if first == nil {
				first = err
			}
		}
	}
	if dropped > 0 {
		return "fail", fmt.Sprintf("%d of %d idle logical connections (on %d of %d physical sessions) were dropped 23s after they had been opened at the same moment, although nobody closed them: %v", dropped, len(conns), len(sess), len(dials), first), carrier + " burstidle", false
	}
	return "ok", "", carrier + " burstidle", true
}

func (isolateComp) Gen(r *Rand, tier string, emit func(string)) {
	for _, e := range []string{"clean", "rst", "flood", "stalltarget", "refused", "refusedmid"} {
		emit("tcp " + e)
	}
	emit("ws refusedmid")
	emit("tcp burstidle")
	emit("tcp lastclose")
	emit("ws lastclose")
	emit("ws stalltarget")
	emit("ws rst")
	emit("stdio rst")
	if tier == "thorough" {
		for _, c := range []string{"tcptls", "starttls", "ws", "wss", "stdio", "udp"} {
			for _, e := range []string{"clean", "rst", "flood", "stalltarget"} {
				emit(c + " " + e)
			}
		}
	}
}

//go:build verif

package main

import (
	"fmt"
	"strconv"
	"strings"

	"github.com/bokysan/socketace/v2/internal/streams/dns/commands"
	"github.com/miekg/dns"
)

// ---- C15 / C12 `dnsfront <len…>`: commands.ComposeRequest (the DNS handler's first step) on a message with one
// question per given name length (0 questions for `-`).  result: ok | panic
type dnsfrontComp struct{}

func init() { register("dnsfront", dnsfrontComp{}) }

func (dnsfrontComp) Exec(op string) (res, mon, class string, nontrivial bool) {
	f := strings.Fields(op)
	if len(f) == 0 {
		return "bad-op", "", "bad", false
	}
	m := new(dns.Msg)
	if !(len(f) == 1 && f[0] == "-") {
		for i, t := range f {
			n, err := strconv.Atoi(t)
			if err != nil || n < 0 || n > 300 {
				return "bad-op", "", "bad", false
			}
			name := strings.Repeat(string(rune('a'+i%26)), n)
			if n > 0 {
				name = name[:n-1] + "."
			}
			m.Question = append(m.Question, dns.Question{Name: name, Qtype: dns.TypeTXT, Qclass: dns.ClassINET})
		}
	}
	class = fmt.Sprintf("q%d", minInt(len(m.Question), 3))
	defer func() {
		if r := recover(); r != nil {
			res, mon, nontrivial = "panic", "", true
			if len(m.Question) == 1 {
				mon = fmt.Sprintf("ComposeRequest faults on a message the DNS library lets through (one question): %v", r)
			}
		}
	}()
	_ = commands.ComposeRequest(m, "example.org")
	return "ok", "", class, true
}

func (dnsfrontComp) Gen(r *Rand, tier string, emit func(string)) {
	emit("-")
	for _, n := range []int{0, 1, 2, 3, 12, 63, 255} {
		emit(fmt.Sprintf("%d", n))
	}
	emit("1 1")
	emit("2 2")
	emit("0 5")
	emit("5 1 9")
	for i := 0; i < 60; i++ {
		k := 1 + int(r.Next()%4)
		var sb []string
		for j := 0; j < k; j++ {
			sb = append(sb, fmt.Sprintf("%d", r.Next()%6))
		}
		emit(strings.Join(sb, " "))
	}
}

//go:build verif

package main

import (
	"os"
	"bytes"
	"crypto/sha256"
	"encoding/hex"
	"fmt"
	"io"
	"strconv"
	"strings"
	"time"
)

// ---- C01 / C17 end-to-end byte fidelity: `bytes <carrier> <mode> <len> <part> <seed>` ----
//
// mode echo : the app writes the payload in <part>-byte writes and reads the echo back concurrently
// mode up   : target is a sink; the app writes then closes; the target must see payload then EOF
// mode down : target is a source of <len> bytes then close; the app must read payload then EOF
//
// result: `<carrier> <mode> <outcome>` with outcome ok | up-mismatch | down-mismatch | no-eof | fail:<class>

type bytesComp struct{}

func init() { register("bytes", bytesComp{}) }

func e2eDeadline(carrier string, n int) time.Duration {
	d := 8*time.Second + time.Duration(n/50000)*time.Second
	if strings.HasPrefix(carrier, "dns") {
		d = 60*time.Second + time.Duration(n/200)*time.Second
	}
	if c01DeadlineCap > 0 && d > c01DeadlineCap {
		d = c01DeadlineCap
	}
	return d
}

// sweep: one logical connection, every write size from..to (step) in turn, each echoed back intact before the next
func runSweep(carrier string, from, to, step int, seed uint64) (string, string) {
	rig, err := NewRig(RigOpts{Carrier: carrier, Insecure: true})
	if err != nil {
		return "fail:rig", err.Error()
	}
	defer rig.Close()
	c, err := rig.Dial("echo")
	if err != nil {
		return "fail:dial", err.Error()
	}
	defer c.Close()
	dl := e2eDeadline(carrier, to)
	total := 0
	for n := from; n <= to; n += step {
		data := payload(seed+uint64(n), n)
		if err := writeParts(c, data, 0, dl); err != nil {
			return "fail:write", fmt.Sprintf("write of %d bytes (after %d bytes in earlier writes): %v", n, total, err)
		}
		got, err := readFullDeadline(c, n, dl)
		if err != nil {
			return "fail:read", fmt.Sprintf("a single write of %d bytes was not echoed (after %d bytes in earlier writes): %v", n, total, err)
		}
		if !bytes.Equal(got, data) {
			return "down-mismatch", fmt.Sprintf("echo of the %d-byte write differs", n)
		}
		total += n
	}
	return "ok", ""
}

// specials: one logical connection; payloads made of the bytes that DNS presentation format escapes (and of every
// byte value), in several sizes up to n, each echoed back intact before the next
func runSpecials(carrier string, n int, seed uint64) (string, string) {
	rig, err := NewRig(RigOpts{Carrier: carrier, Insecure: true})
	if err != nil {
		return "fail:rig", err.Error()
	}
	defer rig.Close()
	c, err := rig.Dial("echo")
	if err != nil {
		return "fail:dial", err.Error()
	}
	defer c.Close()
	dl := e2eDeadline(carrier, n)
	pats := [][]byte{{0x5c}, {0x5c, 0x5c, 0x22, 0x2e, 0x5c, 0x00, 0xff, 0x5c}, {0x22}, {0x2e}, {0x00, 0x1f, 0x7f, 0xff}, nil}
	for pi, pat := range pats {
		for _, size := range []int{n / 4, n / 2, n} {
			if size == 0 {
				continue
			}
			data := make([]byte, size)
			for i := range data {
				if pat == nil {
					data[i] = byte(i + int(seed))
				} else {
					data[i] = pat[(i+int(seed))%len(pat)]
				}
			}
			if err := writeParts(c, data, 0, dl); err != nil {
				return "fail:write", fmt.Sprintf("pattern %d, %d bytes: %v", pi, size, err)
			}
			got, err := readFullDeadline(c, size, dl)
			if err != nil {
				k := 0
				for k < len(got) && got[k] == data[k] {
					k++
				}
				return "fail:read", fmt.Sprintf("pattern %d (% x…), %d bytes: echo incomplete (%v); %d bytes matched", pi, data[:minInt(8, size)], size, err, k)
			}
			if !bytes.Equal(got, data) {
				return "down-mismatch", fmt.Sprintf("pattern %d (% x…), %d bytes: echoed bytes differ", pi, data[:minInt(8, size)], size)
			}
		}
	}
	return "ok", ""
}

func runBytes(carrier, mode string, n, part int, seed uint64) (string, string) {
	if mode == "specials" {
		return runSpecials(carrier, n, seed)
	}
	if mode == "sweep" {
		// n = last size, part = first size, step 1
		return runSweep(carrier, part, n, 1, seed)
	}
	tmode := "echo"
	if mode == "up" || mode == "uplazy" {
		tmode = "sink"
	} else if mode == "upslow" {
		tmode = "slowsink:3500"
	} else if mode == "down" {
		tmode = fmt.Sprintf("source:%d:%d", n, seed)
	}
	chans := map[string]string{"echo": tmode}
	if strings.HasSuffix(carrier, "+multi") {
		// the endpoint serves several channels; the application's channel is neither the first nor the last of the table
		// and every channel has a target of its own (the others would write different bytes)
		carrier = strings.TrimSuffix(carrier, "+multi")
		other := func(k uint64) string {
			if mode == "down" {
				return fmt.Sprintf("source:%d:%d", n, seed+k)
			}
			return tmode
		}
		chans = map[string]string{"aaa": other(1), "echo": tmode, "mmm": other(2), "zzz": other(3)}
	}
	slow := strings.HasSuffix(carrier, "+slow")
	carrier = strings.TrimSuffix(carrier, "+slow")
	rig, err := NewRig(RigOpts{Carrier: carrier, Channels: chans, Insecure: true, Relay: slow})
	if err != nil {
		return "fail:rig", err.Error()
	}
	defer rig.Close()
	if c01RigHook != nil {
		c01RigHook(rig)
	}
	if slow {
		// a slow carrier (4 KiB/s each way, the speed of a DNS tunnel or a bad mobile link): one full multiplexer frame
		// takes eight seconds to cross it
		if rig.Relay == nil {
			return "bad-op", "no relay on this carrier"
		}
		rig.Relay.SetRate(4096)
	}
	if mode == "uplazy" || mode == "echolazy" {
		return runLazy(rig, carrier, mode, n, part, seed, e2eDeadline(carrier, n))
	}
	c, err := rig.Dial("echo")
	if err != nil {
		return "fail:dial", err.Error()
	}
	defer c.Close()
	data := payload(seed, n)
	if mode == "echo5c" {
		// payload made of the bytes DNS presentation format escapes: backslashes, quotes, dots, control and high bytes
		pat := []byte{0x5c, 0x5c, 0x22, 0x2e, 0x5c, 0x00, 0xff, 0x5c}
		for i := range data {
			data[i] = pat[(i+int(seed))%len(pat)]
		}
		if seed%2 == 0 {
			for i := range data {
				data[i] = 0x5c
			}
		}
		mode = "echo"
	}
	dl := e2eDeadline(carrier, n)
	if slow {
		dl += time.Duration(n/2048) * time.Second
	}
	switch mode {
	case "echo":
		werr := make(chan error, 1)
		go func() { werr <- writeParts(c, data, part, dl) }()
		got, err := readFullDeadline(c, n, dl)
		if err != nil {
			k := 0
			for k < len(got) && k < len(data) && got[k] == data[k] {
				k++
			}
			return "fail:read", fmt.Sprintf("echo read failed (%v); first %d bytes matched", err, k)
		}
		if !bytes.Equal(got, data) {
			return "down-mismatch", "echoed bytes differ from the bytes written"
		}
		if err := <-werr; err != nil {
			return "fail:write", err.Error()
		}
		tn, th, _ := waitTarget(rig, "echo", n, dl)
		want := sha256.Sum256(data)
		if tn != n || th != hex.EncodeToString(want[:8]) {
			return "up-mismatch", fmt.Sprintf("target saw %d bytes hash %s", tn, th)
		}
		return "ok", ""
	case "up", "upslow":
		if mode == "upslow" {
			dl += 10 * time.Second
		}
		if err := writeParts(c, data, part, dl); err != nil {
			return "fail:write", err.Error()
		}
		_ = c.Close()
		tn, th, eof := waitTargetEOF(rig, "echo", dl)
		want := sha256.Sum256(data)
		if tn != n || th != hex.EncodeToString(want[:8]) {
			return "up-mismatch", fmt.Sprintf("target saw %d of %d bytes (hash %s)", tn, n, th)
		}
		if !eof {
			return "no-eof", "target never saw end-of-stream after the application closed"
		}
		return "ok", ""
	case "down":
		_ = c.SetReadDeadline(time.Now().Add(dl))
		got, err := io.ReadAll(c)
		if err != nil {
			return "no-eof", fmt.Sprintf("app read %d of %d bytes then %v", len(got), n, err)
		}
		if !bytes.Equal(got, data) {
			return "down-mismatch", fmt.Sprintf("app read %d bytes, expected %d", len(got), n)
		}
		return "ok", ""
	}
	return "fail:mode", ""
}

func waitTarget(rig *Rig, ch string, n int, d time.Duration) (int, string, bool) {
	end := time.Now().Add(d)
	for {
		cs := rig.Targets[ch].Conns()
		if len(cs) > 0 {
			tn, th, eof := cs[0].Received()
			if tn >= n || time.Now().After(end) {
				return tn, th, eof
			}
		} else if time.Now().After(end) {
			return 0, "", false
		}
		time.Sleep(5 * time.Millisecond)
	}
}

func waitTargetEOF(rig *Rig, ch string, d time.Duration) (int, string, bool) {
	end := time.Now().Add(d)
	for {
		cs := rig.Targets[ch].Conns()
		if len(cs) > 0 {
			tn, th, eof := cs[0].Received()
			if eof || time.Now().After(end) {
				return tn, th, eof
			}
		} else if time.Now().After(end) {
			return 0, "", false
		}
		time.Sleep(5 * time.Millisecond)
	}
}

func (bytesComp) Exec(op string) (string, string, string, bool) {
	f := strings.Fields(op)
	if len(f) != 5 {
		return "bad-op", "", "bad", false
	}
	n, _ := strconv.Atoi(f[2])
	part, _ := strconv.Atoi(f[3])
	seed, _ := strconv.ParseUint(f[4], 10, 64)
	carrier := f[0]
	if strings.HasSuffix(carrier, "+dbg") {
		// the copy loops' debug mode (every block is also handed to a log writer through TeeReader / MultiWriter)
		carrier = strings.TrimSuffix(carrier, "+dbg")
		os.Setenv("SOCKETACE_PIPE_DEBUG", "1")
		defer os.Unsetenv("SOCKETACE_PIPE_DEBUG")
	}
	out, why := runBytes(carrier, f[1], n, part, seed)
	if out != "ok" {
		// one retry: the smux early-frame race (C02 finding) can stall a fresh session
		out2, why2 := runBytes(carrier, f[1], n, part, seed)
		if out2 == "ok" {
			out, why = out2, ""
		} else {
			why = why + " / retry: " + why2
		}
	}
	mon := ""
	if out != "ok" {
		mon = out + ": " + why
	}
	return f[0] + " " + f[1] + " " + out, mon, f[0] + " " + f[1], out == "ok"
}

func (bytesComp) Gen(r *Rand, tier string, emit func(string)) {
	carriers := []string{"tcp", "tcptls", "starttls", "ws", "stdio", "udp"}
	lens := []int{1, 2, 4095, 4096, 4097, 32640, 32768, 65537}
	for _, c := range carriers {
		for i, n := range lens {
			emit(fmt.Sprintf("%s echo %d 0 %d", c, n, r.Next()%1000))
			if i%3 == 0 {
				emit(fmt.Sprintf("%s up %d 1000 %d", c, n, r.Next()%1000))
				emit(fmt.Sprintf("%s down %d 0 %d", c, n, r.Next()%1000))
			}
		}
	}
	// a slow carrier: a transfer that takes longer than any keep-alive or idle time-out a session might have
	emit(fmt.Sprintf("tcp+slow up 40000 0 %d", r.Next()%1000))
	// a peer that selects the channel lazily: selection tokens and first payload bytes in one write
	for _, n := range []int{1, 700, 40000} {
		emit(fmt.Sprintf("tcp uplazy %d 0 %d", n, r.Next()%1000))
	}
	emit(fmt.Sprintf("ws echolazy 3000 1000 %d", r.Next()%1000))
	emit(fmt.Sprintf("tcptls uplazy 200000 0 %d", r.Next()%1000))
	// several channels behind one endpoint: the bytes reach the target of the channel that was asked for
	emit(fmt.Sprintf("tcp+multi echo 5000 0 %d", r.Next()%1000))
	emit(fmt.Sprintf("tcp+multi up 40000 1000 %d", r.Next()%1000))
	emit(fmt.Sprintf("ws+multi down 40000 0 %d", r.Next()%1000))
	emit(fmt.Sprintf("stdio+multi echo 300 0 %d", r.Next()%1000))
	// debug mode of the copy loops (SOCKETACE_PIPE_DEBUG=1)
	emit(fmt.Sprintf("tcp+dbg echo 204800 0 %d", r.Next()%1000))
	emit(fmt.Sprintf("tcp+dbg up 65537 1000 %d", r.Next()%1000))
	emit(fmt.Sprintf("ws+dbg down 65537 0 %d", r.Next()%1000))
	emit(fmt.Sprintf("tcp+dbg echo 1 0 %d", r.Next()%1000))
	// unix-domain socket endpoints (plain, TLS, StartTLS)
	for _, c := range []string{"unix", "unixtls", "unixstarttls"} {
		emit(fmt.Sprintf("%s echo 65537 1000 %d", c, r.Next()%1000))
		emit(fmt.Sprintf("%s up 32768 0 %d", c, r.Next()%1000))
		emit(fmt.Sprintf("%s down 32640 0 %d", c, r.Next()%1000))
	}
	// every write size in a row on one connection (sizes are `from`=part .. `to`=len)
	emit(fmt.Sprintf("dns sweep 150 1 %d", r.Next()%1000))
	emit(fmt.Sprintf("tcp sweep 400 1 %d", r.Next()%1000))
	emit(fmt.Sprintf("ws sweep 400 1 %d", r.Next()%1000))
	emit(fmt.Sprintf("udp sweep 200 1 %d", r.Next()%1000))
	// the application writes 2 MiB and closes while the target is slow to read
	emit(fmt.Sprintf("tcp upslow 2097152 0 %d", r.Next()%1000))
	// DNS tunnel behind a resolver that does not relay NULL/PRIVATE records (falls back to TXT), payloads full of
	// bytes that DNS presentation format escapes
	emit("dnstxt specials 1300 0 1")
	emit("tcp specials 70000 0 1")
	emit("ws specials 70000 0 1")
	emit(fmt.Sprintf("dns echo 1 0 %d", r.Next()%1000))
	emit(fmt.Sprintf("dns echo 3000 0 %d", r.Next()%1000))
	if tier == "thorough" {
		for _, c := range append(carriers, "wss", "stdiotls", "unix", "unixtls") {
			for _, n := range []int{32639, 32641, 32767, 32769, 65535, 65536, 1 << 20, 3 << 20} {
				for _, p := range []int{0, 1000, 4096, 32768} {
					emit(fmt.Sprintf("%s echo %d %d %d", c, n, p, r.Next()%1000))
				}
				emit(fmt.Sprintf("%s up %d 4096 %d", c, n, r.Next()%1000))
				emit(fmt.Sprintf("%s down %d 0 %d", c, n, r.Next()%1000))
			}
			emit(fmt.Sprintf("%s echo 300 1 %d", c, r.Next()%1000))
		}
		emit(fmt.Sprintf("tcp+slow down 66000 0 %d", r.Next()%1000))
		emit(fmt.Sprintf("ws+slow echo 40000 0 %d", r.Next()%1000))
		emit("dnstxt specials 4000 0 2")
		emit("dns specials 4000 0 1")
		emit("dnstxt echo5c 700 0 2")
		emit(fmt.Sprintf("dnstxt echo 3000 0 %d", r.Next()%1000))
		emit(fmt.Sprintf("dns sweep 600 151 %d", r.Next()%1000))
		emit(fmt.Sprintf("stdio sweep 400 1 %d", r.Next()%1000))
		emit(fmt.Sprintf("tcptls sweep 400 1 %d", r.Next()%1000))
		emit(fmt.Sprintf("ws upslow 2097152 0 %d", r.Next()%1000))
		emit(fmt.Sprintf("tcptls upslow 2097152 0 %d", r.Next()%1000))
		emit(fmt.Sprintf("dns echo 65536 0 %d", r.Next()%1000))
		emit(fmt.Sprintf("dns up 20000 0 %d", r.Next()%1000))
		emit(fmt.Sprintf("dns down 20000 0 %d", r.Next()%1000))
	}
}

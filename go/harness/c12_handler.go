//go:build verif

package main

// C12: everything between the socket and onMessage and back.
//
// Every message of the `dnssess` / `dnsfuzz srv` lines is delivered through the REAL
// NetConnectionServerCommunicator.handleRequest (the function the communicator registers with miekg/dns):
//
//   direct (all lines):  handleRequest(<fake dns.ResponseWriter>, query) under recover.  The listener registers its
//       onMessage with a per-line wrapper (dsComm) which passes a recording shim on to the real communicator, so the
//       harness knows both what onMessage returned -- (nil, err) / (msg, err) / (msg, nil) / (nil, nil) -- and what
//       the handler did with it (WriteMsg or nothing).  The fake writer does what miekg's writer does first: Pack().
//       Hint letter of the m op: `G` = the query carries a TSIG record and miekg validated it (TsigStatus() == nil),
//       `g` = it carries one that was not validated.
//   net (`dnsfuzz net udp|tcp <line>`): a real dns.Server started by NewNetConnectionServerCommunicator on
//       127.0.0.1:0, one client socket per address name; the handler runs on miekg's goroutines, which do not recover:
//       the line runs in a child process, a dead child is the result PANIC.  One server per network and process.

import (
	"bufio"
	"bytes"
	"errors"
	"fmt"
	"net"
	"os"
	"os/exec"
	"strconv"
	"strings"
	"sync"
	"time"

	sadns "github.com/bokysan/socketace/v2/internal/streams/dns"
	"github.com/miekg/dns"
)

// dsRet is what onMessage returned for one query
type dsRet struct {
	called  bool
	respNil bool
	resp    *dns.Msg
	err     error
}

var dsErrIgnored = errors.New("onMessage returned (nil, err): nothing was sent")
var dsErrDropped = errors.New("onMessage returned (msg, err): nothing was sent")
var dsErrLost = errors.New("onMessage returned (msg, nil) but no answer reached the client")
var dsErrHung = errors.New("the server did not process the query")

// dsComm is the ServerCommunicator a line's listener is given: a thin wrapper around a real
// NetConnectionServerCommunicator (so that lines do not close each other's communicator).
type dsComm struct {
	closed  bool
	real    *sadns.NetConnectionServerCommunicator
	net     *dsNetServer // nil: direct
	mu      sync.Mutex
	byMsg   map[*dns.Msg]dsRet
	byId    map[uint16]dsRet
	arrived chan uint16
}

func dsNewComm(network string) *dsComm {
	c := &dsComm{byMsg: map[*dns.Msg]dsRet{}, byId: map[uint16]dsRet{}, arrived: make(chan uint16, 4096)}
	if network == "" {
		c.real = sadns.VerifNewCommunicator(&dns.Server{})
	} else {
		c.net = dsNetServerFor(network)
		if c.net != nil {
			c.real = c.net.comm
		}
	}
	return c
}

func (c *dsComm) Close() error { c.closed = true; return nil }
func (c *dsComm) Closed() bool { return c.closed }
func (c *dsComm) LocalAddr() net.Addr {
	if c.net != nil {
		return c.real.LocalAddr()
	}
	return dsAddr("server")
}

// RegisterAccept hands the listener's onMessage to the real communicator, behind a shim that records what it returned
func (c *dsComm) RegisterAccept(f sadns.OnMessage) {
	c.real.RegisterAccept(func(m *dns.Msg, remote net.Addr) (*dns.Msg, error) {
		if c.closed {
			// a line that is over (net: a late retransmission): stay silent
			return nil, dsErrIgnored
		}
		resp, err := f(m, remote)
		c.mu.Lock()
		r := dsRet{called: true, respNil: resp == nil, resp: resp, err: err}
		c.byMsg[m] = r
		c.byId[m.Id] = r
		c.mu.Unlock()
		if c.net != nil {
			select {
			case c.arrived <- m.Id:
			default:
			}
		}
		return resp, err
	})
}

// dsWriter is the dns.ResponseWriter of the direct path
type dsWriter struct {
	remote     net.Addr
	tsigStatus error
	written    []*dns.Msg
	packErr    error
}

func (w *dsWriter) LocalAddr() net.Addr  { return dsAddr("server") }
func (w *dsWriter) RemoteAddr() net.Addr { return w.remote }
func (w *dsWriter) WriteMsg(m *dns.Msg) error {
	// what miekg's writer does first (a nil message panics here, as it does there)
	if _, err := m.Pack(); err != nil {
		w.packErr = err
		if os.Getenv("VERIF_DNS_NETTRACE") != "" {
			fmt.Fprintf(os.Stderr, "pack error: %v\n", err)
		}
		w.written = append(w.written, m)
		return err
	}
	w.written = append(w.written, m)
	return nil
}
func (w *dsWriter) Write(b []byte) (int, error) { return len(b), nil }
func (w *dsWriter) Close() error                { return nil }
func (w *dsWriter) TsigStatus() error           { return w.tsigStatus }
func (w *dsWriter) TsigTimersOnly(bool)         {}
func (w *dsWriter) Hijack()                     {}

func dsSign(q *dns.Msg, hint byte) {
	if hint == 'G' || hint == 'g' {
		q.SetTsig("axfr.", dns.HmacMD5, 300, 1600000000)
	}
}

// deliver passes one query to the real handler and returns what the client gets: (answer, nil), or (nil, reason) when
// nothing was sent.  Panics of the handler propagate (direct) / kill the process (net).
func (w *dsWorld) deliver(q *dns.Msg, from net.Addr, fromName string, hint byte) (*dns.Msg, error) {
	dsSign(q, hint)
	c := w.comm
	if c.net != nil {
		return c.exchange(q, fromName)
	}
	fw := &dsWriter{remote: from}
	if hint == 'g' {
		fw.tsigStatus = dns.ErrSig
	}
	c.real.VerifHandle(fw, q)
	c.mu.Lock()
	ret := c.byMsg[q]
	delete(c.byMsg, q)
	c.mu.Unlock()
	if len(fw.written) > 0 {
		w.tsigSeen = fw.written[0] != nil && fw.written[0].IsTsig() != nil
		return fw.written[0], nil
	}
	switch {
	case ret.err != nil && ret.respNil:
		return nil, dsErrIgnored
	case ret.err != nil:
		return nil, dsErrDropped
	}
	return nil, dsErrLost
}

// ---- net: a real server on a real socket ----

type dsNetServer struct {
	network string
	comm    *sadns.NetConnectionServerCommunicator
	addr    string
	nextId  uint16
}

var dsNetServers = map[string]*dsNetServer{}

// dsNetServerFor: the process's real server.  ONE per process: NewNetConnectionServerCommunicator registers its handler
// with miekg's process-wide default mux (dns.HandleFunc(".", …)), a second communicator would take over the first one's
// queries -- the parent keeps one child process per network.
func dsNetServerFor(network string) *dsNetServer {
	dsNetMu.Lock()
	defer dsNetMu.Unlock()
	if s, ok := dsNetServers[network]; ok {
		return s
	}
	if len(dsNetServers) > 0 {
		fmt.Fprintf(os.Stderr, "a second DNS server in one process would take over the first one's handler\n")
		return nil
	}
	comm, err := sadns.NewNetConnectionServerCommunicator(&dns.Server{Addr: "127.0.0.1:0", Net: network})
	if err != nil {
		fmt.Fprintf(os.Stderr, "cannot start the %s DNS server: %v\n", network, err)
		return nil
	}
	s := &dsNetServer{network: network, comm: comm, addr: comm.LocalAddr().String(), nextId: 100}
	dsNetServers[network] = s
	return s
}

var dsNetMu sync.Mutex

func init() {
	// a child of dsNetChild: start the server while the parent is still writing the first line
	if nw := os.Getenv("VERIF_DNS_NETCHILD"); nw == "udp" || nw == "tcp" {
		go dsNetServerFor(nw)
	}
}

// dsNetClients: address name -> the socket that plays it (belongs to the line that is running)
var dsNetClients = map[string]*dns.Conn{}

// dsNetSilent: the queries of this process to which nothing must come back (onMessage returned an error); an answer
// that turns up for one of them later (while another answer is read, or in the drain at the end of the line) is counted
// in dsNetLate.  Nothing is waited for per query.
var dsNetSilent = map[uint16]bool{}
var dsNetLate = 0

func dsNetReset() {
	dsNetDrain()
	for _, c := range dsNetClients {
		_ = c.Close()
	}
	dsNetClients = map[string]*dns.Conn{}
}

// dsNetDrain reads what is still on its way to the line's sockets
func dsNetDrain() {
	for _, k := range dsNetClients {
		for {
			_ = k.SetReadDeadline(time.Now().Add(dsNetGrace))
			a, err := k.ReadMsg()
			if a != nil && dsNetSilent[a.Id] {
				dsNetLate++
			}
			if err != nil && a == nil {
				break
			}
		}
	}
}

// dsNetClient opens (once per line) the client socket of an address name and binds the name to its local address
func (c *dsComm) client(name string) (*dns.Conn, error) {
	if k, ok := dsNetClients[name]; ok {
		return k, nil
	}
	raw, err := net.Dial(c.net.network, c.net.addr)
	if err != nil {
		return nil, err
	}
	k := &dns.Conn{Conn: raw, UDPSize: 65535}
	dsNetClients[name] = k
	dsBind(name, raw.LocalAddr())
	return k, nil
}

const dsNetGrace = 30 * time.Millisecond   // how long an answer that must not come is waited for
var dsNetPatience = func() time.Duration { // how long the server may take (other jobs run on this machine)
	if ms, err := strconv.Atoi(os.Getenv("VERIF_DNS_PATIENCE_MS")); err == nil && ms > 0 {
		return time.Duration(ms) * time.Millisecond
	}
	return 20 * time.Second
}()

func (c *dsComm) exchange(q *dns.Msg, fromName string) (*dns.Msg, error) {
	k, err := c.client(fromName)
	if err != nil {
		return nil, dsErrHung
	}
	c.net.nextId++
	q.Id = c.net.nextId
	_ = k.SetDeadline(time.Now().Add(dsNetPatience))
	// (packed here: miekg's client refuses to send a TSIG record without a shared secret)
	wire, err := q.Pack()
	if err != nil {
		return nil, dsErrHung
	}
	if _, err := k.Write(wire); err != nil {
		return nil, dsErrHung
	}
	// until onMessage has returned
	deadline := time.After(dsNetPatience)
	for seen := false; !seen; {
		select {
		case id := <-c.arrived:
			seen = id == q.Id
		case <-deadline:
			return nil, dsErrHung
		}
	}
	c.mu.Lock()
	ret := c.byId[q.Id]
	delete(c.byId, q.Id)
	for m := range c.byMsg {
		delete(c.byMsg, m)
	}
	c.mu.Unlock()
	wait := dsNetPatience
	unsendable := false
	if ret.err == nil && ret.resp != nil {
		// an answer miekg cannot put on the wire (A / AAAA answers whose last record is short: "overflow packing a"; more
		// than a datagram holds) is lost in WriteMsg: the handler logs it.  That is the record wrapping's business (C10);
		// here the answer counts as what the handler was given.
		if b, perr := ret.resp.Pack(); perr != nil || len(b) > dns.MaxMsgSize || (c.net.network == "udp" && len(b) > 65000) {
			unsendable = true
		}
	}
	if ret.err != nil || unsendable {
		dsNetSilent[q.Id] = true
		wait = 0
	}
	for wait > 0 {
		_ = k.SetReadDeadline(time.Now().Add(wait))
		a, rerr := k.ReadMsg()
		if os.Getenv("VERIF_DNS_NETTRACE") != "" {
			fmt.Fprintf(os.Stderr, "query %d %s: read err=%v msg=%v\n", q.Id, q.Question[0].Name, rerr, a != nil)
		}
		if rerr != nil {
			if ne, ok := rerr.(net.Error); ok && ne.Timeout() {
				break
			}
			if a == nil {
				// the connection is gone (tcp) or the datagram is no DNS message
				return nil, dsErrLost
			}
		}
		if a != nil && a.Id != q.Id && dsNetSilent[a.Id] {
			dsNetLate++
		}
		if a != nil && a.Id == q.Id {
			// the answer reached the client; what it says is read off the message the handler was given (the wire form
			// of the records is C10's business)
			if ret.resp != nil && ret.err == nil {
				return ret.resp, nil
			}
			return a, nil
		}
	}
	switch {
	case ret.err != nil && ret.respNil:
		return nil, dsErrIgnored
	case ret.err != nil:
		return nil, dsErrDropped
	case unsendable:
		return ret.resp, nil
	}
	return nil, dsErrLost
}

// dsNameSurvivesWire: is the name, as the op line spells it, what the server's parser hands to the handler?
func dsNameSurvivesWire(name string, qt uint16) bool {
	q := &dns.Msg{}
	q.Question = []dns.Question{{Name: name, Qtype: qt, Qclass: dns.ClassINET}}
	b, err := q.Pack()
	if err != nil {
		return false
	}
	back := &dns.Msg{}
	if err := back.Unpack(b); err != nil || len(back.Question) != 1 {
		return false
	}
	return back.Question[0].Name == name
}

// ---- the child process that owns the real servers ----
//
// A handler panic on one of miekg's goroutines cannot be recovered: the servers live in a child process
// (`harness dnsfuzz replay -ops /dev/stdin`, VERIF_DNS_NETCHILD=<network>) which is kept for the following `net` lines (one
// real server per network and process) and replaced when it has died.  The child prints `<result> ##MON## <monitor>`.

const dsNetMonSep = " ##MON## "

type dsNetProc struct {
	cmd   *exec.Cmd
	in    *os.File
	lines chan string
	errb  *bytes.Buffer
	mu    sync.Mutex
}

var dsNetChildProcs = map[string]*dsNetProc{}

func dsNetStartChild(comp, network string) *dsNetProc {
	pr, pw, err := os.Pipe()
	if err != nil {
		return nil
	}
	cmd := exec.Command(os.Args[0], comp, "replay", "-ops", "/dev/stdin")
	cmd.Env = append(os.Environ(), "VERIF_DNS_NETCHILD="+network)
	cmd.Stdin = pr
	out, err := cmd.StdoutPipe()
	if err != nil {
		return nil
	}
	p := &dsNetProc{cmd: cmd, in: pw, lines: make(chan string, 16), errb: &bytes.Buffer{}}
	cmd.Stderr = p.errb
	if err := cmd.Start(); err != nil {
		return nil
	}
	pr.Close()
	go func() {
		sc := bufio.NewScanner(out)
		sc.Buffer(make([]byte, 1<<20), 1<<28)
		for sc.Scan() {
			p.lines <- sc.Text()
		}
		_ = cmd.Wait()
		close(p.lines)
	}()
	return p
}

func dsNetStopChild() {
	for nw, p := range dsNetChildProcs {
		_ = p.in.Close()
		select {
		case <-p.lines:
		case <-time.After(3 * time.Second):
			_ = p.cmd.Process.Kill()
		}
		delete(dsNetChildProcs, nw)
	}
}

// dsNetChild runs one `net` line in the child process of its network
func dsNetChild(comp, network, line string) (string, string) {
	if !dsNetAtExit {
		dsNetAtExit = true
		atExit = append(atExit, dsNetStopChild)
	}
	// (both children at the first use: their servers take a second to start)
	for _, nw := range []string{network, "udp", "tcp"} {
		if dsNetChildProcs[nw] == nil {
			if p := dsNetStartChild(comp, nw); p != nil {
				dsNetChildProcs[nw] = p
			}
		}
	}
	p := dsNetChildProcs[network]
	if p == nil {
		return "child-failed", ""
	}
	if _, err := fmt.Fprintf(p.in, "%s net %s %s\n", comp, network, line); err != nil {
		delete(dsNetChildProcs, network)
		return "child-failed", ""
	}
	select {
	case l, ok := <-p.lines:
		if !ok {
			delete(dsNetChildProcs, network)
			why := ""
			for _, e := range strings.Split(p.errb.String(), "\n") {
				if strings.HasPrefix(e, "panic:") || strings.HasPrefix(e, "fatal error:") {
					why = e
					break
				}
			}
			if why == "" {
				why = firstLine(p.errb.String())
			}
			return "PANIC", "the DNS server process died while serving queries from a real socket (miekg/dns does not recover handler panics): " + why
		}
		if i := strings.Index(l, dsNetMonSep); i >= 0 {
			return l[:i], l[i+len(dsNetMonSep):]
		}
		return l, ""
	case <-time.After(5 * time.Minute):
		_ = p.cmd.Process.Kill()
		delete(dsNetChildProcs, network)
		return "HUNG", "the DNS server process did not finish the line within 5 minutes"
	}
}

var dsNetAtExit = false

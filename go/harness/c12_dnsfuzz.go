//go:build verif

package main

// C12: arbitrary DNS messages against the real server handler and arbitrary answer sections against the real
// client decoder.
//
//   dnsfuzz srv <line as for dnssess>           (an established session, stray/fuzzed messages, a follow-up packet)
//   dnsfuzz cli <domainhex> <code> <oracle…> -- <record> <record> …
//     record:  N:<hex> NULL | P:<hex> PRIVATE | T:<hex>,<hex>,… TXT strings ("T:" = no strings) | M:<pref>:<hex> MX |
//              S:<prio>:<hex> SRV | C:<hex> CNAME | Q:<hex> AAAA | A:<hex> A | X (a record of another type)
//   cli result: PANIC | ERR | <letter>:<error name or OK>:<fields>
//   dnsfuzz dec|enc <code> <hex> | single | pairs <first byte, hex>
//     the real Decode / Encode of the codec with that code on one input, on every single octet, or on the 256
//     two-octet inputs with the given first octet.  result: RETURNS | PANIC.  The models assume total codecs
//     (Codec.Total), so the model's line is the constant RETURNS: a difference is a violated hypothesis.

import (
	"fmt"
	"net"
	"os"
	"strconv"
	"strings"
	"time"

	sadns "github.com/bokysan/socketace/v2/internal/streams/dns"
	"github.com/bokysan/socketace/v2/internal/streams/dns/commands"
	"github.com/bokysan/socketace/v2/internal/streams/dns/util"
	"github.com/bokysan/socketace/v2/internal/util/enc"
	"github.com/miekg/dns"
)

type dfComp struct{}

func init() { register("dnsfuzz", dfComp{}) }

func (dfComp) Exec(op string) (string, string, string, bool) {
	switch {
	case strings.HasPrefix(op, "srv "):
		res, mon, class, nt := dsExec("dnsfuzz", "srv ", strings.TrimPrefix(op, "srv "))
		return res, mon, "srv:" + class, nt
	case strings.HasPrefix(op, "net "):
		// net <udp|tcp> <line>: the same line through a real socket to the real communicator's miekg server
		rest := strings.TrimPrefix(op, "net ")
		sp := strings.IndexByte(rest, ' ')
		if sp < 0 || (rest[:sp] != "udp" && rest[:sp] != "tcp") {
			return "bad-op", "", "bad", false
		}
		network, line := rest[:sp], rest[sp+1:]
		if os.Getenv("VERIF_DNS_NETCHILD") != network {
			t0 := time.Now()
			res, mon := dsNetChild("dnsfuzz", network, line)
			if strings.Contains(res, "HUNG") || strings.Contains(res, "LOST") {
				// a stalled machine (miekg closes an idle TCP connection after 8 s): once more before it counts
				res, mon = dsNetChild("dnsfuzz", network, line)
			}
			if os.Getenv("VERIF_DNS_NETTRACE") != "" {
				fmt.Fprintf(os.Stderr, "net %s %d ops %.1fs: %.150s | %s\n", network, len(strings.Fields(line)), time.Since(t0).Seconds(), res, mon)
			}
			return res, mon, "net:" + network, !strings.HasPrefix(res, "PANIC") && res != "HUNG"
		}
		dsNetwork = network
		defer func() { dsNetwork = "" }()
		dsNetLate = 0
		res, mon, class, nt := dsExec("dnsfuzz", "", line)
		if dsNetDrain(); dsNetLate > 0 {
			// answers to queries for which onMessage returned an error
			res += fmt.Sprintf(" +unexpected-answers:%d", dsNetLate)
		}
		if mon != "" {
			res += dsNetMonSep + mon // the parent splits it off again (one line per op on the child's stdout)
		}
		return res, "", "net:" + class, nt
	case strings.HasPrefix(op, "clihs "):
		return dfCliHs(strings.TrimPrefix(op, "clihs "))
	case strings.HasPrefix(op, "cli "):
		return dfCli(strings.TrimPrefix(op, "cli "))
	case strings.HasPrefix(op, "dec "), strings.HasPrefix(op, "enc "):
		return dfCodecTotal(op)
	}
	return "bad-op", "", "bad", false
}

func dfParseRecords(toks []string, qname string) ([]dns.RR, bool) {
	var rrs []dns.RR
	hdr := func(t uint16) dns.RR_Header {
		return dns.RR_Header{Name: qname, Rrtype: t, Class: dns.ClassINET, Ttl: 1}
	}
	for _, t := range toks {
		f := strings.Split(t, ":")
		bad := func(n int) bool { return len(f) != n }
		switch f[0] {
		case "N":
			if bad(2) {
				return nil, false
			}
			d, err := unhex(f[1])
			if err != nil {
				return nil, false
			}
			rrs = append(rrs, &dns.NULL{Hdr: hdr(dns.TypeNULL), Data: string(d)})
		case "P":
			if bad(2) {
				return nil, false
			}
			d, err := unhex(f[1])
			if err != nil {
				return nil, false
			}
			rrs = append(rrs, &dns.PrivateRR{Hdr: hdr(util.TypeSocketAce), Data: &util.SocketAcePrivate{Data: d}})
		case "T":
			if bad(2) {
				return nil, false
			}
			var ss []string
			if f[1] != "" {
				for _, h := range strings.Split(f[1], ",") {
					d, err := unhex(h)
					if err != nil {
						return nil, false
					}
					ss = append(ss, string(d))
				}
			}
			rrs = append(rrs, &dns.TXT{Hdr: hdr(dns.TypeTXT), Txt: ss})
		case "M", "S":
			if bad(3) {
				return nil, false
			}
			p, err1 := strconv.Atoi(f[1])
			d, err2 := unhex(f[2])
			if err1 != nil || err2 != nil {
				return nil, false
			}
			if f[0] == "M" {
				rrs = append(rrs, &dns.MX{Hdr: hdr(dns.TypeMX), Preference: uint16(p), Mx: string(d)})
			} else {
				rrs = append(rrs, &dns.SRV{Hdr: hdr(dns.TypeSRV), Priority: uint16(p), Target: string(d)})
			}
		case "C":
			if bad(2) {
				return nil, false
			}
			d, err := unhex(f[1])
			if err != nil {
				return nil, false
			}
			rrs = append(rrs, &dns.CNAME{Hdr: hdr(dns.TypeCNAME), Target: string(d)})
		case "Q", "A":
			if bad(2) {
				return nil, false
			}
			d, err := unhex(f[1])
			if err != nil {
				return nil, false
			}
			if f[0] == "Q" {
				rrs = append(rrs, &dns.AAAA{Hdr: hdr(dns.TypeAAAA), AAAA: net.IP(d)})
			} else {
				rrs = append(rrs, &dns.A{Hdr: hdr(dns.TypeA), A: net.IP(d)})
			}
		case "X":
			rrs = append(rrs, &dns.NS{Hdr: hdr(dns.TypeNS), Ns: "ns." + qname})
		default:
			return nil, false
		}
	}
	return rrs, true
}

func dfSplit(op string) (dom string, code byte, records []string, ok bool) {
	toks := strings.Fields(op)
	if len(toks) < 3 || len(toks[1]) != 1 {
		return
	}
	d, err := unhex(toks[0])
	if err != nil {
		return
	}
	i := 2
	for i < len(toks) && toks[i] != "--" {
		i++
	}
	if i == len(toks) {
		return
	}
	return string(d), toks[1][0], toks[i+1:], true
}

func dfCli(op string) (result, monitor, class string, nontrivial bool) {
	dom, code, recs, ok := dfSplit(op)
	if !ok {
		return "bad-op", "", "bad", false
	}
	rrs, ok := dfParseRecords(recs, "cabc00."+dom+".")
	if !ok {
		return "bad-op", "", "bad", false
	}
	msg := &dns.Msg{}
	msg.Response = true
	msg.Question = []dns.Question{{Name: "cabc00." + dom + ".", Qtype: dns.TypeCNAME, Qclass: dns.ClassINET}}
	msg.Answer = rrs
	ser := commands.Serializer{Domain: dom}
	var r commands.Response
	var err error
	panicked := ""
	alloc0 := dsAllocated()
	func() {
		defer func() {
			if e := recover(); e != nil {
				panicked = fmt.Sprint(e)
			}
		}()
		r, err = ser.DecodeDnsResponseWithParams(msg, dsEncoder(code))
	}()
	alloc1 := dsAllocated()
	if panicked != "" {
		return "PANIC", "PANIC in the client response decoder (downstream codec " + string(code) + ") on records " + strings.Join(recs, " ") + ": " + panicked, "cli:PANIC", false
	}
	if d := alloc1 - alloc0; d > dsAllocLimit {
		monitor = fmt.Sprintf("one answer made the client allocate %d MiB", d>>20)
	}
	if err != nil || r == nil {
		return "ERR", monitor, "cli:ERR", false
	}
	pkt := func(p *util.Packet) string {
		if p == nil {
			return "none"
		}
		return fmt.Sprintf("%d:%s", p.SeqNo, hexs(p.Data))
	}
	switch v := r.(type) {
	case *commands.ErrorResponse:
		result = "e:" + dsErrName(v.Err)
	case *commands.VersionResponse:
		result = fmt.Sprintf("v:%s:%d:%d", dsErrName(v.Err), v.UserId, v.ServerVersion)
	case *commands.SetOptionsResponse:
		result = "o:" + dsErrName(v.Err)
	case *commands.TestUpstreamEncoderResponse:
		result = fmt.Sprintf("z:%s:%s", dsErrName(v.Err), hexs(v.Data))
	case *commands.TestDownstreamEncoderResponse:
		result = fmt.Sprintf("y:%s:%s", dsErrName(v.Err), hexs(v.Data))
	case *commands.TestDownstreamFragmentSizeResponse:
		result = fmt.Sprintf("r:%s:%d:%s", dsErrName(v.Err), v.FragmentSize, hexs(v.Data))
	case *commands.PacketResponse:
		result = fmt.Sprintf("c:%s:%d:%s", dsErrName(v.Err), v.LastAckedSeqNo, pkt(v.Packet))
	default:
		result = "UNKNOWN"
	}
	p := strings.SplitN(result, ":", 3)
	return result, monitor, "cli:" + p[0] + ":" + p[1], true
}

// dfCodecTotal: the totality hypothesis of the C12 theorems, checked on the real codecs
func dfCodecTotal(op string) (result, monitor, class string, nontrivial bool) {
	t := strings.Fields(op)
	if len(t) < 3 || len(t[1]) != 1 {
		return "bad-op", "", "bad", false
	}
	code := t[1][0]
	if _, err := enc.FromCode(code); err != nil {
		return "bad-op", "", "bad", false
	}
	var inputs [][]byte
	switch {
	case t[2] == "single" && len(t) == 3:
		for b := 0; b < 256; b++ {
			inputs = append(inputs, []byte{byte(b)})
		}
	case t[2] == "pairs" && len(t) == 4:
		f, err := unhex(t[3])
		if err != nil || len(f) != 1 {
			return "bad-op", "", "bad", false
		}
		for b := 0; b < 256; b++ {
			inputs = append(inputs, []byte{f[0], byte(b)})
		}
	case len(t) == 3:
		in, err := unhex(t[2])
		if err != nil {
			return "bad-op", "", "bad", false
		}
		inputs = [][]byte{in}
	default:
		return "bad-op", "", "bad", false
	}
	class = fmt.Sprintf("%s:%c", t[0], code)
	for _, in := range inputs {
		var p string
		if t[0] == "dec" {
			_, _, p = dsSafeDecode(code, in)
		} else {
			_, p = dsSafeEncode(code, in)
		}
		if p != "" {
			what := "Decode"
			if t[0] == "enc" {
				what = "Encode"
			}
			return "PANIC", fmt.Sprintf("PANIC in %s of codec %c (%T) on %s: %s", what, code, dsEncoder(code), hexs(in), p), class + ":PANIC", false
		}
	}
	return "RETURNS", "", class, true
}

// the presentation form in which miekg/dns hands an octet of a query name to the handler
func dfPresent(b byte) []byte {
	switch {
	case b == '.' || b == '\\' || b == '"' || b == '(' || b == ')' || b == ';' || b == ' ' || b == '@' || b == '$':
		return []byte{'\\', b}
	case b < 0x21 || b > 0x7e:
		return []byte(fmt.Sprintf("\\%03d", b))
	}
	return []byte{b}
}

// ---------------------------------------------------------------- generation

var dfCmdLetters = "vlorYzmceVLORyZMCEabx019-\\."

// fuzzLabel: one label of the tunnel part
func dfLabel(r *Rand) []byte {
	const tail = "abcdefghijklmnopqrstuvwxyz0123456789ABCXYZ"
	var b []byte
	switch r.Intn(8) {
	case 0: // 1-3 characters
		n := 1 + r.Intn(3)
		b = append(b, dfCmdLetters[r.Intn(len(dfCmdLetters))])
		for len(b) < n {
			b = append(b, tail[r.Intn(len(tail))])
		}
	case 1: // raw bytes
		b = r.Bytes(1 + r.Intn(8))
		b[0] = dfCmdLetters[r.Intn(len(dfCmdLetters))]
	case 2: // escapes as miekg presents them
		b = append(b, dfCmdLetters[r.Intn(len(dfCmdLetters))])
		for i := r.Intn(6); i >= 0; i-- {
			switch r.Intn(5) {
			case 0:
				b = append(b, []byte(fmt.Sprintf("\\%03d", r.Intn(256)))...)
			case 1:
				b = append(b, '\\', ".\\\"();@ "[r.Intn(8)])
			case 2:
				b = append(b, '\\')
			case 3:
				b = append(b, []byte(fmt.Sprintf("\\%d", r.Intn(100)))...)
			default:
				b = append(b, tail[r.Intn(len(tail))])
			}
		}
	default:
		b = append(b, dfCmdLetters[r.Intn(len(dfCmdLetters))])
		for i := r.Intn(14); i > 0; i-- {
			b = append(b, tail[r.Intn(len(tail))])
		}
	}
	return b
}

func dfSuffix(r *Rand, dom string) string {
	switch r.Intn(12) {
	case 0:
		return "." + strings.ToUpper(dom) + "."
	case 1:
		return ".other.org."
	case 2:
		return "." + dom // no trailing dot
	case 3:
		return "." + dom[1:] + "."
	case 4:
		return "."
	case 5:
		return ""
	case 6:
		return "." + dom + "." + dom + "."
	default:
		return "." + dom + "."
	}
}

func dfName(r *Rand, dom string) []byte {
	n := r.Intn(5)
	var parts []string
	for i := 0; i < n; i++ {
		parts = append(parts, string(dfLabel(r)))
	}
	return []byte(strings.Join(parts, ".") + dfSuffix(r, dom))
}

var dfAllQtypes = func() []int {
	var q []int
	for i := 0; i <= 260; i++ {
		q = append(q, i)
	}
	return append(q, 65000, 65440, 65535)
}()

// dfScenario: session 0 of a1 (and session 1 of a2), pending downstream data, then the stray message, then a follow-up
// packet of a1 that must still be answered with the pending data
func dfScenario(r *Rand, dom string, addr string, qt int, name []byte, big bool) string {
	b := dsNewBuilder(r, dom)
	b.open("a1", sadns.ProtocolVersion)
	if r.Bool() {
		b.open("a2", sadns.ProtocolVersion)
	}
	b.write(0, []byte("keep"))
	b.msg(addr, qt, name, 'T')
	b.packet("a1", 0, 65535, nil, 40)
	l := b.line()
	if big {
		l += " !big"
	}
	return "srv " + l
}

// ---- well-formed commands that do not belong ----

// dfStray is one well-formed tunnel command, sent by `from` for identifier `uid`
type dfStray struct {
	what string
	send func(b *dsBuilder, from string, uid int)
}

// dfStrayVariants: every command letter; for set-options every combination of the close flag (absent / set / cleared)
// with presence of the lazy, multi-query, upstream codec, downstream codec and fragment size fields (valid size, 0);
// packets with and without payload, in-order / future / replayed sequence numbers, acknowledgements that would release
// everything; fragment-size tests at the limits; codec tests; version requests (right / wrong protocol version)
func dfStrayVariants() []dfStray {
	var vs []dfStray
	for closed := 0; closed < 3; closed++ {
		for mask := 0; mask < 16; mask++ {
			for _, frag := range []int64{-1, 200, 0} {
				closed, mask, frag := closed, mask, frag
				vs = append(vs, dfStray{fmt.Sprintf("o/closed=%d/mask=%d/frag=%d", closed, mask, frag), func(b *dsBuilder, from string, uid int) {
					o := &commands.SetOptionsRequest{}
					switch closed {
					case 1:
						o.Closed = bp(true)
					case 2:
						o.Closed = bp(false)
					}
					if mask&1 != 0 {
						o.LazyMode = bp(true)
					}
					if mask&2 != 0 {
						o.MultiQuery = bp(false)
					}
					if mask&4 != 0 {
						o.UpstreamEncoder = enc.Base64Encoding
					}
					if mask&8 != 0 {
						o.DownstreamEncoder = dsEncoder('U')
					}
					if frag >= 0 {
						o.DownstreamFragmentSize = u32p(uint32(frag))
					}
					b.options(from, uid, o)
				}})
			}
		}
	}
	type pk struct {
		ack  uint16
		seq  int
		data string
	}
	for _, p := range []pk{{65535, -1, ""}, {0, -1, ""}, {3, -1, ""}, {65535, 0, "stray-0"}, {0, 1, "stray-1"}, {1, 2, "stray-2"}, {65535, 5, "future"}, {2, 65535, "replay"}, {65535, 300, "far"}} {
		p := p
		vs = append(vs, dfStray{fmt.Sprintf("c/ack=%d/seq=%d", p.ack, p.seq), func(b *dsBuilder, from string, uid int) {
			var pkt *util.Packet
			if p.seq >= 0 {
				pkt = &util.Packet{SeqNo: uint16(p.seq), Data: []byte(p.data)}
			}
			b.packet(from, uid, p.ack, pkt, 40)
		}})
	}
	for _, size := range []uint32{0, 10, 1200, 65535, 65536} {
		size := size
		vs = append(vs, dfStray{fmt.Sprintf("r/%d", size), func(b *dsBuilder, from string, uid int) { b.fragTest(from, uid, size) }})
	}
	for _, pat := range []string{"", "aA-Aaahhh"} {
		pat := pat
		vs = append(vs, dfStray{"z/" + pat, func(b *dsBuilder, from string, uid int) { b.upTest(from, uid, []byte(pat)) }})
	}
	vs = append(vs,
		dfStray{"v/right", func(b *dsBuilder, from string, uid int) { b.open(from, sadns.ProtocolVersion) }},
		dfStray{"v/wrong", func(b *dsBuilder, from string, uid int) { b.open(from, 7) }},
		dfStray{"y/T", func(b *dsBuilder, from string, uid int) { b.downTest(from, 'T') }},
		dfStray{"y/?", func(b *dsBuilder, from string, uid int) { b.downTest(from, 'Q') }})
	return vs
}

// dfStrayScenario: a1 holds identifiers 0 (options changed, payload moved both ways, a chunk in flight) and 2 (closed:
// retired), a2 holds 1 (payload in flight), 3.. were never issued.  `from` (a2: owns another session; a3: owns nothing;
// a1: owns 0 but not 1) sends the command for each of the identifiers 0, 1, 2, 3, 1295 it does not own, and after each
// stray both established sessions continue their own numbered traffic; at the end options, a test and a Write on them.
func dfStrayScenario(r *Rand, dom string, from string, v dfStray) string {
	b := dsNewBuilder(r, dom)
	b.open("a1", sadns.ProtocolVersion) // 0
	b.open("a2", sadns.ProtocolVersion) // 1
	b.open("a1", sadns.ProtocolVersion) // 2
	b.options("a1", 0, &commands.SetOptionsRequest{MultiQuery: bp(true), DownstreamEncoder: dsEncoder('S'), DownstreamFragmentSize: u32p(7)})
	b.packet("a1", 0, 65535, &util.Packet{SeqNo: 0, Data: []byte("zero-up-0")}, 40)
	b.write(0, []byte("zero-down-in-three-chunks"))
	b.packet("a1", 0, 65535, nil, 40)
	b.packet("a2", 1, 65535, &util.Packet{SeqNo: 0, Data: []byte("one-up-0")}, 40)
	b.write(1, []byte("one-down"))
	b.options("a1", 2, &commands.SetOptionsRequest{Closed: bp(true)})
	seq := map[string]uint16{"a1": 1, "a2": 1}
	ack := map[string]uint16{"a1": 0, "a2": 65535}
	own := map[string]int{"a1": 0, "a2": 1}
	for _, uid := range []int{0, 1, 2, 3, 1295} {
		if b.ownerLive(uid, from) != nil {
			continue
		}
		v.send(b, from, uid)
		for _, o := range []string{"a1", "a2"} {
			b.packet(o, own[o], ack[o], &util.Packet{SeqNo: seq[o], Data: []byte(fmt.Sprintf("%s-up-%d", o, seq[o]))}, 40)
			seq[o]++
			ack[o]++
		}
	}
	b.options("a2", 1, &commands.SetOptionsRequest{LazyMode: bp(true)})
	b.fragTest("a1", 0, 5)
	b.packet("a1", 0, ack["a1"], nil, 40)
	b.packet("a2", 1, ack["a2"], nil, 40)
	b.write(1, []byte("one-tail"))
	b.packet("a2", 1, ack["a2"], nil, 40)
	return "srv " + b.line()
}

// mutations of a valid request name: truncations, odd user ids, odd sizes
func dfMutations(r *Rand, dom string) [][]byte {
	b := dsNewBuilder(r, dom)
	valid := [][]byte{
		b.encode(&commands.VersionRequest{ClientVersion: sadns.ProtocolVersion}, 'T'),
		b.encode(&commands.SetOptionsRequest{UserId: 0, LazyMode: bp(true), DownstreamEncoder: enc.Base64Encoding, DownstreamFragmentSize: u32p(100)}, 'T'),
		b.encode(&commands.TestDownstreamFragmentSizeRequest{UserId: 0, FragmentSize: 30}, 'T'),
		b.encode(&commands.TestUpstreamEncoderRequest{UserId: 0, Pattern: []byte("aA-Aaahhh")}, 'T'),
		b.encode(&commands.PacketRequest{UserId: 0, LastAckedSeqNo: 65535, Packet: &util.Packet{SeqNo: 0, Data: []byte("hello")}}, 'T'),
		[]byte("yabcT." + dom + "."),
	}
	var out [][]byte
	sfx := "." + dom + "."
	for _, v := range valid {
		body := v[:len(v)-len(sfx)]
		for cut := 0; cut <= len(body); cut++ { // every truncation of the tunnel part
			out = append(out, append(append([]byte{}, body[:cut]...), sfx...))
		}
		if len(body) >= 6 {
			for _, uid := range []string{"zz", "ZZ", "10", "0z", "+1", "-1", "_1", "1_", "{{", "\xff\xfe", "00", "01", "\\0", "0\\", ".0", "0."} {
				m := append([]byte{}, body...)
				copy(m[4:6], uid)
				out = append(out, append(m, sfx...))
			}
		}
		up := append([]byte{}, v...)
		up[0] = up[0] &^ 0x20 // upper-case command letter
		out = append(out, up)
	}
	for _, size := range []uint32{0, 1, 65535, 65536, 1 << 20, 1 << 28} {
		out = append(out, b.encode(&commands.TestDownstreamFragmentSizeRequest{UserId: 0, FragmentSize: size}, 'T'))
	}
	for _, size := range []uint32{0, 1, 65535, 65536, 0xFFFFFFFE, 0xFFFFFFFF} {
		out = append(out, b.encode(&commands.SetOptionsRequest{UserId: 0, DownstreamFragmentSize: u32p(size)}, 'T'))
	}
	return out
}

// ---- client side ----

type dfCliBuilder struct {
	dom    string
	code   byte
	recs   []string
	oracle []string
	seen   map[string]bool
}

func (c *dfCliBuilder) line() string {
	// the codec results the decoder may ask for: on the real reassembled data (under recover)
	rrs, _ := dfParseRecords(c.recs, "cabc00."+c.dom+".")
	var data []byte
	func() {
		defer func() { _ = recover() }()
		data = util.UnwrapDnsResponse(&dns.Msg{Answer: rrs}, c.dom)
	}()
	b := &dsBuilder{oracle: map[string]bool{}}
	for off := 1; off <= 3 && off <= len(data); off++ {
		b.addOracle('T', data[off:])
		b.addOracle(c.code, data[off:])
	}
	return strings.Join(strings.Fields(fmt.Sprintf("cli %s %c %s -- %s", hexs([]byte(c.dom)), c.code, strings.Join(b.orTok, " "), strings.Join(c.recs, " "))), " ")
}

// dfRecord renders payload bytes as one record of the given kind, with a (possibly wrong / missing) order tag
func dfRecord(r *Rand, kind byte, order int, payload []byte, dom string) string {
	tag2 := []byte{byte(order), byte(order >> 8)}
	b32 := []byte{enc.IntToBase32Char(order), enc.IntToBase32Char(order >> 4)}
	sfx := []byte("." + dom + ".")
	switch kind {
	case 'N', 'P':
		return fmt.Sprintf("%c:%s", kind, hexs(append(tag2, payload...)))
	case 'T':
		return "T:" + hexs(append(b32, payload...))
	case 'M', 'S':
		return fmt.Sprintf("%c:%d:%s", kind, order, hexs(append(append([]byte{}, payload...), sfx...)))
	case 'C':
		return "C:" + hexs(append(append(b32, payload...), sfx...))
	case 'Q':
		return "Q:" + hexs(append(tag2, payload...))
	case 'A':
		return "A:" + hexs(append([]byte{byte(order)}, payload...))
	}
	return "X"
}

func dfMalformedRecord(r *Rand, dom string) string {
	short := [][]byte{{}, {0x61}, {0x61, 0x62}, []byte("v"), []byte("." + dom + "."), []byte(dom), []byte("ab." + dom + "."), []byte("a." + dom),
		// presentation escapes (unescapePresentation): \\DDD, \\c, too few digits, a backslash as last byte
		[]byte("aa\\099\\." + dom + "."), []byte("aac\\12." + dom + "."), []byte("aa\\"), []byte("\\\\\\065x\\"), []byte("aao\\000\\2555." + dom + ".")}
	s := short[r.Intn(len(short))]
	switch r.Intn(12) {
	case 0:
		return "N:" + hexs(s)
	case 1:
		return "P:" + hexs(s)
	case 2:
		return "T:"
	case 3:
		return "T:" + hexs(s)
	case 4:
		return "T:-," + hexs(s)
	case 5:
		return fmt.Sprintf("M:%d:%s", r.Intn(3), hexs(s))
	case 6:
		return fmt.Sprintf("S:%d:%s", r.Intn(3), hexs(s))
	case 7:
		return "C:" + hexs(s)
	case 8:
		return "Q:" + hexs(s)
	case 9:
		return "A:" + hexs(s)
	case 10:
		return "C:" + hexs([]byte("www.other.org."))
	}
	return "X"
}

// payloads a server could send (valid ones built with the real response encoders) and broken variants of them
func dfPayloads(r *Rand, code byte) [][]byte {
	e := dsEncoder(code)
	var out [][]byte
	add := func(resp commands.Response) {
		defer func() { _ = recover() }() // an encoder that panics yields no payload here; the enc sweep reports it
		if d, err := resp.Encode(e); err == nil {
			out = append(out, d)
		}
	}
	add(&commands.VersionResponse{ServerVersion: sadns.ProtocolVersion, UserId: uint16(r.Intn(1296))})
	add(&commands.VersionResponse{ServerVersion: 7, Err: commands.BadVersion})
	add(&commands.ErrorResponse{Err: commands.BadUser})
	add(&commands.SetOptionsResponse{})
	add(&commands.SetOptionsResponse{Err: commands.BadIp})
	add(&commands.TestUpstreamEncoderResponse{Data: r.Bytes(r.Intn(9))})
	add(&commands.TestUpstreamEncoderResponse{Err: commands.BadConn})
	add(&commands.TestDownstreamEncoderResponse{Data: util.DownloadCodecCheck})
	add(&commands.TestDownstreamEncoderResponse{Err: commands.BadCodec})
	add(&commands.TestDownstreamFragmentSizeResponse{FragmentSize: 5, Data: []byte{1, 2, 3, 4, 5}})
	add(&commands.TestDownstreamFragmentSizeResponse{Err: commands.BadFrag})
	add(&commands.PacketResponse{LastAckedSeqNo: uint16(r.Intn(70000)), Packet: &util.Packet{SeqNo: uint16(r.Intn(5)), Data: r.Bytes(r.Intn(12))}})
	add(&commands.PacketResponse{LastAckedSeqNo: 3})
	add(&commands.PacketResponse{Err: commands.BadIp})
	return out
}

func (dfComp) Gen(r *Rand, tier string, emit func(string)) {
	doms := []string{"example.com", "t.co", "tunnel.some-longer-zone.example.org"}
	// ---------------- server: the names of the design-phase spikes and their neighbours, for every domain
	for _, dom := range doms {
		for _, n := range []string{"mail." + dom + ".", dom + ".", "v." + dom + ".", "ca." + dom + ".", "yabc." + dom + ".", "l." + dom + ".",
			"lxyz." + dom + ".", "e." + dom + ".", "exyz00." + dom + ".", "mxyz." + dom + ".", ".", "", "www.other.org.", "a\\." + dom + ".",
			"cabc0\\." + dom + ".", "." + dom + ".", "..." + dom + ".", "cabc." + dom + ".", "cabc0." + dom + ".", "zabc00." + dom + ".",
			"oabc00." + dom + ".", "rabc00." + dom + ".", "vabc." + dom + ".", "VABC." + strings.ToUpper(dom) + ".", "yabcq." + dom + ".", "yabc\xe9." + dom + ".",
			"\xe9abc." + dom + ".", "\\255abc." + dom + ".", "\\099abc00." + dom + "."} {
			for _, a := range []string{"a1", "a2"} {
				emit(dfScenario(r, dom, a, 5, []byte(n), false))
			}
		}
	}
	// every record type against a stray name and against a valid packet
	qts := dfAllQtypes
	if tier != "thorough" {
		qts = append(append([]int{}, dsQtypesKnown...), 0, 2, 6, 12, 41, 99, 255, 256, 260, 65440, 65535)
	}
	for _, qt := range qts {
		emit(dfScenario(r, "example.com", "a2", qt, []byte("mail.example.com."), false))
		b := dsNewBuilder(r, "example.com")
		emit(dfScenario(r, "example.com", "a1", qt, b.encode(&commands.PacketRequest{UserId: 0, LastAckedSeqNo: 65535}, 'T'), false))
	}
	// field mutations of valid requests, from the owner and from a stranger
	for _, dom := range doms[:2] {
		for _, n := range dfMutations(r, dom) {
			emit(dfScenario(r, dom, "a1", dsQtypesBig[r.Intn(3)], n, false))
			emit(dfScenario(r, dom, "a2", dsQtypesKnown[r.Intn(8)], n, false))
		}
	}
	// well-formed commands from the wrong address / for another session, interleaved with established traffic
	for i, v := range dfStrayVariants() {
		for j, from := range []string{"a2", "a3", "a1"} {
			if tier == "thorough" {
				emit(dfStrayScenario(r, doms[0], from, v))
				emit(dfStrayScenario(r, doms[1], from, v))
			} else {
				emit(dfStrayScenario(r, doms[(i+j)%2], from, v))
			}
		}
	}
	// random multi-session histories (the generator of dnssess): every command from owners, former owners and strangers
	{
		n, depth := 300, 40
		if tier == "thorough" {
			n, depth = 3000, 70
		}
		for i := 0; i < n; i++ {
			emit("srv " + dsHistory(r, doms[r.Intn(len(doms))], 4+r.Intn(depth)))
		}
	}
	// sizes that may cost gigabytes: in a child process with an address-space limit
	{
		b := dsNewBuilder(r, "t.co")
		emit(dfScenario(r, "t.co", "a1", 10, b.encode(&commands.TestDownstreamFragmentSizeRequest{UserId: 0, FragmentSize: 0xFFFFFFFF}, 'T'), true))
		emit(dfScenario(r, "t.co", "a1", 16, b.encode(&commands.TestDownstreamFragmentSizeRequest{UserId: 0, FragmentSize: 1 << 31}, 'T'), true))
	}
	// a fragment size of 0 stored by setOptions, then a server-side Write on that session
	for _, size := range []uint32{0, 1, 65535, 65536} {
		b := dsNewBuilder(r, "t.co")
		b.open("a1", sadns.ProtocolVersion)
		b.options("a1", 0, &commands.SetOptionsRequest{DownstreamFragmentSize: u32p(size)})
		b.write(0, []byte("abc"))
		b.packet("a1", 0, 65535, nil, 40)
		emit("srv " + b.line())
	}
	// the totality hypothesis on the real codecs: every single octet and every pair of octets, both directions
	for i := 0; i < len(dsEncCodes); i++ {
		for _, dir := range []string{"dec", "enc"} {
			emit(fmt.Sprintf("%s %c -", dir, dsEncCodes[i]))
			emit(fmt.Sprintf("%s %c single", dir, dsEncCodes[i]))
			for b := 0; b < 256; b++ {
				emit(fmt.Sprintf("%s %c pairs %02x", dir, dsEncCodes[i], b))
			}
		}
	}
	// every octet value through the server handler, for every upstream codec a client can negotiate: the octet alone
	// as the packet body, in place of one character of a valid body, and appended to a valid body
	for i := 0; i < len(dsEncCodes); i++ {
		up, uerr := enc.FromCode(dsEncCodes[i])
		if uerr != nil {
			continue
		}
		for v := 0; v < 256; v++ {
			forms := [][]byte{dfPresent(byte(v))}
			if tier == "thorough" {
				forms = append(forms, []byte{byte(v)}) // the raw octet too (not what miekg would hand over, but cheap)
			}
			for _, form := range forms {
				for variant := 0; variant < 3; variant++ {
					dom := doms[(v+variant)%2]
					b := dsNewBuilder(r, dom)
					b.open("a1", sadns.ProtocolVersion)
					b.options("a1", 0, &commands.SetOptionsRequest{UpstreamEncoder: up})
					b.write(0, []byte("keep"))
					valid := b.encode(&commands.PacketRequest{UserId: 0, LastAckedSeqNo: 65535, Packet: &util.Packet{SeqNo: 0, Data: r.Bytes(1 + r.Intn(9))}}, dsEncCodes[i])
					sfx := "." + dom + "."
					if len(valid) < 6+len(sfx) {
						valid = []byte("cabc00" + sfx)
					}
					body := valid[6 : len(valid)-len(sfx)]
					var nb []byte
					switch variant {
					case 0:
						nb = form
					case 1:
						k := 0
						if len(body) > 0 {
							k = r.Intn(len(body))
							nb = append(append(append([]byte{}, body[:k]...), form...), body[k+1:]...)
						} else {
							nb = form
						}
					default:
						nb = append(append([]byte{}, body...), form...)
					}
					name := append(append(append([]byte{}, valid[:6]...), nb...), sfx...)
					b.msg("a1", dsQtypesKnown[r.Intn(8)], name, 'T')
					b.packet("a1", 0, 65535, nil, 40)
					emit("srv " + b.line())
				}
			}
		}
	}
	// grammar-generated names
	n := 2500
	if tier == "thorough" {
		n = 40000
	}
	for i := 0; i < n; i++ {
		dom := doms[r.Intn(len(doms))]
		qt := dsQtypesKnown[r.Intn(8)]
		if r.Intn(6) == 0 {
			qt = dfAllQtypes[r.Intn(len(dfAllQtypes))]
		}
		emit(dfScenario(r, dom, dsAddrs[r.Intn(2)], qt, dfName(r, dom), false))
	}

	// ---------------- client
	kinds := "NPTMSCQA"
	codes := dsEncCodes
	for _, dom := range doms[:2] {
		emitRecs := func(code byte, recs ...string) {
			c := &dfCliBuilder{dom: dom, code: code, recs: recs}
			emit(c.line())
		}
		emitRecs('T') // empty answer section
		emitRecs('T', "X")
		for _, k := range kinds { // one too-short record of every kind and every short length
			for _, short := range [][]byte{{}, {0x63}, {0x63, 0x61}, {0x63, 0x61, 0x62}, []byte("." + dom + "."), []byte("c." + dom + "."), []byte("aac." + dom + "."), []byte(dom)} {
				var rec string
				switch k {
				case 'M', 'S':
					rec = fmt.Sprintf("%c:1:%s", k, hexs(short))
				default:
					rec = fmt.Sprintf("%c:%s", k, hexs(short))
				}
				emitRecs('T', rec)
				emitRecs('T', rec, rec)
				emitRecs('T', "N:0100"+hexs([]byte("v00")), rec)
			}
		}
		emitRecs('T', "T:")
		emitRecs('T', "T:", "T:")
		emitRecs('T', "T:-")
		emitRecs('T', "T:-,-")
		for _, first := range "vlorYzmceVLORyZMCEab0\\" { // every command letter as the first data byte, nothing else
			emitRecs('T', "N:0100"+hexs([]byte{byte(first)}))
			emitRecs('T', "N:0100"+hexs([]byte{byte(first), 'o'}))
			emitRecs('T', "N:0100"+hexs([]byte{byte(first), 'e'}))
			emitRecs('T', "N:0100"+hexs([]byte{byte(first), '0', '0'}))
			emitRecs('T', "N:0100"+hexs([]byte{byte(first), '-', '1'}))
		}
	}
	// every octet value through the client decoder, for every downstream codec: as the whole body of each response
	// kind, and in place of one byte of a valid encoded response (NULL and TXT records)
	for i := 0; i < len(dsEncCodes); i++ {
		code := dsEncCodes[i]
		ps := dfPayloads(r, code)
		for v := 0; v < 256; v++ {
			dom := doms[v%2]
			for _, first := range "vozyrce" {
				c := &dfCliBuilder{dom: dom, code: code, recs: []string{"N:0100" + hexs([]byte{byte(first), byte(v)})}}
				if first == 'y' {
					c.recs = []string{"N:0100" + hexs([]byte{'y', "eo"[v%2], byte(v)})}
				}
				if first == 'v' {
					c.recs = []string{"N:0100" + hexs([]byte{'v', '0', '0', byte(v)})}
				}
				emit(c.line())
			}
			if len(ps) == 0 {
				continue
			}
			for k := 0; k < 2; k++ {
				p := append([]byte{}, ps[r.Intn(len(ps))]...)
				if len(p) > 1 {
					p[1+r.Intn(len(p)-1)] = byte(v)
				}
				c := &dfCliBuilder{dom: dom, code: code}
				if k == 0 {
					c.recs = []string{dfRecord(r, 'N', 1, p, dom)}
				} else {
					c.recs = []string{dfRecord(r, 'T', 0, p, dom)}
				}
				emit(c.line())
			}
		}
	}
	m := 1500
	if tier == "thorough" {
		m = 20000
	}
	for i := 0; i < m; i++ {
		dom := doms[r.Intn(2)]
		code := codes[r.Intn(len(codes))]
		ps := dfPayloads(r, code)
		p := ps[r.Intn(len(ps))]
		switch r.Intn(6) {
		case 0: // truncated
			p = p[:r.Intn(len(p)+1)]
		case 1: // one byte changed
			if len(p) > 0 {
				p = append([]byte{}, p...)
				p[r.Intn(len(p))] = byte(r.Intn(256))
			}
		case 2: // garbage appended
			p = append(append([]byte{}, p...), r.Bytes(1+r.Intn(4))...)
		}
		kind := kinds[r.Intn(len(kinds))]
		// split into 1-4 records of one kind (or mixed kinds), in any order, possibly with malformed ones in between
		parts := 1 + r.Intn(4)
		c := &dfCliBuilder{dom: dom, code: code}
		for j := 0; j < parts; j++ {
			lo, hi := len(p)*j/parts, len(p)*(j+1)/parts
			k := kind
			if r.Intn(8) == 0 {
				k = kinds[r.Intn(len(kinds))]
			}
			order := j + 1
			if k == 'M' {
				order = 10 * (j + 1)
			}
			if k == 'T' {
				order = j
			}
			if r.Intn(10) == 0 {
				order = r.Intn(70000)
			}
			c.recs = append(c.recs, dfRecord(r, byte(k), order, p[lo:hi], dom))
			if r.Intn(6) == 0 {
				c.recs = append(c.recs, dfMalformedRecord(r, dom))
			}
		}
		if r.Intn(3) == 0 { // shuffle
			for j := len(c.recs) - 1; j > 0; j-- {
				k := r.Intn(j + 1)
				c.recs[j], c.recs[k] = c.recs[k], c.recs[j]
			}
		}
		emit(c.line())
	}

	// ---------------- the communicator's handler (everything between the socket and onMessage and back)
	dfHandlerGen(NewRand(r.Next()), tier, doms, emit)

	// ---------------- the client's own handshake (record-type detection, version exchange, probes, option changes)
	// with ONE answer of the real server replaced by a crafted payload: every command letter as the answer's first
	// byte, bodies that are empty, one NUL, one 0xFF, valid Base32 of short byte strings, junk
	{
		dom := hexs([]byte("example.org"))
		bodies := []string{"", "aa", "77", "aaaaaaaa", "99", "7777777w", "ab", "mfrgg", "\x00", "\xff\xff", strings.Repeat("a", 60)}
		letters := "veoyzrclmVEOYZRCLM0."
		whichQ := []string{"v 1", "y 1", "o 1", "z 1", "r 1", "* 1", "* 3", "* 9"}
		n := 0
		for _, wq := range whichQ {
			for _, l := range letters {
				for bi, b := range bodies {
					n++
					// quick: a diagonal slice of the grid; thorough: all of it
					if tier != "thorough" && (n%7 != 0 && !(wq == "v 1" && bi < 4)) {
						continue
					}
					body := strings.NewReplacer("\\x00", "\x00", "\\xff", "\xff").Replace(b)
					emit("clihs " + dom + " " + wq + " " + hexs([]byte(string(l)+body)))
				}
			}
		}
	}
}

// dfLookupLabels: what a resolver, crawler or monitoring probe asks a zone -- every command letter in both cases
// alone, followed by one character, by two characters that are no base-36 number, by a well-formed user id of a
// session that does not exist / that exists, and ordinary host names that happen to start with a command letter
func dfLookupLabels() []string {
	ls := []string{"", "www", "mail", "ns1", "ftp", "cdn", "vpn", "old", "run", "zone", "CDN", "Vpn", "_dmarc", "o1", "api", "smtp", "x", "host-7", "xn--bcher-kva",
		"c.d", "v.o.r", "a.b.c.d.e", "*"}
	for _, c := range "vlorYzmceVLORyZMCE" {
		ls = append(ls, string(c), string(c)+"9", string(c)+"a-_", string(c)+"a!!", string(c)+"azz", string(c)+"a00", string(c)+"a01rest", string(c)+"aZ9q")
	}
	return ls
}

// dfHandlerLine: sessions 0 (a1, pending downstream data) and 1 (a2); then lookups from `from`, each with the given
// hint letter (T plain / G signed, validated / g signed, not validated), the owner's numbered traffic in between; at
// the end both sessions must still be served.  `wire`: only names that reach the server's handler as they are spelt.
func dfHandlerLine(r *Rand, dom string, from string, hint byte, labels []string, qts []int, wire bool) string {
	b := dsNewBuilder(r, dom)
	b.open("a1", sadns.ProtocolVersion)
	b.open("a2", sadns.ProtocolVersion)
	b.write(0, []byte("keep"))
	seq, ack := uint16(0), uint16(65535)
	for i, l := range labels {
		name := dom + "."
		if l != "" {
			name = l + "." + name
		}
		if i%7 == 3 {
			name = strings.ToUpper(name)
		}
		qt := qts[(i+int(hint))%len(qts)]
		if wire && !dsNameSurvivesWire(name, uint16(qt)) {
			continue
		}
		b.msg(from, qt, []byte(name), hint)
		if i%5 == 4 {
			b.packet("a2", 1, ack, &util.Packet{SeqNo: seq, Data: []byte(fmt.Sprintf("up-%d", seq))}, 40)
			seq++
			ack++
		}
	}
	b.packet("a1", 0, 65535, nil, 40)
	b.packet("a2", 1, ack, nil, 40)
	return b.line()
}

// dfWireOK: does every query of the line reach the server's handler as the line spells it (name survives the wire
// format), and is every answer small enough for one UDP datagram?
func dfWireOK(line string) bool {
	perAddr := map[string]int{}
	for _, t := range strings.Fields(line) {
		f := strings.Split(t, ":")
		if len(f) == 5 && f[0] == "m" {
			// miekg closes a TCP connection after 128 queries; a new connection is a new source address
			if perAddr[f[1]]++; perAddr[f[1]] > 120 {
				return false
			}
			n, err := unhex(f[3])
			qt, err2 := strconv.Atoi(f[2])
			if err != nil || err2 != nil || !dsNameSurvivesWire(string(n), uint16(qt)) {
				return false
			}
		}
		if f[0] == "x" || f[0] == "[" {
			return false
		}
	}
	return true
}

func dfHandlerGen(r *Rand, tier string, doms []string, emit func(string)) {
	labels := dfLookupLabels()
	lookupTypes := []int{1, 28, 15, 16, 5, 6, 255, 2, 33, int(util.QueryTypeNull)}
	thorough := tier == "thorough"
	// direct: every label x sender x TSIG status through handleRequest with a fake writer
	for di, dom := range doms {
		for _, from := range []string{"a3", "a1", "a2"} {
			for _, hint := range []byte{'T', 'G', 'g'} {
				if !thorough && (di+int(hint)+int(from[1]))%3 != 0 {
					continue
				}
				emit("srv " + dfHandlerLine(r, dom, from, hint, labels, lookupTypes, false))
			}
		}
	}
	// signed queries for every message class of the other generators: the spike names, a valid packet for every record
	// type, well-formed commands from the wrong address, random histories
	sign := func(line string, hint byte) string {
		toks := strings.Fields(line)
		for i, t := range toks {
			if strings.HasPrefix(t, "m:") && strings.HasSuffix(t, ":T") {
				toks[i] = t[:len(t)-1] + string(hint)
			}
		}
		return strings.Join(toks, " ")
	}
	strays := dfStrayVariants()
	nSigned := 40
	if thorough {
		nSigned = len(strays)
	}
	for i := 0; i < nSigned; i++ {
		v := strays[(i*7)%len(strays)]
		if thorough {
			v = strays[i]
		}
		emit(sign(dfStrayScenario(r, doms[i%2], []string{"a2", "a3", "a1"}[i%3], v), "Gg"[i%2]))
	}
	for i := 0; i < nSigned; i++ {
		emit(sign("srv "+dsHistory(r, doms[r.Intn(len(doms))], 4+r.Intn(30)), "Gg"[i%2]))
	}
	// net: the same classes through a real socket to the real communicator's server, udp and tcp
	for ni, network := range []string{"udp", "tcp"} {
		for di, dom := range doms {
			if !thorough && di != ni {
				continue
			}
			for fi, from := range []string{"a3", "a1"} {
				hint := byte('T')
				if from == "a1" {
					hint = 'G'
				}
				// (a TCP connection serves 128 queries: the labels go in two halves)
				half := len(labels) / 2
				part := labels[:half]
				if (fi+ni)%2 == 1 {
					part = labels[half:]
				}
				if thorough {
					emit("net " + network + " " + dfHandlerLine(r, dom, from, hint, labels[:half], lookupTypes, true))
					part = labels[half:]
				}
				emit("net " + network + " " + dfHandlerLine(r, dom, from, hint, part, lookupTypes, true))
			}
		}
		// well-formed commands that do not belong, and random histories
		want := 2
		if thorough {
			want = 60
		}
		for i, got := 0, 0; got < want && i < 20*want; i++ {
			var line string
			if i%2 == 0 {
				v := strays[r.Intn(len(strays))]
				if strings.HasPrefix(v.what, "r/6") {
					continue // answers of 64 KiB do not fit a datagram
				}
				line = strings.TrimPrefix(dfStrayScenario(r, doms[i%2], []string{"a2", "a3", "a1"}[i%3], v), "srv ")
			} else {
				line = dsHistory(r, doms[r.Intn(2)], 4+r.Intn(25))
			}
			if !dfWireOK(line) || strings.Contains(line, "!big") {
				continue
			}
			got++
			emit("net " + network + " " + line)
		}
	}
}

//go:build verif

package main

// C07, retry loop: one real ClientDnsConnection.Write of a single fragment through the real
// QueryWithData / SendAndReceive / outChunkAdded, against a real ServerDnsListener, joined by a scripted
// in-memory communicator (no timers, no poll goroutine: only AutoDetectQueryType + VersionHandshake run).
//
//   dnsretry <hex payload, 1..8 bytes> <fate>*      fate of the i-th query of the Write:
//     ok  delivered, answered        ql  query lost   -> the communicator reports a network timeout
//     al  handled, answer lost -> network timeout     st  communicator returns smux.ErrTimeout itself
//     er  some other error                            (script exhausted: ok)

import (
	"fmt"
	"net"
	"os"
	"strings"
	"time"

	sadns "github.com/bokysan/socketace/v2/internal/streams/dns"
	"github.com/bokysan/socketace/v2/internal/streams/dns/util"
	"github.com/bokysan/socketace/v2/internal/util/enc"
	"github.com/miekg/dns"
	"github.com/pkg/errors"
	"github.com/xtaci/smux"
)

type c07Comm struct {
	message sadns.OnMessage
	script  []string
	armed   bool
	pos     int
	calls   int
	closed  bool
	failAll bool // clean-up: every further exchange fails at once
}

func (t *c07Comm) Close() error { t.closed = true; return nil }
func (t *c07Comm) Closed() bool { return t.closed }
func (t *c07Comm) LocalAddr() net.Addr {
	return &net.UDPAddr{IP: net.IPv4(127, 0, 0, 1), Port: 1234}
}
func (t *c07Comm) RemoteAddr() net.Addr {
	return &net.UDPAddr{IP: net.IPv4(127, 0, 0, 1), Port: 53}
}
func (t *c07Comm) SetDeadline(time.Time) error      { return nil }
func (t *c07Comm) SetReadDeadline(time.Time) error  { return nil }
func (t *c07Comm) SetWriteDeadline(time.Time) error { return nil }
func (t *c07Comm) RegisterAccept(m sadns.OnMessage) { t.message = m }

func (t *c07Comm) deliver(m *dns.Msg) (*dns.Msg, error) {
	var source dns.Msg
	data, err := m.Pack()
	if err != nil {
		return nil, err
	}
	if err := source.Unpack(data); err != nil {
		return nil, err
	}
	return t.message(&source, t.LocalAddr())
}

func (t *c07Comm) SendAndReceive(m *dns.Msg, timeout *time.Duration) (*dns.Msg, time.Duration, error) {
	if t.failAll {
		return nil, 0, errors.New("harness is shutting the history down")
	}
	fate := "ok"
	if t.armed {
		t.calls++
		if t.pos < len(t.script) {
			fate = t.script[t.pos]
			t.pos++
		}
	}
	// what NetConnectionClientCommunicator returns when the read deadline passes
	netTimeout := errors.Wrapf(&net.OpError{Op: "read", Net: "udp", Err: os.ErrDeadlineExceeded}, "Could not send packet")
	switch fate {
	case "ql":
		return nil, 0, netTimeout
	case "al":
		_, _ = t.deliver(m)
		return nil, 0, netTimeout
	case "st":
		return nil, 0, smux.ErrTimeout
	case "er":
		return nil, 0, errors.New("connection refused")
	}
	r, err := t.deliver(m)
	return r, time.Millisecond, err
}

type retryComp struct{}

// after a few hung Writes the rest of the run is not attempted (each costs a timeout and leaves a spinning goroutine)
var c07Hangs int

func init() { register("dnsretry", retryComp{}) }

func (retryComp) Exec(op string) (result string, monitor string, class string, nontrivial bool) {
	toks := strings.Fields(op)
	if len(toks) < 1 {
		return "bad-op", "", "bad", false
	}
	data, err := unhex(toks[0])
	if err != nil || len(data) == 0 || len(data) > 8 {
		return "bad-op", "", "bad", false
	}
	for _, f := range toks[1:] {
		if f != "ok" && f != "ql" && f != "al" && f != "st" && f != "er" {
			return "bad-op", "", "bad", false
		}
	}
	if c07Hangs >= 3 {
		return "HANG-SKIPPED", "Write did not return (earlier ops of this run hung; not attempted)", "hang", false
	}
	comm := &c07Comm{script: toks[1:]}
	srv := sadns.NewServerDnsListener("example.org", comm)
	defer comm.Close()
	client, err := sadns.NewClientDnsConnection("example.org", comm)
	if err != nil {
		return "setup-failed", "", "setup", false
	}
	if err := client.AutoDetectQueryType(); err != nil {
		return "setup-failed", "", "setup", false
	}
	if err := client.VersionHandshake(); err != nil {
		return "setup-failed", "", "setup", false
	}
	// the server's defaults for a new user (no encoder negotiation in this drive)
	client.Serializer.Upstream.Encoder = enc.Base32Encoding
	client.Serializer.Downstream.Encoder = enc.Base32Encoding
	conn, err := srv.Accept()
	if err != nil {
		return "setup-failed", "", "setup", false
	}
	sin := conn.(interface{ VerifIn() *util.InQueue }).VerifIn()
	comm.armed = true
	type wres struct {
		n   int
		err error
	}
	done := make(chan wres, 1)
	go func() {
		n, err := client.Write(data)
		done <- wres{n, err}
	}()
	var w wres
	select {
	case w = <-done:
	case <-time.After(10 * time.Second):
		c07Hangs++
		return "HANG", "Write did not return", "hang", false
	}
	comm.armed = false
	got, _, _ := sin.VerifState()
	ec := "ok"
	if w.err != nil {
		ec = "err"
	}
	result = fmt.Sprintf("calls=%d n=%d err=%s srv=%s", comm.calls, w.n, ec, hexs(got))
	// monitor: fewer than 5 consecutive timeouts followed by a delivered exchange must be absorbed
	k := 0
	for k < len(toks[1:]) && (toks[1+k] == "ql" || toks[1+k] == "al" || toks[1+k] == "st") {
		k++
	}
	absorbed := k <= 4 && (k == len(toks[1:]) || toks[1+k] == "ok")
	if absorbed && w.err != nil {
		monitor = fmt.Sprintf("%d lost exchange(s) followed by a delivered one surfaced as a Write failure", k)
	} else if w.err == nil && string(got) != string(data) {
		monitor = "Write returned success but the payload was not delivered"
	}
	class = fmt.Sprintf("loss%d", k)
	if !absorbed {
		class += "+fail"
	}
	return result, monitor, class, w.err == nil
}

func (retryComp) Gen(r *Rand, tier string, emit func(op string)) {
	fates := []string{"ql", "al", "st"}
	// every number of leading losses 0..6 x every loss kind (uniform prefix), then ok / other error / nothing
	for k := 0; k <= 6; k++ {
		for _, f := range fates {
			for _, tail := range []string{"", " ok", " er"} {
				emit("a1b2c3" + strings.Repeat(" "+f, k) + tail)
			}
		}
	}
	n := 60
	if tier == "thorough" {
		n = 300
	}
	for i := 0; i < n; i++ {
		var sb []string
		for j := r.Intn(7); j > 0; j-- {
			sb = append(sb, r.Pick([]string{"ql", "al", "st", "ql", "al", "ok", "er"}))
		}
		emit(strings.TrimSpace(hexs(r.Bytes(1+r.Intn(8))) + " " + strings.Join(sb, " ")))
	}
}

//go:build verif

package main

// C07, retry loop: one real ClientDnsConnection.Write of a single fragment through the real
// QueryWithData / SendAndReceive / outChunkAdded, against a real ServerDnsListener, joined by a scripted
// in-memory communicator (no timers, no poll goroutine: only AutoDetectQueryType + VersionHandshake run).
//
//   dnsretry <hex payload, 1..8 bytes> <fate>*      fate of the i-th query of the Write:
//     ok  delivered, answered        ql  query lost   -> the communicator reports a network timeout
//     al  handled, answer lost -> network timeout     st  communicator returns smux.ErrTimeout itself
//     er  some other error                            (script exhausted: ok)
//
//   dnsretry <hex payload, 1..8 bytes> ids mtu=<m> <fate>*     answers have an identity: one Write of ceil(len/m) fragments; fate of the
//     j-th communicator call of the whole Write (numbered from 0), in addition to the five above:
//     late<k>  handled; the answer is withheld (network timeout) and delivered in reply to call j+k — with its ORIGINAL message id and
//              question, as a resolver path would deliver it — in place of that call's own answer (k = 1..9)
//     dup      handled, answered; a second copy of the answer is delivered in reply to call j+1
//     fid      handled, answered, but the message id of the answer was rewritten to one no query had
//     The in-memory communicator hands whatever arrives to QueryWithData (a communicator is free to: the interface says nothing about ids).
//
//   dnsretry <hex> udp mtu=<m> <fate>*    the same script (without st/er) played by a scripted UDP server on a loopback socket against the REAL
//     NetConnectionClientCommunicator (miekg's dns.Client.ExchangeWithConn, time-outs of SendAndReceive divided by 4): miekg skips datagrams
//     whose id is not the query's and keeps waiting, so late answers, copies and foreign ids never reach QueryWithData.  `calls` is not
//     printed (a slow machine may add a retransmission; the outcome does not depend on it for scripts with <= 2 losses).

import (
	"fmt"
	"net"
	"os"
	"strings"
	"time"

	sadns "github.com/bokysan/socketace/v2/internal/streams/dns"
	"github.com/bokysan/socketace/v2/internal/streams/dns/util"
	"github.com/bokysan/socketace/v2/internal/util/enc"
	"github.com/miekg/dns"
	"github.com/pkg/errors"
	"github.com/xtaci/smux"
)

type c07Comm struct {
	message sadns.OnMessage
	script  []string
	armed   bool
	pos     int
	calls   int
	closed  bool
	failAll bool // clean-up: every further exchange fails at once
	held    []c07Held
}

// an answer the path has not delivered yet
type c07Held struct {
	due int // index of the (armed) call it is delivered in reply to
	msg *dns.Msg
}

// as on the wire
func c07Wire(m *dns.Msg) *dns.Msg {
	if m == nil {
		return nil
	}
	data, err := m.Pack()
	if err != nil {
		return nil
	}
	r := &dns.Msg{}
	if r.Unpack(data) != nil {
		return nil
	}
	return r
}

func c07LateK(f string) (int, bool) {
	if len(f) == 5 && strings.HasPrefix(f, "late") && f[4] >= '1' && f[4] <= '9' {
		return int(f[4] - '0'), true
	}
	return 0, false
}

func (t *c07Comm) Close() error { t.closed = true; return nil }
func (t *c07Comm) Closed() bool { return t.closed }
func (t *c07Comm) LocalAddr() net.Addr {
	return &net.UDPAddr{IP: net.IPv4(127, 0, 0, 1), Port: 1234}
}
func (t *c07Comm) RemoteAddr() net.Addr {
	return &net.UDPAddr{IP: net.IPv4(127, 0, 0, 1), Port: 53}
}
func (t *c07Comm) SetDeadline(time.Time) error      { return nil }
func (t *c07Comm) SetReadDeadline(time.Time) error  { return nil }
func (t *c07Comm) SetWriteDeadline(time.Time) error { return nil }
func (t *c07Comm) RegisterAccept(m sadns.OnMessage) { t.message = m }

func (t *c07Comm) deliver(m *dns.Msg) (*dns.Msg, error) {
	var source dns.Msg
	data, err := m.Pack()
	if err != nil {
		return nil, err
	}
	if err := source.Unpack(data); err != nil {
		return nil, err
	}
	return t.message(&source, t.LocalAddr())
}

func (t *c07Comm) SendAndReceive(m *dns.Msg, timeout *time.Duration) (*dns.Msg, time.Duration, error) {
	if t.failAll {
		return nil, 0, errors.New("harness is shutting the history down")
	}
	fate := "ok"
	idx := -1
	if t.armed {
		idx = t.calls
		t.calls++
		if t.pos < len(t.script) {
			fate = t.script[t.pos]
			t.pos++
		}
	}
	// what NetConnectionClientCommunicator returns when the read deadline passes
	netTimeout := errors.Wrapf(&net.OpError{Op: "read", Net: "udp", Err: os.ErrDeadlineExceeded}, "Could not send packet")
	// the oldest answer the path delivers in reply to this call; others due now are dropped
	var due *dns.Msg
	if len(t.held) > 0 {
		var keep []c07Held
		for _, h := range t.held {
			if h.due == idx && due == nil {
				due = h.msg
			} else if h.due > idx {
				keep = append(keep, h)
			}
		}
		t.held = keep
	}
	var own *dns.Msg
	switch fate {
	case "ql":
	case "al":
		_, _ = t.deliver(m)
	case "st":
		return nil, 0, smux.ErrTimeout
	case "er":
		return nil, 0, errors.New("connection refused")
	case "dup":
		r, err := t.deliver(m)
		if err != nil {
			return nil, 0, err
		}
		t.held = append(t.held, c07Held{due: idx + 1, msg: c07Wire(r)})
		own = r
	case "fid":
		r, err := t.deliver(m)
		if err != nil {
			return nil, 0, err
		}
		r.Id++
		own = r
	case "ok":
		r, err := t.deliver(m)
		if err != nil {
			return r, time.Millisecond, err
		}
		own = r
	default:
		if k, ok := c07LateK(fate); ok {
			if r, err := t.deliver(m); err == nil {
				t.held = append(t.held, c07Held{due: idx + k, msg: c07Wire(r)})
			}
		}
	}
	if due != nil {
		return due, time.Millisecond, nil
	}
	if own != nil {
		return own, time.Millisecond, nil
	}
	return nil, 0, netTimeout
}

type retryComp struct{}

// after a few hung Writes the rest of the run is not attempted (each costs a timeout and leaves a spinning goroutine)
var c07Hangs int

func init() { register("dnsretry", retryComp{}) }

func (retryComp) Exec(op string) (result string, monitor string, class string, nontrivial bool) {
	toks := strings.Fields(op)
	if len(toks) < 1 {
		return "bad-op", "", "bad", false
	}
	if len(toks) >= 3 && (toks[1] == "ids" || toks[1] == "udp") {
		return c07AnswersExec(toks)
	}
	data, err := unhex(toks[0])
	if err != nil || len(data) == 0 || len(data) > 8 {
		return "bad-op", "", "bad", false
	}
	for _, f := range toks[1:] {
		if f != "ok" && f != "ql" && f != "al" && f != "st" && f != "er" {
			return "bad-op", "", "bad", false
		}
	}
	if c07Hangs >= 3 {
		return "HANG-SKIPPED", "Write did not return (earlier ops of this run hung; not attempted)", "hang", false
	}
	comm := &c07Comm{script: toks[1:]}
	srv := sadns.NewServerDnsListener("example.org", comm)
	defer comm.Close()
	client, err := sadns.NewClientDnsConnection("example.org", comm)
	if err != nil {
		return "setup-failed", "", "setup", false
	}
	if err := client.AutoDetectQueryType(); err != nil {
		return "setup-failed", "", "setup", false
	}
	if err := client.VersionHandshake(); err != nil {
		return "setup-failed", "", "setup", false
	}
	// the server's defaults for a new user (no encoder negotiation in this drive)
	client.Serializer.Upstream.Encoder = enc.Base32Encoding
	client.Serializer.Downstream.Encoder = enc.Base32Encoding
	conn, err := srv.Accept()
	if err != nil {
		return "setup-failed", "", "setup", false
	}
	sin := conn.(interface{ VerifIn() *util.InQueue }).VerifIn()
	comm.armed = true
	type wres struct {
		n   int
		err error
	}
	done := make(chan wres, 1)
	go func() {
		n, err := client.Write(data)
		done <- wres{n, err}
	}()
	var w wres
	select {
	case w = <-done:
	case <-time.After(10 * time.Second):
		c07Hangs++
		return "HANG", "Write did not return", "hang", false
	}
	comm.armed = false
	got, _, _ := sin.VerifState()
	ec := "ok"
	if w.err != nil {
		ec = "err"
	}
	result = fmt.Sprintf("calls=%d n=%d err=%s srv=%s", comm.calls, w.n, ec, hexs(got))
	// monitor: fewer than 5 consecutive timeouts followed by a delivered exchange must be absorbed
	k := 0
	for k < len(toks[1:]) && (toks[1+k] == "ql" || toks[1+k] == "al" || toks[1+k] == "st") {
		k++
	}
	absorbed := k <= 4 && (k == len(toks[1:]) || toks[1+k] == "ok")
	if absorbed && w.err != nil {
		monitor = fmt.Sprintf("%d lost exchange(s) followed by a delivered one surfaced as a Write failure", k)
	} else if w.err == nil && string(got) != string(data) {
		monitor = "Write returned success but the payload was not delivered"
	}
	class = fmt.Sprintf("loss%d", k)
	if !absorbed {
		class += "+fail"
	}
	return result, monitor, class, w.err == nil
}

func (retryComp) Gen(r *Rand, tier string, emit func(op string)) {
	defer c07AnswersGen(r, tier, emit)
	fates := []string{"ql", "al", "st"}
	// every number of leading losses 0..6 x every loss kind (uniform prefix), then ok / other error / nothing
	for k := 0; k <= 6; k++ {
		for _, f := range fates {
			for _, tail := range []string{"", " ok", " er"} {
				emit("a1b2c3" + strings.Repeat(" "+f, k) + tail)
			}
		}
	}
	n := 60
	if tier == "thorough" {
		n = 300
	}
	for i := 0; i < n; i++ {
		var sb []string
		for j := r.Intn(7); j > 0; j-- {
			sb = append(sb, r.Pick([]string{"ql", "al", "st", "ql", "al", "ok", "er"}))
		}
		emit(strings.TrimSpace(hexs(r.Bytes(1+r.Intn(8))) + " " + strings.Join(sb, " ")))
	}
}

//go:build verif

package main

import (
	"crypto/tls"
	"fmt"
	"net"
	"os"
	"sync"
	"time"
)

// ---- C14 `life <carrier> <n> badpeer <hold|close>` ----
// n raw peers connect to the server endpoint and violate the session handshake (a plain HTTP request, binary junk, a
// valid announce followed by a bogus second request).  The server refuses each session; the peers then keep their end
// open (hold) or hang up (close).  Observed while the peers are still there: goroutines and descriptors per refused
// session on the server side, and whether the server closed every refused connection itself.
// result: `grow=<goroutines per refused session> fd=<server-side descriptors per refused session> closed=<bool>`

func countFds() int {
	d, err := os.ReadDir("/proc/self/fd")
	if err != nil {
		return -1
	}
	return len(d)
}

func badPeerConn(carrier, addr string, kind int) (net.Conn, error) {
	c, err := net.DialTimeout("tcp", addr, 3*time.Second)
	if err != nil {
		return nil, err
	}
	if carrier == "tcptls" {
		t := tls.Client(c, &tls.Config{InsecureSkipVerify: true})
		_ = c.SetDeadline(time.Now().Add(5 * time.Second))
		if err := t.Handshake(); err != nil {
			c.Close()
			return nil, err
		}
		_ = c.SetDeadline(time.Time{})
		c = t
	}
	var msg []byte
	switch kind % 3 {
	case 0:
		msg = []byte("GET / HTTP/1.1\r\nHost: localhost\r\nConnection: keep-alive\r\n\r\n")
	case 1:
		msg = []byte("\x00\x01\x02\x03 not a handshake at all\r\n\r\n")
	default:
		msg = append(firstRequest(), []byte("BOGUS / HTTP/1.1\r\nHost: localhost\r\n\r\n")...)
	}
	if _, err := c.Write(msg); err != nil {
		c.Close()
		return nil, err
	}
	return c, nil
}

// sawClose reads until the server ends the connection (true) or the deadline passes (false)
func sawClose(c net.Conn, deadline time.Time) bool {
	_ = c.SetReadDeadline(deadline)
	buf := make([]byte, 4096)
	for {
		_, err := c.Read(buf)
		if err != nil {
			ne, ok := err.(net.Error)
			return !(ok && ne.Timeout())
		}
	}
}

func badPeers(carrier string, n int, ending string) (string, string) {
	rig, err := NewRig(RigOpts{Carrier: carrier, Insecure: true})
	if err != nil {
		return "fail:rig", err.Error()
	}
	defer rig.Close()
	// the client's own session exists and works before and after
	if err := oneConn(rig, "app", 99); err != nil {
		return "fail:conn", err.Error()
	}
	batch := func(k int, hold bool) (closed int, conns []net.Conn, err error) {
		for i := 0; i < k; i++ {
			c, e := badPeerConn(carrier, rig.ServerAddr, i)
			if e != nil {
				return 0, conns, e
			}
			conns = append(conns, c)
		}
		var wg sync.WaitGroup
		var mu sync.Mutex
		deadline := time.Now().Add(3 * time.Second)
		for _, c := range conns {
			wg.Add(1)
			go func(c net.Conn) {
				defer wg.Done()
				if sawClose(c, deadline) {
					mu.Lock()
					closed++
					mu.Unlock()
				}
			}(c)
		}
		wg.Wait()
		if !hold {
			for _, c := range conns {
				c.Close()
			}
			conns = nil
		}
		return closed, conns, nil
	}
	// warm-up (code paths, lazily started library goroutines)
	if _, _, err := batch(3, false); err != nil {
		return "fail:peer", err.Error()
	}
	time.Sleep(100 * time.Millisecond)
	g0, f0 := quiesce(), countFds()
	closed, held, err := batch(n, ending == "hold")
	defer func() {
		for _, c := range held {
			c.Close()
		}
	}()
	if err != nil {
		return "fail:peer", err.Error()
	}
	time.Sleep(100 * time.Millisecond)
	g1, f1 := quiesce(), countFds()
	grow := int(float64(g1-g0)/float64(n) + 0.5)
	if grow < 0 {
		grow = 0 // goroutines of an earlier scenario that were still ending when the baseline was taken
	}
	fds := f1 - f0 - len(held) // the harness's own end of every held connection
	fd := int(float64(fds)/float64(n) + 0.5)
	if fd < 0 {
		fd = 0
	}
	res := fmt.Sprintf("grow=%d fd=%d closed=%v", grow, fd, closed == n)
	mon := ""
	switch {
	case grow > 0:
		mon = fmt.Sprintf("goroutines grow with the number of refused sessions whose peer stays connected: %d -> %d over %d refused sessions", g0, g1, n)
	case fd > 0:
		mon = fmt.Sprintf("server-side descriptors grow with the number of refused sessions whose peer stays connected: %d -> %d (of which %d are the peers' own ends) over %d refused sessions", f0, f1, len(held), n)
	case closed != n:
		mon = fmt.Sprintf("the server closed only %d of %d refused sessions within 3s: the others stay open as long as the peer likes", closed, n)
	}
	if mon == "" {
		if err := oneConn(rig, "app", 100); err != nil {
			return "fail:conn", "the client's session no longer works after the refused sessions: " + err.Error()
		}
	}
	return res, mon
}

//go:build verif

package main

import (
	"fmt"
	"strings"
	"time"
)

// ---- C18 / C04 `recon <carrier> <rounds>`: the same upstream object connects, the carrier is cut, and it connects
// again, <rounds> times.  Every physical connection of a TLS carrier must start with a TLS handshake record (0x16),
// every one of a plain carrier must not, and the application must get its echo each time.
// result: `ok <first bytes>` | fail

type reconComp struct{}

func init() { register("recon", reconComp{}) }

func (reconComp) Exec(op string) (string, string, string, bool) {
	f := strings.Fields(op)
	if len(f) != 2 {
		return "bad-op", "", "bad", false
	}
	rounds := 0
	fmt.Sscanf(f[1], "%d", &rounds)
	rig, err := NewRig(RigOpts{Carrier: f[0], Insecure: true, Relay: true})
	if err != nil {
		return "fail:rig", err.Error(), "fail", false
	}
	defer rig.Close()
	for i := 0; i < rounds; i++ {
		var lastErr error
		ok := false
		for try := 0; try < 4 && !ok; try++ {
			c, err := echoOnce(rig, 32, uint64(i), 5*time.Second)
			if err == nil {
				c.Close()
				ok = true
			} else {
				lastErr = err
				time.Sleep(200 * time.Millisecond)
			}
		}
		if !ok {
			return "fail", fmt.Sprintf("round %d: no echo after the carrier was cut and the client had to connect again: %v", i, lastErr), f[0], false
		}
		rig.Relay.Cut()
		time.Sleep(150 * time.Millisecond)
	}
	wantTLS := f[0] == "tcptls" || f[0] == "wss"
	var kinds []string
	mon := ""
	for i, b := range rig.Relay.FirstBytes() {
		k := "plain"
		if b == 0x16 {
			k = "tls"
		} else if b < 0 {
			k = "none"
		}
		kinds = append(kinds, k)
		if mon == "" && b >= 0 && (b == 0x16) != wantTLS {
			mon = fmt.Sprintf("physical connection %d of a %s upstream started with byte 0x%02x: the transport differs from the scheme's (TLS expected: %v)", i+1, f[0], b, wantTLS)
		}
	}
	want := "plain"
	if wantTLS {
		want = "tls"
	}
	// canonical: the kind every connection must have, and whether all had it
	all := true
	for _, k := range kinds {
		if k != want && k != "none" {
			all = false
		}
	}
	return fmt.Sprintf("ok all-%s=%v", want, all), mon, f[0], all
}

func (reconComp) Gen(r *Rand, tier string, emit func(string)) {
	emit("tcptls 3")
	emit("tcp 2")
	emit("wss 2")
	if tier == "thorough" {
		emit("tcptls 6")
		emit("starttls 3")
		emit("ws 3")
	}
}

//go:build verif

package main

import (
	"fmt"
	"strings"
	"time"
)

// ---- C18 / C04 `recon <carrier> <rounds>`: the same upstream object connects, the carrier is cut, and it connects
// again, <rounds> times.  Every physical connection of a TLS carrier must start with a TLS handshake record (0x16),
// every one of a plain carrier must not, and the application must get its echo each time.
// result: `ok <first bytes>` | fail

type reconComp struct{}

func init() { register("recon", reconComp{}) }

func (reconComp) Exec(op string) (string, string, string, bool) {
	f := strings.Fields(op)
	if len(f) == 3 && f[2] == "swap" {
		return reconSwap(f[0], f[1])
	}
	if len(f) != 2 {
		return "bad-op", "", "bad", false
	}
	rounds := 0
	fmt.Sscanf(f[1], "%d", &rounds)
	rig, err := NewRig(RigOpts{Carrier: f[0], Insecure: true, Relay: true})
	if err != nil {
		return "fail:rig", err.Error(), "fail", false
	}
	defer rig.Close()
	for i := 0; i < rounds; i++ {
		var lastErr error
		ok := false
		for try := 0; try < 4 && !ok; try++ {
			c, err := echoOnce(rig, 32, uint64(i), 5*time.Second)
			if err == nil {
				c.Close()
				ok = true
			} else {
				lastErr = err
				time.Sleep(200 * time.Millisecond)
			}
		}
		if !ok {
			why := fmt.Sprintf("round %d: no echo after the carrier was cut and the client had to connect again: %v", i, lastErr)
			wantTLS := f[0] == "tcptls" || f[0] == "wss"
			for k, b := range rig.Relay.FirstBytes() {
				if b >= 0 && (b == 0x16) != wantTLS {
					why = fmt.Sprintf("physical connection %d of a %s upstream started with byte 0x%02x: the transport differs from the scheme's (TLS expected: %v); ", k+1, f[0], b, wantTLS) + why
					break
				}
			}
			return "fail", why, f[0], false
		}
		rig.Relay.Cut()
		time.Sleep(150 * time.Millisecond)
	}
	wantTLS := f[0] == "tcptls" || f[0] == "wss"
	var kinds []string
	mon := ""
	for i, b := range rig.Relay.FirstBytes() {
		k := "plain"
		if b == 0x16 {
			k = "tls"
		} else if b < 0 {
			k = "none"
		}
		kinds = append(kinds, k)
		if mon == "" && b >= 0 && (b == 0x16) != wantTLS {
			mon = fmt.Sprintf("physical connection %d of a %s upstream started with byte 0x%02x: the transport differs from the scheme's (TLS expected: %v)", i+1, f[0], b, wantTLS)
		}
	}
	want := "plain"
	if wantTLS {
		want = "tls"
	}
	// canonical: the kind every connection must have, and whether all had it
	all := true
	for _, k := range kinds {
		if k != want && k != "none" {
			all = false
		}
	}
	return fmt.Sprintf("ok all-%s=%v", want, all), mon, f[0], all
}

// `recon <carrier> <rounds> swap` (TLS carriers): after <rounds> good rounds the endpoint behind the upstream's address
// starts to speak plain text (a plain server with the same channels takes its place) and the carrier is cut.  The
// upstream is still configured for TLS, so it must not complete a session there: the application gets no echo and its
// payload never shows on the carrier.  result: `ok swapped=refused` | `fail swapped=<what happened>`
func reconSwap(carrier, roundsTok string) (string, string, string, bool) {
	rounds := 0
	fmt.Sscanf(roundsTok, "%d", &rounds)
	plain := map[string]string{"tcptls": "tcp", "wss": "ws"}[carrier]
	if plain == "" || rounds < 1 {
		return "bad-op", "", "bad", false
	}
	rig, err := NewRig(RigOpts{Carrier: carrier, Insecure: true, Relay: true})
	if err != nil {
		return "fail:rig", err.Error(), "fail", false
	}
	defer rig.Close()
	other, err := NewRig(RigOpts{Carrier: plain, Insecure: true})
	if err != nil {
		return "fail:rig", err.Error(), "fail", false
	}
	defer other.Close()
	for i := 0; i < rounds; i++ {
		c, err := echoOnce(rig, 32, uint64(i), 5*time.Second)
		if err != nil {
			return "fail:conn", fmt.Sprintf("round %d: %v", i, err), "fail", false
		}
		c.Close()
		if i+1 < rounds {
			rig.Relay.Cut()
			time.Sleep(150 * time.Millisecond)
		}
	}
	before := len(rig.Relay.FirstBytes())
	rig.Relay.SetTarget(other.ServerAddr)
	rig.Relay.Cut()
	time.Sleep(150 * time.Millisecond)
	established := false
	secret := payload(4242, 48)
	for try := 0; try < 3 && !established; try++ {
		c, err := rig.Dial("echo")
		if err != nil {
			continue
		}
		if writeParts(c, secret, 0, 2*time.Second) == nil {
			if got, err := readFullDeadline(c, len(secret), 2*time.Second); err == nil && string(got) == string(secret) {
				established = true
			}
		}
		c.Close()
		time.Sleep(100 * time.Millisecond)
	}
	up, _, _ := rig.Relay.Captured()
	clear := strings.Contains(string(up), string(secret))
	firstPlain := false
	for _, b := range rig.Relay.FirstBytes()[before:] {
		if b >= 0 && b != 0x16 {
			firstPlain = true
		}
	}
	switch {
	case established || clear:
		return fmt.Sprintf("fail swapped=established:%v payload-in-clear:%v", established, clear),
			fmt.Sprintf("a %s upstream, after its carrier was lost, completed a session with an endpoint that speaks plain text (echo received: %v, application payload readable on the carrier: %v): an endpoint configured for TLS completed a plaintext session", carrier, established, clear), carrier + " swap", false
	case firstPlain:
		return "fail swapped=plaintext-attempt",
			fmt.Sprintf("a %s upstream, connecting again after its carrier was lost, opened its physical connection in plain text (first byte is not a TLS record)", carrier), carrier + " swap", false
	}
	return "ok swapped=refused", "", carrier + " swap", true
}

func (reconComp) Gen(r *Rand, tier string, emit func(string)) {
	emit("tcptls 2 swap")
	emit("tcptls 3")
	emit("tcp 2")
	emit("wss 2")
	if tier == "thorough" {
		emit("tcptls 6")
		emit("wss 2 swap")
		emit("tcptls 1 swap")
		emit("starttls 3")
		emit("ws 3")
	}
}

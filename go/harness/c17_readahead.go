//go:build verif

package main

import (
	"bytes"
	"fmt"
	"io"
	"strconv"
	"strings"
	"sync/atomic"
	"time"

	"github.com/bokysan/socketace/v2/internal/server"
	"github.com/bokysan/socketace/v2/internal/streams"
)

// ---- C17 / C01 `readahead <k> <len…>`: the real server per-stream path (multiplexToUpstream: channel selection, then
// the copy loops) on an in-memory stream whose peer sends the k selection bytes AND its payload without waiting for the
// server's answers, cut into writes of the given lengths, then finishes.  The target must be handed exactly the bytes
// after the k-th, then end-of-stream.  result: `target=<bytes the target got>`
type readaheadComp struct{}

func init() { register("readahead", readaheadComp{}) }

func msDelimited(s string) []byte {
	b := []byte{byte(len(s) + 1)}
	b = append(b, s...)
	return append(b, '\n')
}

func (readaheadComp) Exec(op string) (string, string, string, bool) {
	f := strings.Fields(op)
	if len(f) < 2 {
		return "bad-op", "", "bad", false
	}
	k, err := strconv.Atoi(f[0])
	tokens := append(msDelimited("/multistream/1.0.0"), msDelimited("/x")...)
	if err != nil || k != len(tokens) {
		return "bad-op", "", "bad", false
	}
	var lens []int
	total := 0
	for _, t := range f[1:] {
		n, err := strconv.Atoi(t)
		if err != nil || n < 0 || n > 1<<22 {
			return "bad-op", "", "bad", false
		}
		lens = append(lens, n)
		total += n
	}
	payloadLen := total - k
	if payloadLen < 0 {
		payloadLen = 0
	}
	all := append(append([]byte(nil), tokens...), streamBytes(0, payloadLen)...)
	all = all[:minInt(len(all), total)]
	dNear, dFar := memPair()
	uNear, uFar := memPair()
	uFar.startCounting()
	ret := make(chan error, 1)
	chans := server.Channels{&pipeFakeChannel{name: "x", conn: uNear}}
	go func() { ret <- server.VerifMultiplexToUpstream(chans, streams.NewNamedConnection(dNear, "down")) }()
	var answers bytes.Buffer
	drained := make(chan struct{})
	go func() { _, _ = io.Copy(&answers, dFar); close(drained) }()
	off := 0
	for _, n := range lens {
		if n == 0 {
			continue
		}
		if _, err := dFar.Write(all[off : off+n]); err != nil {
			return "fail:write", err.Error(), "fail", false
		}
		off += n
		time.Sleep(200 * time.Microsecond)
	}
	dFar.closeWrite()
	select {
	case <-ret:
	case <-time.After(8 * time.Second):
		_ = dFar.Close()
		_ = uFar.Close()
		return "fail:hang", "the per-stream handler did not end within 8 s after the peer had finished", "fail", false
	}
	_ = dFar.Close()
	<-drained
	got, bad := uFar.received()
	closedUp := atomic.LoadInt32(&uNear.nclosed) == 1
	_ = uFar.Close()
	mon := ""
	switch {
	case bad:
		mon = "the target was handed bytes that are not the peer's payload in order"
	case total >= k && got != total-k:
		mon = fmt.Sprintf("the peer sent %d selection bytes and %d payload bytes (writes %v) and finished; the target was handed %d bytes", k, total-k, lens, got)
	case total >= k && !closedUp:
		mon = "the target's connection was not closed after the peer had finished"
	}
	class := "short"
	if total >= k {
		class = fmt.Sprintf("w%d/%s", minInt(len(lens), 4), sizeBucket(total-k))
	}
	return fmt.Sprintf("target=%d", got), mon, class, total > k
}

func sizeBucket(n int) string {
	switch {
	case n == 0:
		return "0"
	case n < 64:
		return "small"
	case n < 32768:
		return "mid"
	}
	return "big"
}

func (readaheadComp) Gen(r *Rand, tier string, emit func(string)) {
	const k = 24 // 1+19 ("/multistream/1.0.0\n") + 1+3 ("/x\n")
	emit(fmt.Sprintf("%d %d", k, k+1))          // everything in one write
	emit(fmt.Sprintf("%d %d", k, k+700))        // …
	emit(fmt.Sprintf("%d %d", k, k+40000))      // more than the wrapper's buffer in one write
	emit(fmt.Sprintf("%d %d 5", k, k))          // the project's own client: payload after the selection
	emit(fmt.Sprintf("%d 20 4 100", k))         // token boundaries
	emit(fmt.Sprintf("%d 20 %d", k, 4+32768+5)) // second token together with more than a buffer
	emit(fmt.Sprintf("%d %d", k, k))            // selection only, then end
	emit(fmt.Sprintf("%d 10", k))               // ends inside the selection
	n := 150
	if tier == "thorough" {
		n = 1500
	}
	for i := 0; i < n; i++ {
		parts := 1 + int(r.Next()%6)
		var sb strings.Builder
		fmt.Fprintf(&sb, "%d", k)
		for j := 0; j < parts; j++ {
			var l int
			switch r.Next() % 6 {
			case 0:
				l = int(r.Next() % 4)
			case 1:
				l = int(r.Next() % 30)
			case 2:
				l = k - 2 + int(r.Next()%5)
			case 3:
				l = int(r.Next() % 3000)
			case 4:
				l = 32768 - 30 + int(r.Next()%60)
			default:
				l = int(r.Next() % 100000)
			}
			fmt.Fprintf(&sb, " %d", l)
		}
		emit(sb.String())
	}
}

//go:build verif

package main

import (
	"bytes"
	"fmt"
	"strconv"
	"strings"

	sdns "github.com/bokysan/socketace/v2/internal/streams/dns"
	"github.com/bokysan/socketace/v2/internal/streams/dns/commands"
	"github.com/bokysan/socketace/v2/internal/streams/dns/util"
	"github.com/bokysan/socketace/v2/internal/util/enc"
	"github.com/miekg/dns"
	"golang.org/x/net/dns/dnsmessage"
)

// ---- C09: DNS tunnel requests through the real serializer and real miekg Pack/Unpack ----
//
// op lines (after the component keyword):
//   req <codec> <domain> <cache3> <oracle> <cmd> <fields…>
//        v <ver> | o <uid> <lazy> <multi> <closed> <down> <up> <frag> | c <uid> <ack> <haspkt> <seq> <datahex>
//        y <codec letter> | z <uid> <patternhex> | r <uid> <frag>
//   mtu <domain length> <codec> <multi 0|1>
//   par <G> <iters> <req …|mtu …> { ; <req …|mtu …> }     the listed ops processed concurrently (c09_par.go)
//
// <oracle> is "-" or a comma separated table e:<hexin>=<hexout> / d:<hexin>=<hexout|!> of what the real
// codec answered on the inputs of this very case.  The codecs are property C08's subject; the Lean model
// of this component takes the codec as a parameter and the driver instantiates it with C08's models
// (every codec except Base192, which would be a table look-up).  Exec ignores the token and always
// uses the real codec.

type recEnc struct {
	enc.Encoder
	rec *[]string
}

func (r recEnc) Encode(b []byte) []byte {
	out := r.Encoder.Encode(b)
	*r.rec = append(*r.rec, "e:"+hexs(b)+"="+hexs(out))
	return out
}

func (r recEnc) Decode(b []byte) ([]byte, error) {
	out, err := r.Encoder.Decode(b)
	if err != nil {
		*r.rec = append(*r.rec, "d:"+hexs(b)+"=!")
	} else {
		*r.rec = append(*r.rec, "d:"+hexs(b)+"="+hexs(out))
	}
	return out, err
}

func oracleToken(rec []string) string {
	if len(rec) == 0 {
		return "-"
	}
	seen := map[string]bool{}
	var out []string
	for _, s := range rec {
		if !seen[s] {
			seen[s] = true
			out = append(out, s)
		}
	}
	return strings.Join(out, ",")
}

// codecs whose behaviour a model looks up instead of computing (the `dnsresp` component, C10)
func oracleCodec(letter string) bool { return letter == "W" || letter == "X" || letter == "V" }

// … and for `dnsreq`: none of the selectable ones any more — the model computes Base32/64/64u/85/91/128 with
// property C08's models (SA.Model.WireCodecInst); the token stays in the line format (corpus lines carry
// it, and Base192 would be looked up from it).
func reqOracleCodec(letter string) bool { return false }

func codecOf(letter string, rec *[]string) (enc.Encoder, error) {
	if len(letter) != 1 {
		return nil, fmt.Errorf("codec")
	}
	e, err := enc.FromCode(letter[0])
	if err != nil {
		return nil, err
	}
	if rec != nil {
		return recEnc{e, rec}, nil
	}
	return e, nil
}

func triPtr(s string) *bool {
	switch s {
	case "t":
		v := true
		return &v
	case "f":
		v := false
		return &v
	}
	return nil
}

func triStr(b *bool) string {
	if b == nil {
		return "n"
	}
	if *b {
		return "t"
	}
	return "f"
}

func encLetter(e enc.Encoder) string {
	if e == nil {
		return "_"
	}
	return string([]byte{e.Code()})
}

func atoiU(s string, max uint64) (uint64, error) {
	v, err := strconv.ParseUint(s, 10, 64)
	if err != nil || v > max {
		return 0, fmt.Errorf("num")
	}
	return v, nil
}

// parseRequest builds the real request object from the field tokens.
func parseRequest(t []string) (commands.Request, error) {
	if len(t) == 0 {
		return nil, fmt.Errorf("short")
	}
	bad := fmt.Errorf("fields")
	switch t[0] {
	case "v":
		if len(t) != 2 {
			return nil, bad
		}
		v, err := atoiU(t[1], 0xFFFFFFFF)
		if err != nil {
			return nil, err
		}
		return &commands.VersionRequest{ClientVersion: uint32(v)}, nil
	case "o":
		if len(t) != 8 {
			return nil, bad
		}
		uid, err := atoiU(t[1], 65535)
		if err != nil {
			return nil, err
		}
		r := &commands.SetOptionsRequest{UserId: uint16(uid), LazyMode: triPtr(t[2]), MultiQuery: triPtr(t[3]), Closed: triPtr(t[4])}
		if t[5] != "_" {
			e, err := codecOf(t[5], nil)
			if err != nil {
				return nil, err
			}
			r.DownstreamEncoder = e
		}
		if t[6] != "_" {
			e, err := codecOf(t[6], nil)
			if err != nil {
				return nil, err
			}
			r.UpstreamEncoder = e
		}
		if t[7] != "_" {
			f, err := atoiU(t[7], 0xFFFFFFFF)
			if err != nil {
				return nil, err
			}
			f32 := uint32(f)
			r.DownstreamFragmentSize = &f32
		}
		return r, nil
	case "c":
		if len(t) != 6 {
			return nil, bad
		}
		uid, e1 := atoiU(t[1], 65535)
		ack, e2 := atoiU(t[2], 65535)
		seq, e3 := atoiU(t[4], 65535)
		data, e4 := unhex(t[5])
		if e1 != nil || e2 != nil || e3 != nil || e4 != nil {
			return nil, bad
		}
		r := &commands.PacketRequest{UserId: uint16(uid), LastAckedSeqNo: uint16(ack)}
		if t[3] == "1" {
			r.Packet = &util.Packet{SeqNo: uint16(seq), Data: data}
		}
		return r, nil
	case "y":
		if len(t) != 2 {
			return nil, bad
		}
		e, err := codecOf(t[1], nil)
		if err != nil {
			return nil, err
		}
		return &commands.TestDownstreamEncoderRequest{DownstreamEncoder: e}, nil
	case "z":
		if len(t) != 3 {
			return nil, bad
		}
		uid, e1 := atoiU(t[1], 65535)
		pat, e2 := unhex(t[2])
		if e1 != nil || e2 != nil {
			return nil, bad
		}
		return &commands.TestUpstreamEncoderRequest{UserId: uint16(uid), Pattern: pat}, nil
	case "r":
		if len(t) != 3 {
			return nil, bad
		}
		uid, e1 := atoiU(t[1], 65535)
		f, e2 := atoiU(t[2], 0xFFFFFFFF)
		if e1 != nil || e2 != nil {
			return nil, bad
		}
		return &commands.TestDownstreamFragmentSizeRequest{UserId: uint16(uid), FragmentSize: uint32(f)}, nil
	}
	return nil, bad
}

// renderRequest is the canonical field rendering (same token format as the op).
func renderRequest(r commands.Request) string {
	switch v := r.(type) {
	case *commands.VersionRequest:
		return fmt.Sprintf("v %d", v.ClientVersion)
	case *commands.SetOptionsRequest:
		f := "_"
		if v.DownstreamFragmentSize != nil {
			f = strconv.FormatUint(uint64(*v.DownstreamFragmentSize), 10)
		}
		return fmt.Sprintf("o %d %s %s %s %s %s %s", v.UserId, triStr(v.LazyMode), triStr(v.MultiQuery), triStr(v.Closed),
			encLetter(v.DownstreamEncoder), encLetter(v.UpstreamEncoder), f)
	case *commands.PacketRequest:
		if v.Packet == nil {
			return fmt.Sprintf("c %d %d 0 0 -", v.UserId, v.LastAckedSeqNo)
		}
		return fmt.Sprintf("c %d %d 1 %d %s", v.UserId, v.LastAckedSeqNo, v.Packet.SeqNo, hexs(v.Packet.Data))
	case *commands.TestDownstreamEncoderRequest:
		return "y " + encLetter(v.DownstreamEncoder)
	case *commands.TestUpstreamEncoderRequest:
		return fmt.Sprintf("z %d %s", v.UserId, hexs(v.Pattern))
	case *commands.TestDownstreamFragmentSizeRequest:
		return fmt.Sprintf("r %d %d", v.UserId, v.FragmentSize)
	}
	return "unknown"
}

// wireNameStats walks the question name in the packed message: longest label, wire octets (length
// bytes + labels + root), or ok=false when the bytes are not a plain label sequence.
func wireNameStats(msg []byte) (maxLabel, octets int, ok bool) {
	off := 12
	for {
		if off >= len(msg) {
			return 0, 0, false
		}
		c := int(msg[off])
		off++
		octets++
		if c == 0 {
			return maxLabel, octets, true
		}
		if c&0xC0 != 0 || off+c > len(msg) {
			return 0, 0, false
		}
		if c > maxLabel {
			maxLabel = c
		}
		off += c
		octets += c
	}
}

type dnsreqComp struct{}

func init() { register("dnsreq", dnsreqComp{}) }

const selectableUpstream = "TSUWXV"

func (c dnsreqComp) Exec(op string) (string, string, string, bool) {
	return c.run(op, nil)
}

func (dnsreqComp) run(op string, rec *[]string) (result, monitor, class string, nontrivial bool) {
	t := strings.Fields(op)
	if len(t) == 0 {
		return "bad-op", "", "bad-op", false
	}
	switch t[0] {
	case "mtu":
		if len(t) != 4 {
			return "bad-op", "", "bad-op", false
		}
		l, e1 := atoiU(t[1], 100000)
		e, e2 := codecOf(t[2], nil)
		if e1 != nil || e2 != nil {
			return "bad-op", "", "bad-op", false
		}
		v := sdns.VerifUpstreamMtu(strings.Repeat("a", int(l)), e, t[3] == "1")
		if v > 1<<30 {
			// the float went negative; uint32() of a negative float is implementation-defined in Go
			return "mtu neg", "", "mtu-neg", false
		}
		return fmt.Sprintf("mtu %d", v), "", "mtu", true
	case "par":
		G, iters, subs, ok := splitPar(t)
		if !ok || rec != nil {
			return "bad-op", "", "bad-op", false
		}
		for _, s := range subs {
			if strings.HasPrefix(s, "par") {
				return "bad-op", "", "bad-op", false
			}
		}
		var c dnsreqComp
		res, mon, allOK := runPar(func(op string) (string, string) {
			r, m, _, _ := c.run(op, nil)
			return r, m
		}, G, iters, subs)
		return res, mon, fmt.Sprintf("par/n%d", (len(subs)+3)/4*4), allOK
	case "req":
	default:
		return "bad-op", "", "bad-op", false
	}
	if len(t) < 6 {
		return "bad-op", "", "bad-op", false
	}
	letter, domain, cache := t[1], t[2], t[3]
	codec, err := codecOf(letter, rec)
	if err != nil || len(cache) != 3 {
		return "bad-op", "", "bad-op", false
	}
	req, err := parseRequest(t[5:])
	if err != nil {
		return "bad-op", "", "bad-op", false
	}
	sent := renderRequest(req)
	cmd := t[5]
	class = cmd + "/" + letter
	ser := commands.Serializer{Upstream: util.UpstreamConfig{Encoder: codec}, Domain: domain}

	// does the codec itself round-trip on what this request hands it?  (C08's subject; C09 is
	// stated for codecs that do)
	codecOK := true
	probe := []string{}
	if body, e := req.Encode(recEnc{codec, &probe}); e == nil && body != nil {
		for _, p := range probe {
			if strings.HasPrefix(p, "e:") {
				kv := strings.SplitN(p[2:], "=", 2)
				in, _ := unhex(kv[0])
				out, _ := unhex(kv[1])
				back, derr := codec.Decode(out)
				if derr != nil || !bytes.Equal(back, in) {
					codecOK = false
				}
			}
		}
	}
	if rec != nil {
		*rec = (*rec)[:0]
	}

	payloadLen := -1
	if pr, ok := req.(*commands.PacketRequest); ok && pr.Packet != nil {
		payloadLen = len(pr.Packet.Data)
	}
	inScope := strings.Contains(selectableUpstream, letter)
	// a domain spelled otherwise than as plain labels (final dot, characters that need escaping, empty or over-long
	// labels) may be refused — with an error; only "every request is emitted and decoded" is not demanded of it
	plain := plainDomain(domain)
	if !plain {
		class += "/spelled"
	}
	if pr, ok := req.(*commands.PacketRequest); ok && pr.UserId >= 1296 {
		inScope = false
	}
	switch v := req.(type) {
	case *commands.SetOptionsRequest:
		// 0xFFFFFFFF is the wire sentinel for "no fragment size": not a transmissible value
		inScope = inScope && v.UserId < 1296 && (v.DownstreamFragmentSize == nil || *v.DownstreamFragmentSize != 0xFFFFFFFF)
	case *commands.TestUpstreamEncoderRequest:
		// the probe is written into the name as it is; '.' and '\\' are name syntax, and finding out
		// that such a pattern does not come through is the probe's purpose (not a selectable alphabet)
		inScope = inScope && v.UserId < 1296 && !bytes.ContainsAny(v.Pattern, ".\\")
	case *commands.TestDownstreamFragmentSizeRequest:
		inScope = inScope && v.UserId < 1296
	}

	msg, err := ser.EncodeDnsRequestWithParams(req, dnsmessage.Type(util.QueryTypeTxt), codec)
	if err != nil {
		mon := ""
		if inScope && plain && codecOK && payloadLen >= 0 {
			mtu := sdns.VerifUpstreamMtu(domain, codec, false)
			if mtu < 1<<30 && uint32(payloadLen) <= mtu {
				mon = fmt.Sprintf("payload of %d bytes is within the computed upstream fragment size %d but the request is rejected as too long", payloadLen, mtu)
			}
		}
		return "enc-error", mon, class + "/enc-error", false
	}
	// the three cache-busting characters are random in the code; install the op's
	name := []byte(msg.Question[0].Name)
	if len(name) >= 4 {
		copy(name[1:4], cache)
	}
	msg.Question[0].Name = string(name)

	packed, err := msg.Pack()
	if err != nil {
		mon := ""
		if inScope && plain && codecOK {
			mon = "request does not pack into a DNS message"
		}
		return "pack-error", mon, class + "/pack-error", false
	}
	maxLabel, octets, okw := wireNameStats(packed)
	m2 := new(dns.Msg)
	if err := m2.Unpack(packed); err != nil {
		mon := ""
		if inScope && plain && codecOK {
			mon = "packed request does not unpack"
		}
		return "unpack-error", mon, class + "/unpack-error", false
	}
	nameHex := hexs([]byte(m2.Question[0].Name))
	data := commands.ComposeRequest(m2, domain)
	dec, err := ser.DecodeDnsRequest(data)
	head := fmt.Sprintf("%s %d %d", nameHex, maxLabel, octets)
	if err != nil {
		mon := ""
		if inScope && plain && codecOK {
			mon = "server fails to decode the request"
		}
		return "dec-error " + head, mon, class + "/dec-error", false
	}
	got := renderRequest(dec)
	if inScope && codecOK {
		switch {
		case !okw:
			monitor = "question name is not a plain label sequence"
		case maxLabel > 63:
			monitor = fmt.Sprintf("label of %d octets", maxLabel)
		case octets-1 > 253:
			monitor = fmt.Sprintf("name of %d octets", octets-1)
		case got != sent:
			monitor = "silent difference: decoded request differs from the one sent: sent [" + sent + "] got [" + got + "]"
		}
	}
	if !codecOK {
		class += "/codec-defect"
	} else if !inScope {
		class += "/out-of-scope"
	} else {
		class += "/ok"
	}
	return "ok " + head + " " + got, monitor, class, true
}

// ---- generators ----

var reqDomains = []string{
	"a.b", "example.org", "t.example.com", "tunnel.some-longer-domain.example.co.uk",
}

// domainSpellings: the tunnel domain as an operator may write it in the configuration.  The wire paths must treat
// every spelling consistently on both sides: the round trip is lossless or a failure is reported.
type domainSpelling struct{ kind, domain string }

func domainSpellings() []domainSpelling {
	l63 := strings.Repeat("abcdefghi", 7)
	return []domainSpelling{
		{"plain", "t.example.org"},
		{"fqdn", "t.example.org."},
		{"fqdn", "a.b."},
		{"fqdn", "tunnel."},
		{"fqdn", domainOfLen(120) + "."},
		{"fqdn", "T.Example.ORG."},
		{"case", "T.EXAMPLE.ORG"},
		{"case", "Tunnel.Example.Org"},
		{"case", "tUNNEL"},
		{"one-label", "tunnel"},
		{"one-label", "x"},
		{"many-labels", "a.b.c.d.e.f.g.h.i.j.k.l"},
		{"hostchars", "_t-1.ex-ample.0rg"},
		{"label63", l63 + ".org"},
		{"label64", l63 + "j.org"},
		{"long", domainOfLen(200)},
		{"long", domainOfLen(230)},
		{"long", domainOfLen(240)},
		{"escape", "a@b.example.org"},
		{"escape", "a@@b.c"},
		{"escape", `a\.b.example.org`},
		{"escape", `t\065st.example.org`},
		{"escape", `\116\117\110.example.org`},
		{"escape", `a\032b.org`},
		{"escape", `a\255b.org`},
		{"escape", "a(b).org"},
		{"escape", "a;b.org"},
		{"escape", `a"b.org`},
		{"escape", "a'b.org"},
		{"escape", `a\\b.org`},
		{"escape", `\t.example.org`},
		{"escape", `a.b\.`},
		{"malformed", "a..b"},
		{"malformed", ".a.b"},
		{"malformed", "."},
		{"malformed", "a.b.."},
		{"malformed", `a.b\`},
	}
}

// plainDomain: dot-separated labels of 1..63 host-name characters, no final dot — the spelling C09's theorems are
// stated for (DomainOk).  For every other spelling a reported failure is acceptable, a silent difference is not.
func plainDomain(d string) bool {
	if d == "" {
		return false
	}
	for _, l := range strings.Split(d, ".") {
		if len(l) < 1 || len(l) > 63 {
			return false
		}
		for i := 0; i < len(l); i++ {
			c := l[i]
			if !(c >= 'a' && c <= 'z' || c >= 'A' && c <= 'Z' || c >= '0' && c <= '9' || c == '-' || c == '_') {
				return false
			}
		}
	}
	return true
}

func domainOfLen(n int) string {
	// labels of at most 20 letters, total length n (n >= 1)
	var sb strings.Builder
	for sb.Len() < n {
		if sb.Len() > 0 && (sb.Len()+1)%21 == 0 && sb.Len() < n-1 {
			sb.WriteByte('.')
		} else {
			sb.WriteByte(byte('a' + sb.Len()%26))
		}
	}
	return sb.String()
}

const base36 = "abcdefghijklmnopqrstuvwxyz0123456789"

func randCache(r *Rand) string {
	return string([]byte{base36[r.Intn(36)], base36[r.Intn(36)], base36[r.Intn(36)]})
}

func stressBytes(r *Rand, n int, mode int) []byte {
	b := make([]byte, n)
	stress := []byte{0x00, '"', ';', 0x7f, 0xfd, '(', ')', '@', ' ', '\'', 0xff, 0x1f, 0x20, 0x7e, '0', '9', 'a', 'Z'}
	for i := range b {
		switch mode {
		case 0:
			b[i] = byte(r.Next())
		case 1:
			b[i] = stress[r.Intn(len(stress))]
		case 2:
			b[i] = 0
		case 3:
			b[i] = 0xff
		default:
			b[i] = byte(i)
		}
	}
	return b
}

func (c dnsreqComp) emitReq(emit func(string), letter, domain, cache, fields string) {
	op := fmt.Sprintf("req %s %s %s - %s", letter, domain, cache, fields)
	if reqOracleCodec(letter) {
		rec := []string{}
		c.run(op, &rec)
		op = fmt.Sprintf("req %s %s %s %s %s", letter, domain, cache, oracleToken(rec), fields)
	}
	emit(op)
}

func (c dnsreqComp) Gen(r *Rand, tier string, emit func(string)) {
	thorough := tier == "thorough"
	codecs := []string{"T", "S", "U", "W", "X", "V"}
	allCodecs := []string{"T", "S", "U", "W", "X", "V", "Y", "R"}

	// (1) getUpstreamMtu: every domain length x every registry codec x multi-query flag (exhaustive)
	for l := 0; l <= 260; l++ {
		for _, k := range allCodecs {
			emit(fmt.Sprintf("mtu %d %s 0", l, k))
			emit(fmt.Sprintf("mtu %d %s 1", l, k))
		}
	}

	domLens := []int{3, 11, 40, 100, 200, 230}
	if thorough {
		domLens = []int{1, 3, 11, 40, 57, 100, 150, 200, 220, 230, 236}
	}
	uids := []int{0, 35, 36, 1295}
	seqs := []int{0, 255, 256, 65535}
	tri := []string{"n", "t", "f"}
	letters := []string{"_", "T", "S", "U", "W", "X", "V", "R", "Y"}

	// (2) packet requests at the length boundaries of every domain x codec
	for _, dl := range domLens {
		domain := domainOfLen(dl)
		for _, k := range codecs {
			e, _ := codecOf(k, nil)
			mtu := int(sdns.VerifUpstreamMtu(domain, e, false))
			if mtu > 1<<20 {
				mtu = 0
			}
			lens := map[int]bool{0: true, 1: true, 2: true, 3: true}
			for d := -3; d <= 12; d++ {
				if mtu+d >= 0 {
					lens[mtu+d] = true
				}
			}
			// the dotify thresholds: encoded length around 57/60/114
			for n := 20; n <= 60; n++ {
				lens[n] = true
			}
			if thorough {
				for n := 0; n <= mtu+12; n++ {
					lens[n] = true
				}
			}
			for n := 0; n <= mtu+12 && n < 400; n++ {
				if !lens[n] {
					continue
				}
				mode := r.Intn(5)
				data := stressBytes(r, n, mode)
				uid := uids[r.Intn(4)]
				if r.Intn(3) == 0 {
					uid = r.Intn(1296)
				}
				ack, seq := seqs[r.Intn(4)], seqs[r.Intn(4)]
				if r.Bool() {
					ack, seq = r.Intn(65536), r.Intn(65536)
				}
				c.emitReq(emit, k, domain, randCache(r), fmt.Sprintf("c %d %d 1 %d %s", uid, ack, seq, hexs(data)))
			}
			c.emitReq(emit, k, domain, randCache(r), fmt.Sprintf("c %d %d 0 0 -", uids[r.Intn(4)], seqs[r.Intn(4)]))
		}
	}

	// (3) every other command x codec x domain, enumerated field boundaries
	for _, domain := range append([]string{}, reqDomains...) {
		for _, k := range codecs {
			for _, v := range []uint64{0, 1, 255, 256, 65535, 65536, 0x12345678, 0xFFFFFFFF} {
				c.emitReq(emit, k, domain, randCache(r), fmt.Sprintf("v %d", v))
			}
			for _, uid := range uids {
				for _, f := range []string{"_", "0", "1", "255", "65536", "4294967294", "4294967295"} {
					c.emitReq(emit, k, domain, randCache(r), fmt.Sprintf("o %d %s %s %s %s %s %s", uid,
						tri[r.Intn(3)], tri[r.Intn(3)], tri[r.Intn(3)], letters[r.Intn(len(letters))], letters[r.Intn(len(letters))], f))
				}
				for _, f := range []uint64{0, 1, 200, 1200, 65535, 0xFFFFFFFF} {
					c.emitReq(emit, k, domain, randCache(r), fmt.Sprintf("r %d %d", uid, f))
				}
			}
			for _, l := range letters[1:] {
				c.emitReq(emit, k, domain, randCache(r), "y "+l)
				c.emitReq(emit, k, domain, randCache(r), "y "+strings.ToLower(l))
			}
		}
	}
	// all 27 tri-state combinations and all 81 codec-letter pairs once
	for _, a := range tri {
		for _, b := range tri {
			for _, cc := range tri {
				c.emitReq(emit, "T", "example.org", randCache(r), fmt.Sprintf("o %d %s %s %s T T 100", r.Intn(1296), a, b, cc))
			}
		}
	}
	for _, a := range letters {
		for _, b := range letters {
			c.emitReq(emit, "T", "example.org", randCache(r), fmt.Sprintf("o %d n n n %s %s _", r.Intn(1296), a, b))
		}
	}
	// (4) upstream codec probes: the real test patterns of every codec, over every upstream codec
	for _, pk := range allCodecs {
		pe, _ := codecOf(pk, nil)
		for _, pat := range pe.TestPatterns() {
			for _, domain := range []string{"a.b", "example.org"} {
				for _, k := range []string{"T", "V"} {
					c.emitReq(emit, k, domain, randCache(r), fmt.Sprintf("z %d %s", uids[r.Intn(4)], hexs(pat)))
				}
			}
		}
	}
	c.emitReq(emit, "T", "example.org", randCache(r), "z 7 -")
	// (5) every user id once (header coding), every cache character once
	for uid := 0; uid < 1296; uid++ {
		if thorough || uid%7 == 0 || uid < 40 || uid > 1290 {
			c.emitReq(emit, "T", "example.org", randCache(r), fmt.Sprintf("r %d %d", uid, uid))
		}
	}
	for i := 0; i < 36; i++ {
		ch := string([]byte{base36[i], base36[(i+1)%36], base36[(i+7)%36]})
		c.emitReq(emit, "T", "example.org", ch, "c 5 6 1 7 01ff")
	}
	// user ids outside the property's range (taken mod 1296 by the code; not monitored)
	for _, uid := range []int{1296, 1297, 40000, 65535} {
		c.emitReq(emit, "T", "example.org", randCache(r), fmt.Sprintf("c %d 1 1 2 aa", uid))
	}
	// (6) random mix
	n := 1500
	if thorough {
		n = 30000
	}
	for i := 0; i < n; i++ {
		k := codecs[r.Intn(len(codecs))]
		var domain string
		if r.Bool() {
			domain = reqDomains[r.Intn(len(reqDomains))]
		} else {
			domain = domainOfLen(1 + r.Intn(235))
		}
		var f string
		switch r.Intn(8) {
		case 0:
			f = fmt.Sprintf("v %d", r.Next()&0xFFFFFFFF)
		case 1:
			fr := "_"
			if r.Bool() {
				fr = strconv.FormatUint(r.Next()&0xFFFFFFFF, 10)
			}
			f = fmt.Sprintf("o %d %s %s %s %s %s %s", r.Intn(1296), tri[r.Intn(3)], tri[r.Intn(3)], tri[r.Intn(3)],
				letters[r.Intn(len(letters))], letters[r.Intn(len(letters))], fr)
		case 2:
			f = "y " + letters[1+r.Intn(len(letters)-1)]
		case 3:
			f = fmt.Sprintf("r %d %d", r.Intn(1296), r.Next()&0xFFFFFFFF)
		default:
			e, _ := codecOf(k, nil)
			mtu := int(sdns.VerifUpstreamMtu(domain, e, false))
			if mtu > 1<<20 {
				mtu = 0
			}
			ln := r.Intn(mtu + 6)
			f = fmt.Sprintf("c %d %d 1 %d %s", r.Intn(1296), r.Intn(65536), r.Intn(65536), hexs(stressBytes(r, ln, r.Intn(5))))
		}
		c.emitReq(emit, k, domain, randCache(r), f)
	}
	// (7) the same path for several requests at the same moment (the server's handler goroutines)
	c.genPar(r, thorough, emit)
	// (8) the tunnel domain as configured: every spelling x codec x command
	for _, sp := range domainSpellings() {
		for _, k := range codecs {
			fs := []string{
				"v 16909060",
				fmt.Sprintf("c %d %d 0 0 -", r.Intn(1296), r.Intn(65536)),
				fmt.Sprintf("c %d %d 1 %d %s", r.Intn(1296), r.Intn(65536), r.Intn(65536), hexs(stressBytes(r, 1+r.Intn(8), 0))),
				fmt.Sprintf("c %d %d 1 %d %s", r.Intn(1296), r.Intn(65536), r.Intn(65536), hexs(stressBytes(r, 30+r.Intn(30), r.Intn(2)))),
				fmt.Sprintf("o %d t f n %s %s 1200", r.Intn(1296), k, k),
				fmt.Sprintf("r %d %d", r.Intn(1296), 100+r.Intn(1100)),
				fmt.Sprintf("z %d %s", r.Intn(1296), hexs([]byte(base36[:8+r.Intn(28)]))),
				"y " + k,
			}
			if thorough {
				for _, n := range []int{0, 2, 3, 4, 5, 10, 20, 57, 80, 120} {
					fs = append(fs, fmt.Sprintf("c %d %d 1 %d %s", r.Intn(1296), r.Intn(65536), r.Intn(65536), hexs(stressBytes(r, n, r.Intn(5)))))
				}
			}
			for _, f := range fs {
				c.emitReq(emit, k, sp.domain, randCache(r), f)
			}
		}
	}
}

// genPar: batches of requests processed concurrently.  What varies between the members of a batch is what a shared
// piece of state would mix up: the user (id, ack, seq, payload — equal lengths, so that a foreign buffer still
// decodes into a well-formed request, and different lengths), the codec, the command, the domain.
func (c dnsreqComp) genPar(r *Rand, thorough bool, emit func(string)) {
	codecs := []string{"T", "S", "U", "W", "X", "V"}
	tri := []string{"n", "t", "f"}
	letters := []string{"_", "T", "S", "U", "W", "X", "V", "R", "Y"}
	G, iters, rounds := 24, 40, 1
	if thorough {
		G, iters, rounds = 48, 120, 4
	}
	mtuOf := func(k, domain string) int {
		e, _ := codecOf(k, nil)
		m := int(sdns.VerifUpstreamMtu(domain, e, false))
		if m > 1<<20 {
			m = 0
		}
		return m
	}
	packet := func(k, domain string, n int) string {
		return fmt.Sprintf("req %s %s %s - c %d %d 1 %d %s", k, domain, randCache(r), r.Intn(1296), r.Intn(65536), r.Intn(65536),
			hexs(stressBytes(r, n, r.Intn(2))))
	}
	other := func(k, domain string) string {
		var f string
		switch r.Intn(6) {
		case 0:
			f = fmt.Sprintf("v %d", r.Next()&0xFFFFFFFF)
		case 1:
			f = fmt.Sprintf("o %d %s %s %s %s %s %d", r.Intn(1296), tri[r.Intn(3)], tri[r.Intn(3)], tri[r.Intn(3)],
				letters[r.Intn(len(letters))], letters[r.Intn(len(letters))], r.Intn(70000))
		case 2:
			f = "y " + letters[1+r.Intn(len(letters)-1)]
		case 3:
			f = fmt.Sprintf("r %d %d", r.Intn(1296), r.Next()&0xFFFFFFFF)
		case 4:
			f = fmt.Sprintf("z %d %s", r.Intn(1296), hexs([]byte(base36[:10+r.Intn(26)])))
		default:
			f = fmt.Sprintf("c %d %d 0 0 -", r.Intn(1296), r.Intn(65536))
		}
		return fmt.Sprintf("req %s %s %s - %s", k, domain, randCache(r), f)
	}
	batch := func(members []string) {
		emit(fmt.Sprintf("par %d %d %s", G, iters, strings.Join(members, " "+parSep+" ")))
	}
	domains := append([]string{}, reqDomains...)
	domains = append(domains, domainOfLen(100), domainOfLen(200))
	for round := 0; round < rounds; round++ {
		// one codec, several users
		for _, k := range codecs {
			domain := domains[r.Intn(len(domains))]
			mtu := mtuOf(k, domain)
			for _, equal := range []bool{true, false} {
				n := 1 + r.Intn(mtu+1)
				var ms []string
				for j := 0; j < 8; j++ {
					if !equal {
						n = r.Intn(mtu + 1)
					}
					ms = append(ms, packet(k, domain, n))
				}
				if !equal { // a retransmission of the first user's request, and a poll
					ms[6] = ms[0]
					ms[7] = other(k, domain)
				}
				batch(ms)
			}
		}
		// everything mixed: codecs, commands, domains
		for b := 0; b < 8; b++ {
			var ms []string
			for j := 0; j < 12; j++ {
				k := codecs[(b+j)%len(codecs)]
				if b%4 == 3 && j%2 == 0 {
					k = "V" // every other member Base128 next to the rest
				}
				domain := domains[r.Intn(len(domains))]
				if b%2 == 0 {
					domain = domains[b/2%len(domains)]
				}
				if j%3 == 2 {
					ms = append(ms, other(k, domain))
				} else {
					ms = append(ms, packet(k, domain, r.Intn(mtuOf(k, domain)+3)))
				}
			}
			if b == 7 { // registry codecs that are not selectable share the registry too
				ms[1] = packet("R", "example.org", 20)
				ms[3] = fmt.Sprintf("mtu %d V 0", r.Intn(200))
			}
			batch(ms)
		}
	}
}

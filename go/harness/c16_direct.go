//go:build verif

// Component `poldirect` (C16): how an ESTABLISHED direct connection ends.
//
// The real AbstractListener.HandleConnection with a forward address that IS reachable serves a local
// connection over it; then the piping ends in one of the ways a real deployment sees:
//
//   e  the application closes (FIN)                      -> PipeData returns nil
//   t  the forward target closes (FIN)                   -> PipeData returns nil
//   r  the forward target RESETS the connection          -> PipeData returns an error
//      (SO_LINGER 0: crash / restart of the target)
//   a  the application resets its connection (RST)       -> PipeData returns an error
//
// plus, to put the direct events into every state of the shared Upstreams object:
//
//   n  a local connection on a listener whose forward address refuses the dial (falls to the upstreams)
//   c  a local connection on a listener without forward address (upstreams; kept open)
//   x  the carrier of the upstream session is cut
//
// op:     <mustSecure 0|1> <scripts as in `policy`> <events>
// result: one token per event: <who>/<upstreams dialled>/<physical connections held>/<logical
//         connections opened on the server side>, sampled after HandleConnection has RETURNED.
//
// Property (monitor): a local connection that was served by the forward address is finished when the
// direct connection ends, however it ends: no upstream is dialled for it and no logical connection is
// opened over the upstreams — the upstreams are for connections whose forward address could not be
// reached.
package main

import (
	"fmt"
	"io"
	"net"
	"strings"
	"sync/atomic"
	"time"

	"github.com/bokysan/socketace/v2/internal/client/listener"
	"github.com/bokysan/socketace/v2/internal/client/upstream"
	"github.com/bokysan/socketace/v2/internal/util/addr"
	"github.com/bokysan/socketace/v2/internal/util/cert"
)

// polLogical counts the logical connections that reached a server's channel (tagChannel.OpenConnection)
var polLogical int32

type dirComp struct{}

func init() { register("poldirect", dirComp{}) }

// dirTarget is the forward target: it answers every chunk with "DD:"+chunk, closes on "close!" and
// resets the connection on "reset!".
func dirTarget(c net.Conn, accepted *int32) {
	atomic.AddInt32(accepted, 1)
	defer c.Close()
	buf := make([]byte, 4096)
	for {
		n, err := c.Read(buf)
		if n > 0 {
			switch string(buf[:n]) {
			case "close!":
				return
			case "reset!":
				if tc, ok := c.(*net.TCPConn); ok {
					_ = tc.SetLinger(0)
				}
				return
			}
			if _, werr := c.Write(append([]byte("DD:"), buf[:n]...)); werr != nil {
				return
			}
		}
		if err != nil {
			return
		}
	}
}

type dirRun struct {
	*polRun
	lFwd, lDead, lNone *listener.AbstractListener
	targetConns        int32
}

func newDirRun(ms bool, scripts []string) (*dirRun, error) {
	r := &dirRun{polRun: &polRun{w: &polWorld{}, wait: 4 * time.Second}}
	r.ups = &upstream.Upstreams{MustSecure: ms}
	for i, s := range scripts {
		r.ups.Data = append(r.ups.Data, &fakeUp{w: r.w, idx: i, script: s})
	}
	ln, err := net.Listen("tcp", "127.0.0.1:0")
	if err != nil {
		return nil, err
	}
	r.closers = append(r.closers, func() { _ = ln.Close() })
	go func() {
		for {
			c, err := ln.Accept()
			if err != nil {
				return
			}
			go dirTarget(c, &r.targetConns)
		}
	}()
	dl, err := net.Listen("tcp", "127.0.0.1:0")
	if err != nil {
		return nil, err
	}
	deadAddr := dl.Addr().String()
	_ = dl.Close()
	cfg := &polConfig{cc: cert.ClientConfig{InsecureSkipVerify: true}}
	mk := func(fwd string) *listener.AbstractListener {
		l := &listener.AbstractListener{ProtoName: addr.ProtoName{Name: "echo"},
			Address: addr.MustParseAddress("tcp://127.0.0.1:0"), Upstreams: r.ups, Config: cfg}
		if fwd != "" {
			a := addr.MustParseAddress("tcp://" + fwd)
			l.Forward = &a
		}
		return l
	}
	r.lFwd, r.lDead, r.lNone = mk(ln.Addr().String()), mk(deadAddr), mk("")
	return r, nil
}

// tcpPair is a real loopback connection: only those can be reset
func tcpPair() (app *net.TCPConn, loc net.Conn, err error) {
	ln, err := net.Listen("tcp", "127.0.0.1:0")
	if err != nil {
		return nil, nil, err
	}
	defer ln.Close()
	c, err := net.Dial("tcp", ln.Addr().String())
	if err != nil {
		return nil, nil, err
	}
	loc, err = ln.Accept()
	if err != nil {
		_ = c.Close()
		return nil, nil, err
	}
	return c.(*net.TCPConn), loc, nil
}

type dirStep struct {
	ev      byte
	who     string
	dials   string
	phys    int
	logical int
	targets int
}

func (s dirStep) String() string {
	if s.ev == 'x' {
		return fmt.Sprintf("x/%d", s.phys)
	}
	return fmt.Sprintf("%s/%s/%d/%d", s.who, s.dials, s.phys, s.logical)
}

// direct serves one local connection on the listener with the reachable forward address and ends it
// in the given way; it returns once HandleConnection has returned.
func (r *dirRun) direct(ending byte, msg string) string {
	app, loc, err := tcpPair()
	if err != nil {
		return "F"
	}
	done := make(chan struct{})
	go func() {
		defer close(done)
		r.lFwd.HandleConnection(loc)
	}()
	_ = app.SetDeadline(time.Now().Add(r.wait))
	who, err := pingPong(app, msg)
	if err != nil {
		_ = app.Close()
		who = "F"
		if ne, ok := err.(net.Error); ok && ne.Timeout() {
			who = "B"
		}
	} else {
		switch ending {
		case 'e':
			_ = app.Close()
		case 't':
			_, _ = app.Write([]byte("close!"))
			_, _ = io.Copy(io.Discard, app)
			_ = app.Close()
		case 'r':
			_, _ = app.Write([]byte("reset!"))
			_, _ = io.Copy(io.Discard, app)
			_ = app.Close()
		case 'a':
			_ = app.SetLinger(0)
			_ = app.Close()
		}
	}
	select {
	case <-done:
	case <-time.After(r.wait):
		r.blocked = true
		return "B"
	}
	return who
}

func (r *dirRun) step(ev byte) dirStep {
	st := dirStep{ev: ev}
	r.seq++
	msg := fmt.Sprintf("ping%02d", r.seq%100)
	l0, t0 := atomic.LoadInt32(&polLogical), atomic.LoadInt32(&r.targetConns)
	switch ev {
	case 'e', 't', 'r', 'a':
		st.who = r.direct(ev, msg)
	case 'n':
		who, app := r.local(r.lDead, msg)
		st.who = who
		if app != nil {
			_ = app.Close()
		}
	case 'c':
		who, app := r.local(r.lNone, msg)
		st.who = who
		if app != nil {
			r.kept = append(r.kept, app)
		}
	case 'x':
		r.w.cut(false)
	}
	if st.who == "B" {
		r.blocked = true
	}
	st.dials = r.w.takeDials()
	st.phys = r.w.phys()
	st.logical = int(atomic.LoadInt32(&polLogical) - l0)
	st.targets = int(atomic.LoadInt32(&r.targetConns) - t0)
	return st
}

var dirEndings = map[byte]string{'e': "closed by the application", 't': "closed by the forward target",
	'r': "reset by the forward target", 'a': "reset by the application"}

// dirMonitor states the property on the observations alone.
func dirMonitor(ms bool, scripts []string, steps []dirStep) string {
	intact := -1
	firstUsable := -1
	for i, s := range scripts {
		if usableUp(scriptKind(s, 0), ms) {
			firstUsable = i
			break
		}
	}
	prevPhys := 0
	for n, st := range steps {
		at := fmt.Sprintf("event %d (%c): ", n, st.ev)
		switch st.ev {
		case 'x':
			intact = -1
		case 'e', 't', 'r', 'a':
			if st.who == "B" {
				return at + "the local connection (or HandleConnection) did not finish within the deadline"
			}
			if st.who != "DD" || st.targets != 1 {
				return at + "forward address reachable but the connection was not served by it"
			}
			if st.dials != "-" || st.logical != 0 || st.phys > prevPhys {
				return at + fmt.Sprintf("the local connection was served by the forward address and then %s, yet it was taken to the "+
					"upstreams afterwards: upstream(s) dialled %s, %d logical connection(s) opened over the upstreams, physical "+
					"connections %d -> %d (direct route taken = the upstreams are not touched)", dirEndings[st.ev], st.dials, st.logical, prevPhys, st.phys)
			}
		case 'n', 'c':
			want := intact
			if want < 0 {
				want = firstUsable
			}
			switch {
			case st.who == "B":
				return at + "a local connection was neither served nor refused within the deadline"
			case want < 0 && st.who != "F":
				return at + "served although no upstream is usable"
			case want >= 0 && st.who != fmt.Sprintf("U%d", want):
				return at + fmt.Sprintf("forward address absent / unreachable: expected service by upstream %d, got %s", want, st.who)
			}
			if st.targets != 0 {
				return at + "the forward target received a connection from a listener that does not point at it"
			}
			if want >= 0 && st.logical != 1 {
				return at + fmt.Sprintf("%d logical connections opened for one local connection", st.logical)
			}
			if intact >= 0 && st.dials != "-" {
				return at + "an upstream was dialled although the session is intact"
			}
			if want >= 0 {
				intact = want
			}
		}
		if st.phys > 1 {
			return at + fmt.Sprintf("%d physical connections open", st.phys)
		}
		prevPhys = st.phys
	}
	return ""
}

func (dirComp) Exec(op string) (string, string, string, bool) {
	f := strings.Fields(op)
	if len(f) == 3 && f[0] == "net" {
		if len(f[2]) != 1 || !strings.Contains("etra", f[2]) || !dirNetCarriers[f[1]] {
			return "bad-op", "", "bad", false
		}
		res, mon := dirNet(f[1], f[2][0])
		if mon != "" && !strings.HasPrefix(res, "fail:") {
			if res2, mon2 := dirNet(f[1], f[2][0]); mon2 == "" { // one retry of the whole scenario (loaded machine)
				res, mon = res2, mon2
			}
		}
		return res, mon, "net:" + f[2], strings.HasPrefix(res, "by=forward")
	}
	if len(f) != 3 || (f[0] != "0" && f[0] != "1") {
		return "bad-op", "", "bad", false
	}
	ms := f[0] == "1"
	scripts := strings.Split(f[1], ",")
	if len(scripts) < 1 || len(scripts) > 4 {
		return "bad-op", "", "bad", false
	}
	for _, s := range scripts {
		if !validScript(s) {
			return "bad-op", "", "bad", false
		}
	}
	hist := f[2]
	if len(hist) == 0 || len(hist) > 16 || strings.Trim(hist, "etrancx") != "" {
		return "bad-op", "", "bad", false
	}
	r, err := newDirRun(ms, scripts)
	if err != nil {
		return "fail:setup", err.Error(), "fail", false
	}
	var steps []dirStep
	for i := 0; i < len(hist); i++ {
		steps = append(steps, r.step(hist[i]))
	}
	r.close()
	toks := make([]string, len(steps))
	direct, errEnd, ups := false, false, false
	for i, s := range steps {
		toks[i] = s.String()
		if s.who == "DD" {
			direct = true
			if s.ev == 'r' || s.ev == 'a' {
				errEnd = true
			}
		}
		if strings.HasPrefix(s.who, "U") {
			ups = true
		}
	}
	class := "direct"
	if errEnd {
		class += "+error-end"
	}
	if strings.ContainsAny(hist, "et") {
		class += "+clean-end"
	}
	if ups {
		class += "+upstream"
	}
	if strings.Contains(hist, "n") {
		class += "+dial-refused"
	}
	if strings.Contains(hist, "x") {
		class += "+cut"
	}
	return strings.Join(toks, " "), dirMonitor(ms, scripts, steps), class, direct || ups
}

var dirNetCarriers = map[string]bool{"tcp": true, "ws": true, "tcptls": true, "starttls": true, "wss": true}

// dirNet is the same situation end to end: the real client command (listener with a forward address
// that is reachable, one upstream) and the real server command behind a relay that counts physical
// connections.  One local connection is served by the forward target and ended in the given way; then
// the relay and the server's channel target are watched: nothing of that connection may arrive there.
func dirNet(carrier string, ending byte) (string, string) {
	ln, err := net.Listen("tcp", "127.0.0.1:0")
	if err != nil {
		return "fail:rig", err.Error()
	}
	defer ln.Close()
	var targetConns int32
	go func() {
		for {
			c, err := ln.Accept()
			if err != nil {
				return
			}
			go dirTarget(c, &targetConns)
		}
	}()
	rig, err := NewRig(RigOpts{Carrier: carrier, Relay: true, Insecure: true, Forward: "tcp://" + ln.Addr().String()})
	if err != nil {
		return "fail:rig", err.Error()
	}
	defer rig.Close()
	c, err := net.DialTimeout("tcp", rig.AppAddrs["echo"], 5*time.Second)
	if err != nil {
		return "fail:rig", err.Error()
	}
	app := c.(*net.TCPConn)
	defer app.Close()
	_ = app.SetDeadline(time.Now().Add(8 * time.Second))
	who, err := pingPong(app, "ping-net")
	by := "nobody"
	if err == nil && who == "DD" && atomic.LoadInt32(&targetConns) == 1 {
		by = "forward"
	}
	if _, _, acc := rig.Relay.Captured(); acc != 0 || len(rig.Targets["echo"].Conns()) != 0 {
		by = "upstream"
	}
	if by == "forward" {
		switch ending {
		case 'e':
			_ = app.Close()
		case 't':
			_, _ = app.Write([]byte("close!"))
			_, _ = io.Copy(io.Discard, app)
		case 'r':
			_, _ = app.Write([]byte("reset!"))
			_, _ = io.Copy(io.Discard, app)
		case 'a':
			_ = app.SetLinger(0)
			_ = app.Close()
		}
	}
	// the direct connection is over: watch what reaches the upstream server
	physical, logical := 0, 0
	deadline := time.Now().Add(1200 * time.Millisecond)
	for time.Now().Before(deadline) {
		_, _, physical = rig.Relay.Captured()
		logical = len(rig.Targets["echo"].Conns())
		if physical != 0 {
			time.Sleep(700 * time.Millisecond) // let the session come up so that the logical connection shows as well
			_, _, physical = rig.Relay.Captured()
			logical = len(rig.Targets["echo"].Conns())
			break
		}
		time.Sleep(20 * time.Millisecond)
	}
	res := fmt.Sprintf("by=%s physical=%d logical=%d", by, physical, logical)
	mon := ""
	switch {
	case by != "forward":
		mon = "forward address reachable: expected service by it, got " + res
	case physical != 0 || logical != 0:
		mon = fmt.Sprintf("one local connection, served by the forward address and then %s, yet afterwards the upstream server received "+
			"%d physical connection(s) carrying %d logical connection(s) for it", dirEndings[ending], physical, logical)
	}
	return res, mon
}

func (dirComp) Gen(r *Rand, tier string, emit func(string)) {
	// e2e: real client and server commands
	emit("net tcp r")
	emit("net ws a")
	emit("net tcp t")
	if tier == "thorough" {
		for _, c := range []string{"tcp", "ws", "tcptls", "starttls", "wss"} {
			for _, e := range []string{"e", "t", "r", "a"} {
				emit("net " + c + " " + e)
			}
		}
	}
	lists := []string{"P", "T", "R,P", "H,T", "R", "S,P"}
	hists := []string{"e", "t", "r", "a", "rr", "etra", "cr", "ca", "cte", "crxr", "nr", "rn", "an", "cxrc", "ern", "tac", "rcxan"}
	if tier == "thorough" {
		lists = append(lists, "P,P", "Q", "R,H,T", "L,P")
	}
	for i, l := range lists {
		for j, h := range hists {
			emit(fmt.Sprintf("%d %s %s", (i+j)%2, l, h))
			if tier == "thorough" || len(h) <= 2 {
				emit(fmt.Sprintf("%d %s %s", (i+j+1)%2, l, h))
			}
		}
	}
	n := 20
	if tier == "thorough" {
		n = 200
	}
	alphabet := "etrarancx"
	for i := 0; i < n; i++ {
		hl := 1 + r.Intn(8)
		h := make([]byte, hl)
		for j := range h {
			h[j] = alphabet[r.Intn(len(alphabet))]
		}
		emit(fmt.Sprintf("%d %s %s", r.Intn(2), r.Pick(lists), string(h)))
	}
	for _, bad := range []string{"", "0 P", "2 P r", "0 X r", "0 P z", "0 P,P,P,P,P r"} {
		emit(bad)
	}
}

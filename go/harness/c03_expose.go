//go:build verif

// Component "expose" (property C03): the allow-list that is ENFORCED AT REQUEST TIME on an endpoint, observed
// end to end on the real servers.
//
// One op configures a channel table and a list of servers sharing it (the way serverCmd.Command hands the one
// table to every server): an HttpServer with several websocket paths, each with its own allow-list, and/or
// socket, packet (KCP) and stdio servers with theirs. Every server is started with its real Startup on
// 127.0.0.1 (ephemeral ports). Then a real client stack -- upstream.Upstreams with an upstream.Http pointing at
// one websocket path (gorilla dial -> websocket tunnel -> socketace.NewClientConnection -> smux client ->
// multistream SelectProtoOrFail), or upstream.Socket / Packet / InputOutput -- asks for one channel name on one
// endpoint, and the op records which recording target (if any) got a connection. Nothing is recomputed by the
// harness: the channel list the request is checked against is whatever the real request path (chi router ->
// EndpointHandler closure / accept loop -> AcceptConnection -> ConnectionHandler -> muxHandler) holds.
//
// op:     <channels> <servers> <via> <req>
//         channels  comma list of channel names in configuration order ("-" = none, "~" = the empty name);
//                   channel i forwards to recording target i
//         servers   ';'-separated, in configuration order:
//                     socket=<allow> | packet=<allow> | stdio=<allow> | http=<path>:<allow>|<path>:<allow>|...
//                   allow = comma list ("-" = empty = all); <path> without its leading "/"
//         via       <server index>  or  <server index>:<path>   (the endpoint the request arrives on)
//         req       requested channel name ("~" = empty); the client sends "/"+req (Upstreams.openStream)
// result: err=<per server 0|1> listening=<per server 0|1> res=<connect:target|refused|unreachable> dials=<targets|->
package main

import (
	"bufio"
	"encoding/json"
	"fmt"
	"io"
	"net"
	"strings"
	"sync"
	"time"

	"github.com/bokysan/socketace/v2/internal/client/upstream"
	"github.com/bokysan/socketace/v2/internal/server"
	"github.com/bokysan/socketace/v2/internal/util/addr"
	"github.com/bokysan/socketace/v2/internal/util/cert"
)

type exposeComp struct{}

func init() { register("expose", &exposeComp{}) }

// ---------------------------------------------------------------- recording targets (shared by all ops)

type bannerTarget struct {
	ln   net.Listener
	addr string
}

var (
	bannerMu      sync.Mutex
	bannerTargets []*bannerTarget
)

// bannerTargetAddr returns the address of recording target i: a TCP service that greets every connection with
// "T<i>\n" and then reads until the peer hangs up.
func bannerTargetAddr(i int) string {
	bannerMu.Lock()
	defer bannerMu.Unlock()
	for len(bannerTargets) <= i {
		ln, err := net.Listen("tcp", "127.0.0.1:0")
		if err != nil {
			panic(err)
		}
		k := len(bannerTargets)
		bannerTargets = append(bannerTargets, &bannerTarget{ln: ln, addr: ln.Addr().String()})
		go func() {
			for {
				c, err := ln.Accept()
				if err != nil {
					return
				}
				go func(c net.Conn) {
					defer c.Close()
					_, _ = fmt.Fprintf(c, "T%d\n", k)
					_, _ = io.Copy(io.Discard, c)
				}(c)
			}
		}()
	}
	return bannerTargets[i].addr
}

// recChannel is a real NetworkChannel to recording target i; the wrapper notes every OpenConnection at the
// moment muxHandler makes it (so "no outbound connection" is observed without waiting for an accept loop).
type recChannel struct {
	*server.NetworkChannel
	target int
	mu     *sync.Mutex
	dials  *[]int
}

func (c *recChannel) OpenConnection() (net.Conn, error) {
	c.mu.Lock()
	*c.dials = append(*c.dials, c.target)
	c.mu.Unlock()
	return c.NetworkChannel.OpenConnection()
}

// recSocksChannel is the real built-in SOCKS5 channel (names starting with "socks" are configured as such); a request
// for it is followed by a real SOCKS CONNECT to the recording target of its position in the table.
type recSocksChannel struct {
	*server.SocksChannel
	target int
	mu     *sync.Mutex
	dials  *[]int
}

func (c *recSocksChannel) OpenConnection() (net.Conn, error) {
	c.mu.Lock()
	*c.dials = append(*c.dials, c.target)
	c.mu.Unlock()
	return c.SocksChannel.OpenConnection()
}

// ---------------------------------------------------------------- op

type exposeEndpoint struct {
	path  string
	allow []string
}

// exposeFromConfig builds one server through the real configuration path: the description is rendered as the JSON
// value of a --server flag (what a YAML file is turned into as well) and parsed by server.Servers.UnmarshalFlag.
// An empty allow-list is written the way the shipped example does it: the "channels" key is left out.
func exposeFromConfig(address string, allow []string, eps []exposeEndpoint) (server.Server, error) {
	q := func(xs []string) string {
		parts := make([]string, len(xs))
		for i, x := range xs {
			b, _ := json.Marshal(x)
			parts[i] = string(b)
		}
		return "[" + strings.Join(parts, ",") + "]"
	}
	js := `[{"address":` + fmt.Sprintf("%q", address)
	if len(allow) > 0 {
		js += `,"channels":` + q(allow)
	}
	if eps != nil {
		var es []string
		for _, e := range eps {
			b, _ := json.Marshal("/" + e.path)
			item := `{"endpoint":` + string(b)
			if len(e.allow) > 0 {
				item += `,"channels":` + q(e.allow)
			}
			es = append(es, item+"}")
		}
		js += `,"endpoints":[` + strings.Join(es, ",") + "]"
	}
	js += "}]"
	var ss server.Servers
	if err := ss.UnmarshalFlag(js); err != nil {
		return nil, err
	}
	if len(ss) != 1 {
		return nil, fmt.Errorf("configuration gave %d servers", len(ss))
	}
	return ss[0], nil
}

type exposeServer struct {
	cfg bool // build the server object through the real configuration parser
	kind  string
	allow []string         // socket / packet / stdio
	eps   []exposeEndpoint // http
}

func parseExposeServers(s string) ([]exposeServer, bool) {
	var out []exposeServer
	for _, spec := range strings.Split(s, ";") {
		kv := strings.SplitN(spec, "=", 2)
		if len(kv) != 2 {
			return nil, false
		}
		cfg := strings.HasPrefix(kv[0], "cfg!")
		kv[0] = strings.TrimPrefix(kv[0], "cfg!")
		switch kv[0] {
		case "socket", "packet", "stdio", "dns", "dnstcp":
			out = append(out, exposeServer{kind: kv[0], allow: splitList(kv[1]), cfg: cfg})
		case "http":
			sv := exposeServer{kind: "http", cfg: cfg}
			for _, e := range strings.Split(kv[1], "|") {
				pa := strings.SplitN(e, ":", 2)
				if len(pa) != 2 {
					return nil, false
				}
				sv.eps = append(sv.eps, exposeEndpoint{path: pa[0], allow: splitList(pa[1])})
			}
			out = append(out, sv)
		default:
			return nil, false
		}
	}
	return out, true
}

type exposeCfg struct{}

func (exposeCfg) CertManager() cert.TlsConfig { return &cert.ClientConfig{} }

// started is one running server: how a client reaches it and how it is stopped
type exposeStarted struct {
	err       bool
	listening bool
	client    func(path string) upstream.Upstream // nil when there is nothing to connect to
	stop      func()
}

func startExposeServer(sv exposeServer, all server.Channels) (st exposeStarted) {
	defer func() {
		if e := recover(); e != nil {
			st = exposeStarted{err: true}
		}
	}()
	switch sv.kind {
	case "socket":
		s := server.NewSocketServer()
		s.Address = addr.MustParseAddress("tcp://127.0.0.1:0")
		s.Channels = sv.allow
		if sv.cfg {
			x, err := exposeFromConfig("tcp://127.0.0.1:0", sv.allow, nil)
			if err != nil {
				return exposeStarted{err: true}
			}
			s = x.(*server.SocketServer)
		}
		err := s.Startup(all)
		st.err, st.listening = err != nil, server.VerifC03SocketListening(s)
		if st.listening {
			a := server.VerifC03SocketAddr(s)
			st.client = func(string) upstream.Upstream {
				return &upstream.Socket{Address: addr.MustParseAddress("tcp://" + a)}
			}
			st.stop = func() { _ = s.Shutdown() }
		}
	case "packet":
		s := server.NewPacketServer()
		s.Address = addr.MustParseAddress("udp://127.0.0.1:0")
		s.Channels = sv.allow
		if sv.cfg {
			x, err := exposeFromConfig("udp://127.0.0.1:0", sv.allow, nil)
			if err != nil {
				return exposeStarted{err: true}
			}
			s = x.(*server.PacketServer)
		}
		err := s.Startup(all)
		st.err, st.listening = err != nil, server.VerifC03PacketListening(s)
		if st.listening {
			a := s.PacketConnection.LocalAddr().String()
			st.client = func(string) upstream.Upstream {
				return &upstream.Packet{Address: addr.MustParseAddress("udp://" + a)}
			}
		}
		st.stop = func() {
			if st.listening {
				_ = s.Shutdown()
			}
			if s.PacketConnection != nil {
				_ = s.PacketConnection.Close()
			}
		}
	case "dns", "dnstcp":
		// a DNS tunnel endpoint (UDP or TCP) on an ephemeral port; the client is a real upstream.Dns pointed straight
		// at it (no resolver in between), tunnel domain example.org
		scheme, network := "dns", "udp"
		if sv.kind == "dnstcp" {
			scheme, network = "dns+tcp", "tcp"
		}
		for attempt := 0; attempt < 6; attempt++ {
			port := freePort(network)
			s := server.NewDnsServer()
			s.Domain = "example.org"
			s.Address = addr.MustParseAddress(fmt.Sprintf("%s://127.0.0.1:%d", scheme, port))
			s.Channels = sv.allow
			err := s.Startup(all)
			st.err, st.listening = err != nil, server.VerifC03SocketListening(&s.SocketServer)
			if err != nil && strings.Contains(err.Error(), "address already in use") {
				continue
			}
			if st.listening {
				a := fmt.Sprintf("127.0.0.1:%d", port)
				st.client = func(string) upstream.Upstream {
					q := "dns://example.org?direct=false&dns=" + a
					if sv.kind == "dnstcp" {
						q = "dns+tcp://example.org?direct=false&dns=" + a
					}
					return &upstream.Dns{Address: addr.MustParseAddress(q)}
				}
				st.stop = func() { _ = s.Shutdown() }
			}
			break
		}
	case "stdio":
		s := server.NewIoServer()
		s.Address = addr.MustParseAddress("stdin://")
		c2sR, c2sW := io.Pipe()
		s2cR, s2cW := io.Pipe()
		s.Input, s.Output = c2sR, s2cW
		s.Channels = sv.allow
		err := s.Startup(all)
		// IoServer has no listener; it rewrites the scheme to "stdio" once it is past the filter and about to serve
		st.err, st.listening = err != nil, err == nil && s.Address.Scheme == "stdio"
		if st.listening {
			st.client = func(string) upstream.Upstream {
				return &upstream.InputOutput{Address: addr.MustParseAddress("stdin://"), Input: s2cR, Output: c2sW}
			}
		}
		st.stop = func() {
			_ = c2sW.Close()
			_ = s2cR.Close()
			_ = c2sR.Close()
			_ = s2cW.Close()
		}
	case "http":
		for attempt := 0; attempt < 6; attempt++ {
			port := freePort("tcp")
			s := server.NewHttpServer()
			s.Address = addr.MustParseAddress(fmt.Sprintf("http://127.0.0.1:%d", port))
			for _, e := range sv.eps {
				s.Endpoints = append(s.Endpoints, server.HttpEndpoint{Endpoint: "/" + e.path, Channels: e.allow})
			}
			if sv.cfg {
				x, err := exposeFromConfig(fmt.Sprintf("http://127.0.0.1:%d", port), nil, sv.eps)
				if err != nil {
					return exposeStarted{err: true}
				}
				s = x.(*server.HttpServer)
			}
			err := s.Startup(all)
			if err != nil && server.VerifC03HttpListening(s) {
				// past the endpoint filters (ws.server is set) and still an error: the port was taken meanwhile
				continue
			}
			st.err, st.listening = err != nil, err == nil && server.VerifC03HttpListening(s)
			if st.listening {
				st.client = func(path string) upstream.Upstream {
					return &upstream.Http{Address: addr.MustParseAddress(fmt.Sprintf("http://127.0.0.1:%d/%s", port, path))}
				}
				st.stop = func() { _ = s.Shutdown() }
			}
			return
		}
		st.err = true
	}
	return
}

// exposeRequest asks for channel name req through a fresh client stack; outcome "connect:<banner>" (the
// application saw the greeting of that target), "refused" (session up, selection failed) or "unreachable".
func exposeRequest(u upstream.Upstream, req string) string { return exposeRequestVia(u, req, "") }

// exposeRequestVia: socksTarget != "" = the requested name is configured as a SOCKS channel; after the selection the
// application speaks SOCKS5 and asks for that address.
func exposeRequestVia(u upstream.Upstream, req string, socksTarget string) string {
	ups := &upstream.Upstreams{Data: []upstream.Upstream{u}}
	type result struct{ s string }
	done := make(chan result, 1)
	go func() {
		defer func() {
			if e := recover(); e != nil {
				done <- result{"client-panic"}
			}
		}()
		stream, err := ups.Connect(exposeCfg{}, req)
		if err != nil {
			_, _, hasSession := upstream.VerifStored(ups)
			if hasSession {
				done <- result{"refused"}
			} else {
				done <- result{"unreachable"}
			}
			return
		}
		br := bufio.NewReader(stream)
		if socksTarget != "" {
			_, _ = stream.Write([]byte{5, 1, 0})
			if first, err := br.Peek(1); err == nil && first[0] == 5 {
				g := make([]byte, 2)
				_, _ = io.ReadFull(br, g)
				host, portS, _ := net.SplitHostPort(socksTarget)
				var port int
				_, _ = fmt.Sscanf(portS, "%d", &port)
				rq := append([]byte{5, 1, 0, 1}, net.ParseIP(host).To4()...)
				rq = append(rq, byte(port>>8), byte(port))
				_, _ = stream.Write(rq)
				rep := make([]byte, 10)
				if _, err := io.ReadFull(br, rep); err != nil || rep[1] != 0 {
					_ = stream.Close()
					done <- result{"accepted-no-target"}
					return
				}
			}
			// anything else (a greeting line of a network target) is read below: the request was routed elsewhere
		}
		line, err := br.ReadString('\n')
		_ = stream.Close()
		if err != nil || !strings.HasPrefix(line, "T") {
			done <- result{"accepted-no-target"}
			return
		}
		done <- result{"connect:" + strings.TrimSpace(line[1:])}
	}()
	var out string
	select {
	case r := <-done:
		out = r.s
	case <-time.After(20 * time.Second):
		out = "timeout"
	}
	ups.Shutdown()
	return out
}

func (c *exposeComp) Exec(op string) (res, mon, class string, nontrivial bool) {
	t := strings.Fields(op)
	if len(t) != 4 {
		return "bad-op", "", "bad-op", false
	}
	names := splitList(t[0])
	servers, ok := parseExposeServers(t[1])
	if !ok {
		return "bad-op", "", "bad-op", false
	}
	viaIdx, viaPath := -1, ""
	{
		v := strings.SplitN(t[2], ":", 2)
		if _, err := fmt.Sscanf(v[0], "%d", &viaIdx); err != nil {
			return "bad-op", "", "bad-op", false
		}
		if len(v) == 2 {
			viaPath = v[1]
		}
	}
	req := t[3]
	if req == "~" {
		req = ""
	}

	var mu sync.Mutex
	var dials []int
	all := make(server.Channels, len(names))
	socksTargets := map[string]string{}
	for i, n := range names {
		if strings.HasPrefix(n, "socks") {
			if _, dup := socksTargets[n]; !dup {
				socksTargets[n] = bannerTargetAddr(i)
			}
			all[i] = &recSocksChannel{SocksChannel: &server.SocksChannel{AbstractChannel: server.AbstractChannel{
				ProtoName: addr.ProtoName{Name: n}, Address: addr.MustParseAddress("socks://localhost")}},
				target: i, mu: &mu, dials: &dials}
			continue
		}
		all[i] = &recChannel{NetworkChannel: &server.NetworkChannel{AbstractChannel: server.AbstractChannel{
			ProtoName: addr.ProtoName{Name: n}, Address: addr.MustParseAddress("tcp://" + bannerTargetAddr(i))}},
			target: i, mu: &mu, dials: &dials}
	}

	// every server gets the one channel table, in configuration order
	started := make([]exposeStarted, len(servers))
	for i, sv := range servers {
		started[i] = startExposeServer(sv, all)
	}
	outcome := "unreachable"
	if viaIdx >= 0 && viaIdx < len(started) && started[viaIdx].client != nil {
		outcome = exposeRequestVia(started[viaIdx].client(viaPath), req, socksTargets[req])
	}
	for _, st := range started {
		if st.stop != nil {
			st.stop()
		}
	}
	mu.Lock()
	d := append([]int(nil), dials...)
	mu.Unlock()

	ds := "-"
	if len(d) > 0 {
		parts := make([]string, len(d))
		for i, x := range d {
			parts[i] = fmt.Sprint(x)
		}
		ds = strings.Join(parts, ",")
	}
	var eb, lb strings.Builder
	for _, st := range started {
		if st.err {
			eb.WriteByte('1')
		} else {
			eb.WriteByte('0')
		}
		if st.listening {
			lb.WriteByte('1')
		} else {
			lb.WriteByte('0')
		}
	}
	res = fmt.Sprintf("err=%s listening=%s res=%s dials=%s", eb.String(), lb.String(), outcome, ds)

	// ---- direct monitor of C03 on the implementation: the allow-list in force on the endpoint the request
	// arrived on is the one configured for THAT endpoint
	class = "none"
	var allow []string
	served := false // the request reached an endpoint that exists and is being served
	if viaIdx >= 0 && viaIdx < len(servers) {
		sv := servers[viaIdx]
		class = sv.kind
		if sv.kind == "http" {
			class = fmt.Sprintf("http%d", len(sv.eps))
			for i, e := range sv.eps {
				if e.path == viaPath {
					allow, served = e.allow, started[viaIdx].listening
					class += fmt.Sprintf("@%d", i)
					break
				}
			}
		} else {
			allow, served = sv.allow, started[viaIdx].listening
		}
	}
	if len(servers) > 1 {
		class += "+multi"
	}
	want := -1
	if served {
		allowed := len(allow) == 0
		for _, a := range allow {
			if a == req {
				allowed = true
			}
		}
		if allowed {
			for i, x := range names {
				if x == req {
					want = i
					break
				}
			}
		}
	}
	switch {
	case !served:
		class += "/not-served"
		if outcome != "unreachable" || len(d) != 0 {
			mon = fmt.Sprintf("no such endpoint is served, yet the request got %s dials=%s", outcome, ds)
		}
	case want >= 0:
		class += "/routed"
		nontrivial = true
		if outcome != fmt.Sprintf("connect:%d", want) || len(d) != 1 || d[0] != want {
			mon = fmt.Sprintf("request %q on endpoint %s (allow-list %s) must reach target %d only, got %s dials=%s",
				"/"+req, t[2], showList(allow), want, outcome, ds)
		}
	default:
		class += "/refused"
		nontrivial = len(names) > 0
		if outcome != "refused" || len(d) != 0 {
			mon = fmt.Sprintf("request %q on endpoint %s (allow-list %s) must be refused without any dial, got %s dials=%s",
				"/"+req, t[2], showList(allow), outcome, ds)
		}
	}
	for i, st := range started {
		if st.err && st.listening {
			mon = fmt.Sprintf("server %d reported a Startup error but is listening", i)
		}
	}
	return
}

func showList(xs []string) string {
	if len(xs) == 0 {
		return "[] = all"
	}
	ys := make([]string, len(xs))
	for i, x := range xs {
		ys[i] = showName(x)
	}
	return "[" + strings.Join(ys, ",") + "]"
}

func (c *exposeComp) Gen(r *Rand, tier string, emit func(op string)) {
	thorough := tier == "thorough"
	join := func(xs []string) string {
		if len(xs) == 0 {
			return "-"
		}
		return strings.Join(xs, ",")
	}
	// requested names for a table: every configured name, an unknown one, and prefix / extension / case variants
	reqsFor := func(tb []string, wide bool) []string {
		seen := map[string]bool{}
		var out []string
		add := func(q string) {
			if q == "" {
				q = "~"
			}
			if !seen[q] {
				seen[q] = true
				out = append(out, q)
			}
		}
		for _, n := range tb {
			add(n)
		}
		add("nope")
		if wide {
			for _, n := range tb {
				if n == "~" {
					continue
				}
				add(strings.ToUpper(n))
				add(n + "d")
				add(n[:len(n)-1])
			}
			add("~")
		}
		return out
	}

	// 1. one HTTP server, two websocket paths: every ordered pair of allow-lists (restricted before "all", "all"
	//    before restricted, disjoint, overlapping, equal, one unknown name), request on each path and on a path
	//    nobody registered
	// several DNS tunnel endpoints in one process (the library's handler table is process-wide by default): every
	// endpoint answers with its own allow-list
	dnsLists := []string{"dns=ssh;dns=web"}
	if thorough {
		dnsLists = append(dnsLists, "dns=web;dns=ssh;dns=-", "dns=ssh;socket=web;dns=adm")
	}
	for _, srv := range dnsLists {
		nsrv := len(strings.Split(srv, ";"))
		for si := 0; si < nsrv; si++ {
			for _, q := range []string{"ssh", "web", "adm"} {
				if thorough || q != "adm" {
					emit("ssh,web,adm " + srv + " " + fmt.Sprint(si) + " " + q)
				}
			}
		}
	}
	if thorough {
		emit("ssh,web dns=ssh 0 ssh")
		emit("ssh,web dns=ssh 0 web")
	}
	// servers built by the real configuration parser (--server JSON / YAML): several endpoints with allow-lists of
	// different lengths, restricted before and after "all", several servers in one process
	for _, srv := range []string{
		"cfg!http=ws/a:ssh,web|ws/b:adm", "cfg!http=ws/a:adm|ws/b:ssh,web", "cfg!http=ws/a:ssh|ws/b:-", "cfg!http=ws/a:-|ws/b:ssh",
		"cfg!http=ws/a:ssh,web,adm|ws/b:web|ws/c:-", "cfg!socket=ssh;cfg!socket=-", "cfg!socket=ssh,web;cfg!packet=adm", "cfg!http=ws/a:web|ws/b:ssh;cfg!socket=adm"} {
		nsrv := len(strings.Split(srv, ";"))
		for si := 0; si < nsrv; si++ {
			vias := []string{fmt.Sprint(si)}
			if strings.HasPrefix(strings.Split(srv, ";")[si], "cfg!http") {
				vias = []string{fmt.Sprintf("%d:ws/a", si), fmt.Sprintf("%d:ws/b", si), fmt.Sprintf("%d:ws/c", si)}
			}
			for _, via := range vias {
				for _, q := range []string{"ssh", "web", "adm", "nope"} {
					emit("ssh,web,adm " + srv + " " + via + " " + q)
				}
			}
		}
	}
	// the built-in SOCKS channel is a channel like any other for the allow-lists (and the one that reaches everything)
	for _, a := range []string{"-", "ssh", "socks", "ssh,socks", "web"} {
		for _, sv := range []string{"socket=" + a, "http=ws/a:" + a + "|ws/b:-", "packet=" + a} {
			via := "0"
			if strings.HasPrefix(sv, "http") {
				via = "0:ws/a"
			}
			for _, q := range []string{"ssh", "socks", "web", "SOCKS", "sock"} {
				emit("ssh,socks,web " + sv + " " + via + " " + q)
			}
		}
	}
	tables := [][]string{{"ssh", "web"}, {"ssh", "web", "ssh"}, {"web", "~", "ssh", "SSH"}, {"s", "ss", "ssh", "sshd"}}
	lists := []string{"-", "ssh", "web", "ssh,web", "web,ssh", "SSH", "~", "ss", "nope", "ssh,nope"}
	for ti, tb := range tables {
		if !thorough && ti >= 2 {
			break
		}
		ls := lists
		if !thorough {
			ls = []string{"-", "ssh", "web", "ssh,web", "web,ssh", "nope"}
		}
		for _, a := range ls {
			for _, b := range ls {
				srv := "http=ws/a:" + a + "|ws/b:" + b
				for _, via := range []string{"0:ws/a", "0:ws/b", "0:ws/c"} {
					for _, q := range reqsFor(tb, thorough) {
						emit(join(tb) + " " + srv + " " + via + " " + q)
					}
				}
			}
		}
	}
	// 2. three paths (one a prefix of the others), every triple of allow-lists from a small pool, every position
	small := []string{"-", "ssh", "web", "db"}
	for _, a := range small {
		for _, b := range small {
			for _, cc := range small {
				srv := "http=ws/a:" + a + "|ws:" + b + "|ws/a/b:" + cc
				for _, via := range []string{"0:ws/a", "0:ws", "0:ws/a/b", "0:ws/b"} {
					for _, q := range []string{"ssh", "web", "db", "nope"} {
						emit("ssh,web,db " + srv + " " + via + " " + q)
					}
				}
			}
		}
	}
	// 3. servers of different kinds sharing the table, each with its own allow-list, in every order of kinds;
	//    the request arrives on each of them in turn
	kinds := []string{"socket", "packet", "stdio", "http"}
	perms := [][]int{{0, 1, 2, 3}, {3, 2, 1, 0}, {1, 3, 0, 2}, {2, 0, 3, 1}, {3, 0, 1, 2}, {0, 3, 2, 1}}
	assign := [][]string{{"ssh", "web", "db", "-"}, {"-", "ssh", "web", "db"}, {"web", "-", "ssh", "ssh,db"}, {"db", "db", "-", "web"},
		{"ssh", "ssh", "ssh", "web"}, {"nope", "ssh", "web", "db"}, {"ssh", "nope", "-", "web"}, {"web", "db", "nope", "ssh"}, {"-", "-", "-", "-"}}
	for pi, pm := range perms {
		for ai, as := range assign {
			if !thorough && (pi+ai)%2 == 1 {
				continue
			}
			specs := make([]string, 4)
			vias := make([]string, 0, 5)
			for pos, k := range pm {
				if kinds[k] == "http" {
					specs[pos] = "http=ws/a:" + as[3] + "|ws/b:" + as[(pi+ai)%3]
					vias = append(vias, fmt.Sprintf("%d:ws/a", pos), fmt.Sprintf("%d:ws/b", pos))
				} else {
					specs[pos] = kinds[k] + "=" + as[k]
					vias = append(vias, fmt.Sprint(pos))
				}
			}
			for _, via := range vias {
				for _, q := range []string{"ssh", "web", "db", "nope"} {
					emit("ssh,web,db " + strings.Join(specs, ";") + " " + via + " " + q)
				}
			}
		}
	}
	// two HTTP servers with the same paths and different lists; a single endpoint; a server index nobody configured
	for _, q := range []string{"ssh", "web", "nope"} {
		for _, via := range []string{"0:ws/a", "0:ws/b", "1:ws/a", "1:ws/b", "2:ws/a", "1"} {
			emit("ssh,web http=ws/a:ssh|ws/b:web;http=ws/a:web|ws/b:- " + via + " " + q)
		}
		emit("ssh,web http=ws/all:- 0:ws/all " + q)
		emit("ssh,web http=ws/all:web 0:ws/all " + q)
		emit("- http=ws/all:- 0:ws/all " + q)
	}

	// 4. random configurations
	pool := []string{"ssh", "web", "db", "s", "ss", "sshd", "SSH", "Ssh", "ssh/x", "/ssh", "~", "ls", "na", "web.1", "a-b", "x_y"}
	paths := []string{"ws/a", "ws/b", "ws", "x", "ws/a/b", "ws/all"}
	mutate := func(n string) string {
		if n == "~" {
			n = ""
		}
		out := []string{strings.ToUpper(n), n + "x", n + "/", "/" + n, "~"}
		if len(n) > 0 {
			out = append(out, n[:len(n)-1], n[1:], strings.ToUpper(n[:1])+n[1:])
		}
		q := out[r.Intn(len(out))]
		if q == "" {
			q = "~"
		}
		return q
	}
	n := 1200
	if thorough {
		n = 12000
	}
	for i := 0; i < n; i++ {
		tb := make([]string, 1+r.Intn(5))
		for j := range tb {
			tb[j] = r.Pick(pool)
		}
		randAllow := func() string {
			var al []string
			switch r.Intn(8) {
			case 0, 1:
			case 2, 3, 4, 5:
				for j := 0; j < 1+r.Intn(3); j++ {
					al = append(al, r.Pick(tb))
				}
			case 6:
				al = append(al, r.Pick(tb), r.Pick(pool))
			default:
				al = append(al, mutate(r.Pick(tb)))
			}
			return join(al)
		}
		ns := 1 + r.Intn(4)
		specs := make([]string, ns)
		var vias []string
		for s := 0; s < ns; s++ {
			k := r.Intn(6)
			if k >= 3 { // half of the servers are HTTP
				ne := 1 + r.Intn(3)
				off := r.Intn(len(paths))
				eps := make([]string, ne)
				for e := 0; e < ne; e++ {
					p := paths[(off+e)%len(paths)]
					eps[e] = p + ":" + randAllow()
					vias = append(vias, fmt.Sprintf("%d:%s", s, p))
				}
				if r.Intn(10) == 0 {
					vias = append(vias, fmt.Sprintf("%d:%s", s, paths[(off+ne)%len(paths)])) // a path nobody registered
				}
				specs[s] = "http=" + strings.Join(eps, "|")
			} else {
				specs[s] = kinds[k] + "=" + randAllow()
				vias = append(vias, fmt.Sprint(s))
			}
		}
		var q string
		switch r.Intn(4) {
		case 0:
			q = r.Pick(pool)
		case 1, 2:
			q = r.Pick(tb)
		default:
			q = mutate(r.Pick(tb))
		}
		emit(join(tb) + " " + strings.Join(specs, ";") + " " + r.Pick(vias) + " " + q)
	}
}

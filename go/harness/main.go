//go:build verif

// Command harness drives the real socketace code for the /verif correspondence checks.
// It is compiled inside the /repo module through `go build -overlay` (see /verif/check),
// so it can import internal/ packages; nothing is written to /repo.
//
// usage: harness <component> gen    -seed N -tier quick|thorough -out DIR [-corpus DIR]
//        harness <component> replay -ops FILE
//
// gen writes DIR/<component>.ops (one op per line), DIR/<component>.impl (the implementation's
// canonical result per op), DIR/<component>.mon (ops on which the direct property monitor failed)
// and DIR/<component>.stats.json (input distribution).
package main

import (
	"bufio"
	"encoding/json"
	"flag"
	"fmt"
	"hash/fnv"
	"io"
	"os"
	"path/filepath"
	"sort"
	"strings"

	log "github.com/sirupsen/logrus"
)

// Component is one modelled piece of socketace driven through the line protocol.
type Component interface {
	// Gen emits op lines (without the component keyword).
	Gen(r *Rand, tier string, emit func(op string))
	// Exec runs one op on the real code. result is the canonical line compared with the model;
	// monitor is "" when the property's direct monitor is satisfied on this op, else a short reason;
	// class is the distribution bucket of this op; nontrivial says whether it reached a non-error,
	// non-empty branch.
	Exec(op string) (result string, monitor string, class string, nontrivial bool)
}

var components = map[string]Component{}

func register(name string, c Component) { components[name] = c }

// Rand is splitmix64; every random choice of a run derives from one state.
type Rand struct{ s uint64 }

func NewRand(seed uint64) *Rand { return &Rand{s: seed*0x9E3779B97F4A7C15 + 0x1234567} }
func (r *Rand) Next() uint64 {
	r.s += 0x9E3779B97F4A7C15
	z := r.s
	z = (z ^ (z >> 30)) * 0xBF58476D1CE4E5B9
	z = (z ^ (z >> 27)) * 0x94D049BB133111EB
	return z ^ (z >> 31)
}
func (r *Rand) Intn(n int) int {
	if n <= 0 {
		return 0
	}
	return int(r.Next() % uint64(n))
}
func (r *Rand) Bool() bool { return r.Next()&1 == 1 }
func (r *Rand) Bytes(n int) []byte {
	b := make([]byte, n)
	for i := range b {
		b[i] = byte(r.Next())
	}
	return b
}
func (r *Rand) Pick(xs []string) string { return xs[r.Intn(len(xs))] }

func hexs(b []byte) string {
	if len(b) == 0 {
		return "-"
	}
	return fmt.Sprintf("%x", b)
}

func unhex(s string) ([]byte, error) {
	if s == "-" {
		return []byte{}, nil
	}
	if len(s)%2 != 0 {
		return nil, fmt.Errorf("odd hex")
	}
	out := make([]byte, len(s)/2)
	for i := 0; i < len(out); i++ {
		var v byte
		for j := 0; j < 2; j++ {
			c := s[2*i+j]
			switch {
			case c >= '0' && c <= '9':
				v = v<<4 | (c - '0')
			case c >= 'a' && c <= 'f':
				v = v<<4 | (c - 'a' + 10)
			case c >= 'A' && c <= 'F':
				v = v<<4 | (c - 'A' + 10)
			default:
				return nil, fmt.Errorf("bad hex")
			}
		}
		out[i] = v
	}
	return out, nil
}

// safeExec runs Exec under recover; a panic is reported as the result "PANIC" (and as a monitor
// failure only where the component says so by returning it itself).
func safeExec(c Component, op string) (res, mon, class string, nontrivial bool) {
	defer func() {
		if e := recover(); e != nil {
			res = "PANIC"
			mon = fmt.Sprintf("panic: %v", e)
			if class == "" {
				class = "panic"
			}
		}
	}()
	return c.Exec(op)
}

// genPanicOp is the synthetic op recorded when a component's generator panics (usually: real code called by the
// generator to pre-compute oracle tokens panicked).  The ops emitted before the panic are kept and compared as usual.
const genPanicOp = "!gen-panic "

// safeGen runs Gen under recover; returns "" or the description of the panic.
func safeGen(c Component, r *Rand, tier string, emit func(string)) (mon string) {
	defer func() {
		if e := recover(); e != nil {
			mon = fmt.Sprintf("PANIC in the generator (real code called while building an op): %v", e)
		}
	}()
	c.Gen(r, tier, emit)
	return ""
}

type stats struct {
	Evaluations       int            `json:"evaluations"`
	DistinctNontrival int            `json:"distinct_nontrivial"`
	Classes           map[string]int `json:"input_distribution"`
	MonitorFailures   int            `json:"monitor_failures"`
	Corpus            int            `json:"corpus_ops"`
	Samples           []string       `json:"samples"`
}

func main() {
	log.SetOutput(io.Discard)
	log.SetLevel(log.PanicLevel)
	if os.Getenv("VERIF_LOG") == "trace" {
		// configuration variant "-vvv": every log statement formats its arguments (String methods of the wrappers run,
		// also on the error paths); the text is thrown away
		log.SetLevel(log.TraceLevel)
	}
	if len(os.Args) < 3 {
		fmt.Fprintln(os.Stderr, "usage: harness <component> gen|replay ...")
		os.Exit(2)
	}
	name, mode := os.Args[1], os.Args[2]
	c, ok := components[name]
	if !ok {
		fmt.Fprintf(os.Stderr, "unknown component %q\n", name)
		os.Exit(2)
	}
	fs := flag.NewFlagSet(mode, flag.ExitOnError)
	seed := fs.Uint64("seed", 1, "seed")
	tier := fs.String("tier", "quick", "tier")
	out := fs.String("out", ".", "output directory")
	corpus := fs.String("corpus", "", "corpus directory (files *.ops for this component run first)")
	opsFile := fs.String("ops", "", "ops file to replay")
	noGen := fs.Bool("nogen", false, "run only the corpus ops (no generation)")
	_ = fs.Parse(os.Args[3:])

	switch mode {
	case "gen":
		runGen(name, c, *seed, *tier, *out, *corpus, *noGen)
	case "replay":
		f, err := os.Open(*opsFile)
		if err != nil {
			fmt.Fprintln(os.Stderr, err)
			os.Exit(2)
		}
		defer f.Close()
		sc := bufio.NewScanner(f)
		sc.Buffer(make([]byte, 1<<20), 1<<28)
		for sc.Scan() {
			line := sc.Text()
			op := strings.TrimPrefix(line, name+" ")
			if strings.HasPrefix(op, genPanicOp) {
				// synthetic op written when the generator itself panicked: run the generator again
				var gseed uint64
				var gtier string
				_, _ = fmt.Sscanf(strings.TrimPrefix(op, genPanicOp), "%d %s", &gseed, &gtier)
				mon := safeGen(c, NewRand(gseed), gtier, func(string) {})
				fmt.Printf("GEN-PANIC\n")
				if mon != "" {
					fmt.Fprintf(os.Stderr, "MONITOR %s\n", mon)
				}
				continue
			}
			res, mon, _, _ := safeExec(c, op)
			fmt.Printf("%s\n", res)
			if mon != "" {
				fmt.Fprintf(os.Stderr, "MONITOR %s\n", mon)
			}
		}
	default:
		fmt.Fprintln(os.Stderr, "unknown mode")
		os.Exit(2)
	}
	for _, f := range atExit {
		f()
	}
}

// atExit: scratch directories etc. that a component created lazily and that must not outlive the process
var atExit []func()

func runGen(name string, c Component, seed uint64, tier, out, corpus string, noGen bool) {
	_ = os.MkdirAll(out, 0o755)
	opsW := mustCreate(filepath.Join(out, name+".ops"))
	implW := mustCreate(filepath.Join(out, name+".impl"))
	monW := mustCreate(filepath.Join(out, name+".mon"))
	defer opsW.Flush()
	defer implW.Flush()
	defer monW.Flush()

	st := stats{Classes: map[string]int{}}
	distinct := map[uint64]struct{}{}
	lineNo := 0
	cur := filepath.Join(out, name+".cur")
	emit := func(op string) {
		lineNo++
		// the op about to run, for the case that it takes the whole process down (a panic on a goroutine of the
		// implementation, a fatal runtime error): the check reads it and re-runs it alone
		_ = os.WriteFile(cur, []byte(name+" "+op+"\n"), 0o644)
		res, mon, class, nontrivial := safeExec(c, op)
		fmt.Fprintf(opsW, "%s %s\n", name, op)
		fmt.Fprintf(implW, "%s\n", res)
		if mon != "" {
			fmt.Fprintf(monW, "%d\t%s\t%s %s\n", lineNo, mon, name, op)
			st.MonitorFailures++
		}
		st.Evaluations++
		st.Classes[class]++
		if nontrivial {
			h := fnv.New64a()
			h.Write([]byte(op))
			distinct[h.Sum64()] = struct{}{}
		}
		if len(st.Samples) < 5 && (nontrivial || lineNo < 3) && len(op) < 300 {
			st.Samples = append(st.Samples, name+" "+op+"  =>  "+res)
		}
	}
	if corpus != "" {
		files, _ := filepath.Glob(filepath.Join(corpus, "*.ops"))
		sort.Strings(files)
		for _, f := range files {
			b, err := os.ReadFile(f)
			if err != nil {
				continue
			}
			for _, line := range strings.Split(string(b), "\n") {
				if strings.HasPrefix(line, name+" ") {
					emit(strings.TrimPrefix(line, name+" "))
					st.Corpus++
				}
			}
		}
	}
	if !noGen {
		if mon := safeGen(c, NewRand(seed), tier, emit); mon != "" {
			lineNo++
			op := fmt.Sprintf("%s%d %s after %d ops", genPanicOp, seed, tier, lineNo-1)
			fmt.Fprintf(opsW, "%s %s\n", name, op)
			fmt.Fprintf(implW, "GEN-PANIC\n")
			fmt.Fprintf(monW, "%d\t%s\t%s %s\n", lineNo, mon, name, op)
			st.MonitorFailures++
			st.Evaluations++
			st.Classes["gen-panic"]++
		}
	}
	st.DistinctNontrival = len(distinct)
	b, _ := json.MarshalIndent(st, "", " ")
	_ = os.WriteFile(filepath.Join(out, name+".stats.json"), b, 0o644)
	_ = os.Remove(cur)
}

func mustCreate(p string) *bufio.Writer {
	f, err := os.Create(p)
	if err != nil {
		fmt.Fprintln(os.Stderr, err)
		os.Exit(2)
	}
	return bufio.NewWriterSize(f, 1<<20)
}

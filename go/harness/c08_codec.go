//go:build verif

package main

import (
	"bytes"
	"fmt"
	"math"
	"runtime"
	"strconv"
	"strings"
	"sync"

	"github.com/bokysan/socketace/v2/internal/util/enc"
)

// ---- C08: the DNS codecs, selected the way a peer selects them (enc.FromCode) ----
//
// op:      <codec letter> enc <hex>      result: hex(Encode(x))
//          <codec letter> dec <hex>      result: hex(Decode(x)) or "err"
//          <codec letter> pair <hexA> <hexB>            several inputs through the same encoder value, every
//          <codec letter> seq <hex> <hex>...            result RETAINED (not copied) while the later calls run;
//          <codec letter> par <G> <iters> <hex>...      par: G goroutines (goroutine g works on input g mod N)
//                                                       result: E <retained encodings> D <retained decodings>
//                                                       as they read AFTER all calls
// monitor (enc ops): Decode(Encode x) == x; for the text codecs (all but Raw) every output byte is
// DNS-safe (> 32, != 127, not '.', not '\\'); len(output) <= ceil(Ratio()*len(x)) + 8.
// monitor (pair/seq/par): results are independent values - a retained encoding/decoding does not change
// under later calls (or calls of other goroutines), every retained encoding still decodes to its own
// input, the caller's input slices are unchanged, and (all but Raw, the identity) no result shares memory
// with an input, with another result or with state the encoder uses later.

type codecComp struct{}

func init() { register("codec", codecComp{}) }

var codecLetters = []byte{'T', 'S', 'U', 'W', 'X', 'V', 'Y', 'R'}

const codecSlack = 8

func c08min(a, b int) int {
	if a < b {
		return a
	}
	return b
}

// c08SafeEncode is used by the generator only (building mostly-valid Decode inputs); a panicking
// encoder must not take the generator down - the enc ops report it through safeExec.
func c08SafeEncode(e enc.Encoder, x []byte) (out []byte) {
	defer func() {
		if recover() != nil {
			out = nil
		}
	}()
	return e.Encode(x)
}

func dnsSafeByte(b byte) bool {
	return b > 32 && b != 127 && b != '.' && b != '\\'
}

func lenClass(n int) string {
	switch {
	case n == 0:
		return "len0"
	case n == 1:
		return "len1"
	case n == 2:
		return "len2"
	case n <= 16:
		return "len3-16"
	case n <= 255:
		return "len17-255"
	case n <= 600:
		return "len256-600"
	default:
		return "len601+"
	}
}

func (codecComp) Exec(op string) (result, monitor, class string, nontrivial bool) {
	t := strings.Fields(op)
	if len(t) < 3 || len(t[0]) != 1 {
		return "bad-op", "", "bad-op", false
	}
	e, err := enc.FromCode(t[0][0])
	if err != nil {
		return "bad-codec", "", "bad-codec", false
	}
	switch t[1] {
	case "pair", "seq", "par":
		return c08Multi(e, strings.ToUpper(t[0]), t[1], t[2:])
	}
	if len(t) != 3 {
		return "bad-op", "", "bad-op", false
	}
	data, err := unhex(t[2])
	if err != nil {
		return "bad-op", "", "bad-op", false
	}
	letter := strings.ToUpper(t[0])
	switch t[1] {
	case "enc":
		class = letter + ":enc:" + lenClass(len(data))
		out := e.Encode(data)
		result = hexs(out)
		nontrivial = len(data) > 0
		// direct monitor of the property on the implementation
		var reasons []string
		back, derr := e.Decode(append([]byte{}, out...))
		if derr != nil {
			reasons = append(reasons, "roundtrip: Decode(Encode(x)) fails")
		} else if !bytes.Equal(back, data) {
			reasons = append(reasons, fmt.Sprintf("roundtrip: Decode(Encode(x)) != x (got %d bytes for %d)", len(back), len(data)))
		}
		if e.Code() != 'R' {
			for _, b := range out {
				if !dnsSafeByte(b) {
					reasons = append(reasons, fmt.Sprintf("alphabet: output byte 0x%02x is not DNS-safe", b))
					break
				}
			}
		}
		bound := int(math.Ceil(e.Ratio()*float64(len(data)))) + codecSlack
		if len(out) > bound {
			reasons = append(reasons, fmt.Sprintf("length: %d output bytes for %d input bytes exceeds ceil(ratio*len)+%d = %d", len(out), len(data), codecSlack, bound))
		}
		monitor = strings.Join(reasons, "; ")
		return
	case "dec":
		out, derr := e.Decode(data)
		if derr != nil {
			return "err", "", letter + ":dec:err", false
		}
		return hexs(out), "", letter + ":dec:ok:" + lenClass(len(out)), len(out) > 0
	}
	return "bad-op", "", "bad-op", false
}

// ---- independence of results (pair / seq / par) ----

func c08Copies(xs [][]byte) [][]byte {
	out := make([][]byte, len(xs))
	for i, x := range xs {
		out[i] = append(make([]byte, 0, len(x)), x...)
	}
	return out
}

// c08Scribble overwrites a slice up to its capacity (what a caller that owns the slice is entitled to do)
func c08Scribble(x []byte) {
	x = x[:cap(x)]
	for i := range x {
		x[i] ^= 0xa5
	}
}

func c08DecTok(b []byte, err error) string {
	if err != nil {
		return "err"
	}
	return hexs(b)
}

type c08Reasons struct {
	list []string
	seen map[string]bool
}

func (r *c08Reasons) add(s string) {
	if r.seen == nil {
		r.seen = map[string]bool{}
	}
	if !r.seen[s] {
		r.seen[s] = true
		r.list = append(r.list, s)
	}
}

func c08Multi(e enc.Encoder, letter, kind string, args []string) (result, monitor, class string, nontrivial bool) {
	G, iters := 0, 0
	if kind == "par" {
		if len(args) < 3 {
			return "bad-op", "", "bad-op", false
		}
		var e1, e2 error
		G, e1 = strconv.Atoi(args[0])
		iters, e2 = strconv.Atoi(args[1])
		if e1 != nil || e2 != nil || G < 0 || iters < 0 || G > 4096 || iters > 1<<20 {
			return "bad-op", "", "bad-op", false
		}
		args = args[2:]
	}
	if kind == "pair" && len(args) != 2 {
		return "bad-op", "", "bad-op", false
	}
	orig := make([][]byte, len(args))
	for i, a := range args {
		b, err := unhex(a)
		if err != nil {
			return "bad-op", "", "bad-op", false
		}
		orig[i] = b
		if len(b) > 0 {
			nontrivial = true
		}
	}
	n := len(orig)
	class = fmt.Sprintf("%s:%s:n%d", letter, kind, c08min(n, 9))
	raw := e.Code() == 'R'   // the identity: a result IS its argument (by design); only the retention checks apply
	lossy := e.Code() == 'Y' // Base192 does not round-trip (open finding C08-F1, exhibited by the enc ops)
	var why c08Reasons

	work := c08Copies(orig) // the slices handed to the codec
	encs := make([][]byte, n)
	encSnap := make([][]byte, n)
	decs := make([][]byte, n)
	decErr := make([]error, n)
	decSnap := make([][]byte, n)
	changedEarly := make([]bool, n)

	// reference: each input alone, every result copied at once
	refEnc := make([][]byte, n)
	refDec := make([][]byte, n)
	refErr := make([]error, n)
	for i := range orig {
		refEnc[i] = append([]byte{}, e.Encode(append([]byte{}, orig[i]...))...)
		d, derr := e.Decode(append([]byte{}, refEnc[i]...))
		refDec[i], refErr[i] = append([]byte{}, d...), derr
	}

	if kind != "par" {
		for i := range work {
			encs[i] = e.Encode(work[i])
			encSnap[i] = append([]byte{}, encs[i]...)
		}
		for i := range work {
			if !bytes.Equal(encs[i], encSnap[i]) {
				changedEarly[i] = true
				why.add(fmt.Sprintf("independence: the result of Encode(input %d) changed while later inputs were encoded", i))
			}
		}
		for i := range work {
			decs[i], decErr[i] = e.Decode(encs[i])
			decSnap[i] = append([]byte{}, decs[i]...)
		}
	} else {
		for i := range work {
			encSnap[i], decSnap[i], decErr[i] = refEnc[i], refDec[i], refErr[i]
		}
		type obs struct {
			enc, dec []byte
			err      error
			bad      string
		}
		res := make([]obs, G)
		start := make(chan struct{})
		var wg sync.WaitGroup
		for g := 0; g < G; g++ {
			wg.Add(1)
			go func(g int) {
				defer wg.Done()
				defer func() {
					if p := recover(); p != nil {
						res[g].bad = fmt.Sprintf("concurrent: panic in goroutine working on input %d: %v", g%n, p)
					}
				}()
				i := g % n
				in := append([]byte{}, orig[i]...)
				<-start
				for k := 0; k < iters; k++ {
					out := e.Encode(in)
					runtime.Gosched()
					back, derr := e.Decode(out)
					runtime.Gosched()
					if res[g].bad == "" {
						switch {
						case !bytes.Equal(out, encSnap[i]):
							res[g].bad = fmt.Sprintf("concurrent: Encode(input %d) read back differently from the same call made alone (iteration %d)", i, k)
						case (derr != nil) != (decErr[i] != nil) || !bytes.Equal(back, decSnap[i]):
							res[g].bad = fmt.Sprintf("concurrent: Decode(Encode(input %d)) differs from the same calls made alone (iteration %d)", i, k)
						case !bytes.Equal(in, orig[i]):
							res[g].bad = fmt.Sprintf("concurrent: the input slice %d was modified", i)
						}
					}
					res[g].enc, res[g].dec, res[g].err = out, back, derr
				}
			}(g)
		}
		close(start)
		wg.Wait()
		for i := range work {
			// what is printed: the last results of the first goroutine working on input i (retained, not copied);
			// G < n or iters == 0 leaves the reference
			encs[i], decs[i] = encSnap[i], decSnap[i]
			if i < G && iters > 0 && res[i].bad == "" {
				encs[i], decs[i], decErr[i] = res[i].enc, res[i].dec, res[i].err
			}
		}
		nbad, first := 0, map[int]bool{}
		for g := range res {
			if res[g].bad != "" {
				nbad++
				if !first[g%n] && len(first) < 3 { // one witness per input, three at most
					first[g%n] = true
					why.add(res[g].bad)
				}
			}
		}
		if nbad > 0 {
			why.add(fmt.Sprintf("concurrent: %d of %d goroutines saw a wrong result", nbad, G))
		}
	}

	// the line compared with the model: what the retained results hold now
	var sb strings.Builder
	sb.WriteString("E")
	for i := range encs {
		sb.WriteString(" " + hexs(encs[i]))
	}
	sb.WriteString(" D")
	for i := range decs {
		sb.WriteString(" " + c08DecTok(decs[i], decErr[i]))
	}
	result = sb.String()

	for i := range work {
		if !bytes.Equal(encs[i], encSnap[i]) && !changedEarly[i] {
			why.add(fmt.Sprintf("independence: the result of Encode(input %d) changed during later calls", i))
		}
		if !bytes.Equal(encSnap[i], refEnc[i]) {
			why.add(fmt.Sprintf("state: Encode(input %d) made after other calls differs from the same call made alone", i))
		}
		if decErr[i] == nil && !bytes.Equal(decs[i], decSnap[i]) {
			why.add(fmt.Sprintf("independence: the result of Decode(encoding %d) changed during later calls", i))
		}
		if !lossy {
			if decErr[i] != nil {
				why.add(fmt.Sprintf("roundtrip: the retained encoding of input %d no longer decodes", i))
			} else if !bytes.Equal(decs[i], orig[i]) {
				why.add(fmt.Sprintf("roundtrip: the retained encoding of input %d decodes to other bytes (%d for %d)", i, len(decs[i]), len(orig[i])))
			}
		}
		if !bytes.Equal(work[i], orig[i]) {
			why.add(fmt.Sprintf("input: the caller's slice %d was modified by Encode/Decode", i))
		}
	}

	// aliasing probes: the caller overwrites what it owns; nothing else may move (each probe is judged
	// against the state just before it, so that an earlier finding is not reported again under another name)
	if !raw && kind != "par" {
		probe := func(what string, skipEnc, skipDec int, scribble func()) {
			encNow, decNow := c08Copies(encs), c08Copies(decs)
			scribble()
			for j := range encs {
				if j != skipEnc && !bytes.Equal(encs[j], encNow[j]) {
					why.add("aliasing: an Encode result shares memory with " + what)
				}
				if j != skipDec && !bytes.Equal(decs[j], decNow[j]) {
					why.add("aliasing: a Decode result shares memory with " + what)
				}
			}
		}
		probe("the caller's input slice", -1, -1, func() {
			for i := range work {
				c08Scribble(work[i])
			}
		})
		for i := range encs {
			probe("another Encode result (or its spare capacity)", i, -1, func() { c08Scribble(encs[i]) })
		}
		for i := range decs {
			probe("another Decode result (or its spare capacity)", -1, i, func() { c08Scribble(decs[i]) })
		}
		// ... and the encoder itself still answers as it did before anything was retained
		for i := range orig {
			again := e.Encode(append([]byte{}, orig[i]...))
			if !bytes.Equal(again, refEnc[i]) {
				why.add("aliasing: Encode answers differently after the caller overwrote earlier results (they share memory with the encoder's state)")
				break
			}
			back, derr := e.Decode(append([]byte{}, refEnc[i]...))
			if (derr != nil) != (refErr[i] != nil) || (derr == nil && !bytes.Equal(back, refDec[i])) {
				why.add("aliasing: Decode answers differently after the caller overwrote earlier results (they share memory with the decoder's state)")
				break
			}
		}
	}
	monitor = strings.Join(why.list, "; ")
	return
}

func (codecComp) Gen(r *Rand, tier string, emit func(op string)) {
	thorough := tier == "thorough"
	encOp := func(c byte, b []byte) { emit(fmt.Sprintf("%c enc %s", c, hexs(b))) }
	decOp := func(c byte, b []byte) { emit(fmt.Sprintf("%c dec %s", c, hexs(b))) }

	// (i) exhaustive short inputs
	for _, c := range codecLetters {
		encOp(c, nil)
		for a := 0; a < 256; a++ {
			encOp(c, []byte{byte(a)})
		}
		if thorough {
			for a := 0; a < 256; a++ {
				for b := 0; b < 256; b++ {
					encOp(c, []byte{byte(a), byte(b)})
				}
			}
		} else {
			// boundary pairs: the values around every branch constant of the coders
			edge := []byte{0, 1, 0x58, 0x59, 0x5a, 0x5b, 0x7f, 0x80, 0xbf, 0xc0, 0xfe, 0xff}
			for _, a := range edge {
				for _, b := range edge {
					encOp(c, []byte{a, b})
				}
			}
		}
	}

	// (ii) every length, structured and random content
	maxLen := 600
	if thorough {
		maxLen = 4096
	}
	content := func(kind, n int) []byte {
		b := make([]byte, n)
		switch kind {
		case 0: // zeros
		case 1:
			for i := range b {
				b[i] = 0xff
			}
		case 2: // one repeated byte
			v := byte(r.Next())
			for i := range b {
				b[i] = v
			}
		case 3: // a single set bit
			if n > 0 {
				p := r.Intn(n * 8)
				if r.Intn(4) == 0 { // near the end: the tail handling sees it
					p = n*8 - 1 - r.Intn(c08min(n*8, 16))
				}
				b[p/8] = 1 << uint(p%8)
			}
		case 4: // counter
			s := byte(r.Next())
			for i := range b {
				b[i] = s + byte(i)
			}
		case 5:
			copy(b, r.Bytes(n))
		case 6: // zero runs aligned to 4 mixed with data (ascii85 'z' groups), low values (basE91 14-bit branch)
			for i := 0; i < n; i += 4 {
				switch r.Intn(3) {
				case 0:
				case 1:
					for j := i; j < n && j < i+4; j++ {
						b[j] = byte(r.Intn(3))
					}
				default:
					copy(b[i:c08min(n, i+4)], r.Bytes(4))
				}
			}
		}
		return b
	}
	const kinds = 7
	for n := 0; n <= maxLen; n++ {
		for ci, c := range codecLetters {
			if n <= 600 { // every content kind at every length
				for k := 0; k < kinds; k++ {
					encOp(c, content(k, n))
				}
			} else {
				encOp(c, content((n+ci)%kinds, n))
				encOp(c, content(5, n))
			}
		}
	}

	// (ii-b) "several thousand bytes": sparse long lengths beyond the dense range, in both tiers — around the powers of
	// two, the round thousands, the largest fragment the tunnel negotiates (8192) and random ones.  Any cap, scratch
	// buffer or 16-bit counter sized for "typical" DNS payloads shows at the long end.
	long := []int{1023, 1024, 1025, 2047, 2048, 2049, 3000, 4095, 4096, 4097, 5000, 6000, 7000, 8191, 8192, 8193, 9000}
	nrand := 6
	if thorough {
		nrand = 40
	}
	for i := 0; i < nrand; i++ {
		long = append(long, maxLen+1+r.Intn(9000-maxLen))
	}
	for _, n := range long {
		if n <= maxLen {
			continue
		}
		for ci, c := range codecLetters {
			encOp(c, content(5, n))
			encOp(c, content((n+ci)%kinds, n))
		}
	}

	// (iii) Decode on arbitrary strings
	alph := map[byte][]byte{}
	for _, c := range codecLetters {
		e, _ := enc.FromCode(c)
		var a []byte
		for _, p := range e.TestPatterns() {
			a = append(a, p...)
		}
		if len(a) == 0 {
			a = r.Bytes(64)
		}
		alph[c] = a
	}
	rounds := 1
	if thorough {
		rounds = 6
	}
	for round := 0; round < rounds; round++ {
		for _, c := range codecLetters {
			e, _ := enc.FromCode(c)
			a := alph[c]
			// in-alphabet strings of every length residue
			for n := 0; n <= 48; n++ {
				s := make([]byte, n)
				for i := range s {
					s[i] = a[r.Intn(len(a))]
				}
				decOp(c, s)
			}
			for i := 0; i < 40; i++ {
				x := r.Bytes(r.Intn(40))
				good := c08SafeEncode(e, x)
				if len(good) == 0 {
					continue
				}
				// truncated encodings
				decOp(c, good[:r.Intn(len(good))])
				// one foreign byte (dot, backslash, space, newline, NUL, 0xff, '=', 'z', upper case, random)
				foreign := []byte{'.', '\\', ' ', '\n', '\r', 0, 0xff, '=', 'z', 'A', '~', 0x7f, byte(r.Next())}
				m := append([]byte{}, good...)
				p := r.Intn(len(m))
				f := foreign[r.Intn(len(foreign))]
				switch r.Intn(3) {
				case 0:
					m[p] = f
				case 1:
					m = append(m[:p], append([]byte{f}, m[p:]...)...)
				default:
					m = append(m, bytes.Repeat([]byte{f}, 1+r.Intn(8))...)
				}
				decOp(c, m)
			}
			// arbitrary bytes
			for i := 0; i < 40; i++ {
				decOp(c, r.Bytes(r.Intn(24)))
			}
			// runs of one character (ascii85 'z' groups, 0xff "padding" of base32)
			for _, ch := range []byte{'z', 0xff, 'a', '!', 'u', a[0]} {
				for n := 1; n <= 12; n++ {
					decOp(c, bytes.Repeat([]byte{ch}, n))
					decOp(c, append([]byte{a[1%len(a)], a[2%len(a)]}, bytes.Repeat([]byte{ch}, n)...))
				}
			}
		}
	}

	// (iv) independence of results: several inputs through the same encoder value, results retained
	multi := func(c byte, kind string, ins [][]byte) {
		var sb strings.Builder
		fmt.Fprintf(&sb, "%c %s", c, kind)
		for _, x := range ins {
			sb.WriteString(" " + hexs(x))
		}
		emit(sb.String())
	}
	pairLens := []int{0, 1, 2, 3, 4, 5, 6, 7, 8, 13, 14, 15, 16, 31, 64, 183, 255, 600}
	if thorough {
		pairLens = append(pairLens, 9, 10, 11, 12, 17, 32, 63, 65, 127, 128, 256, 511, 1024, 4096)
	}
	for _, c := range codecLetters {
		for _, la := range pairLens {
			for _, lb := range pairLens {
				a, b := content(r.Intn(kinds), la), content(5, lb)
				if la == lb && la > 0 && bytes.Equal(a, b) {
					b[r.Intn(lb)] ^= 0x40
				}
				multi(c, "pair", [][]byte{a, b})
			}
		}
		nseq := 40
		if thorough {
			nseq = 400
		}
		for i := 0; i < nseq; i++ {
			k := 3 + r.Intn(6)
			ins := make([][]byte, k)
			same := r.Intn(64) // equal lengths: a recycled buffer yields a well-formed but foreign encoding
			for j := range ins {
				switch i % 4 {
				case 0:
					ins[j] = content(5, same)
				case 1: // decreasing lengths: a shorter later result leaves the tail of the earlier one
					ins[j] = content(5, (k-j)*7+r.Intn(7))
				default:
					ins[j] = content(r.Intn(kinds), r.Intn(65))
				}
			}
			if i%5 == 4 { // the same input again later
				ins[k-1] = append([]byte{}, ins[0]...)
			}
			multi(c, "seq", ins)
		}
		npar := 6
		if thorough {
			npar = 40
		}
		for i := 0; i < npar; i++ {
			k := 2 + r.Intn(7)
			ins := make([][]byte, k)
			same := 1 + r.Intn(200)
			for j := range ins {
				if i%2 == 0 {
					ins[j] = content(5, same)
				} else {
					ins[j] = content(5, r.Intn(300))
				}
			}
			var sb strings.Builder
			fmt.Fprintf(&sb, "%c par %d %d", c, 64, 32)
			for _, x := range ins {
				sb.WriteString(" " + hexs(x))
			}
			emit(sb.String())
		}
	}
}

//go:build verif

package main

import (
	"bytes"
	"fmt"
	"math"
	"strings"

	"github.com/bokysan/socketace/v2/internal/util/enc"
)

// ---- C08: the DNS codecs, selected the way a peer selects them (enc.FromCode) ----
//
// op:      <codec letter> enc <hex>      result: hex(Encode(x))
//          <codec letter> dec <hex>      result: hex(Decode(x)) or "err"
// monitor (enc ops): Decode(Encode x) == x; for the text codecs (all but Raw) every output byte is
// DNS-safe (> 32, != 127, not '.', not '\\'); len(output) <= ceil(Ratio()*len(x)) + 8.

type codecComp struct{}

func init() { register("codec", codecComp{}) }

var codecLetters = []byte{'T', 'S', 'U', 'W', 'X', 'V', 'Y', 'R'}

const codecSlack = 8

func c08min(a, b int) int {
	if a < b {
		return a
	}
	return b
}

// c08SafeEncode is used by the generator only (building mostly-valid Decode inputs); a panicking
// encoder must not take the generator down - the enc ops report it through safeExec.
func c08SafeEncode(e enc.Encoder, x []byte) (out []byte) {
	defer func() {
		if recover() != nil {
			out = nil
		}
	}()
	return e.Encode(x)
}

func dnsSafeByte(b byte) bool {
	return b > 32 && b != 127 && b != '.' && b != '\\'
}

func lenClass(n int) string {
	switch {
	case n == 0:
		return "len0"
	case n == 1:
		return "len1"
	case n == 2:
		return "len2"
	case n <= 16:
		return "len3-16"
	case n <= 255:
		return "len17-255"
	case n <= 600:
		return "len256-600"
	default:
		return "len601+"
	}
}

func (codecComp) Exec(op string) (result, monitor, class string, nontrivial bool) {
	t := strings.Fields(op)
	if len(t) != 3 || len(t[0]) != 1 {
		return "bad-op", "", "bad-op", false
	}
	data, err := unhex(t[2])
	if err != nil {
		return "bad-op", "", "bad-op", false
	}
	e, err := enc.FromCode(t[0][0])
	if err != nil {
		return "bad-codec", "", "bad-codec", false
	}
	letter := strings.ToUpper(t[0])
	switch t[1] {
	case "enc":
		class = letter + ":enc:" + lenClass(len(data))
		out := e.Encode(data)
		result = hexs(out)
		nontrivial = len(data) > 0
		// direct monitor of the property on the implementation
		var reasons []string
		back, derr := e.Decode(append([]byte{}, out...))
		if derr != nil {
			reasons = append(reasons, "roundtrip: Decode(Encode(x)) fails")
		} else if !bytes.Equal(back, data) {
			reasons = append(reasons, fmt.Sprintf("roundtrip: Decode(Encode(x)) != x (got %d bytes for %d)", len(back), len(data)))
		}
		if e.Code() != 'R' {
			for _, b := range out {
				if !dnsSafeByte(b) {
					reasons = append(reasons, fmt.Sprintf("alphabet: output byte 0x%02x is not DNS-safe", b))
					break
				}
			}
		}
		bound := int(math.Ceil(e.Ratio()*float64(len(data)))) + codecSlack
		if len(out) > bound {
			reasons = append(reasons, fmt.Sprintf("length: %d output bytes for %d input bytes exceeds ceil(ratio*len)+%d = %d", len(out), len(data), codecSlack, bound))
		}
		monitor = strings.Join(reasons, "; ")
		return
	case "dec":
		out, derr := e.Decode(data)
		if derr != nil {
			return "err", "", letter + ":dec:err", false
		}
		return hexs(out), "", letter + ":dec:ok:" + lenClass(len(out)), len(out) > 0
	}
	return "bad-op", "", "bad-op", false
}

func (codecComp) Gen(r *Rand, tier string, emit func(op string)) {
	thorough := tier == "thorough"
	encOp := func(c byte, b []byte) { emit(fmt.Sprintf("%c enc %s", c, hexs(b))) }
	decOp := func(c byte, b []byte) { emit(fmt.Sprintf("%c dec %s", c, hexs(b))) }

	// (i) exhaustive short inputs
	for _, c := range codecLetters {
		encOp(c, nil)
		for a := 0; a < 256; a++ {
			encOp(c, []byte{byte(a)})
		}
		if thorough {
			for a := 0; a < 256; a++ {
				for b := 0; b < 256; b++ {
					encOp(c, []byte{byte(a), byte(b)})
				}
			}
		} else {
			// boundary pairs: the values around every branch constant of the coders
			edge := []byte{0, 1, 0x58, 0x59, 0x5a, 0x5b, 0x7f, 0x80, 0xbf, 0xc0, 0xfe, 0xff}
			for _, a := range edge {
				for _, b := range edge {
					encOp(c, []byte{a, b})
				}
			}
		}
	}

	// (ii) every length, structured and random content
	maxLen := 600
	if thorough {
		maxLen = 4096
	}
	content := func(kind, n int) []byte {
		b := make([]byte, n)
		switch kind {
		case 0: // zeros
		case 1:
			for i := range b {
				b[i] = 0xff
			}
		case 2: // one repeated byte
			v := byte(r.Next())
			for i := range b {
				b[i] = v
			}
		case 3: // a single set bit
			if n > 0 {
				p := r.Intn(n * 8)
				if r.Intn(4) == 0 { // near the end: the tail handling sees it
					p = n*8 - 1 - r.Intn(c08min(n*8, 16))
				}
				b[p/8] = 1 << uint(p%8)
			}
		case 4: // counter
			s := byte(r.Next())
			for i := range b {
				b[i] = s + byte(i)
			}
		case 5:
			copy(b, r.Bytes(n))
		case 6: // zero runs aligned to 4 mixed with data (ascii85 'z' groups), low values (basE91 14-bit branch)
			for i := 0; i < n; i += 4 {
				switch r.Intn(3) {
				case 0:
				case 1:
					for j := i; j < n && j < i+4; j++ {
						b[j] = byte(r.Intn(3))
					}
				default:
					copy(b[i:c08min(n, i+4)], r.Bytes(4))
				}
			}
		}
		return b
	}
	const kinds = 7
	for n := 0; n <= maxLen; n++ {
		for ci, c := range codecLetters {
			if n <= 600 { // every content kind at every length
				for k := 0; k < kinds; k++ {
					encOp(c, content(k, n))
				}
			} else {
				encOp(c, content((n+ci)%kinds, n))
				encOp(c, content(5, n))
			}
		}
	}

	// (iii) Decode on arbitrary strings
	alph := map[byte][]byte{}
	for _, c := range codecLetters {
		e, _ := enc.FromCode(c)
		var a []byte
		for _, p := range e.TestPatterns() {
			a = append(a, p...)
		}
		if len(a) == 0 {
			a = r.Bytes(64)
		}
		alph[c] = a
	}
	rounds := 1
	if thorough {
		rounds = 6
	}
	for round := 0; round < rounds; round++ {
		for _, c := range codecLetters {
			e, _ := enc.FromCode(c)
			a := alph[c]
			// in-alphabet strings of every length residue
			for n := 0; n <= 48; n++ {
				s := make([]byte, n)
				for i := range s {
					s[i] = a[r.Intn(len(a))]
				}
				decOp(c, s)
			}
			for i := 0; i < 40; i++ {
				x := r.Bytes(r.Intn(40))
				good := c08SafeEncode(e, x)
				if len(good) == 0 {
					continue
				}
				// truncated encodings
				decOp(c, good[:r.Intn(len(good))])
				// one foreign byte (dot, backslash, space, newline, NUL, 0xff, '=', 'z', upper case, random)
				foreign := []byte{'.', '\\', ' ', '\n', '\r', 0, 0xff, '=', 'z', 'A', '~', 0x7f, byte(r.Next())}
				m := append([]byte{}, good...)
				p := r.Intn(len(m))
				f := foreign[r.Intn(len(foreign))]
				switch r.Intn(3) {
				case 0:
					m[p] = f
				case 1:
					m = append(m[:p], append([]byte{f}, m[p:]...)...)
				default:
					m = append(m, bytes.Repeat([]byte{f}, 1+r.Intn(8))...)
				}
				decOp(c, m)
			}
			// arbitrary bytes
			for i := 0; i < 40; i++ {
				decOp(c, r.Bytes(r.Intn(24)))
			}
			// runs of one character (ascii85 'z' groups, 0xff "padding" of base32)
			for _, ch := range []byte{'z', 0xff, 'a', '!', 'u', a[0]} {
				for n := 1; n <= 12; n++ {
					decOp(c, bytes.Repeat([]byte{ch}, n))
					decOp(c, append([]byte{a[1%len(a)], a[2%len(a)]}, bytes.Repeat([]byte{ch}, n)...))
				}
			}
		}
	}
}

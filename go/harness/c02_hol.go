//go:build verif

package main

import (
	"bytes"
	"crypto/tls"
	"fmt"
	"net"
	"strconv"
	"strings"
	"time"

	"github.com/bokysan/socketace/v2/internal/socketace"
	sadns "github.com/bokysan/socketace/v2/internal/streams/dns"
	"github.com/bokysan/socketace/v2/internal/streams/dns/commands"
	"github.com/bokysan/socketace/v2/internal/util/cert"
	"github.com/bokysan/socketace/v2/internal/util/enc"
	mdns "github.com/miekg/dns"
	"github.com/xtaci/kcp-go/v5"
	"golang.org/x/net/dns/dnsmessage"
)

// ---- C02 `hol <carrier> <k>`: k idle logical connections are opened on one session (each has echoed one
// byte so it certainly exists end to end, then goes idle), then a fresh logical connection must echo.
// ---- C15 `stall <kind> <point> <m>`: m raw peers connect to the server endpoint and stall at <point>, then a
// real client must complete its handshake and echo.
// result: served | blocked

type holComp struct{}
type stallComp struct{}

func init() { register("hol", holComp{}); register("stall", stallComp{}) }

func echoOnce(rig *Rig, n int, seed uint64, d time.Duration) (net.Conn, error) {
	c, err := rig.Dial("echo")
	if err != nil {
		return nil, err
	}
	data := payload(seed, n)
	if err := writeParts(c, data, 0, d); err != nil {
		c.Close()
		return nil, err
	}
	got, err := readFullDeadline(c, n, d)
	if err != nil {
		c.Close()
		return nil, err
	}
	if !bytes.Equal(got, data) {
		c.Close()
		return nil, fmt.Errorf("echo mismatch")
	}
	return c, nil
}

func holOnce(carrier string, k int, d time.Duration) (string, string) {
	rig, err := NewRig(RigOpts{Carrier: carrier, Insecure: true})
	if err != nil {
		return "fail:rig", err.Error()
	}
	defer rig.Close()
	var idle []net.Conn
	defer func() {
		for _, c := range idle {
			c.Close()
		}
	}()
	for i := 0; i < k; i++ {
		// an idle connection: opened by the application, nothing written yet
		c, err := rig.Dial("echo")
		if err != nil {
			return "fail:dial", err.Error()
		}
		idle = append(idle, c)
	}
	time.Sleep(150 * time.Millisecond) // let the idle connections reach the server
	c, err := echoOnce(rig, 64, 7, d)
	if err != nil {
		return "blocked", fmt.Sprintf("a new logical connection did not echo within %v while %d idle connection(s) were open: %v", d, k, err)
	}
	c.Close()
	// the idle ones must still work afterwards (isolation both ways)
	for i, ic := range idle {
		data := payload(uint64(100+i), 32)
		if err := writeParts(ic, data, 0, d); err != nil {
			return "blocked", fmt.Sprintf("idle connection %d failed on write: %v", i, err)
		}
		got, err := readFullDeadline(ic, 32, d)
		if err != nil || !bytes.Equal(got, data) {
			return "blocked", fmt.Sprintf("idle connection %d did not echo its own bytes: %v", i, err)
		}
	}
	return "served", ""
}

func (holComp) Exec(op string) (string, string, string, bool) {
	f := strings.Fields(op)
	if len(f) != 2 {
		return "bad-op", "", "bad", false
	}
	k, _ := strconv.Atoi(f[1])
	out, why := holOnce(f[0], k, 3*time.Second)
	if out != "served" {
		out, why = holOnce(f[0], k, 10*time.Second)
	}
	mon := ""
	if out != "served" {
		mon = why
	}
	return out, mon, f[0], out == "served"
}

func (holComp) Gen(r *Rand, tier string, emit func(string)) {
	for _, c := range []string{"tcp", "ws", "stdio"} {
		emit(c + " 1")
	}
	emit("tcp 3")
	emit("udp 1")
	emit("tcp 100") // many idle connections on one session (any per-session cap on handlers shows here)
	emit("ws 70")
	if tier == "thorough" {
		for _, c := range []string{"tcptls", "starttls", "wss", "udp", "dns"} {
			emit(c + " 2")
		}
		emit("tcp 8")
		emit("ws 8")
	}
}

// firstRequest records the bytes the real client writes for its first handshake message.
func firstRequest() []byte {
	a, b := net.Pipe()
	defer a.Close()
	defer b.Close()
	go func() { _, _ = socketace.NewClientConnection(a, nil, false, "localhost") }()
	var got []byte
	buf := make([]byte, 4096)
	_ = b.SetReadDeadline(time.Now().Add(3 * time.Second))
	for !bytes.Contains(got, []byte("\r\n\r\n")) {
		n, err := b.Read(buf)
		got = append(got, buf[:n]...)
		if err != nil {
			break
		}
	}
	return got
}

var junkSeq = -1

func stallPeer(kind, point, addr string, first []byte) (func(), error) {
	var c net.Conn
	var err error
	switch kind {
	case "udp":
		c, err = kcp.DialWithOptions(addr, nil, 10, 3)
	case "dns":
		// a DNS tunnel peer: "version" = it opens a tunnel session (version exchange) and then never speaks again;
		// anything else = it sends one query that is no tunnel command and stays
		c, err = net.DialTimeout("udp", addr, 3*time.Second)
		if err != nil {
			return nil, err
		}
		cl := func() { _ = c.Close() }
		var q []byte
		if point == "junk" {
			// datagrams a resolver, a scanner or a broken client can send: several questions, none, root names,
			// counts without bodies, truncated headers, compression loops, random bytes
			mk := func(names ...string) []byte {
				m := new(mdns.Msg)
				m.Id = 4711
				m.RecursionDesired = true
				for _, n := range names {
					m.Question = append(m.Question, mdns.Question{Name: n, Qtype: mdns.TypeA, Qclass: mdns.ClassINET})
				}
				b, _ := m.Pack()
				return b
			}
			junk := [][]byte{
				mk(".", "."), mk("a.", "b."), mk("example.org.", "example.org.", "example.org."), mk(), mk("."),
				mk("x.example.org.", "."), mk("caaaa.example.org.", "vaaaa.example.org."),
				{0x12, 0x34, 0x01, 0x00, 0xff, 0xff, 0x00, 0x00, 0x00, 0x00, 0x00, 0x00},
				{0x12, 0x34, 0x01, 0x00, 0x00, 0x02, 0, 0, 0, 0, 0, 0, 0x00, 0x00, 0x01, 0x00, 0x01},
				{0x12, 0x34, 0x01, 0x00, 0x00, 0x01, 0, 0, 0, 0, 0, 0, 0xc0, 0x0c, 0x00, 0x01, 0x00, 0x01},
				{0x12, 0x34}, {}, {0xff, 0xff, 0xff, 0xff, 0xff, 0xff, 0xff, 0xff, 0xff, 0xff, 0xff, 0xff, 0xff},
				append(mk("example.org."), 0xde, 0xad, 0xbe, 0xef),
			}
			junkSeq++
			_ = c.SetDeadline(time.Now().Add(1 * time.Second))
			_, _ = c.Write(junk[junkSeq%len(junk)])
			buf := make([]byte, 4096)
			_, _ = c.Read(buf)
			_ = c.SetDeadline(time.Time{})
			return cl, nil
		}
		if point == "version" {
			ser := commands.Serializer{Domain: "example.org"}
			m, e := ser.EncodeDnsRequestWithParams(&commands.VersionRequest{ClientVersion: sadns.ProtocolVersion}, dnsmessage.TypeCNAME, enc.Base32Encoding)
			if e != nil {
				return cl, e
			}
			q, e = m.Pack()
			if e != nil {
				return cl, e
			}
		} else {
			m := new(mdns.Msg)
			m.SetQuestion("www.example.org.", mdns.TypeA)
			q, _ = m.Pack()
		}
		_ = c.SetDeadline(time.Now().Add(3 * time.Second))
		_, _ = c.Write(q)
		buf := make([]byte, 4096)
		_, _ = c.Read(buf)
		_ = c.SetDeadline(time.Time{})
		return cl, nil
	case "unix", "unixtls", "unixstarttls":
		c, err = net.DialTimeout("unix", addr, 3*time.Second)
	default:
		c, err = net.DialTimeout("tcp", addr, 3*time.Second)
	}
	if err != nil {
		return nil, err
	}
	closeFn := func() { _ = c.Close() }
	_ = c.SetDeadline(time.Now().Add(5 * time.Second))
	switch point {
	case "connect":
		if kind == "udp" {
			// a KCP peer exists for the server only once a datagram arrives
			_, _ = c.Write([]byte("X"))
		}
	case "partial":
		_, _ = c.Write(first[:len(first)/2])
	case "garbage":
		_, _ = c.Write([]byte("\x00\x01\x02 garbage without a line end "))
	case "httpget", "hangup", "tlsonplain", "junk":
		// peers whose handshake fails outright and who are gone afterwards: a plain HTTP probe, a connect-and-hang-up,
		// a TLS hello on a plain endpoint.  Nothing is left of them when the well-behaved client arrives.
		switch point {
		case "junk":
			// malformed first lines of every shape a line parser can trip over
			junk := []string{"GET /\r\n\r\n", "HELO\r\n\r\n", "\r\n\r\n", " \r\n\r\n", "  \r\n\r\n", "X-SOCKETACE\r\n\r\n", "X-SOCKETACE /\r\n\r\n",
				"GET / HTTP/1.1 and more words\r\n\r\n", "X-SOCKETACE / HTTP/1.1\r\nno colon here\r\n\r\n", "X-SOCKETACE / HTTP/1.1\r\n: empty name\r\n\r\n",
				strings.Repeat("A", 5000) + "\r\n\r\n", "\x00\r\n\r\n", "GET\t/\tHTTP/1.1\r\n\r\n", "X-SOCKETACE / HTTP/1.1\n\n", "X-SOCKETACE / HTTP/1.1\r\nAccepts-Protocol-Version\r\n\r\n"}
			junkSeq++
			_, _ = c.Write([]byte(junk[junkSeq%len(junk)]))
		case "httpget":
			_, _ = c.Write([]byte("GET / HTTP/1.1\r\nHost: localhost\r\n\r\n"))
		case "tlsonplain":
			_, _ = c.Write([]byte{0x16, 0x03, 0x01, 0x00, 0x05, 0x01, 0x00, 0x00, 0x01, 0x00, 0x0d, 0x0a, 0x0d, 0x0a})
		}
		_ = c.SetReadDeadline(time.Now().Add(time.Second))
		buf := make([]byte, 4096)
		for {
			if _, err := c.Read(buf); err != nil {
				break
			}
		}
		_ = c.Close()
		return func() {}, nil
	case "between":
		_, _ = c.Write(first)
		buf := make([]byte, 4096)
		var got []byte
		for !bytes.Contains(got, []byte("\r\n\r\n")) {
			n, err := c.Read(buf)
			got = append(got, buf[:n]...)
			if err != nil {
				break
			}
		}
	case "tlshello":
		_, _ = c.Write([]byte{0x16, 0x03, 0x01, 0x02, 0x00, 0x01})
	case "starttlshello":
		// the peer completes both handshake requests asking for StartTLS, gets its 101, and then stalls inside
		// the TLS hello: the real client code runs on a connection that swallows the first TLS record for ever
		go func() {
			_, _ = socketace.NewClientConnection(&tlsStallConn{Conn: c}, &cert.ClientConfig{InsecureSkipVerify: true}, false, "localhost")
		}()
		time.Sleep(300 * time.Millisecond)
	case "afterupgrade":
		var cc net.Conn = c
		if kind == "tcptls" {
			t := tls.Client(c, &tls.Config{InsecureSkipVerify: true})
			if err := t.Handshake(); err != nil {
				return closeFn, err
			}
			cc = t
		}
		if _, err := socketace.NewClientConnection(cc, &cert.ClientConfig{InsecureSkipVerify: true}, kind == "tcptls", "localhost"); err != nil {
			return closeFn, err
		}
	}
	_ = c.SetDeadline(time.Time{})
	return closeFn, nil
}

// tlsStallConn passes the text handshake through and blocks for ever on the first TLS handshake record it is
// asked to write (content type 0x16).
type tlsStallConn struct{ net.Conn }

func (t *tlsStallConn) Write(p []byte) (int, error) {
	if len(p) > 0 && p[0] == 0x16 {
		select {}
	}
	return t.Conn.Write(p)
}

func stallOnce(kind, point string, m int, d time.Duration) (string, string) {
	carrier := kind
	rig, err := NewRig(RigOpts{Carrier: carrier, Insecure: true})
	if err != nil {
		return "fail:rig", err.Error()
	}
	defer rig.Close()
	first := firstRequest()
	for i := 0; i < m; i++ {
		cl, err := stallPeer(kind, point, rig.ServerAddr, first)
		if cl != nil {
			defer cl()
		}
		if err != nil && (point == "afterupgrade" || cl == nil) {
			return "fail:peer", err.Error()
		}
	}
	time.Sleep(150 * time.Millisecond)
	c, err := echoOnce(rig, 64, 9, d)
	if err != nil {
		return "blocked", fmt.Sprintf("a well-behaved client got no echo within %v while %d peer(s) were stalled at %q: %v", d, m, point, err)
	}
	c.Close()
	return "served", ""
}

func (stallComp) Exec(op string) (string, string, string, bool) {
	f := strings.Fields(op)
	if len(f) == 5 && (f[4] == "sf" || f[4] == "gf") {
		m, _ := strconv.Atoi(f[2])
		hold, err := strconv.Atoi(f[3])
		if err != nil || hold < 0 || hold > 120 {
			return "bad-op", "", "bad", false
		}
		out, why := stallHoldOp(f[0], f[1], m, time.Duration(hold)*time.Second, f[4] == "gf")
		return out, why, f[0] + " " + f[1] + " hold", out == "served"
	}
	if len(f) == 4 && strings.HasPrefix(f[3], "acc:") {
		m, _ := strconv.Atoi(f[2])
		return stallAcceptFailOp(f[0], f[1], m, f[3])
	}
	if len(f) != 3 {
		return "bad-op", "", "bad", false
	}
	m, _ := strconv.Atoi(f[2])
	out, why := stallOnce(f[0], f[1], m, 3*time.Second)
	if out != "served" {
		out, why = stallOnce(f[0], f[1], m, 10*time.Second)
	}
	mon := ""
	if out != "served" {
		mon = why
	}
	return out, mon, f[0] + " " + f[1], out == "served"
}

func (stallComp) Gen(r *Rand, tier string, emit func(string)) {
	emit("tcp connect 1")
	emit("tcp connect 40") // many silent peers at once (any cap on concurrent handshakes shows here)
	emit("tcp partial 24")
	emit("ws connect 24")
	emit("tcp partial 1")
	emit("tcp between 1")
	emit("tcp afterupgrade 2")
	emit("tcptls tlshello 1")
	emit("starttls starttlshello 1")
	emit("ws connect 2")
	emit("udp connect 1")
	// the established client's session is held while the peers stay stalled (any handshake watchdog or deadline the
	// server arms for the stalled peers expires meanwhile)
	emit("tcp junk 15")
	emit("tcp httpget 6")
	emit("tcp hangup 6")
	emit("unix httpget 5")
	emit("dns version 3")
	emit("dns junk 14")
	emit("dns other 2")
	emit("tcp connect 1 12 sf")
	stallAcceptFailGen(r, tier, emit)
	if tier == "thorough" {
		emit("tcp connect 1 25 sf")
		emit("tcp partial 2 25 gf")
		emit("starttls between 1 25 sf")
		emit("tcptls tlshello 1 25 sf")
		emit("ws connect 1 25 sf")
		emit("udp connect 1 25 sf")
		emit("tcp connect 2 45 gf")
		emit("tcp garbage 1 65 sf")
		emit("tcp tlsonplain 8")
		emit("tcptls junk 15")
		emit("unix junk 15")
		emit("udp junk 15")
		emit("ws httpget 8")
		emit("tcptls httpget 8")
		emit("udp httpget 5")
		emit("dns version 1 70 sf") // the endpoint's once-a-minute retirement of silent sessions falls inside the hold
		for _, k := range []string{"tcp", "starttls"} {
			for _, p := range []string{"connect", "partial", "garbage", "between", "afterupgrade"} {
				emit(k + " " + p + " 5")
			}
		}
		emit("tcptls connect 5")
		emit("tcptls tlshello 5")
		emit("tcptls afterupgrade 2")
		emit("ws partial 5")
		emit("wss tlshello 3")
		emit("starttls starttlshello 5")
		emit("udp partial 3")
	}
}

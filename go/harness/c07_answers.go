//go:build verif

package main

// C07, answer identities (second and third op form of `dnsretry`, see c07_retry.go): which answers the client takes for an
// outstanding exchange — late answers, answers to an earlier retransmission, copies, foreign ids — in memory (the communicator hands up
// whatever arrives) and over a loopback UDP socket through the REAL NetConnectionClientCommunicator (miekg filters by id).

import (
	"fmt"
	"net"
	"strconv"
	"strings"
	"sync"
	"time"

	sadns "github.com/bokysan/socketace/v2/internal/streams/dns"
	"github.com/bokysan/socketace/v2/internal/streams/dns/util"
	"github.com/bokysan/socketace/v2/internal/util/enc"
	"github.com/miekg/dns"
)

// the real UDP communicator with SendAndReceive's time-outs (1 s, 2 s, …) divided by 4
type c07ScaledComm struct {
	*sadns.NetConnectionClientCommunicator
}

func (c c07ScaledComm) SendAndReceive(m *dns.Msg, timeout *time.Duration) (*dns.Msg, time.Duration, error) {
	if timeout != nil && *timeout > 0 {
		t := *timeout / 4
		return c.NetConnectionClientCommunicator.SendAndReceive(m, &t)
	}
	return c.NetConnectionClientCommunicator.SendAndReceive(m, timeout)
}

// scripted UDP name server in front of the real ServerDnsListener
type c07UdpServer struct {
	mu      sync.Mutex
	pc      *net.UDPConn
	message sadns.OnMessage
	script  []string
	armed   bool
	idx     int
	held    []c07UdpHeld
	done    chan struct{}
}

type c07UdpHeld struct {
	due  int
	data []byte
}

func (u *c07UdpServer) Close() error                     { return u.pc.Close() }
func (u *c07UdpServer) Closed() bool                     { return false }
func (u *c07UdpServer) RegisterAccept(m sadns.OnMessage) { u.message = m }
func (u *c07UdpServer) LocalAddr() net.Addr              { return u.pc.LocalAddr() }

func (u *c07UdpServer) arm(on bool) {
	u.mu.Lock()
	u.armed = on
	u.mu.Unlock()
}

func (u *c07UdpServer) serve() {
	defer close(u.done)
	buf := make([]byte, 65535)
	for {
		n, addr, err := u.pc.ReadFromUDP(buf)
		if err != nil {
			return
		}
		q := &dns.Msg{}
		if q.Unpack(buf[:n]) != nil {
			continue
		}
		u.mu.Lock()
		fate, idx := "ok", -1
		if u.armed {
			idx = u.idx
			u.idx++
			if idx < len(u.script) {
				fate = u.script[idx]
			}
		}
		// answers the path was holding back arrive now, ahead of this query's own answer
		var keep []c07UdpHeld
		for _, h := range u.held {
			if h.due <= idx {
				_, _ = u.pc.WriteToUDP(h.data, addr)
			} else {
				keep = append(keep, h)
			}
		}
		u.held = keep
		u.mu.Unlock()
		if fate == "ql" {
			continue
		}
		r, err := u.message(q, addr)
		if err != nil || r == nil {
			continue
		}
		if fate == "fid" {
			r.Id++
		}
		data, err := r.Pack()
		if err != nil {
			continue
		}
		switch fate {
		case "al":
		case "ok", "fid":
			_, _ = u.pc.WriteToUDP(data, addr)
		case "dup":
			_, _ = u.pc.WriteToUDP(data, addr)
			_, _ = u.pc.WriteToUDP(data, addr)
		default:
			if k, ok := c07LateK(fate); ok {
				u.mu.Lock()
				u.held = append(u.held, c07UdpHeld{due: idx + k, data: data})
				u.mu.Unlock()
			}
		}
	}
}

func c07AnswersExec(toks []string) (result string, monitor string, class string, nontrivial bool) {
	bad := func() (string, string, string, bool) { return "bad-op", "", "bad", false }
	data, err := unhex(toks[0])
	if err != nil || len(data) == 0 || len(data) > 8 || !strings.HasPrefix(toks[2], "mtu=") {
		return bad()
	}
	mtu, err := strconv.Atoi(toks[2][4:])
	if err != nil || mtu < 1 || mtu > 8 || strconv.Itoa(mtu) != toks[2][4:] {
		return bad()
	}
	udp := toks[1] == "udp"
	script := toks[3:]
	// faults = exchanges whose own answer does not come back on time and unchanged (an implementation may take a late answer, a copy or a
	// re-labelled answer for an answer, or ignore it and retransmit: either way at most one try is spent per fault)
	faults, hasErr, kinds := 0, false, map[string]bool{}
	for _, f := range script {
		_, late := c07LateK(f)
		switch {
		case f == "ok":
		case f == "ql" || f == "al" || f == "dup" || f == "fid" || late:
			faults++
		case f == "st" && !udp:
			faults++
		case f == "er" && !udp:
			hasErr = true
		default:
			return bad()
		}
		if late {
			kinds["late"] = true
		} else if f != "ok" {
			kinds[f] = true
		}
	}
	if c07Hangs >= 3 {
		return "HANG-SKIPPED", "Write did not return (earlier ops of this run hung; not attempted)", "hang", false
	}

	var (
		client *sadns.ClientDnsConnection
		srv    *sadns.ServerDnsListener
		comm   *c07Comm
		us     *c07UdpServer
	)
	if udp {
		pc, err := net.ListenUDP("udp", &net.UDPAddr{IP: net.IPv4(127, 0, 0, 1)})
		if err != nil {
			return "setup-failed", "", "setup", false
		}
		us = &c07UdpServer{pc: pc, script: script, done: make(chan struct{})}
		srv = sadns.NewServerDnsListener("example.org", us)
		go us.serve()
		defer func() { _ = pc.Close(); <-us.done }()
		real, err := sadns.NewNetConnectionClientCommunicator(&sadns.ClientConfig{Servers: sadns.AddressList{pc.LocalAddr()}})
		if err != nil {
			return "setup-failed", "", "setup", false
		}
		defer real.Close()
		client, err = sadns.NewClientDnsConnection("example.org", c07ScaledComm{real})
		if err != nil {
			return "setup-failed", "", "setup", false
		}
	} else {
		comm = &c07Comm{script: script}
		srv = sadns.NewServerDnsListener("example.org", comm)
		defer comm.Close()
		client, err = sadns.NewClientDnsConnection("example.org", comm)
		if err != nil {
			return "setup-failed", "", "setup", false
		}
	}
	if err := client.AutoDetectQueryType(); err != nil {
		return "setup-failed", "", "setup", false
	}
	if err := client.VersionHandshake(); err != nil {
		return "setup-failed", "", "setup", false
	}
	client.Serializer.Upstream.Encoder = enc.Base32Encoding
	client.Serializer.Downstream.Encoder = enc.Base32Encoding
	client.Serializer.Upstream.FragmentSize = uint32(mtu)
	conn, err := srv.Accept()
	if err != nil {
		return "setup-failed", "", "setup", false
	}
	sin := conn.(interface{ VerifIn() *util.InQueue }).VerifIn()
	if udp {
		us.arm(true)
	} else {
		comm.armed = true
	}
	type wres struct {
		n   int
		err error
	}
	done := make(chan wres, 1)
	go func() {
		n, err := client.Write(data)
		done <- wres{n, err}
	}()
	var w wres
	select {
	case w = <-done:
	case <-time.After(20 * time.Second):
		c07Hangs++
		if comm != nil {
			comm.failAll = true
		}
		return "HANG", "Write did not return", "hang", false
	}
	calls := "-"
	if udp {
		us.arm(false)
	} else {
		comm.armed = false
		calls = strconv.Itoa(comm.calls)
	}
	got, _, _ := sin.VerifState()
	ec := "ok"
	if w.err != nil {
		ec = "err"
	}
	result = fmt.Sprintf("calls=%s n=%d err=%s srv=%s", calls, w.n, ec, hexs(got))

	// monitor.  With at most 4 faults in the whole Write and no communicator error, no
	// SendAndReceive can run out of its five tries: every fragment's send is followed by some delivered answer, so the faults are
	// isolated and retransmission has to absorb them.
	absorbed := !hasErr && faults <= 4
	switch {
	case w.n < 0 || w.n > len(data):
		monitor = fmt.Sprintf("Write returned n=%d for %d bytes", w.n, len(data))
	case absorbed && w.err != nil:
		monitor = fmt.Sprintf("%d isolated fault(s) (answers late / lost / copied / re-labelled: %s), no communicator error, so no exchange can run out of its five tries - yet the Write failed although the server end holds %d of its %d bytes: %v",
			faults, strings.Join(script, " "), len(got), len(data), w.err)
	case w.err == nil && (w.n != len(data) || string(got) != string(data)):
		monitor = fmt.Sprintf("Write returned success (n=%d) but the server end holds %q of %q", w.n, hexs(got), hexs(data))
	case !strings.HasPrefix(string(data[:w.n]), string(got)):
		monitor = fmt.Sprintf("the server end holds %q, which is not a prefix of the %d bytes the Write reported", hexs(got), w.n)
	}
	var ks []string
	for _, k := range []string{"late", "dup", "fid", "ql", "al", "st", "er"} {
		if kinds[k] {
			ks = append(ks, k)
		}
	}
	class = toks[1] + ":" + strings.Join(ks, "+")
	if w.err != nil {
		class += ":fail"
	}
	if (len(data)+mtu-1)/mtu > 1 {
		class += ":multi"
	}
	return result, monitor, class, w.err == nil
}

func c07AnswersGen(r *Rand, tier string, emit func(op string)) {
	// one fragment: the answer to the first send arrives k exchanges late, the sends in between go unanswered in each way
	for k := 1; k <= 5; k++ {
		for _, f := range []string{"ql", "al"} {
			emit(fmt.Sprintf("a1b2c3 ids mtu=8 late%d%s", k, strings.Repeat(" "+f, k)))
		}
	}
	// answers to the first, second and third retransmission, each 1..3 late; two answers in flight at once
	for _, s := range []string{"ql late1 al", "ql late2 ql al", "al al late2 ql ql", "ql ql late1 ql", "late2 late1 ql", "late3 late1 ql ql",
		"late1 late1 late1 late1 ql", "late4 late3 late2 late1 ql", "late2 ql er", "late1 st", "late1 er", "late9 ql ql ql ql"} {
		emit("a1b2c3 ids mtu=8 " + s)
	}
	// copies and foreign ids, the basic fates in the new form
	for _, s := range []string{"dup", "fid", "ql fid", "al al dup", "ql al st ql fid", "ql al st ql al", "", "ok", "er", "ql ql ql ql ql ok"} {
		emit(strings.TrimSpace("a1b2c3 ids mtu=8 " + s))
	}
	// several fragments: an answer to a send of an EARLIER fragment arrives during a later one (SendAndReceive returns nil, the fragment
	// is still queued, outChunkAdded sends it again); copies crossing fragments
	for _, s := range []string{"dup", "dup dup dup", "late1 ok", "late2 ok", "late2 ok ok", "late3 ok ok ok", "ok late2 ok", "late1 ql ok late1 al",
		"al late3 ok ql", "dup late1 dup", "fid dup fid", "late2 late2 late2 late2", "ql late1 dup ql", "late3 ok ql ql ql ql ql", "dup er"} {
		emit("0102030405 ids mtu=1 " + s)
		emit("a1b2c3d4e5f607 ids mtu=3 " + s)
	}
	// the REAL UDP communicator (time-outs / 4: a loss costs 0.25 s, a second one 0.5 s)
	udp := []string{"", "dup fid", "late1", "late1 late1", "al dup", "fid ok dup"}
	if tier == "thorough" {
		udp = append(udp, "late2 ql", "ql late1", "late1 ok late1", "dup dup dup", "al fid")
	}
	for _, s := range udp {
		emit(strings.TrimSpace("0a0b0c udp mtu=2 " + s))
	}
	n := 80
	if tier == "thorough" {
		n = 500
	}
	pool := []string{"ok", "ok", "ql", "al", "late1", "late2", "late3", "late4", "dup", "fid", "late1", "late2", "st", "er"}
	for i := 0; i < n; i++ {
		var sb []string
		for j := r.Intn(8); j > 0; j-- {
			sb = append(sb, r.Pick(pool))
		}
		emit(strings.TrimSpace(fmt.Sprintf("%s ids mtu=%d %s", hexs(r.Bytes(1+r.Intn(8))), 1+r.Intn(4), strings.Join(sb, " "))))
	}
}

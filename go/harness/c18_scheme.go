//go:build verif

// Component "scheme" (property C18): drives the real configuration parsers of socketace — through the
// same go-flags parser / YAML bridge the binary uses — on one address per op, in one of the four
// positions (server / channel / upstream / listener) and one of the input forms (json / flag / yaml),
// then (run=1) carries the constructed object into Startup / Connect / Start just far enough to observe
// which listener or dialer it really uses and whether the transport is encrypted.
//
// op:      <pos> <form> <kind> <hex(address or whole flag value)> <run>
//          kind: str | missing (no address key) | nonstr (address: 5) | notmap (list element is a scalar)
// result:  ok T=<Go type> S=<scheme> [N=<hex name>] R=<run observation | ->      or      error <class>      or PANIC
package main

import (
	"crypto/ecdsa"
	"crypto/elliptic"
	"crypto/rand"
	"crypto/x509"
	"crypto/x509/pkix"
	"encoding/json"
	"encoding/pem"
	"fmt"
	"io"
	"math/big"
	"net"
	"os"
	"path/filepath"
	"strings"
	"sync"
	"time"

	"github.com/bokysan/socketace/v2/internal/client/listener"
	"github.com/bokysan/socketace/v2/internal/client/upstream"
	clientCmd "github.com/bokysan/socketace/v2/internal/commands/client"
	serverCmd "github.com/bokysan/socketace/v2/internal/commands/server"
	scFlags "github.com/bokysan/socketace/v2/internal/flags"
	"github.com/bokysan/socketace/v2/internal/server"
	"github.com/bokysan/socketace/v2/internal/util/cert"
	"github.com/jessevdk/go-flags"
	"github.com/miekg/dns"
	"github.com/xtaci/kcp-go/v5"
)

type schemeComp struct {
	once    sync.Once
	certPEM string
	keyPEM  string
	dir     string
}

func init() { register("scheme", &schemeComp{}) }

func (c *schemeComp) setup() {
	c.once.Do(func() {
		key, err := ecdsa.GenerateKey(elliptic.P256(), rand.Reader)
		if err != nil {
			panic(err)
		}
		tpl := &x509.Certificate{SerialNumber: big.NewInt(1), Subject: pkix.Name{CommonName: "verif"},
			NotBefore: time.Now().Add(-time.Hour), NotAfter: time.Now().Add(24 * time.Hour),
			KeyUsage: x509.KeyUsageDigitalSignature, ExtKeyUsage: []x509.ExtKeyUsage{x509.ExtKeyUsageServerAuth},
			IPAddresses: []net.IP{net.ParseIP("127.0.0.1")}}
		der, err := x509.CreateCertificate(rand.Reader, tpl, tpl, &key.PublicKey, key)
		if err != nil {
			panic(err)
		}
		kb, _ := x509.MarshalPKCS8PrivateKey(key)
		c.certPEM = string(pem.EncodeToMemory(&pem.Block{Type: "CERTIFICATE", Bytes: der}))
		c.keyPEM = string(pem.EncodeToMemory(&pem.Block{Type: "PRIVATE KEY", Bytes: kb}))
		d, err := os.MkdirTemp("", "sa-c18-")
		if err != nil {
			panic(err)
		}
		c.dir = d
		atExit = append(atExit, func() { _ = os.Chdir("/"); _ = os.RemoveAll(d) })
		_ = os.Chdir(d) // relative unix socket names (unix://u.sock) land here
	})
}

// ---------------------------------------------------------------- building the input forms

func yamlQuote(s string) string {
	var b strings.Builder
	b.WriteByte('"')
	for _, r := range s {
		switch {
		case r == '"':
			b.WriteString("\\\"")
		case r == '\\':
			b.WriteString("\\\\")
		case r == '\n':
			b.WriteString("\\n")
		case r == '\t':
			b.WriteString("\\t")
		case r == '\r':
			b.WriteString("\\r")
		case r < 0x20 || r == 0x7f:
			fmt.Fprintf(&b, "\\x%02x", r)
		default:
			b.WriteRune(r)
		}
	}
	b.WriteByte('"')
	return b.String()
}

func jsonStr(s string) string {
	b, _ := json.Marshal(s)
	return string(b)
}

// element of the servers / channels list in JSON
func (c *schemeComp) jsonElem(pos, kind, addr string) string {
	extra := ""
	if pos == "server" {
		extra = `,"certificate":` + jsonStr(c.certPEM) + `,"privateKey":` + jsonStr(c.keyPEM) + `,"endpoints":[{"endpoint":"/ws"}],"domain":"example.org"`
	}
	switch kind {
	case "str":
		return `{"name":"ch1","address":` + jsonStr(addr) + extra + `}`
	case "missing":
		return `{"name":"ch1"` + extra + `}`
	case "nonstr":
		return `{"name":"ch1","address":5` + extra + `}`
	default: // notmap
		return jsonStr(addr)
	}
}

func (c *schemeComp) yamlDoc(pos, kind, addr string) string {
	var b strings.Builder
	switch pos {
	case "server":
		b.WriteString("server:\n  servers:\n")
	case "channel":
		b.WriteString("server:\n  channels:\n")
	case "upstream":
		b.WriteString("client:\n  upstream:\n")
	case "listener":
		b.WriteString("client:\n  listen:\n")
	}
	if pos == "upstream" || pos == "listener" || kind == "notmap" {
		b.WriteString("    - " + yamlQuote(addr) + "\n")
		return b.String()
	}
	b.WriteString("    - name: ch1\n")
	switch kind {
	case "str":
		b.WriteString("      address: " + yamlQuote(addr) + "\n")
	case "nonstr":
		b.WriteString("      address: 5\n")
	}
	if pos == "server" {
		b.WriteString("      certificate: " + yamlQuote(c.certPEM) + "\n")
		b.WriteString("      privateKey: " + yamlQuote(c.keyPEM) + "\n")
		b.WriteString("      domain: example.org\n")
		b.WriteString("      endpoints:\n        - endpoint: /ws\n")
	}
	return b.String()
}

func newParser() (*flags.Parser, *serverCmd.Command, *clientCmd.Command) {
	p := flags.NewNamedParser("socketace", flags.PassDoubleDash)
	sc := serverCmd.NewCommand()
	cc := clientCmd.NewCommand()
	_, _ = p.AddCommand("server", "Run the server", "", sc)
	_, _ = p.AddCommand("client", "Run the client", "", cc)
	// the binary would now Execute() the command (start listening); the check stops after parsing
	p.CommandHandler = func(command flags.Commander, args []string) error { return nil }
	return p, sc, cc
}

func errClass(err error) string {
	m := err.Error()
	has := func(xs ...string) bool {
		for _, x := range xs {
			if strings.Contains(m, x) {
				return true
			}
		}
		return false
	}
	switch {
	case has("Unknown network type", "Unknown channel type", "Unknown scheme", "Can't handle format"):
		return "scheme"
	case has("Failed parsing address", "Could not parse", "Invalid URL", "Can't parse", "Cannot parse"):
		return "url"
	case has("does not match", "Unknown syntax"):
		return "syntax"
	case has("Invalid type. Expected map", "is not a string", "Missing server type", "Missing channel address"):
		return "shape"
	}
	return "other"
}

// parse runs the real parser for (pos, form, kind, addr) and returns the single constructed object.
func (c *schemeComp) parse(pos, form, kind, addr string) (interface{}, error) {
	switch form {
	case "json":
		switch pos {
		case "server":
			var s server.Servers
			if err := s.UnmarshalJSON([]byte("[" + c.jsonElem(pos, kind, addr) + "]")); err != nil {
				return nil, err
			}
			return one(len(s), func() interface{} { return s[0] })
		case "channel":
			var s server.Channels
			if err := s.UnmarshalJSON([]byte("[" + c.jsonElem(pos, kind, addr) + "]")); err != nil {
				return nil, err
			}
			return one(len(s), func() interface{} { return s[0] })
		case "upstream": // no JSON form exists for upstreams: the flag value is the URL itself
			var u upstream.Upstreams
			if err := u.UnmarshalFlag(addr); err != nil {
				return nil, err
			}
			return one(len(u.Data), func() interface{} { return u.Data[0] })
		case "listener":
			var l listener.Listeners
			if err := l.UnmarshalFlag(addr); err != nil {
				return nil, err
			}
			return one(len(l), func() interface{} { return l[0] })
		}
	case "flag":
		p, sc, cc := newParser()
		var args []string
		switch pos {
		case "server":
			args = []string{"server", "--server", "[" + c.jsonElem(pos, kind, addr) + "]"}
		case "channel":
			args = []string{"server", "--channel=" + addr}
		case "upstream":
			args = []string{"client", "--upstream=" + addr}
		case "listener":
			args = []string{"client", "--upstream=tcp://127.0.0.1:1", "--listen=" + addr}
		}
		if _, err := p.ParseArgs(args); err != nil {
			return nil, err
		}
		switch pos {
		case "server":
			return one(len(sc.Servers), func() interface{} { return sc.Servers[0] })
		case "channel":
			return one(len(sc.Channels), func() interface{} { return sc.Channels[0] })
		case "upstream":
			return one(len(cc.Upstream.Data), func() interface{} { return cc.Upstream.Data[0] })
		case "listener":
			return one(len(cc.ListenList), func() interface{} { return cc.ListenList[0] })
		}
	case "yaml":
		p, sc, cc := newParser()
		_ = os.MkdirAll(filepath.Join(c.dir, "cfg"), 0o700) // a directory of its own: the YAML decoder scans it for references
		f := filepath.Join(c.dir, "cfg", "cfg.yaml")
		if err := os.WriteFile(f, []byte(c.yamlDoc(pos, kind, addr)), 0o600); err != nil {
			return nil, err
		}
		if err := scFlags.NewYamlParser(p).ParseFile(f); err != nil {
			return nil, err
		}
		switch pos {
		case "server":
			return one(len(sc.Servers), func() interface{} { return sc.Servers[0] })
		case "channel":
			return one(len(sc.Channels), func() interface{} { return sc.Channels[0] })
		case "upstream":
			return one(len(cc.Upstream.Data), func() interface{} { return cc.Upstream.Data[0] })
		case "listener":
			return one(len(cc.ListenList), func() interface{} { return cc.ListenList[0] })
		}
	}
	return nil, fmt.Errorf("bad op")
}

func one(n int, get func() interface{}) (interface{}, error) {
	if n != 1 {
		return nil, fmt.Errorf("parser accepted the input but produced %d objects", n)
	}
	return get(), nil
}

// ---------------------------------------------------------------- observing the transport (run stage)

// tlsProbe is a TLS handshake record carrying a (bogus, empty) ServerHello followed by a blank line:
// a TLS server answers it with an alert record (first byte 0x15); the plain socketace server reads it
// as a malformed request line and answers "… 400 Bad Request" in clear text.
var tlsProbe = []byte{0x16, 0x03, 0x01, 0x00, 0x04, 0x02, 0x00, 0x00, 0x00, '\r', '\n', '\r', '\n'}

func wireKind(first []byte) string {
	if len(first) == 0 {
		return "nothing"
	}
	if first[0] == 0x16 || first[0] == 0x15 {
		return "tls"
	}
	return "plain"
}

// recorder accepts one connection on l, reads its first bytes, closes it.
func recordFirst(l net.Listener) chan []byte {
	ch := make(chan []byte, 1)
	go func() {
		conn, err := l.Accept()
		if err != nil {
			ch <- nil
			return
		}
		_ = conn.SetReadDeadline(time.Now().Add(20 * time.Second))
		buf := make([]byte, 64)
		n, _ := conn.Read(buf)
		_ = conn.Close()
		if n == 0 {
			ch <- []byte{} // accepted, but the peer sent nothing
		} else {
			ch <- buf[:n]
		}
	}()
	return ch
}

// probeDns finds out from outside what serves DNS at host:port: "tcp" (a TCP listener accepts; "tcp-tls" when it
// answers a bogus TLS record with a TLS alert), "udp" (a UDP query is answered), "tcp+udp", or "none".
func probeDns(at string) string {
	if at == "" {
		return "none"
	}
	tcp := ""
	if c, err := net.DialTimeout("tcp", at, 500*time.Millisecond); err == nil {
		tcp = "tcp"
		_ = c.SetDeadline(time.Now().Add(300 * time.Millisecond))
		_, _ = c.Write(tlsProbe)
		buf := make([]byte, 8)
		if n, _ := c.Read(buf); n > 0 && buf[0] == 0x15 {
			tcp = "tcp-tls"
		}
		_ = c.Close()
	}
	udp := ""
	q := new(dns.Msg)
	q.SetQuestion("probe.invalid.", dns.TypeTXT)
	if wire, err := q.Pack(); err == nil {
		for try := 0; try < 2 && udp == ""; try++ {
			if c, err := net.DialTimeout("udp", at, 500*time.Millisecond); err == nil {
				_ = c.SetDeadline(time.Now().Add(700 * time.Millisecond))
				_, _ = c.Write(wire)
				buf := make([]byte, 512)
				if n, err := c.Read(buf); err == nil && n >= 12 && buf[0] == wire[0] && buf[1] == wire[1] {
					udp = "udp"
				}
				_ = c.Close()
			}
		}
	}
	switch {
	case tcp != "" && udp != "":
		return tcp + "+udp"
	case tcp != "":
		return tcp
	case udp != "":
		return "udp"
	}
	return "none"
}

type pipeEnd struct {
	io.Reader
	io.Writer
	closers []io.Closer
}

func (c *schemeComp) runServer(obj interface{}) string {
	_ = os.Remove("u.sock")
	defer os.Remove("u.sock")
	switch s := obj.(type) {
	case *server.DnsServer:
		defer func() { recover() }()
		if err := s.Startup(server.Channels{}); err != nil {
			return "error"
		}
		lt, secure := server.VerifC18DnsState(s)
		sch := s.Address.Scheme
		// what is REALLY listening: the socket miekg/dns bound (accessor) and, independently, a probe from outside
		// (TCP dial + first wire bytes, UDP query + reply) against the address of that socket
		bound, at, _ := server.VerifC18DnsListening(s)
		for i := 0; i < 60 && at == ""; i++ { // ListenAndServe runs in a goroutine: give a loaded machine time to bind
			time.Sleep(50 * time.Millisecond)
			bound, at, _ = server.VerifC18DnsListening(s)
		}
		seen := probeDns(at)
		for i := 0; i < 3 && seen == "none" && at != ""; i++ { // bound but no answer yet: probe again
			time.Sleep(200 * time.Millisecond)
			seen = probeDns(at)
		}
		if bound == "" {
			bound = "none"
		}
		_ = s.Shutdown()
		if seen != bound && !(bound == "tcp" && seen == "tcp-tls") {
			seen = "bound-" + bound + "-but-answers-" + seen
		}
		return fmt.Sprintf("dns,%s,%s,%v,%s", strings.TrimPrefix(lt, "*"), sch, secure, seen)
	case *server.SocketServer:
		if err := s.Startup(server.Channels{}); err != nil {
			return "error"
		}
		lt, network, secure := server.VerifC18SocketState(s)
		_ = s.Shutdown()
		wire := "plain"
		if lt == "*tls.listener" {
			wire = "tls"
		}
		return fmt.Sprintf("sock,%s,%s,%v", network, wire, secure)
	case *server.HttpServer:
		if err := s.Startup(server.Channels{}); err != nil {
			return "error"
		}
		// ws.secure selects ServeTLS / Serve (shape extracted into Gen.httpStartupServe); the listener itself is a
		// local variable of Startup, so the flag is what can be observed without a race
		secure := server.VerifC18HttpState(s)
		sch := s.Address.Scheme
		_ = s.Shutdown()
		return fmt.Sprintf("http,%s,%v", sch, secure)
	case *server.PacketServer:
		if err := s.Startup(server.Channels{}); err != nil {
			return "error"
		}
		lt, network := server.VerifC18PacketState(s)
		_ = s.Shutdown()
		if s.PacketConnection != nil {
			_ = s.PacketConnection.Close()
		}
		return fmt.Sprintf("packet,%s,%s", strings.TrimPrefix(lt, "*"), network)
	case *server.IoServer:
		inR, inW := io.Pipe()
		outR, outW := io.Pipe()
		s.Input, s.Output = inR, outW
		if err := s.Startup(server.Channels{}); err != nil {
			return "error"
		}
		go func() { _, _ = inW.Write(tlsProbe) }()
		buf := make([]byte, 16)
		n, _ := outR.Read(buf)
		_ = inW.Close()
		_ = outR.Close()
		return fmt.Sprintf("stdio,%s,%s", s.Address.Scheme, wireKind(buf[:n]))
	}
	return "unknown-type"
}

func (c *schemeComp) runUpstream(obj interface{}) string {
	mgr := &cert.ClientConfig{InsecureSkipVerify: true}
	switch u := obj.(type) {
	case *upstream.Http:
		l, err := net.Listen("tcp", "127.0.0.1:0")
		if err != nil {
			return "harness-listen-failed"
		}
		defer l.Close()
		ch := recordFirst(l)
		u.Address.Host = l.Addr().String()
		res := make(chan error, 1)
		go func() { res <- u.Connect(mgr, false) }()
		<-res         // Connect always returns: the recorder closes whatever it accepted
		_ = l.Close() // nothing accepted so far => the recorder's Accept fails and it reports nil
		first := <-ch
		if first == nil {
			return "error" // refused before anything was dialled
		}
		return "ws," + wireKind(first)
	case *upstream.Socket:
		network := "tcp"
		at := "127.0.0.1:0"
		if strings.HasPrefix(u.Address.Scheme, "unixpacket") {
			network, at = "unixpacket", "u.sock"
		} else if strings.HasPrefix(u.Address.Scheme, "unix") {
			network, at = "unix", "u.sock"
		}
		_ = os.Remove(at)
		l, err := net.Listen(network, at)
		if err != nil {
			return "harness-listen-failed"
		}
		defer l.Close()
		ch := recordFirst(l)
		if network == "tcp" {
			u.Address.Host = l.Addr().String()
		}
		res := make(chan error, 1)
		go func() { res <- u.Connect(mgr, false) }()
		<-res
		_ = l.Close()
		first := <-ch
		if first == nil {
			return "error"
		}
		return "sock," + network + "," + wireKind(first)
	case *upstream.InputOutput:
		inR, inW := io.Pipe()
		outR, outW := io.Pipe()
		u.Input, u.Output = inR, outW
		res := make(chan error, 1)
		go func() { res <- u.Connect(mgr, false) }()
		buf := make([]byte, 16)
		n, _ := outR.Read(buf)
		_ = outR.Close()
		_ = inW.Close()
		<-res
		return "stdio," + wireKind(buf[:n])
	case *upstream.Packet:
		seen := "none"
		err := u.ConnectPacket(mgr, false, func(remote net.Addr, block kcp.BlockCrypt) (net.Conn, error) {
			seen = remote.Network()
			return nil, fmt.Errorf("stop here")
		})
		if err != nil && seen == "none" {
			return "error"
		}
		return "packet," + seen
	case *upstream.Dns:
		if u.Address.Scheme == "dns" {
			return "-" // would go out to the network
		}
		if err := u.Connect(mgr, false); err != nil {
			return "error"
		}
		return "dns,connected"
	}
	return "unknown-type"
}

func (c *schemeComp) runListener(obj interface{}) string {
	switch l := obj.(type) {
	case *listener.SocketListener:
		if l.Address.Host == "u.sock" {
			_ = os.Remove("u.sock")
		}
		if err := l.Start(nil, nil); err != nil {
			return "error"
		}
		_, network := listener.VerifC18ListenerState(l)
		_ = l.Shutdown()
		return "listen," + network
	case *listener.InputOutputListener:
		return "-"
	}
	return "unknown-type"
}

func describe(pos string, obj interface{}) (typ, scheme, name string) {
	typ = fmt.Sprintf("%T", obj)
	switch o := obj.(type) {
	case *server.SocketServer:
		scheme = o.Address.Scheme
	case *server.DnsServer:
		scheme = o.Address.Scheme
	case *server.HttpServer:
		scheme = o.Address.Scheme
	case *server.IoServer:
		scheme = o.Address.Scheme
	case *server.PacketServer:
		scheme = o.Address.Scheme
	case *server.NetworkChannel:
		scheme, name = o.Address.Scheme, o.Name()
	case *server.SocksChannel:
		scheme, name = o.Address.Scheme, o.Name()
	case *upstream.Http:
		scheme = o.Address.Scheme
	case *upstream.Socket:
		scheme = o.Address.Scheme
	case *upstream.InputOutput:
		scheme = o.Address.Scheme
	case *upstream.Packet:
		scheme = o.Address.Scheme
	case *upstream.Dns:
		scheme = o.Address.Scheme
	case *listener.SocketListener:
		scheme, name = o.Address.Scheme, o.Name
	case *listener.InputOutputListener:
		scheme, name = o.Address.Scheme, o.Name
	}
	return
}

func (c *schemeComp) Exec(op string) (res, mon, class string, nontrivial bool) {
	c.setup()
	t := strings.Fields(op)
	if len(t) != 5 {
		return "bad-op", "", "bad-op", false
	}
	pos, form, kind, run := t[0], t[1], t[2], t[4]
	raw, err := unhex(t[3])
	if err != nil {
		return "bad-op", "", "bad-op", false
	}
	addr := string(raw)
	class = pos + "/" + form + "/" + kind
	defer func() {
		if e := recover(); e != nil {
			res = "PANIC"
			mon = fmt.Sprintf("configuration input panics the parser: %v", e)
			class += "/panic"
		}
	}()
	obj, perr := c.parse(pos, form, kind, addr)
	if perr != nil && form == "yaml" && !strings.HasPrefix(strings.TrimSpace(addr), "}") {
		// goccy/go-yaml v1.8.1 very rarely (about 1 in 10^4 loads) reports a spurious error for bytes that load
		// on the next attempt ("Could not decode element at position 2", or an error that then lands in another
		// class).  Third-party and nondeterministic: a genuine configuration error repeats identically, so the
		// outcome is taken only when two consecutive attempts agree.
		outcome := func(e error) string {
			if e == nil {
				return "ok"
			}
			return errClass(e)
		}
		for i := 0; i < 4; i++ {
			obj2, perr2 := c.parse(pos, form, kind, addr)
			same := outcome(perr2) == outcome(perr)
			obj, perr = obj2, perr2
			if same {
				break
			}
		}
	}
	if perr != nil {
		ec := errClass(perr)
		if os.Getenv("VERIF_DEBUG") != "" {
			fmt.Fprintf(os.Stderr, "DEBUG %s: %.300s\n", op, perr.Error())
		}
		class += "/err-" + ec
		res = "error " + ec
		mon = c.monitor(pos, form, kind, addr, "", "", "", "error")
		return
	}
	typ, scheme, name := describe(pos, obj)
	r := "-"
	if run == "1" {
		switch pos {
		case "server":
			r = c.runServer(obj)
		case "upstream":
			r = c.runUpstream(obj)
		case "listener":
			r = c.runListener(obj)
		}
	}
	res = "ok T=" + typ + " S=" + scheme
	if pos == "channel" || pos == "listener" {
		res += " N=" + hexs([]byte(name))
	}
	res += " R=" + r
	class += "/" + strings.TrimPrefix(typ, "*") + "/run=" + strings.SplitN(r, ",", 2)[0]
	mon = c.monitor(pos, form, kind, addr, typ, scheme, name, r)
	nontrivial = true
	return
}

// ---------------------------------------------------------------- direct monitor of C18 on the implementation

type docEntry struct {
	typ string // concrete Go type the documentation implies
	tls bool   // documented as an encrypted transport
	net string // documented network of the listener where the scheme's base word does not already name it ("" = lexical rule)
}

// README.md ("Servers", "Channels", "Client"): scheme -> transport, per position.  Hand-written, like
// SA.Spec.documented in Lean (lean/SA/Props/C18.lean); kept in the same order.
var documented = map[string]map[string]docEntry{
	"server": {
		"http": {"*server.HttpServer", false, ""}, "https": {"*server.HttpServer", true, ""},
		"tcp": {"*server.SocketServer", false, ""}, "tcp+tls": {"*server.SocketServer", true, ""},
		"stdin": {"*server.IoServer", false, ""}, "stdin+tls": {"*server.IoServer", true, ""},
		"unix": {"*server.SocketServer", false, ""}, "unix+tls": {"*server.SocketServer", true, ""},
		"unixpacket": {"*server.SocketServer", false, ""},
		"udp":        {"*server.PacketServer", false, ""}, "unixgram": {"*server.PacketServer", false, ""},
		"dns+udp": {"*server.DnsServer", false, "udp"}, "dns+tcp": {"*server.DnsServer", false, "tcp"},
	},
	"channel": {
		"tcp": {"*server.NetworkChannel", false, ""}, "unix": {"*server.NetworkChannel", false, ""},
		"unixpacket": {"*server.NetworkChannel", false, ""},
	},
	"upstream": {
		"tcp": {"*upstream.Socket", false, ""}, "tcp+tls": {"*upstream.Socket", true, ""},
		"stdin": {"*upstream.InputOutput", false, ""}, "stdin+tls": {"*upstream.InputOutput", true, ""},
		"unix": {"*upstream.Socket", false, ""}, "unix+tls": {"*upstream.Socket", true, ""},
		"http": {"*upstream.Http", false, ""}, "https": {"*upstream.Http", true, ""},
		"unixgram": {"*upstream.Packet", false, ""}, "udp": {"*upstream.Packet", false, ""},
		"dns": {"*upstream.Dns", false, ""},
	},
	"listener": {
		"tcp": {"*listener.SocketListener", false, ""}, "unix": {"*listener.SocketListener", false, ""},
		"stdin": {"*listener.InputOutputListener", false, ""},
	},
}

// family of transports a scheme's base word names (lexical reading of the scheme)
func lexFamily(pos, scheme string) string {
	base := scheme
	if i := strings.IndexByte(base, '+'); i >= 0 {
		base = base[:i]
	}
	switch base {
	case "http", "https", "ws", "wss":
		return "Http"
	case "tcp", "unix", "unixpacket":
		if pos == "channel" {
			return "NetworkChannel"
		}
		return "Socket"
	case "stdin", "stdio":
		return "Io"
	case "udp", "udp4", "udp6", "unixgram":
		return "Packet"
	case "dns":
		return "Dns"
	case "socks":
		return "SocksChannel"
	}
	return "?"
}

func typeFamily(typ string) string {
	switch typ {
	case "*server.HttpServer", "*upstream.Http":
		return "Http"
	case "*server.SocketServer", "*upstream.Socket", "*listener.SocketListener":
		return "Socket"
	case "*server.IoServer", "*upstream.InputOutput", "*listener.InputOutputListener":
		return "Io"
	case "*server.PacketServer", "*upstream.Packet":
		return "Packet"
	case "*server.DnsServer", "*upstream.Dns":
		return "Dns"
	case "*server.NetworkChannel":
		return "NetworkChannel"
	case "*server.SocksChannel":
		return "SocksChannel"
	}
	return "??"
}

func lexTls(scheme string) bool {
	base := scheme
	if i := strings.IndexByte(base, '+'); i >= 0 {
		base = base[:i]
	}
	return strings.HasSuffix(scheme, "+tls") || base == "https" || base == "wss"
}

// lexical scheme of an address as a reader of the documentation sees it: text before the first ':',
// surrounding white space ignored, case-insensitive.
func lexScheme(addr string) (string, bool) {
	a := strings.TrimSpace(addr)
	i := strings.IndexByte(a, ':')
	if i < 0 {
		return "", false
	}
	return strings.ToLower(a[:i]), true
}

// observed encryption of a run observation: "tls" / "plain" / "" (not observed)
func runTls(r string) string {
	for _, p := range strings.Split(r, ",") {
		if p == "tls" {
			return "tls"
		}
		if p == "plain" {
			return "plain"
		}
	}
	return ""
}

// observed network of what was really started: the socket's own network for socket / packet servers and listeners,
// the probed network for DNS servers ("" = this kind of run does not observe one)
func runNet(r string) string {
	f := strings.Split(r, ",")
	switch {
	case f[0] == "sock" && len(f) >= 2, f[0] == "listen" && len(f) >= 2:
		return f[1]
	case f[0] == "packet" && len(f) >= 3:
		return f[2]
	case f[0] == "packet" && len(f) == 2:
		return f[1]
	case f[0] == "dns" && len(f) >= 5:
		return f[4]
	}
	return ""
}

// network the scheme names lexically: the base word for sockets, udp for the udp family, and for DNS the part after
// the '+' (tcp when the scheme says +tcp, else udp), with "-tls" when the scheme says TLS
func lexNet(scheme string) string {
	base := scheme
	if i := strings.IndexByte(base, '+'); i >= 0 {
		base = base[:i]
	}
	switch base {
	case "tcp", "unix", "unixpacket", "unixgram":
		return base
	case "udp", "udp4", "udp6":
		return "udp"
	case "dns":
		n := "udp"
		if strings.Contains(scheme, "+tcp") {
			n = "tcp"
		}
		if lexTls(scheme) {
			n += "-tls"
		}
		return n
	}
	return ""
}

// address the op puts in the given position; strict = the op is written the documented way apart from
// the scheme, so that rejecting a documented scheme would be a fault of the scheme handling
func opAddress(pos, form, kind, val string) (addr, name string, hasAddr, strict bool) {
	switch pos {
	case "server":
		return val, "", kind == "str", true
	case "channel":
		if form == "flag" {
			i := strings.Index(val, "->")
			if i < 0 {
				return "", "", false, false
			}
			okName := true
			for _, ch := range val[:i] {
				if !(ch >= 'a' && ch <= 'z' || ch >= '0' && ch <= '9' || ch == '_' || ch == '^' || ch == '/') {
					okName = false
				}
			}
			return val[i+2:], val[:i], true, okName && !strings.ContainsAny(val, "\n\r")
		}
		return val, "ch1", kind == "str", true
	case "upstream":
		return val, "", true, true
	case "listener":
		parts := strings.Split(strings.TrimSpace(val), "~")
		if len(parts) < 2 {
			return "", "", false, false
		}
		return parts[1], parts[0], true, len(parts) == 2
	}
	return "", "", false, false
}

func (c *schemeComp) monitor(pos, form, kind, val, typ, scheme, name, r string) string {
	addr, wantName, hasAddr, strict := opAddress(pos, form, kind, val)
	ls, okScheme := "", false
	if hasAddr {
		ls, okScheme = lexScheme(addr)
	}
	if okScheme && !strings.HasPrefix(addr, ls) {
		strict = false // case variant or leading white space: may be rejected or read as the lower-case scheme
	}
	doc, isDoc := documented[pos][ls]
	if r == "error" && typ == "" {
		// rejected. A documented scheme written the documented way must not be rejected.
		if isDoc && okScheme && strict && wellFormedTail(pos, form, addr, ls) {
			return fmt.Sprintf("documented %s scheme %q rejected", pos, ls)
		}
		return ""
	}
	// accepted: must be the lexically named transport
	if !okScheme {
		return fmt.Sprintf("%s address %q without a scheme accepted as %s", pos, addr, typ)
	}
	if scheme != ls {
		return fmt.Sprintf("%s address with scheme %q constructed with scheme %q", pos, ls, scheme)
	}
	if typeFamily(typ) != lexFamily(pos, ls) {
		return fmt.Sprintf("%s scheme %q constructed %s", pos, ls, typ)
	}
	if isDoc && doc.typ != typ {
		return fmt.Sprintf("documented %s scheme %q constructed %s, documented %s", pos, ls, typ, doc.typ)
	}
	if (pos == "channel" || pos == "listener") && name != wantName {
		return fmt.Sprintf("%s named %q in the input constructed with name %q", pos, wantName, name)
	}
	if obs := runTls(r); obs != "" {
		want := lexTls(ls)
		if isDoc {
			want = doc.tls
		}
		if (obs == "tls") != want {
			return fmt.Sprintf("%s scheme %q runs %s transport (%s)", pos, ls, obs, r)
		}
	}
	if obs := runNet(r); obs != "" && obs != "none" || strings.HasPrefix(r, "dns,") {
		want := lexNet(ls)
		if isDoc && doc.net != "" {
			want = doc.net
		}
		if want != "" && obs != want {
			return fmt.Sprintf("%s scheme %q: construction and start succeeded but what really listens is %q, documented/named %q (%s)", pos, ls, obs, want, r)
		}
	}
	if r == "error" && isDoc {
		return fmt.Sprintf("documented %s scheme %q accepted by the parser but cannot start/connect", pos, ls)
	}
	if strings.HasSuffix(r, ",false") && lexTls(ls) || strings.HasSuffix(r, ",true") && !lexTls(ls) {
		return fmt.Sprintf("%s scheme %q: secure flag disagrees with the scheme (%s)", pos, ls, r)
	}
	return ""
}

// wellFormedTail says whether the op wrote the address the documented way (scheme://host… or scheme:…),
// so that a rejection of a documented scheme is a fault of the scheme handling, not of the URL.
func wellFormedTail(pos, form, addr, ls string) bool {
	a := strings.TrimSpace(addr)
	tail := a[len(ls):]
	switch tail {
	case "://127.0.0.1:0", "://u.sock", "://", ":", "://example.org":
		return true
	}
	if pos == "channel" && form == "flag" && strings.HasPrefix(tail, ":") {
		return true
	}
	return false
}

// ---------------------------------------------------------------- generator

// every scheme any of the switch tables knows, documented or not, plus close relatives
var schemePool = []string{
	"http", "https", "ws", "wss", "http+tls", "ws+tls", "stdin", "stdin+tls", "stdio", "stdio+tls",
	"tcp", "unix", "unixpacket", "tcp+tls", "unix+tls", "unixpacket+tls", "udp", "udp4", "udp6", "unixgram",
	"dns", "dns+udp", "dns+tcp", "dns+tcp+tls", "socks", "dns+unixgram", "tcp4", "tcp6", "tpc4", "tcp4+tls",
	"https+tls", "wss+tls", "udp+tls", "unixgram+tls", "dns+tls", "dns+udp+tls", "socks+tls", "kcp", "quic", "tls", "file",
}

func mutations(sch string) []string {
	up := strings.ToUpper(sch)
	mixed := sch
	if len(sch) > 0 {
		mixed = strings.ToUpper(sch[:1]) + sch[1:]
	}
	out := []string{up, mixed, sch + "+tls", sch + "+tls+tls", sch + "+", "+" + sch, sch + "s", sch + "+TLS", sch + "+ssl",
		sch + "-tls", sch + ".tls", sch + "tls", " " + sch, sch + " ", "\t" + sch, "\u00a0" + sch, sch + "_", "1" + sch, sch + "1",
		strings.Replace(sch, "+tls", "+tsl", 1), strings.Replace(sch, "+", "++", 1), strings.Replace(sch, "+", "", 1), sch + "#", sch + "?", sch + "/"}
	if len(sch) > 1 {
		out = append(out, sch[:len(sch)-1], sch[1:])
	}
	return out
}

const (
	tailIP   = "://127.0.0.1:0"
	tailUnix = "://u.sock"
)

var tails = []string{tailIP, tailUnix, "://", ":", "", "://example.org", ":/", "//127.0.0.1:0", ":///tmp/x.sock", "://127.0.0.1:0/path?x=1#frag"}

// runnable: the address can be taken into Startup / Connect (tail fits the family the scheme names)
func runnable(sch, tail string) string {
	s := strings.ToLower(strings.TrimSpace(sch))
	base := s
	if i := strings.IndexByte(base, '+'); i >= 0 {
		base = base[:i]
	}
	switch base {
	case "tcp", "http", "https", "ws", "wss", "udp", "udp4", "udp6":
		if tail == tailIP {
			return "1"
		}
	case "dns":
		if tail == tailIP {
			return "dns" // a DNS server takes a second to start: the generator rations these
		}
	case "unix", "unixpacket", "unixgram":
		if tail == tailUnix {
			return "1"
		}
	case "stdin", "stdio":
		if tail == "://" || tail == ":" {
			return "1"
		}
	}
	return "0"
}

func (c *schemeComp) Gen(r *Rand, tier string, emit func(op string)) {
	thorough := tier == "thorough"
	op := func(pos, form, kind, val, run string) {
		emit(pos + " " + form + " " + kind + " " + hexs([]byte(val)) + " " + run)
	}
	forms := map[string][]string{"server": {"json", "flag", "yaml"}, "channel": {"json", "yaml"},
		"upstream": {"flag", "json", "yaml"}, "listener": {"flag", "json", "yaml"}}
	positions := []string{"server", "channel", "upstream", "listener"}
	wrap := func(pos, addr string) string {
		if pos == "listener" {
			return "ssh~" + addr
		}
		return addr
	}
	dnsRuns := 0
	runOf := func(pos, sch, tail string) string {
		if pos == "channel" {
			return "0"
		}
		r := runnable(sch, tail)
		if r == "dns" {
			if pos != "server" {
				return "1" // the Dns upstream never goes out to the network here
			}
			dnsRuns++
			if thorough && dnsRuns <= 40 || dnsRuns <= 8 {
				return "1"
			}
			return "0"
		}
		return r
	}
	// 1. every known scheme x every tail x every position x every form (exhaustive)
	for _, pos := range positions {
		for _, form := range forms[pos] {
			for _, sch := range schemePool {
				for _, tail := range tails {
					if form == "yaml" && strings.Contains(tail, "#") {
						continue
					}
					op(pos, form, "str", wrap(pos, sch+tail), runOf(pos, sch, tail))
				}
			}
		}
	}
	// 1b. every DNS server scheme in every input form is taken into Startup and probed from outside (what really
	// listens: tcp / udp / tcp-tls); each start costs ~1.3 s (the communicator waits 1 s for ListenAndServe to fail)
	for _, form := range forms["server"] {
		for _, sch := range schemePool {
			if runnable(sch, tailIP) == "dns" {
				op("server", form, "str", sch+tailIP, "1")
			}
		}
	}
	// 2. the --channel flag syntax: names x protocols x hosts (exhaustive)
	names := []string{"ssh", "/ssh", "", "/", "a/b", "web_1", "x^y", "SSH", "s-h", "ssh ", "ssh->x", "tcp"}
	protos := []string{"tcp", "udp", "unix", "unixgram", "unixpacket", "socks", "tcp+tls", "TCP", "tcp4", "unixx", "", "http"}
	hosts := []string{"127.0.0.1:22", "//127.0.0.1:22", "/var/run/x.sock", "", "///var/x.sock", "a.b.c", "//", "x\ny"}
	for _, n := range names {
		for _, p := range protos {
			for _, h := range hosts {
				op("channel", "flag", "str", n+"->"+p+":"+h, "0")
			}
		}
	}
	for _, v := range []string{"", "ssh", "ssh->", "ssh->tcp", "->tcp:", "ssh-tcp:1", "ssh>tcp:1", "ssh=>tcp:x", "ssh->tcp:x->udp/y"} {
		op("channel", "flag", "str", v, "0")
	}
	// 3. structural neighbours: missing key, non-string address, scalar element
	for _, pos := range []string{"server", "channel"} {
		fs := []string{"json", "yaml"}
		if pos == "server" {
			fs = append(fs, "flag")
		}
		for _, form := range fs {
			for _, kind := range []string{"missing", "nonstr", "notmap"} {
				op(pos, form, kind, "tcp://127.0.0.1:0", "0")
			}
		}
	}
	// 4. listener spec splitter
	for _, form := range forms["listener"] {
		for _, v := range []string{"ssh", "", "~", "ssh~", "~tcp://127.0.0.1:0", "ssh~tcp://127.0.0.1:0~tcp://127.0.0.1:22",
			"ssh~tcp://127.0.0.1:0~tcp://127.0.0.1:22~junk~more", "ssh~tcp://127.0.0.1:0~:bad", "ssh~:bad~tcp://127.0.0.1:22",
			"ssh~tcp://127.0.0.1:0~", "ssh~~tcp://127.0.0.1:0", " ssh~tcp://127.0.0.1:0 ", "ssh~udp://127.0.0.1:0~:bad",
			"}{\"address\":\"tcp://x\"}", "}{\"address\":5}", "}~tcp://127.0.0.1:0~}", "{\"name\":\"ssh\",\"address\":\"tcp://127.0.0.1:0\"}",
			"a b~tcp://127.0.0.1:0", "ssh~unix://u.sock~unix://other.sock"} {
			run := "0"
			if strings.Contains(v, "~tcp://127.0.0.1:0") && !strings.Contains(v, "~~") {
				run = "1"
			}
			if strings.Contains(v, "~unix://u.sock") {
				run = "1"
			}
			op("listener", form, "str", v, run)
		}
	}
	// 5. neighbours of every scheme (mutations), all positions, one form each round-robin (quick) / all forms (thorough)
	k := 0
	for _, sch := range schemePool {
		for _, m := range mutations(sch) {
			for _, tail := range []string{tailIP, "://", ""} {
				for _, pos := range positions {
					fl := forms[pos]
					if !thorough {
						fl = []string{fl[k%len(fl)]}
						k++
					}
					for _, form := range fl {
						if form == "yaml" && strings.ContainsAny(m, "\t#") {
							continue // the YAML writer would need a different quoting; covered by json/flag
						}
						op(pos, form, "str", wrap(pos, m+tail), runOf(pos, m, tail))
					}
				}
			}
		}
	}
	// 6. control bytes, fragments and queries around the scheme (json / flag forms)
	for _, a := range []string{"tc\x01p://127.0.0.1:0", "tcp://127.0.0.1:0\x7f", "tcp\n://x", "tcp://x\n", "\ntcp://127.0.0.1:0", "t#cp://x", "tcp#://x",
		"tcp:#x", "tcp?x://y", "*", ":", "::", ":tcp://x", "://x", "tcp:x:y", "a/b:c", "ab/c:d", "a:b/c", "+tcp:x", "-:x", "t-c.p+1:x", "%41:x", "tcp:%zz"} {
		for _, pos := range positions {
			for _, form := range []string{"json", "flag"} {
				if pos == "channel" && form == "flag" {
					continue
				}
				op(pos, form, "str", wrap(pos, a), "0")
			}
		}
	}
	// 7. random compositions: scheme words glued with separators, random case, random tail
	n := 1500
	if thorough {
		n = 20000
	}
	words := []string{"tcp", "tls", "unix", "http", "https", "ws", "wss", "udp", "dns", "stdin", "stdio", "socks", "unixgram", "unixpacket", "s", "4", "6"}
	seps := []string{"+", "+", "+", "", "-", ".", "++", " "}
	for i := 0; i < n; i++ {
		sch := r.Pick(words)
		for j := r.Intn(3); j > 0; j-- {
			sch += r.Pick(seps) + r.Pick(words)
		}
		if r.Intn(4) == 0 {
			b := []byte(sch)
			for x := range b {
				if r.Intn(3) == 0 && b[x] >= 'a' && b[x] <= 'z' {
					b[x] -= 32
				}
			}
			sch = string(b)
		}
		tail := r.Pick(tails)
		pos := r.Pick(positions)
		form := r.Pick(forms[pos])
		if form == "yaml" && strings.Contains(tail, "#") {
			form = "json"
		}
		op(pos, form, "str", wrap(pos, sch+tail), runOf(pos, sch, tail))
	}
}
